#!/bin/sh
# MANIFEST.setup_cmd: build the whole Coq development (full .vo), extract the
# executable models and build the OCaml driver.  Offline, from files on disk.
set -e
cd "$(dirname "$0")"
V=$(pwd)
mkdir -p build evidence replays
cd coq
python3 ../tools/gen/gen_all.py || true
coq_makefile -f _CoqProject -o Makefile >/dev/null
timeout 3000 make -k -j16 2>&1 | tail -n 40 || true
cd extract
rm -rf build && mkdir -p build
( cd build && timeout 600 coqc -Q ../.. LF ../Extract.v && rm -f Extract.* )
cp driver.ml models.ml build/
cd build
ocamlfind ocamlopt -w -a $(ocamldep -sort *.mli *.ml) -o "$V/build/driver"
echo "setup done"
