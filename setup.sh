#!/bin/sh
# MANIFEST.setup_cmd: build the whole Coq development (full .vo), extract the
# executable models and build the OCaml driver.  Offline, from files on disk.
set -e
cd "$(dirname "$0")"
V=$(pwd)
mkdir -p build evidence replays
python3 tools/gen/gen_all.py || echo "setup: a translator rejected the source (checks will report it)"
cd coq
{ echo "-Q . LF"; ls *.v gen/*.v 2>/dev/null | grep -v '^ZZ' | sort; } > _CoqProject
coq_makefile -f _CoqProject -o Makefile >/dev/null
timeout 3400 make -k -j16 2>&1 | grep -v '^Closed under\|^COQC\|^COQDEP' | tail -n 40 || true
cd "$V"
tools/mkdriver.sh "$V/build"
echo "setup done"
