(* KernelStepC: preservation of KInv by the context switch. *)
From Coq Require Import List Arith Lia Bool.
From LF Require Import Conc Kernel KernelInv.

Lemma pres_switch n s t o g s' : KInv n s -> t < n -> kstep s (LSwitch t o g) = Some s' -> KInv n s'.
Proof.
  intros I Ht H. start H s'; subst o.
  all: try solve [exfalso; sat n s I; fin].
  all: destruct (fst_eqb (fs s (cur s t)) FSaving) eqn:GS; bnorm.
  all: kinv n s I.
Qed.
