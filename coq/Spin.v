(* Model of src/fiber_spinlock.c + include/fiber_spinlock.h (C18): ticket
   spinlock, one step per shared access of the -O0 code.

   The lock word is a union of two _Atomic uint32 halves and one _Atomic
   uint64 `blob`.  Registered with rt_reg(&lock, 8, 0, 4):
     loc 0 = ticket (low half, "now serving"), loc 1 = users (next ticket).
   An 8-byte access to the blob shows as loc 0 with the 64-bit value
   users * 2^32 + ticket.  Both counters are Z in [0, 2^32) and every
   increment is taken mod 2^32 explicitly (wrap-around is inside the model).

   Calls (trace found by running rt/h_spin.c on one-thread cases):
     lock     52 loc1 (fetch_add users, acquire; value = old users)
              22 loc0 (load ticket, acquire) repeated until = my ticket
     trylock  25 loc0 (seq_cst 8-byte load of blob)
              72 loc0 (CAS blob ok, value = new blob) | 82 loc0 (failed, value = observed blob)
     unlock   22 loc0 (load ticket, acquire);  33 loc0 (store ticket+1, release)
   32-bit values are printed sign-extended (sx32), the blob through rt_canon
   (Conc.canon64).  cpu_relax() and fiber_manager_get()->spin_count are not
   shared accesses.

   Programs are kept well formed by the harness: it tracks whether the thread
   holds the lock ([held]); an unlock while not holding, or a lock/trylock
   while holding, is skipped and only emits a ret event with value 2. *)
From Coq Require Import List ZArith Lia Bool Arith.
From LF Require Import Conc.
Import ListNotations.

Inductive op := OLock | OTry | OUnlock.

Inductive pcT := LFadd | LSpin | TRead | TCas | URead | UStore | Fin.

(* my = my_ticket (lock), old.counters.users (trylock), old_ticket (unlock) *)
Record tst := { pc : pcT; my : Z; held : bool; prog : list op; opi : nat }.

Record st := { ticket : Z; users : Z; thr : nat -> tst; nthr : nat }.

Local Open Scope Z_scope.

Definition W : Z := 4294967296.           (* 2^32 *)
Definition wrap (x : Z) : Z := x mod W.
(* how the runtime prints a uint32 (rt.c sx) *)
Definition sx32 (v : Z) : Z := if v <? 2147483648 then v else v - W.
(* the lock word read as one uint64 (little endian: ticket is the low half) *)
Definition blob (s : st) : Z := users s * W + ticket s.

Definition ev (t : nat) (loc kind v : Z) : list Z := [Z.of_nat t; loc; kind; v].
(* return event of call number i (1-based) of thread t *)
Definition retev (t : nat) (i : nat) (v : Z) : list Z := [Z.of_nat t; Z.of_nat i; 909; v].

(* does the harness really issue the call? *)
Definition runs (o : op) (h : bool) : bool :=
  match o with OUnlock => h | _ => negb h end.
Definition first_pc (o : op) : pcT :=
  match o with OLock => LFadd | OTry => TRead | OUnlock => URead end.

(* run on to the first access of the next call that is really issued; skipped
   calls only leave their ret event (value 2) *)
Fixpoint begin (t : nat) (m : Z) (h : bool) (p : list op) (i : nat) : tst * list Z :=
  match p with
  | [] => ({| pc := Fin; my := m; held := h; prog := []; opi := i |}, [])
  | o :: r =>
      if runs o h
      then ({| pc := first_pc o; my := m; held := h; prog := r; opi := S i |}, [])
      else let '(T, e) := begin t m h r (S i) in (T, retev t (S i) 2 ++ e)
  end.

Definition next_op (t : nat) (T : tst) : tst * list Z :=
  begin t (my T) (held T) (prog T) (opi T).

Definition set_thr (s : st) (t : nat) (x : tst) : st :=
  {| ticket := ticket s; users := users s; thr := upd (thr s) t x; nthr := nthr s |}.

Definition step (s : st) (t : nat) : st * list Z :=
  let T := thr s t in
  match pc T with
  | Fin => (s, [])
  | LFadd =>
      (* my_ticket = atomic_fetch_add_explicit(&users, 1, acquire) *)
      ({| ticket := ticket s; users := wrap (users s + 1);
          thr := upd (thr s) t {| pc := LSpin; my := users s; held := held T; prog := prog T; opi := opi T |};
          nthr := nthr s |},
       ev t 1 52 (sx32 (users s)))
  | LSpin =>
      (* while (atomic_load_explicit(&ticket, acquire) != my_ticket) ... *)
      let e := ev t 0 22 (sx32 (ticket s)) in
      if ticket s =? my T
      then let '(T', e') := next_op t {| pc := LSpin; my := my T; held := true; prog := prog T; opi := opi T |} in
           (set_thr s t T', e ++ retev t (opi T) 1 ++ e')
      else (s, e)
  | TRead =>
      (* old.blob = spinlock->state.blob; old.ticket = old.users *)
      (set_thr s t {| pc := TCas; my := users s; held := held T; prog := prog T; opi := opi T |},
       ev t 0 25 (canon64 (blob s)))
  | TCas =>
      (* expected = (u,u), new = (u, u+1) *)
      let expd := my T * W + my T in
      let newb := wrap (my T + 1) * W + my T in
      if blob s =? expd
      then let '(T', e') := next_op t {| pc := TCas; my := my T; held := true; prog := prog T; opi := opi T |} in
           ({| ticket := my T; users := wrap (my T + 1); thr := upd (thr s) t T'; nthr := nthr s |},
            ev t 0 72 (canon64 newb) ++ retev t (opi T) 1 ++ e')
      else let '(T', e') := next_op t T in
           (set_thr s t T', ev t 0 82 (canon64 (blob s)) ++ retev t (opi T) 0 ++ e')
  | URead =>
      (set_thr s t {| pc := UStore; my := ticket s; held := held T; prog := prog T; opi := opi T |},
       ev t 0 22 (sx32 (ticket s)))
  | UStore =>
      let '(T', e') := next_op t {| pc := UStore; my := my T; held := false; prog := prog T; opi := opi T |} in
      ({| ticket := wrap (my T + 1); users := users s; thr := upd (thr s) t T'; nthr := nthr s |},
       ev t 0 33 (sx32 (wrap (my T + 1))) ++ retev t (opi T) 1 ++ e')
  end.

Definition status_of (s : st) (t : nat) : status :=
  if (t <? nthr s)%nat then match pc (thr s t) with Fin => SDone | _ => SReady end else SDone.

(* a thread before its first access, and the ret events of the calls skipped
   on the way there *)
Definition start_thread (t : nat) (p : list op) : tst * list Z := begin t 0 false p 0.

(* both halves start at [start] (as uint32) *)
Definition init (start : Z) (progs : list (list op)) : st :=
  {| ticket := wrap start; users := wrap start;
     thr := fun t => fst (start_thread t (nth t progs []));
     nthr := length progs |}.

Definition init_events (progs : list (list op)) : list Z :=
  flat_map (fun t => snd (start_thread t (nth t progs []))) (seq 0 (length progs)).

Local Close Scope Z_scope.

Definition M : machine :=
  {| mstate := st; mstep := step; mstatus := status_of; mthreads := nthr |}.

(* ---------- executable entry point for the correspondence run ---------- *)
Definition dec_op (p : Z * Z) : op :=
  match fst p with
  | 1%Z => OLock
  | 2%Z => OTry
  | _ => OUnlock
  end.

Definition run_case (l : list Z) : list Z :=
  match decode_case l with
  | Some c =>
      let start := nthZ (c_params c) 0 in
      let dmax := Z.to_nat (nthZ (c_params c) 1) in
      let progs := map (map dec_op) (c_progs c) in
      run_all M (init start progs) (init_events progs) (c_sched c) dmax
  | None => [(-1)%Z]
  end.
