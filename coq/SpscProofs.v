(* Proofs about the SPSC queue model (coq/Spsc.v): an inductive invariant over
   every reachable state of the machine instrumented with ghost history, for
   any number of threads, any programs obeying the usage discipline [wf pt]
   (single consumer = thread 0, single producer = thread pt, possibly the same
   thread; every node is pushed by at most one OPush and is not the stub),
   any schedule.  Same structure as MpscProofs.v; the tail exchange is split
   into an acquire load and a release store, which is where the
   single-producer discipline is needed. *)
From Coq Require Import List ZArith Lia Bool Arith.
From LF Require Import Conc Spsc.
Import ListNotations.

(* ------------------------------------------------------------------ *)
(* Instrumented machine.  Ghosts: the queue history as an indexed sequence:
   nodeat 0 is the initial stub, nodeat i (i >= 1) the node installed by the
   i-th store to tail and valat i the data value that push was asked to push;
   hi = number of tail stores so far, lo = number of head advances so far (so
   nodeat lo is the current stub), nret = number of pops that have returned;
   plog = (pushing thread, pushed value) in tail-store order, qlog = values the consumer read
   from the nodes returned by trypop, in return order. *)
Record ist := { base : st; nodeat : nat -> nat; valat : nat -> nat;
                hi : nat; lo : nat; nret : nat;
                plog : list (nat * nat); qlog : list nat }.

Definition lstep (x : ist) (t : nat) : ist :=
  let s := base x in
  let T := thr s t in
  let s' := fst (step s t) in
  match pc T with
  | PStoreTail => {| base := s'; nodeat := upd (nodeat x) (S (hi x)) (node T);
                valat := upd (valat x) (S (hi x)) (arg T);
                hi := S (hi x); lo := lo x; nret := nret x;
                plog := plog x ++ [(t, arg T)]; qlog := qlog x |}
  | QSetHead => {| base := s'; nodeat := nodeat x; valat := valat x;
                   hi := hi x; lo := S (lo x); nret := nret x;
                   plog := plog x; qlog := qlog x |}
  | QUse => {| base := s'; nodeat := nodeat x; valat := valat x;
               hi := hi x; lo := lo x; nret := S (nret x);
               plog := plog x; qlog := qlog x ++ [dat s (hd T)] |}
  | _ => {| base := s'; nodeat := nodeat x; valat := valat x;
            hi := hi x; lo := lo x; nret := nret x;
            plog := plog x; qlog := qlog x |}
  end.

Lemma lstep_erase x t : base (lstep x t) = fst (step (base x) t).
Proof. unfold lstep. destruct (pc (thr (base x) t)); reflexivity. Qed.

Definition iinit (progs : list (list op)) : ist :=
  {| base := init progs; nodeat := fun _ => 1; valat := fun _ => 0;
     hi := 0; lo := 0; nret := 0; plog := []; qlog := [] |}.

Inductive ireach (progs : list (list op)) : ist -> Prop :=
| ir_init : ireach progs (iinit progs)
| ir_step x t : ireach progs x -> ireach progs (lstep x t).

Definition irun (x : ist) (sch : list nat) : ist := fold_left lstep sch x.
Lemma ireach_irun progs sch : forall x, ireach progs x -> ireach progs (irun x sch).
Proof. induction sch as [|t r IH]; intros x R; cbn; auto. apply IH. constructor. exact R. Qed.

(* every reachable state of the executable machine is the erasure of a
   reachable state of the instrumented one *)
Lemma reachable_ireach progs s :
  reachable M (init progs) s -> exists x, ireach progs x /\ base x = s.
Proof.
  induction 1 as [|s t R [x [Rx E]] St].
  - exists (iinit progs). split; [constructor|reflexivity].
  - exists (lstep x t). split; [constructor; exact Rx|].
    rewrite lstep_erase, E. reflexivity.
Qed.

(* ------------------------------------------------------------------ *)
(* usage discipline *)
Fixpoint pushed (p : list op) : list nat :=
  match p with
  | [] => []
  | OPush n _ :: r => n :: pushed r
  | _ :: r => pushed r
  end.

Fixpoint pushonly (p : list op) : Prop :=
  match p with
  | [] => True
  | OPush _ _ :: r => pushonly r
  | ORecyc _ :: r => pushonly r
  | OPop :: _ => False
  end.

Fixpoint poponly (p : list op) : Prop :=
  match p with
  | [] => True
  | OPop :: r => poponly r
  | _ => False
  end.

(* pt = the producer thread *)
Record wf (pt : nat) (progs : list (list op)) : Prop := {
  wf_cons : forall t, t <> 0 -> pushonly (nth t progs []);       (* only thread 0 pops *)
  wf_prod : forall t, t <> pt -> poponly (nth t progs []);       (* only thread pt pushes *)
  wf_nodup : forall t, NoDup (pushed (nth t progs []));          (* a node is pushed once *)
  wf_node : forall t n, In n (pushed (nth t progs [])) -> n <> 0 /\ n <> 1   (* not NULL, not the stub *)
}.

Lemma poponly_pushed p : poponly p -> pushed p = [].
Proof. induction p as [|[n v| |v] r IH]; cbn; auto; contradiction. Qed.

(* ------------------------------------------------------------------ *)
(* node ownership: the nodes a thread may touch privately *)
Definition pushing (p : pcT) : bool :=
  match p with PData | PNull | PLoadTail | PStoreTail => true | _ => false end.
Definition popping (p : pcT) : bool := match p with QRead | QWrite | QUse => true | _ => false end.
Definition pcl (T : tst) : list nat :=
  if pushing (pc T) then [node T] else if popping (pc T) then [hd T] else [].
Definition own_list (T : tst) : list nat := pcl T ++ pushed (prog T).

Definition producer_pc (p : pcT) : Prop :=
  match p with PTake | PData | PNull | PLoadTail | PStoreTail | PLink | Fin => True | _ => False end.
Definition consumer_pc (p : pcT) : Prop :=
  match p with QHead | QNext | QSetHead | QRead | QWrite | QUse | Fin => True | _ => False end.

Definition linkingN (s : st) (n : nat) : Prop :=
  exists t, pc (thr s t) = PLink /\ prev (thr s t) = n.

Definition local_ok (x : ist) (T : tst) : Prop :=
  let s := base x in
  match pc T with
  | PNull => dat s (node T) = arg T
  | PLoadTail => dat s (node T) = arg T /\ nxt s (node T) = 0
  | PStoreTail => dat s (node T) = arg T /\ nxt s (node T) = 0 /\ prev T = tail s
  | PLink => exists i, lo x <= i < hi x /\ prev T = nodeat x i /\ node T = nodeat x (S i) /\
                       arg T = valat x (S i)
  | QNext => hd T = nodeat x (lo x)
  | QSetHead => hd T = nodeat x (lo x) /\ hn T = nodeat x (S (lo x)) /\ lo x < hi x /\
                ~ linkingN s (nodeat x (lo x))
  | QRead => hn T = nodeat x (lo x) /\ dat s (hn T) = valat x (lo x)
  | QWrite => rdv T = valat x (lo x)
  | QUse => dat s (hd T) = valat x (lo x)
  | _ => True
  end.

Record GInv (pt : nat) (x : ist) : Prop := {
  g_ord : lo x <= hi x;
  g_head : head (base x) = nodeat x (lo x);
  g_tail : tail (base x) = nodeat x (hi x);
  g_inj : forall i j, lo x <= i <= hi x -> lo x <= j <= hi x -> nodeat x i = nodeat x j -> i = j;
  g_nz : forall i, lo x <= i <= hi x -> nodeat x i <> 0;
  g_nxt0 : nxt (base x) 0 = 0;
  g_link : forall i, lo x <= i < hi x ->
             (linkingN (base x) (nodeat x i) /\ nxt (base x) (nodeat x i) = 0) \/
             (~ linkingN (base x) (nodeat x i) /\ nxt (base x) (nodeat x i) = nodeat x (S i));
  g_last : nxt (base x) (nodeat x (hi x)) = 0;
  g_dat : forall i, lo x < i <= hi x -> dat (base x) (nodeat x i) = valat x i;
  g_loc : forall t, local_ok x (thr (base x) t);
  g_luni : forall t u, pc (thr (base x) t) = PLink -> pc (thr (base x) u) = PLink ->
                       prev (thr (base x) t) = prev (thr (base x) u) -> t = u;
  g_cons : forall t, t <> 0 -> producer_pc (pc (thr (base x) t)) /\ pushonly (prog (thr (base x) t));
  g_prod : forall t, t <> pt -> consumer_pc (pc (thr (base x) t)) /\ poponly (prog (thr (base x) t));
  g_ret : if popping (pc (thr (base x) 0)) then nret x + 1 = lo x else nret x = lo x;
  g_own_nd : forall t, NoDup (own_list (thr (base x) t));
  g_own_dj : forall t u n, In n (own_list (thr (base x) t)) -> In n (own_list (thr (base x) u)) -> t = u;
  g_own_nq : forall t n, In n (own_list (thr (base x) t)) ->
                         n <> 0 /\ forall i, lo x <= i <= hi x -> nodeat x i <> n;
  g_fr_nd : NoDup (freed (base x));
  g_fr_nq : forall n, In n (freed (base x)) -> n <> 0 /\ forall i, lo x <= i <= hi x -> nodeat x i <> n;
  g_fr_dj : forall t n, In n (own_list (thr (base x) t)) -> ~ In n (freed (base x));
  g_plog : map snd (plog x) = map (valat x) (seq 1 (hi x));
  g_qlog : qlog x = map (valat x) (seq 1 (nret x))
}.

Ltac thr_cases u t :=
  destruct (Nat.eq_dec u t) as [->|?];
  [ rewrite ?upd_same in * | rewrite ?(upd_other _ t _ u) in * by assumption ].

(* ---------- small facts ---------- *)
Lemma own_next_op' T : own_list (next_op T) = pushed (prog T).
Proof.
  unfold own_list, next_op, pcl.
  destruct (prog T) as [|[n v| |v] r]; cbn [pc prog pushing popping pushed node hd app]; reflexivity.
Qed.

Lemma own_next_op T : pcl T = [] -> own_list (next_op T) = own_list T.
Proof. intros E. rewrite own_next_op'. unfold own_list. rewrite E. reflexivity. Qed.

Lemma next_op_pc T :
  pc (next_op T) = PData \/ pc (next_op T) = QHead \/ pc (next_op T) = Fin \/ pc (next_op T) = PTake.
Proof.
  unfold next_op. destruct (prog T) as [|[n v| |v] r]; cbn; auto.
Qed.

Lemma next_op_ok x T : local_ok x (next_op T).
Proof.
  unfold local_ok. destruct (next_op_pc T) as [E|[E|[E|E]]]; rewrite E; exact I.
Qed.

Lemma next_op_cons T :
  pushonly (prog T) -> producer_pc (pc (next_op T)) /\ pushonly (prog (next_op T)).
Proof.
  unfold next_op. destruct (prog T) as [|[n v| |v] r]; cbn; tauto.
Qed.

Lemma next_op_prod T :
  poponly (prog T) -> consumer_pc (pc (next_op T)) /\ poponly (prog (next_op T)).
Proof.
  unfold next_op. destruct (prog T) as [|[n v| |v] r]; cbn; tauto.
Qed.

Lemma next_op_not_plink T : pc (next_op T) <> PLink.
Proof. destruct (next_op_pc T) as [E|[E|[E|E]]]; rewrite E; discriminate. Qed.

Lemma next_op_popping T : popping (pc (next_op T)) = false.
Proof. destruct (next_op_pc T) as [E|[E|[E|E]]]; rewrite E; reflexivity. Qed.

Lemma linkingN_upd s s' t T' n :
  thr s' = upd (thr s) t T' ->
  (linkingN s' n <->
   (exists u, u <> t /\ pc (thr s u) = PLink /\ prev (thr s u) = n) \/ (pc T' = PLink /\ prev T' = n)).
Proof.
  intros E. unfold linkingN. rewrite E. split.
  - intros [u [Hp Hh]]. destruct (Nat.eq_dec u t) as [->|Hne].
    + rewrite upd_same in *. right; auto.
    + rewrite upd_other in * by assumption. left; exists u; auto.
  - intros [[u [Hne [Hp Hh]]]|[Hp Hh]].
    + exists u. rewrite upd_other by assumption; auto.
    + exists t. rewrite upd_same; auto.
Qed.

(* thread t neither was nor becomes a linker: linking is unchanged *)
Lemma linkingN_local s s' t T' n :
  thr s' = upd (thr s) t T' -> pc (thr s t) <> PLink -> pc T' <> PLink ->
  (linkingN s' n <-> linkingN s n).
Proof.
  intros E A B. rewrite (linkingN_upd s s' t T' n E). split.
  - intros [[u [_ H]]|[H _]]; [exists u; exact H|contradiction].
  - intros [u [Hp Hh]]. left. exists u. repeat split; auto. intros ->. contradiction.
Qed.

Lemma seq_snoc a n : seq a (S n) = seq a n ++ [a + n].
Proof. rewrite <- Nat.add_1_r, seq_app. reflexivity. Qed.

Lemma map_seq_upd_ge (f : nat -> nat) a n j v : a + n <= j -> map (upd f j v) (seq a n) = map f (seq a n).
Proof.
  intros H. apply map_ext_in. intros i Hi. apply in_seq in Hi. apply upd_other. lia.
Qed.

Lemma init_inv pt progs : wf pt progs -> GInv pt (iinit progs).
Proof.
  intros [Wc Wp Wn Wz].
  assert (Own : forall t, own_list (thr (base (iinit progs)) t) = pushed (nth t progs [])).
  { intros t. cbn. unfold idle_thread. rewrite own_next_op'. reflexivity. }
  constructor; cbn [base iinit nodeat valat hi lo nret plog qlog init head tail nxt dat]; auto; try lia.
  - intros t. cbn. apply next_op_ok.
  - intros t u Hp. exfalso. cbn in Hp. exact (next_op_not_plink _ Hp).
  - intros t Ht. cbn. apply next_op_cons. cbn. apply Wc; exact Ht.
  - intros t Ht. cbn. apply next_op_prod. cbn. apply Wp; exact Ht.
  - cbn. unfold idle_thread. rewrite next_op_popping. reflexivity.
  - intros t. rewrite Own. apply Wn.
  - intros t u n. rewrite !Own. intros H1 H2.
    destruct (Nat.eq_dec t pt) as [->|Nt]; [|rewrite (poponly_pushed _ (Wp t Nt)) in H1; destruct H1].
    destruct (Nat.eq_dec u pt) as [->|Nu]; [reflexivity|rewrite (poponly_pushed _ (Wp u Nu)) in H2; destruct H2].
  - intros t n. rewrite Own. intros H. destruct (Wz t n H). split; auto.
  - cbn. constructor.
Qed.

(* ------------------------------------------------------------------ *)
(* Steps that change only thread t's private state and memory cells of
   nodes that t owns; the ghost sequence is unchanged. *)
Lemma frame_stepF pt x t T' nxt' dat' fr' nret' qlog' :
  GInv pt x ->
  let s := base x in
  let s' := {| head := head s; tail := tail s; nxt := nxt'; dat := dat'; freed := fr';
               thr := upd (thr s) t T'; nthr := nthr s |} in
  let x' := {| base := s'; nodeat := nodeat x; valat := valat x; hi := hi x; lo := lo x; nret := nret';
               plog := plog x; qlog := qlog' |} in
  (forall m, nxt' m <> nxt s m -> In m (own_list (thr s t))) ->
  (forall m, dat' m <> dat s m -> In m (own_list (thr s t))) ->
  pc (thr s t) <> PLink -> pc T' <> PLink ->
  NoDup (own_list T') -> NoDup fr' ->
  (forall n, In n (own_list T') \/ In n fr' -> In n (own_list (thr s t)) \/ In n (freed s)) ->
  (forall n, In n (own_list T') -> ~ In n fr') ->
  (t <> 0 -> producer_pc (pc T') /\ pushonly (prog T')) ->
  (t <> pt -> consumer_pc (pc T') /\ poponly (prog T')) ->
  (if popping (pc (upd (thr s) t T' 0)) then nret' + 1 = lo x else nret' = lo x) ->
  qlog' = map (valat x) (seq 1 nret') ->
  local_ok x' T' ->
  GInv pt x'.
Proof.
  intros G s s' x' Hn Hd A B Nd NdF Pool Dj Cons Prod Ret Ql Loc.
  destruct G as [Go Gh Gt Gi Gz G0 Gl Gla Gd Gloc Gu Gc Gpr Gr Ond Odj Onq Fnd Fnq Fdj Gp Gq].
  fold s in Gh, Gt, G0, Gl, Gla, Gd, Gloc, Gu, Gc, Gpr, Gr, Ond, Odj, Onq, Fnd, Fnq, Fdj.
  assert (Ethr : thr s' = upd (thr s) t T') by reflexivity.
  assert (NW : forall m, (forall i, lo x <= i <= hi x -> nodeat x i <> m) -> m <> 0 -> False -> True) by auto.
  assert (NxW : forall i, lo x <= i <= hi x -> nxt' (nodeat x i) = nxt s (nodeat x i)).
  { intros i Hi. destruct (Nat.eq_dec (nxt' (nodeat x i)) (nxt s (nodeat x i))) as [|Ne]; auto.
    exfalso. destruct (Onq t _ (Hn _ Ne)) as [_ Q]. exact (Q i Hi eq_refl). }
  assert (DtW : forall i, lo x <= i <= hi x -> dat' (nodeat x i) = dat s (nodeat x i)).
  { intros i Hi. destruct (Nat.eq_dec (dat' (nodeat x i)) (dat s (nodeat x i))) as [|Ne]; auto.
    exfalso. destruct (Onq t _ (Hd _ Ne)) as [_ Q]. exact (Q i Hi eq_refl). }
  assert (NxO : forall u m, u <> t -> In m (own_list (thr s u)) -> nxt' m = nxt s m).
  { intros u m Hu Hm. destruct (Nat.eq_dec (nxt' m) (nxt s m)) as [|Ne]; auto.
    exfalso. apply Hu. apply (Odj u t m Hm). exact (Hn _ Ne). }
  assert (DtO : forall u m, u <> t -> In m (own_list (thr s u)) -> dat' m = dat s m).
  { intros u m Hu Hm. destruct (Nat.eq_dec (dat' m) (dat s m)) as [|Ne]; auto.
    exfalso. apply Hu. apply (Odj u t m Hm). exact (Hd _ Ne). }
  assert (Lk : forall n, linkingN s' n <-> linkingN s n).
  { intros n. apply (linkingN_local s s' t T' n Ethr A B). }
  constructor; cbn [base nodeat valat hi lo nret plog qlog x']; cbn [head tail nxt dat freed thr s']; auto.
  - (* nxt 0 *)
    destruct (Nat.eq_dec (nxt' 0) (nxt s 0)) as [E|Ne]; [congruence|].
    exfalso. destruct (Onq t _ (Hn _ Ne)) as [Q _]. congruence.
  - (* link *)
    intros i Hi. rewrite NxW by lia. rewrite Lk. apply Gl; exact Hi.
  - rewrite NxW by lia. exact Gla.
  - intros i Hi. rewrite DtW by lia. apply Gd; exact Hi.
  - (* local *)
    intros u. destruct (Nat.eq_dec u t) as [->|Hne].
    + rewrite upd_same. exact Loc.
    + rewrite upd_other by assumption. assert (Lu := Gloc u). unfold local_ok in *.
      destruct (pc (thr s u)) eqn:Hu; cbn [base nodeat valat hi lo nret x']; cbn [nxt dat freed s']; auto.
      * rewrite (DtO u) by (auto; unfold own_list, pcl; rewrite Hu; cbn; left; reflexivity). exact Lu.
      * rewrite (DtO u), (NxO u) by (auto; unfold own_list, pcl; rewrite Hu; cbn; left; reflexivity). exact Lu.
      * rewrite (DtO u), (NxO u) by (auto; unfold own_list, pcl; rewrite Hu; cbn; left; reflexivity). exact Lu.
      * destruct Lu as (L1 & L2 & L3 & L4). repeat split; auto. rewrite Lk. exact L4.
      * destruct Lu as (L1 & L2). split; auto. rewrite L1. rewrite DtW by lia. rewrite <- L1. exact L2.
      * rewrite (DtO u) by (auto; unfold own_list, pcl; rewrite Hu; cbn; left; reflexivity). exact Lu.
  - (* link uniqueness *)
    intros u v. thr_cases u t; thr_cases v t; intros; try congruence; auto.
  - (* consumer discipline *)
    intros u Hu. thr_cases u t; auto.
  - (* producer discipline *)
    intros u Hu. thr_cases u t; auto.
  - (* own nodup *)
    intros u. thr_cases u t; auto.
  - intros u v n. thr_cases u t; thr_cases v t; intros H1 H2; auto.
    + destruct (Pool n (or_introl H1)) as [H|H]; [apply (Odj t v n); auto|exfalso; exact (Fdj v n H2 H)].
    + destruct (Pool n (or_introl H2)) as [H|H]; [apply (Odj u t n); auto|exfalso; exact (Fdj u n H1 H)].
    + apply (Odj u v n); auto.
  - intros u n. thr_cases u t; intros H1.
    + destruct (Pool n (or_introl H1)) as [H|H]; [apply (Onq t n); auto|apply Fnq; auto].
    + apply (Onq u n); auto.
  - intros n H1. destruct (Pool n (or_intror H1)) as [H|H]; [apply (Onq t n); auto|apply Fnq; auto].
  - intros u n. thr_cases u t; intros H1 H2.
    + exact (Dj n H1 H2).
    + destruct (Pool n (or_intror H2)) as [H|H]; [apply n0; apply (Odj u t n); auto|exact (Fdj u n H1 H)].
Qed.

(* the same with the free stack unchanged *)
Lemma frame_step pt x t T' nxt' dat' nret' qlog' :
  GInv pt x ->
  let s := base x in
  let s' := {| head := head s; tail := tail s; nxt := nxt'; dat := dat'; freed := freed s;
               thr := upd (thr s) t T'; nthr := nthr s |} in
  let x' := {| base := s'; nodeat := nodeat x; valat := valat x; hi := hi x; lo := lo x; nret := nret';
               plog := plog x; qlog := qlog' |} in
  (forall m, nxt' m <> nxt s m -> In m (own_list (thr s t))) ->
  (forall m, dat' m <> dat s m -> In m (own_list (thr s t))) ->
  pc (thr s t) <> PLink -> pc T' <> PLink ->
  NoDup (own_list T') -> incl (own_list T') (own_list (thr s t)) ->
  (t <> 0 -> producer_pc (pc T') /\ pushonly (prog T')) ->
  (t <> pt -> consumer_pc (pc T') /\ poponly (prog T')) ->
  (if popping (pc (upd (thr s) t T' 0)) then nret' + 1 = lo x else nret' = lo x) ->
  qlog' = map (valat x) (seq 1 nret') ->
  local_ok x' T' ->
  GInv pt x'.
Proof.
  intros G s s' x' Hn Hd A B Nd Inc Cons Prod Ret Ql Loc.
  apply (frame_stepF pt x t T' nxt' dat' (freed s) nret' qlog' G); auto.
  - apply (g_fr_nd pt x G).
  - intros n [H|H]; [left; apply Inc; exact H|right; exact H].
  - intros n H. apply (g_fr_dj pt x G t). apply Inc. exact H.
Qed.

Lemma in_own_pushing T : pushing (pc T) = true -> In (node T) (own_list T).
Proof. intros H. unfold own_list, pcl. rewrite H. left; reflexivity. Qed.

Lemma in_own_popping T : popping (pc T) = true -> In (hd T) (own_list T).
Proof.
  intros H. unfold own_list, pcl. rewrite H.
  destruct (pushing (pc T)) eqn:P; [destruct (pc T); discriminate|].
  left; reflexivity.
Qed.

(* ------------------------------------------------------------------ *)
(* the tail store: node T becomes element hi+1 of the sequence *)
Lemma pstore_inv pt x t :
  GInv pt x -> pc (thr (base x) t) = PStoreTail ->
  let s := base x in let T := thr s t in
  let s' := {| head := head s; tail := node T; nxt := nxt s; dat := dat s; freed := freed s;
               thr := upd (thr s) t (with_pc T PLink); nthr := nthr s |} in
  GInv pt {| base := s'; nodeat := upd (nodeat x) (S (hi x)) (node T);
             valat := upd (valat x) (S (hi x)) (arg T);
             hi := S (hi x); lo := lo x; nret := nret x;
             plog := plog x ++ [(t, arg T)]; qlog := qlog x |}.
Proof.
  intros G Hpc s T s'.
  destruct G as [Go Gh Gt Gi Gz G0 Gl Gla Gd Gloc Gu Gc Gpr Gr Ond Odj Onq Fnd Fnq Fdj Gp Gq].
  fold s in Gh, Gt, G0, Gl, Gla, Gd, Gloc, Gu, Gc, Gpr, Gr, Ond, Odj, Onq, Fnd, Fnq, Fdj.
  fold s T in Hpc.
  set (TL := with_pc T PLink) in *.
  assert (Ethr : thr s' = upd (thr s) t TL) by reflexivity.
  assert (LT := Gloc t). fold T in LT. unfold local_ok in LT. rewrite Hpc in LT. destruct LT as (LTd & LTn & LTp).
  assert (Tpt : t = pt).
  { destruct (Nat.eq_dec t pt) as [|Ne]; auto. destruct (Gpr t Ne) as [P _]. fold T in P. rewrite Hpc in P. destruct P. }
  assert (OwnT : In (node T) (own_list T)) by (apply in_own_pushing; rewrite Hpc; reflexivity).
  destruct (Onq t _ OwnT) as [Nz Nw].
  assert (OLT : own_list T = node T :: pushed (prog T)).
  { unfold own_list, pcl. rewrite Hpc. reflexivity. }
  assert (OLL : own_list TL = pushed (prog T)) by reflexivity.
  assert (IncL : incl (own_list TL) (own_list T)).
  { rewrite OLT, OLL. intros n Hn. right. exact Hn. }
  assert (NotL : ~ In (node T) (own_list TL)).
  { rewrite OLL. specialize (Ond t). fold T in Ond. rewrite OLT in Ond. inversion Ond; auto. }
  assert (NaO : forall i, i <= hi x -> upd (nodeat x) (S (hi x)) (node T) i = nodeat x i).
  { intros i Hi. apply upd_other. lia. }
  assert (VaO : forall i, i <= hi x -> upd (valat x) (S (hi x)) (arg T) i = valat x i).
  { intros i Hi. apply upd_other. lia. }
  assert (PrevT : prev TL = nodeat x (hi x)) by (unfold TL; cbn [prev with_pc]; rewrite LTp; exact Gt).
  assert (Lk : forall i, lo x <= i < hi x -> (linkingN s' (nodeat x i) <-> linkingN s (nodeat x i))).
  { intros i Hi. rewrite (linkingN_upd s s' t TL _ Ethr). split.
    - intros [[u [_ H]]|[_ H]]; [exists u; exact H|]. rewrite PrevT in H.
      apply Gi in H; lia.
    - intros [u [Hp Hh]]. left. exists u. repeat split; auto. intros ->. fold T in Hp. congruence. }
  assert (Nrl : nret x <= lo x) by (destruct (popping (pc (thr s 0))); lia).
  constructor; cbn [base nodeat valat hi lo nret plog qlog]; cbn [head tail nxt dat freed thr s'].
  - lia.
  - rewrite NaO by lia. exact Gh.
  - rewrite upd_same. reflexivity.
  - intros i j Hi Hj.
    destruct (Nat.eq_dec i (S (hi x))) as [->|Ni]; destruct (Nat.eq_dec j (S (hi x))) as [->|Nj]; auto;
      rewrite ?upd_same, ?NaO by lia; intros E.
    + exfalso. apply (Nw j); [lia|auto].
    + exfalso. apply (Nw i); [lia|auto].
    + apply Gi; auto; lia.
  - intros i Hi. destruct (Nat.eq_dec i (S (hi x))) as [->|Ni]; rewrite ?upd_same, ?NaO by lia; auto.
    apply Gz; lia.
  - exact G0.
  - intros i Hi. destruct (Nat.eq_dec i (hi x)) as [->|Ni].
    + left. rewrite NaO by lia. split; [|exact Gla].
      apply (linkingN_upd s s' t TL _ Ethr). right. split; [reflexivity|exact PrevT].
    + rewrite !NaO by lia. rewrite Lk by lia. apply Gl. lia.
  - rewrite upd_same. exact LTn.
  - intros i Hi. destruct (Nat.eq_dec i (S (hi x))) as [->|Ni].
    + rewrite !upd_same. exact LTd.
    + rewrite NaO, VaO by lia. apply Gd. lia.
  - intros u. destruct (Nat.eq_dec u t) as [->|Hne].
    + rewrite upd_same. unfold local_ok. cbn [pc TL with_pc base nodeat valat hi lo prev node arg].
      exists (hi x). rewrite NaO by lia. rewrite !upd_same. repeat split; auto; try lia.
    + rewrite upd_other by assumption. assert (Lu := Gloc u). unfold local_ok in *.
      assert (Cu : consumer_pc (pc (thr s u))) by (apply Gpr; congruence).
      destruct (pc (thr s u)) eqn:Hu; cbn [base nodeat valat hi lo nret]; cbn [nxt dat freed s']; auto;
        try (destruct Cu; fail).
      * rewrite NaO by lia. exact Lu.
      * destruct Lu as (L1 & L2 & L3 & L4). rewrite !NaO by lia. repeat split; auto; try lia.
        rewrite Lk by lia. exact L4.
      * rewrite NaO, VaO by lia. exact Lu.
      * rewrite VaO by lia. exact Lu.
      * rewrite VaO by lia. exact Lu.
  - intros u v. destruct (Nat.eq_dec u t) as [->|Hu]; destruct (Nat.eq_dec v t) as [->|Hv];
      rewrite ?upd_same, ?(upd_other _ t _ u), ?(upd_other _ t _ v) by assumption; auto.
    + intros _ Hv' E. exfalso. destruct (Gpr v ltac:(congruence)) as [P _]. rewrite Hv' in P. destruct P.
    + intros Hu' _ E. exfalso. destruct (Gpr u ltac:(congruence)) as [P _]. rewrite Hu' in P. destruct P.
  - intros u Hu. thr_cases u t; auto. cbn. specialize (Gc t Hu). fold T in Gc. rewrite Hpc in Gc. tauto.
  - intros u Hu. thr_cases u t; auto. congruence.
  - destruct (Nat.eq_dec 0 t) as [<-|Ne].
    + rewrite upd_same. cbn. fold T in Gr. rewrite Hpc in Gr. exact Gr.
    + rewrite upd_other by assumption. exact Gr.
  - intros u. thr_cases u t; auto. rewrite OLL. specialize (Ond t). fold T in Ond. rewrite OLT in Ond.
    inversion Ond; auto.
  - intros u v n. thr_cases u t; thr_cases v t; intros H1 H2; auto.
    + apply IncL in H1. apply (Odj t v n); auto.
    + apply IncL in H2. apply (Odj u t n); auto.
    + apply (Odj u v n); auto.
  - intros u n Hin.
    assert (Hold : In n (own_list (thr s u))).
    { revert Hin. thr_cases u t; auto. }
    destruct (Onq u n Hold) as [Q1 Q2]. split; auto.
    intros i Hi. destruct (Nat.eq_dec i (S (hi x))) as [->|Ni].
    + rewrite upd_same. intros E. subst n. destruct (Nat.eq_dec u t) as [->|Hne].
      * rewrite upd_same in Hin. exact (NotL Hin).
      * apply Hne. apply (Odj u t (node T)); auto.
    + rewrite NaO by lia. apply Q2. lia.
  - exact Fnd.
  - intros n Hn. destruct (Fnq n Hn) as [Q1 Q2]. split; auto.
    intros i Hi. destruct (Nat.eq_dec i (S (hi x))) as [->|Ni].
    + rewrite upd_same. intros E. subst n. exact (Fdj t _ OwnT Hn).
    + rewrite NaO by lia. apply Q2; lia.
  - intros u n. thr_cases u t; intros H1.
    + apply IncL in H1. apply (Fdj t n H1).
    + apply (Fdj u n H1).
  - rewrite seq_snoc, !map_app. cbn [map snd]. rewrite map_seq_upd_ge by lia. rewrite <- Gp.
    replace (1 + hi x) with (S (hi x)) by lia. rewrite upd_same. reflexivity.
  - rewrite map_seq_upd_ge by lia. exact Gq.
Qed.

(* ------------------------------------------------------------------ *)
(* the link store prev->next := node *)
Lemma plink_inv pt x t :
  GInv pt x -> pc (thr (base x) t) = PLink ->
  let s := base x in let T := thr s t in
  let s' := {| head := head s; tail := tail s; nxt := upd (nxt s) (prev T) (node T); dat := dat s; freed := freed s;
               thr := upd (thr s) t (next_op T); nthr := nthr s |} in
  GInv pt {| base := s'; nodeat := nodeat x; valat := valat x; hi := hi x; lo := lo x; nret := nret x;
             plog := plog x; qlog := qlog x |}.
Proof.
  intros G Hpc s T s'.
  destruct G as [Go Gh Gt Gi Gz G0 Gl Gla Gd Gloc Gu Gc Gpr Gr Ond Odj Onq Fnd Fnq Fdj Gp Gq].
  fold s in Gh, Gt, G0, Gl, Gla, Gd, Gloc, Gu, Gc, Gpr, Gr, Ond, Odj, Onq, Fnd, Fnq, Fdj.
  fold s T in Hpc.
  assert (Ethr : thr s' = upd (thr s) t (next_op T)) by reflexivity.
  assert (LT := Gloc t). fold T in LT. unfold local_ok in LT. rewrite Hpc in LT.
  destruct LT as [k (Lk1 & Lk2 & Lk3 & Lk4)].
  assert (OL : own_list (next_op T) = own_list T).
  { apply own_next_op. unfold pcl. rewrite Hpc. reflexivity. }
  assert (Lk : forall n, linkingN s' n <-> (linkingN s n /\ n <> prev T)).
  { intros n. rewrite (linkingN_upd s s' t _ n Ethr). split.
    - intros [[u (Hne & Hp & Hh)]|[Hp _]]; [|exfalso; exact (next_op_not_plink _ Hp)].
      split; [exists u; auto|]. intros ->. apply Hne. apply Gu; auto.
    - intros [[u (Hp & Hh)] Hne]. left. exists u. repeat split; auto. intros ->. fold T in Hh. congruence. }
  assert (NxW : forall i, lo x <= i <= hi x -> i <> k -> upd (nxt s) (prev T) (node T) (nodeat x i) = nxt s (nodeat x i)).
  { intros i Hi Hk. apply upd_other. rewrite Lk2. intros E. apply Gi in E; lia. }
  assert (NxO : forall u m, In m (own_list (thr s u)) -> upd (nxt s) (prev T) (node T) m = nxt s m).
  { intros u m Hm. apply upd_other. rewrite Lk2. intros E. destruct (Onq u m Hm) as [_ Q]. apply (Q k); [lia|auto]. }
  constructor; cbn [base nodeat valat hi lo nret plog qlog]; cbn [head tail nxt dat freed thr s']; auto.
  - rewrite upd_other; auto. rewrite Lk2. apply not_eq_sym. apply Gz. lia.
  - intros i Hi. destruct (Nat.eq_dec i k) as [->|Ni].
    + right. split.
      * rewrite Lk. rewrite Lk2. tauto.
      * rewrite <- Lk2, upd_same. exact Lk3.
    + rewrite NxW by lia. rewrite Lk.
      assert (nodeat x i <> prev T). { rewrite Lk2. intros E. apply Gi in E; lia. }
      destruct (Gl i Hi) as [[A B]|[A B]]; [left|right]; split; auto. tauto.
  - rewrite NxW by lia. exact Gla.
  - intros u. destruct (Nat.eq_dec u t) as [->|Hne].
    + rewrite upd_same. apply next_op_ok.
    + rewrite upd_other by assumption. assert (Lu := Gloc u). unfold local_ok in *.
      destruct (pc (thr s u)) eqn:Hu; cbn [base nodeat valat hi lo nret]; cbn [nxt dat freed s']; auto.
      * rewrite (NxO u) by (apply in_own_pushing; rewrite Hu; reflexivity). exact Lu.
      * rewrite (NxO u) by (apply in_own_pushing; rewrite Hu; reflexivity). exact Lu.
      * destruct Lu as (L1 & L2 & L3 & L4). repeat split; auto. rewrite Lk. tauto.
  - intros u v. destruct (Nat.eq_dec u t) as [->|Hu]; destruct (Nat.eq_dec v t) as [->|Hv];
      rewrite ?upd_same, ?(upd_other _ t _ u), ?(upd_other _ t _ v) by assumption; auto.
    + intros Hp. exfalso; exact (next_op_not_plink _ Hp).
    + intros _ Hp. exfalso; exact (next_op_not_plink _ Hp).
  - intros u Hu. thr_cases u t; auto. apply next_op_cons. apply (Gc t Hu).
  - intros u Hu. thr_cases u t; auto. destruct (Gpr t Hu) as [P _]. fold T in P. rewrite Hpc in P. destruct P.
  - destruct (Nat.eq_dec 0 t) as [<-|Ne].
    + rewrite upd_same. rewrite next_op_popping. fold T in Gr. rewrite Hpc in Gr. exact Gr.
    + rewrite upd_other by assumption. exact Gr.
  - intros u. thr_cases u t; auto. rewrite OL. apply Ond.
  - intros u v n. thr_cases u t; thr_cases v t; rewrite ?OL; apply Odj.
  - intros u n. thr_cases u t; rewrite ?OL; apply Onq.
  - intros u n. thr_cases u t; rewrite ?OL; apply Fdj.
Qed.

(* ------------------------------------------------------------------ *)
(* the consumer advances head: the old stub leaves the sequence and becomes
   the consumer's private node *)
Lemma qsethead_inv pt x t :
  GInv pt x -> pc (thr (base x) t) = QSetHead ->
  let s := base x in let T := thr s t in
  let s' := {| head := hn T; tail := tail s; nxt := nxt s; dat := dat s; freed := freed s;
               thr := upd (thr s) t (with_pc T QRead); nthr := nthr s |} in
  GInv pt {| base := s'; nodeat := nodeat x; valat := valat x; hi := hi x; lo := S (lo x); nret := nret x;
             plog := plog x; qlog := qlog x |}.
Proof.
  intros G Hpc s T s'.
  destruct G as [Go Gh Gt Gi Gz G0 Gl Gla Gd Gloc Gu Gc Gpr Gr Ond Odj Onq Fnd Fnq Fdj Gp Gq].
  fold s in Gh, Gt, G0, Gl, Gla, Gd, Gloc, Gu, Gc, Gpr, Gr, Ond, Odj, Onq, Fnd, Fnq, Fdj.
  fold s T in Hpc.
  assert (T0 : t = 0).
  { destruct (Nat.eq_dec t 0) as [|Ne]; auto. destruct (Gc t Ne) as [P _]. fold T in P. rewrite Hpc in P. destruct P. }
  assert (Ethr : thr s' = upd (thr s) t (with_pc T QRead)) by reflexivity.
  assert (LT := Gloc t). fold T in LT. unfold local_ok in LT. rewrite Hpc in LT.
  destruct LT as (L1 & L2 & L3 & L4).
  assert (Lk : forall n, linkingN s' n <-> linkingN s n).
  { intros n. apply (linkingN_local s s' t _ n Ethr); fold T; [rewrite Hpc|cbn]; discriminate. }
  assert (OLT : own_list T = pushed (prog T)).
  { unfold own_list, pcl. rewrite Hpc. reflexivity. }
  assert (OLR : own_list (with_pc T QRead) = hd T :: pushed (prog T)) by reflexivity.
  assert (HdW : forall n, In n (own_list T) -> n <> hd T).
  { intros n Hn E. destruct (Onq t n Hn) as [_ Q]. apply (Q (lo x)); [lia|congruence]. }
  assert (InR : forall n, In n (own_list (with_pc T QRead)) -> n = hd T \/ In n (own_list T)).
  { intros n. rewrite OLR, OLT. intros [H|H]; auto. }
  constructor; cbn [base nodeat valat hi lo nret plog qlog]; cbn [head tail nxt dat freed thr s']; auto.
  - intros i j Hi Hj. apply Gi; lia.
  - intros i Hi. apply Gz; lia.
  - intros i Hi. rewrite Lk. apply Gl. lia.
  - intros i Hi. apply Gd. lia.
  - intros u. destruct (Nat.eq_dec u t) as [->|Hne].
    + rewrite upd_same. unfold local_ok. cbn [pc with_pc base nodeat valat lo hn dat]. split; auto.
      rewrite L2. apply Gd. lia.
    + rewrite upd_other by assumption. assert (Lu := Gloc u). unfold local_ok in *.
      destruct (Gc u ltac:(lia)) as [Pu _].
      destruct (pc (thr s u)) eqn:Hu; cbn [base nodeat valat hi lo nret]; cbn [nxt dat freed s']; auto; try (destruct Pu; fail).
      destruct Lu as [i (A & B & C & D)]. exists i. repeat split; auto; try lia.
      destruct (Nat.eq_dec i (lo x)) as [->|]; [|lia]. exfalso. apply L4. exists u. auto.
  - intros u v. thr_cases u t; thr_cases v t; intros; try discriminate; auto.
  - intros u Hu. thr_cases u t; auto. lia.
  - intros u Hu. thr_cases u t; auto. destruct (Gpr t Hu) as [P Q]. fold T in P, Q. split; [exact I|exact Q].
  - subst t. rewrite upd_same. cbn. fold T in Gr. rewrite Hpc in Gr. cbn in Gr. lia.
  - intros u. thr_cases u t; auto. rewrite OLR. specialize (Ond t). fold T in Ond. rewrite OLT in Ond.
    constructor; auto.
    intros H. apply (HdW (hd T)); auto. rewrite OLT. exact H.
  - intros u v n. thr_cases u t; thr_cases v t; intros H1 H2; auto.
    + destruct (InR n H1) as [->|H1']; [|apply (Odj t v n); auto].
      exfalso. destruct (Onq v _ H2) as [_ Q]. apply (Q (lo x)); [lia|congruence].
    + destruct (InR n H2) as [->|H2']; [|apply (Odj u t n); auto].
      exfalso. destruct (Onq u _ H1) as [_ Q]. apply (Q (lo x)); [lia|congruence].
    + apply (Odj u v n); auto.
  - intros u n. thr_cases u t; intros H1.
    + destruct (InR n H1) as [->|H1'].
      * split; [rewrite L1; apply Gz; lia|]. intros i Hi E. rewrite L1 in E. apply Gi in E; lia.
      * destruct (Onq t n H1') as [Q1 Q2]. split; auto. intros i Hi. apply Q2. lia.
    + destruct (Onq u n H1) as [Q1 Q2]. split; auto. intros i Hi. apply Q2. lia.
  - intros n Hn. destruct (Fnq n Hn) as [Q1 Q2]. split; auto. intros i Hi. apply Q2. lia.
  - intros u n. thr_cases u t; intros H1.
    + destruct (InR n H1) as [->|H1']; [|apply (Fdj t n H1')].
      intros Hf. destruct (Fnq _ Hf) as [_ Q]. apply (Q (lo x)); [lia|congruence].
    + apply (Fdj u n H1).
Qed.

Lemma ret_keep (thrs : nat -> tst) t T' (nr l : nat) :
  popping (pc T') = popping (pc (thrs t)) ->
  (if popping (pc (thrs 0)) then nr + 1 = l else nr = l) ->
  (if popping (pc (upd thrs t T' 0)) then nr + 1 = l else nr = l).
Proof. intros E H. destruct (Nat.eq_dec 0 t) as [<-|Ne]; [rewrite upd_same, E|rewrite upd_other by assumption]; exact H. Qed.

Ltac own_same Hpc := unfold own_list, pcl; cbn [pc prog node hd with_pc]; rewrite Hpc; cbn [pushing popping].

Ltac nochange := let m := fresh "m" in let Hm := fresh "Hm" in intros m Hm; exfalso; apply Hm; reflexivity.

Theorem linv_step pt x t : GInv pt x -> GInv pt (lstep x t).
Proof.
  intros G. unfold lstep, step. remember (thr (base x) t) as T eqn:HT.
  assert (LT := g_loc pt x G t). rewrite <- HT in LT. unfold local_ok in LT.
  assert (CT : t <> 0 -> producer_pc (pc T) /\ pushonly (prog T)) by (rewrite HT; apply (g_cons pt x G)).
  assert (PT : t <> pt -> consumer_pc (pc T) /\ poponly (prog T)) by (rewrite HT; apply (g_prod pt x G)).
  assert (OT : NoDup (own_list T)) by (rewrite HT; apply (g_own_nd pt x G)).
  assert (RK : forall T', popping (pc T') = popping (pc T) ->
               if popping (pc (upd (thr (base x)) t T' 0)) then nret x + 1 = lo x else nret x = lo x).
  { intros T' E. apply ret_keep; [rewrite <- HT; exact E|apply (g_ret pt x G)]. }
  assert (OTn : pushing (pc T) = false -> popping (pc T) = false -> own_list T = pushed (prog T)).
  { intros E1 E2. unfold own_list, pcl. rewrite E1, E2. reflexivity. }
  destruct (pc T) eqn:Hpc; cbn [fst].
  - (* PTake *)
    destruct (freed (base x)) as [|n fr] eqn:Hfr; cbn [fst].
    + apply (frame_step pt x t (next_op T) (nxt (base x)) (dat (base x)) (nret x) (qlog x) G); rewrite <- ?HT.
      * nochange.
      * nochange.
      * rewrite Hpc; discriminate.
      * apply next_op_not_plink.
      * rewrite own_next_op; auto. unfold pcl. rewrite Hpc. reflexivity.
      * rewrite own_next_op; [apply incl_refl|]. unfold pcl. rewrite Hpc. reflexivity.
      * intros Ht. apply next_op_cons. apply (CT Ht).
      * intros Ht. destruct (PT Ht) as [[] _].
      * apply RK. apply next_op_popping.
      * apply (g_qlog pt x G).
      * apply next_op_ok.
    + assert (Fnd := g_fr_nd pt x G). assert (Fdj := g_fr_dj pt x G t). rewrite Hfr in Fnd, Fdj. rewrite <- HT in Fdj.
      rewrite (OTn eq_refl eq_refl) in OT, Fdj.
      match goal with |- GInv _ {| base := {| thr := upd _ _ ?X |} |} =>
        apply (frame_stepF pt x t X (nxt (base x)) (dat (base x)) fr (nret x) (qlog x) G); rewrite <- ?HT end.
      * nochange.
      * nochange.
      * rewrite Hpc; discriminate.
      * cbn; discriminate.
      * change (NoDup (n :: pushed (prog T))). constructor; auto. intros H. apply (Fdj n H). left; reflexivity.
      * inversion Fnd; auto.
      * rewrite Hfr, (OTn eq_refl eq_refl). change (forall m, In m (n :: pushed (prog T)) \/ In m fr -> In m (pushed (prog T)) \/ In m (n :: fr)).
        intros m [[->|H]|H]; [right; left; reflexivity|left; exact H|right; right; exact H].
      * change (forall m, In m (n :: pushed (prog T)) -> ~ In m fr).
        intros m [<-|H] Hf; [inversion Fnd; auto|apply (Fdj m H); right; exact Hf].
      * intros Ht. destruct (CT Ht). split; [exact I|assumption].
      * intros Ht. destruct (PT Ht) as [[] _].
      * apply RK. reflexivity.
      * apply (g_qlog pt x G).
      * exact I.
  - (* PData *)
    apply (frame_step pt x t (with_pc T PNull) (nxt (base x)) (upd (dat (base x)) (node T) (arg T)) (nret x) (qlog x) G);
      rewrite <- ?HT.
    + nochange.
    + intros m Hm. destruct (Nat.eq_dec m (node T)) as [->|Ne]; [|rewrite upd_other in Hm by assumption; congruence].
      apply in_own_pushing. rewrite Hpc. reflexivity.
    + rewrite Hpc; discriminate.
    + cbn; discriminate.
    + replace (own_list (with_pc T PNull)) with (own_list T); [exact OT|own_same Hpc; reflexivity].
    + replace (own_list (with_pc T PNull)) with (own_list T); [apply incl_refl|]. own_same Hpc. reflexivity.
    + intros Ht. destruct (CT Ht). split; [exact I|assumption].
    + intros Ht. destruct (PT Ht) as [[] _].
    + apply RK. reflexivity.
    + apply (g_qlog pt x G).
    + unfold local_ok. cbn. apply upd_same.
  - (* PNull *)
    apply (frame_step pt x t (with_pc T PLoadTail) (upd (nxt (base x)) (node T) 0) (dat (base x)) (nret x) (qlog x) G);
      rewrite <- ?HT.
    + intros m Hm. destruct (Nat.eq_dec m (node T)) as [->|Ne]; [|rewrite upd_other in Hm by assumption; congruence].
      apply in_own_pushing. rewrite Hpc. reflexivity.
    + nochange.
    + rewrite Hpc; discriminate.
    + cbn; discriminate.
    + replace (own_list (with_pc T PLoadTail)) with (own_list T); [exact OT|own_same Hpc; reflexivity].
    + replace (own_list (with_pc T PLoadTail)) with (own_list T); [apply incl_refl|]. own_same Hpc. reflexivity.
    + intros Ht. destruct (CT Ht). split; [exact I|assumption].
    + intros Ht. destruct (PT Ht) as [[] _].
    + apply RK. reflexivity.
    + apply (g_qlog pt x G).
    + unfold local_ok. cbn. split; [exact LT|apply upd_same].
  - (* PLoadTail *)
    match goal with |- GInv _ {| base := set_thr _ _ ?X |} =>
      apply (frame_step pt x t X (nxt (base x)) (dat (base x)) (nret x) (qlog x) G); rewrite <- ?HT end.
    + nochange.
    + nochange.
    + rewrite Hpc; discriminate.
    + cbn; discriminate.
    + match goal with |- NoDup ?l => replace l with (own_list T); [exact OT|own_same Hpc; reflexivity] end.
    + match goal with |- incl ?l _ => replace l with (own_list T); [apply incl_refl|] end. own_same Hpc. reflexivity.
    + intros Ht. destruct (CT Ht). split; [exact I|assumption].
    + intros Ht. destruct (PT Ht) as [[] _].
    + apply RK. reflexivity.
    + apply (g_qlog pt x G).
    + unfold local_ok. cbn. destruct LT. repeat split; auto.
  - (* PStoreTail *)
    subst T. apply pstore_inv; auto.
  - (* PLink *)
    subst T. apply plink_inv; auto.
  - (* QHead *)
    match goal with |- GInv _ {| base := set_thr _ _ ?X |} =>
      apply (frame_step pt x t X (nxt (base x)) (dat (base x)) (nret x) (qlog x) G); rewrite <- ?HT end.
    + nochange.
    + nochange.
    + rewrite Hpc; discriminate.
    + cbn; discriminate.
    + match goal with |- NoDup ?l => replace l with (own_list T); [exact OT|own_same Hpc; reflexivity] end.
    + match goal with |- incl ?l _ => replace l with (own_list T); [apply incl_refl|] end. own_same Hpc. reflexivity.
    + intros Ht. destruct (CT Ht) as [[] _].
    + intros Ht. destruct (PT Ht). split; [exact I|assumption].
    + apply RK. reflexivity.
    + apply (g_qlog pt x G).
    + unfold local_ok. cbn. apply (g_head pt x G).
  - (* QNext *)
    destruct (nxt (base x) (hd T)) eqn:Hnx; cbn [fst].
    + apply (frame_step pt x t (next_op T) (nxt (base x)) (dat (base x)) (nret x) (qlog x) G); rewrite <- ?HT.
      * nochange.
      * nochange.
      * rewrite Hpc; discriminate.
      * apply next_op_not_plink.
      * rewrite own_next_op; auto. unfold pcl. rewrite Hpc. reflexivity.
      * rewrite own_next_op; [apply incl_refl|]. unfold pcl. rewrite Hpc. reflexivity.
      * intros Ht. destruct (CT Ht) as [[] _].
      * intros Ht. apply next_op_prod. apply (PT Ht).
      * apply RK. apply next_op_popping.
      * apply (g_qlog pt x G).
      * apply next_op_ok.
    + match goal with |- GInv _ {| base := set_thr _ _ ?X |} =>
        apply (frame_step pt x t X (nxt (base x)) (dat (base x)) (nret x) (qlog x) G); rewrite <- ?HT end.
      * nochange.
      * nochange.
      * rewrite Hpc; discriminate.
      * cbn; discriminate.
      * match goal with |- NoDup ?l => replace l with (own_list T); [exact OT|own_same Hpc; reflexivity] end.
      * match goal with |- incl ?l _ => replace l with (own_list T); [apply incl_refl|] end. own_same Hpc. reflexivity.
      * intros Ht. destruct (CT Ht) as [[] _].
      * intros Ht. destruct (PT Ht). split; [exact I|assumption].
      * apply RK. reflexivity.
      * apply (g_qlog pt x G).
      * unfold local_ok. cbn [pc base nodeat lo hi hd hn].
        rewrite LT in Hnx.
        assert (lo x < hi x).
        { destruct (Nat.eq_dec (lo x) (hi x)) as [E|]; [|pose proof (g_ord pt x G); lia].
          rewrite E in Hnx. rewrite (g_last pt x G) in Hnx. discriminate. }
        destruct (g_link pt x G (lo x) ltac:(lia)) as [[A B]|[A B]]; [congruence|].
        repeat split; auto; try congruence.
        intros L. apply A. revert L.
        match goal with |- linkingN ?s' _ -> _ =>
          apply (linkingN_local (base x) s' t {| pc := QSetHead; node := node T; arg := arg T; prev := prev T; hd := hd T; hn := S n; rdv := rdv T; prog := prog T; opi := opi T |}) end;
          [reflexivity| |cbn; discriminate].
        rewrite <- HT, Hpc. discriminate.
  - (* QSetHead *)
    subst T. apply qsethead_inv; auto.
  - (* QRead *)
    match goal with |- GInv _ {| base := set_thr _ _ ?X |} =>
      apply (frame_step pt x t X (nxt (base x)) (dat (base x)) (nret x) (qlog x) G); rewrite <- ?HT end.
    + nochange.
    + nochange.
    + rewrite Hpc; discriminate.
    + cbn; discriminate.
    + match goal with |- NoDup ?l => replace l with (own_list T); [exact OT|own_same Hpc; reflexivity] end.
    + match goal with |- incl ?l _ => replace l with (own_list T); [apply incl_refl|] end. own_same Hpc. reflexivity.
    + intros Ht. destruct (CT Ht) as [[] _].
    + intros Ht. destruct (PT Ht). split; [exact I|assumption].
    + apply RK. reflexivity.
    + apply (g_qlog pt x G).
    + unfold local_ok. cbn. apply LT.
  - (* QWrite *)
    apply (frame_step pt x t (with_pc T QUse) (nxt (base x)) (upd (dat (base x)) (hd T) (rdv T)) (nret x) (qlog x) G);
      rewrite <- ?HT.
    + nochange.
    + intros m Hm. destruct (Nat.eq_dec m (hd T)) as [->|Ne]; [|rewrite upd_other in Hm by assumption; congruence].
      apply in_own_popping. rewrite Hpc. reflexivity.
    + rewrite Hpc; discriminate.
    + cbn; discriminate.
    + replace (own_list (with_pc T QUse)) with (own_list T); [exact OT|own_same Hpc; reflexivity].
    + replace (own_list (with_pc T QUse)) with (own_list T); [apply incl_refl|]. own_same Hpc. reflexivity.
    + intros Ht. destruct (CT Ht) as [[] _].
    + intros Ht. destruct (PT Ht). split; [exact I|assumption].
    + apply RK. reflexivity.
    + apply (g_qlog pt x G).
    + unfold local_ok. cbn. rewrite upd_same. exact LT.
  - (* QUse *)
    assert (T0 : t = 0).
    { destruct (Nat.eq_dec t 0) as [|Ne]; auto. destruct (CT Ne) as [[] _]. }
    assert (OTT : own_list T = hd T :: pushed (prog T)).
    { unfold own_list, pcl. rewrite Hpc. reflexivity. }
    assert (Rt := g_ret pt x G). rewrite <- T0, <- HT, Hpc in Rt. cbn in Rt.
    assert (Fnd := g_fr_nd pt x G). assert (Fdj := g_fr_dj pt x G t). rewrite <- HT, OTT in Fdj. rewrite OTT in OT.
    apply (frame_stepF pt x t (next_op T) (nxt (base x)) (dat (base x)) (hd T :: freed (base x)) (S (nret x))
                       (qlog x ++ [dat (base x) (hd T)]) G); rewrite <- ?HT.
    + nochange.
    + nochange.
    + rewrite Hpc; discriminate.
    + apply next_op_not_plink.
    + rewrite own_next_op'. inversion OT; auto.
    + constructor; auto. apply Fdj. left; reflexivity.
    + rewrite own_next_op', OTT. intros n [H|[H|H]]; [left; right; exact H|left; left; exact H|right; exact H].
    + rewrite own_next_op'. intros n H [Hf|Hf].
      * subst n. inversion OT; auto.
      * apply (Fdj n); [right; exact H|exact Hf].
    + intros Ht. contradiction.
    + intros Ht. apply next_op_prod. apply (PT Ht).
    + subst t. rewrite upd_same. rewrite next_op_popping. lia.
    + rewrite seq_snoc, map_app. cbn [map]. rewrite <- (g_qlog pt x G). f_equal. rewrite LT. f_equal. f_equal. lia.
    + apply next_op_ok.
  - (* Fin *)
    destruct x; exact G.
Qed.

Theorem ireach_inv pt progs x : wf pt progs -> ireach progs x -> GInv pt x.
Proof.
  intros W. induction 1 as [|x t R IH].
  - apply init_inv; exact W.
  - apply linv_step; exact IH.
Qed.

(* ------------------------------------------------------------------ *)
(* the statements used by Properties_C15.v *)

Lemma qlog_length pt x : GInv pt x -> length (qlog x) = nret x.
Proof. intros G. rewrite (g_qlog pt x G), map_length, seq_length. reflexivity. Qed.

Lemma plog_length pt x : GInv pt x -> length (plog x) = hi x.
Proof. intros G. rewrite <- (map_length snd), (g_plog pt x G), map_length, seq_length. reflexivity. Qed.

Lemma nret_le pt x : GInv pt x -> nret x <= lo x <= hi x.
Proof. intros G. pose proof (g_ret pt x G). pose proof (g_ord pt x G). destruct (popping _); lia. Qed.

(* data of the nodes queued behind the stub, oldest first *)
Definition content (x : ist) : list nat :=
  map (fun i => dat (base x) (nodeat x i)) (seq (S (lo x)) (hi x - lo x)).

Lemma fifo_of_inv pt x : GInv pt x ->
  exists pend, map snd (plog x) = qlog x ++ pend ++ content x /\
               length pend = if popping (pc (thr (base x) 0)) then 1 else 0.
Proof.
  intros G. pose proof (nret_le pt x G) as L. pose proof (g_ret pt x G) as R.
  exists (map (valat x) (seq (S (nret x)) (lo x - nret x))). split.
  - rewrite (g_plog pt x G), (g_qlog pt x G). unfold content.
    replace (map (fun i => dat (base x) (nodeat x i)) (seq (S (lo x)) (hi x - lo x)))
      with (map (valat x) (seq (S (lo x)) (hi x - lo x))).
    + rewrite <- !map_app. f_equal.
      replace (hi x) with (nret x + ((lo x - nret x) + (hi x - lo x))) at 1 by lia.
      rewrite !seq_app. f_equal. f_equal. f_equal. lia.
    + apply map_ext_in. intros i Hi. apply in_seq in Hi. symmetry. apply (g_dat pt x G). lia.
  - rewrite map_length, seq_length. destruct (popping _); lia.
Qed.

Lemma prefix_of_inv pt x : GInv pt x -> exists rest, map snd (plog x) = qlog x ++ rest.
Proof. intros G. destruct (fifo_of_inv pt x G) as [p [E _]]. eexists. exact E. Qed.

Lemma kth_of_inv pt x k v : GInv pt x ->
  nth_error (qlog x) k = Some v -> nth_error (map snd (plog x)) k = Some v.
Proof.
  intros G H. destruct (prefix_of_inv pt x G) as [r E]. rewrite E.
  rewrite nth_error_app1; auto. apply nth_error_Some. congruence.
Qed.

Lemma pushed_only_of_inv pt x v : GInv pt x -> In v (qlog x) -> exists t, In (t, v) (plog x).
Proof.
  intros G H. destruct (prefix_of_inv pt x G) as [r E].
  assert (I : In v (map snd (plog x))) by (rewrite E; apply in_or_app; auto).
  apply in_map_iff in I. destruct I as [[t w] [E1 I]]. cbn in E1. subst w. exists t; exact I.
Qed.

(* trypop about to return NULL *)
Lemma empty_justified_of_inv pt x t : GInv pt x ->
  pc (thr (base x) t) = QNext -> nxt (base x) (hd (thr (base x) t)) = 0 ->
  map snd (plog x) = qlog x \/
  exists u, pc (thr (base x) u) = PLink /\ prev (thr (base x) u) = head (base x) /\
            nth_error (map snd (plog x)) (length (qlog x)) = Some (arg (thr (base x) u)).
Proof.
  intros G Hpc Hn.
  assert (LT := g_loc pt x G t). unfold local_ok in LT. rewrite Hpc in LT.
  assert (T0 : t = 0).
  { destruct (Nat.eq_dec t 0) as [|Ne]; auto. destruct (g_cons pt x G t Ne) as [P _]. rewrite Hpc in P. destruct P. }
  assert (R := g_ret pt x G). rewrite <- T0, Hpc in R. cbn in R.
  pose proof (g_ord pt x G) as O.
  destruct (Nat.eq_dec (lo x) (hi x)) as [E|Ne].
  - left. rewrite (g_plog pt x G), (g_qlog pt x G). congruence.
  - right. rewrite LT in Hn. destruct (g_link pt x G (lo x) ltac:(lia)) as [[[u [Hu Pu]] _]|[_ B]].
    + exists u. split; [exact Hu|]. split; [rewrite (g_head pt x G); exact Pu|].
      assert (Lu := g_loc pt x G u). unfold local_ok in Lu. rewrite Hu in Lu.
      destruct Lu as [i (A & B & C & D)]. rewrite Pu in B. apply (g_inj pt x G) in B; [|lia|lia]. subst i.
      rewrite (qlog_length pt x G), (g_plog pt x G), R, D.
      rewrite nth_error_map. rewrite nth_error_nth' with (d := 0) by (rewrite seq_length; lia).
      rewrite seq_nth by lia. reflexivity.
    + exfalso. apply (g_nz pt x G (S (lo x))); [lia|congruence].
Qed.

(* thread T holds node n privately: it is being returned by trypop *)
Definition holds (T : tst) (n : nat) : Prop := popping (pc T) = true /\ hd T = n.

Lemma holds_own T n : holds T n -> In n (own_list T).
Proof. intros [P E]. subst n. apply in_own_popping; exact P. Qed.

Lemma reach_in_window pt x k : GInv pt x ->
  Nat.iter k (nxt (base x)) (head (base x)) = 0 \/
  exists i, lo x <= i <= hi x /\ nodeat x i = Nat.iter k (nxt (base x)) (head (base x)).
Proof.
  intros G. induction k as [|k IH]; simpl Nat.iter.
  - right. exists (lo x). pose proof (g_ord pt x G). split; [lia|]. symmetry. apply (g_head pt x G).
  - destruct IH as [E|[i [Hi E]]].
    + left. rewrite E. apply (g_nxt0 pt x G).
    + rewrite <- E. destruct (Nat.eq_dec i (hi x)) as [->|Ne].
      * left. apply (g_last pt x G).
      * destruct (g_link pt x G i ltac:(lia)) as [[_ B]|[_ B]]; [left; exact B|].
        right. exists (S i). split; [lia|]. symmetry. exact B.
Qed.

Lemma ownership_of_inv pt x t n : GInv pt x -> holds (thr (base x) t) n ->
  n <> 0 /\
  (forall k, Nat.iter k (nxt (base x)) (head (base x)) <> n) /\
  tail (base x) <> n /\
  (forall u, pc (thr (base x) u) = PLink -> prev (thr (base x) u) <> n /\ node (thr (base x) u) <> n) /\
  (forall u, u <> t -> ~ In n (own_list (thr (base x) u))).
Proof.
  intros G H. apply holds_own in H. destruct (g_own_nq pt x G t n H) as [Nz Nw].
  pose proof (g_ord pt x G) as O.
  split; [exact Nz|]. split; [|split; [|split]].
  - intros k E. destruct (reach_in_window pt x k G) as [Z|[i [Hi Ei]]]; [congruence|].
    apply (Nw i Hi). congruence.
  - rewrite (g_tail pt x G). apply Nw. lia.
  - intros u Hu. assert (Lu := g_loc pt x G u). unfold local_ok in Lu. rewrite Hu in Lu.
    destruct Lu as [i (A & B & C & D)]. rewrite B, C. split; apply Nw; lia.
  - intros u Hu Hin. apply Hu. apply (g_own_dj pt x G u t n); auto.
Qed.

(* ------------------------------------------------------------------ *)
(* program order: the values stored to tail so far, followed by the values the
   producer has still to push, form a subsequence of the values of the
   producer's program, in program order (a recycled push that finds no free
   node pushes nothing, hence subsequence and not equality) *)
Inductive subseq : list nat -> list nat -> Prop :=
| sub_nil l : subseq [] l
| sub_skip a l1 l2 : subseq l1 l2 -> subseq l1 (a :: l2)
| sub_take a l1 l2 : subseq l1 l2 -> subseq (a :: l1) (a :: l2).

Lemma subseq_refl l : subseq l l.
Proof. induction l; [apply sub_nil|apply sub_take; auto]. Qed.

Lemma subseq_eq l1 l2 : l1 = l2 -> subseq l1 l2.
Proof. intros ->. apply subseq_refl. Qed.

Lemma subseq_trans l1 l2 l3 : subseq l1 l2 -> subseq l2 l3 -> subseq l1 l3.
Proof.
  intros H12 H23. revert l1 H12. induction H23 as [l3|a l2 l3 H IH|a l2 l3 H IH]; intros l1 H12.
  - inversion H12. apply sub_nil.
  - apply sub_skip. apply IH. exact H12.
  - inversion H12 as [|b k1 k2 H'|b k1 k2 H']; subst.
    + apply sub_nil.
    + apply sub_skip. apply IH. exact H'.
    + apply sub_take. apply IH. exact H'.
Qed.

Lemma subseq_app_mid A v B : subseq (A ++ B) (A ++ v :: B).
Proof. induction A as [|a A IH]; cbn; [apply sub_skip; apply subseq_refl|apply sub_take; exact IH]. Qed.

Lemma subseq_prefix A B L : subseq (A ++ B) L -> subseq A L.
Proof.
  revert L. induction A as [|a A IH]; intros L H; [apply sub_nil|].
  cbn in H. induction L as [|b L IHL]; [inversion H|].
  inversion H as [|c k1 k2 H'|c k1 k2 H']; subst.
  - apply sub_skip. apply IHL. exact H'.
  - apply sub_take. apply IH. exact H'.
Qed.

Fixpoint pushvals (p : list op) : list nat :=
  match p with
  | [] => []
  | OPush _ v :: r => v :: pushvals r
  | ORecyc v :: r => v :: pushvals r
  | OPop :: r => pushvals r
  end.

(* a push call that has not stored to tail yet *)
Definition pendingb (p : pcT) : bool := match p with PTake => true | _ => pushing p end.

Definition pendvals (T : tst) : list nat :=
  (if pendingb (pc T) then [arg T] else []) ++ pushvals (prog T).

Definition Xv (pt : nat) (x : ist) : list nat := map snd (plog x) ++ pendvals (thr (base x) pt).

Definition PInv (pt : nat) (progs : list (list op)) (x : ist) : Prop :=
  subseq (Xv pt x) (pushvals (nth pt progs [])).

Lemma pend_next_op T : pendvals (next_op T) = pushvals (prog T).
Proof.
  unfold pendvals, next_op.
  destruct (prog T) as [|[n v| |v] r]; cbn in *; reflexivity.
Qed.

Lemma step_thr_other s u t : t <> u -> thr (fst (step s u)) t = thr s t.
Proof.
  intros Ne. unfold step. destruct (pc (thr s u)); cbn [fst thr set_thr]; try reflexivity;
    try (apply upd_other; exact Ne).
  - destruct (freed s); cbn [fst thr set_thr]; apply upd_other; exact Ne.
  - destruct (nxt s (hd (thr s u))); cbn [fst thr set_thr]; apply upd_other; exact Ne.
Qed.

Lemma lstep_plog x u :
  plog (lstep x u) = match pc (thr (base x) u) with
                     | PStoreTail => plog x ++ [(u, arg (thr (base x) u))]
                     | _ => plog x
                     end.
Proof. unfold lstep. destruct (pc (thr (base x) u)); reflexivity. Qed.

Lemma xv_step pt x u : GInv pt x -> subseq (Xv pt (lstep x u)) (Xv pt x).
Proof.
  intros G. unfold Xv. rewrite lstep_erase, lstep_plog.
  destruct (Nat.eq_dec pt u) as [<-|Ne].
  - unfold step. remember (thr (base x) pt) as T eqn:HT.
    destruct (pc T) eqn:Hpc; cbn [fst thr set_thr]; rewrite ?upd_same; try (rewrite <- HT; apply subseq_refl);
      try (apply subseq_eq; unfold pendvals; cbn; rewrite ?Hpc; reflexivity);
      try (apply subseq_eq; rewrite pend_next_op; unfold pendvals; rewrite Hpc; reflexivity).
    + destruct (freed (base x)); cbn [fst thr set_thr]; rewrite upd_same.
      * rewrite pend_next_op. unfold pendvals. rewrite Hpc. cbn [pendingb app]. apply subseq_app_mid.
      * apply subseq_eq. unfold pendvals. cbn. rewrite Hpc. reflexivity.
    + apply subseq_eq. rewrite map_app. unfold pendvals. cbn. rewrite Hpc. cbn.
      rewrite <- app_assoc. reflexivity.
    + destruct (nxt (base x) (hd T)); cbn [fst thr set_thr]; rewrite upd_same; apply subseq_eq.
      * rewrite pend_next_op. unfold pendvals. rewrite Hpc. reflexivity.
      * unfold pendvals. cbn. rewrite Hpc. reflexivity.
  - rewrite step_thr_other by assumption.
    destruct (g_prod pt x G u ltac:(congruence)) as [C _].
    destruct (pc (thr (base x) u)); try apply subseq_refl. destruct C.
Qed.

Lemma pinv_step pt progs x u : GInv pt x -> PInv pt progs x -> PInv pt progs (lstep x u).
Proof. intros G P. unfold PInv in *. eapply subseq_trans; [apply xv_step; exact G|exact P]. Qed.

Theorem ireach_pinv pt progs x : wf pt progs -> ireach progs x -> PInv pt progs x.
Proof.
  intros W. induction 1 as [|x t R IH].
  - unfold PInv, Xv. cbn. unfold idle_thread. rewrite pend_next_op. apply subseq_refl.
  - apply pinv_step; auto. apply (ireach_inv pt progs); auto.
Qed.

(* the values returned so far are (a prefix of) a subsequence of the producer's
   program, in program order *)
Lemma program_order_of_inv pt progs x : GInv pt x -> PInv pt progs x ->
  subseq (qlog x) (pushvals (nth pt progs [])).
Proof.
  intros G P. destruct (prefix_of_inv pt x G) as [r E]. unfold PInv, Xv in P. rewrite E in P.
  rewrite <- app_assoc in P. apply subseq_prefix in P. exact P.
Qed.

(* ------------------------------------------------------------------ *)
(* statements over the executable machine (ghosts erased) *)
Lemma reachable_inv pt progs s : wf pt progs -> reachable M (init progs) s -> exists x, GInv pt x /\ base x = s.
Proof.
  intros W R. destruct (reachable_ireach progs s R) as [x [Rx E]].
  exists x. split; [apply (ireach_inv pt progs); auto|exact E].
Qed.

Lemma ownership_reachable pt progs s t n : wf pt progs -> reachable M (init progs) s -> holds (thr s t) n ->
  n <> 0 /\
  (forall k, Nat.iter k (nxt s) (head s) <> n) /\
  tail s <> n /\
  (forall u, pc (thr s u) = PLink -> prev (thr s u) <> n /\ node (thr s u) <> n) /\
  (forall u, u <> t -> ~ In n (own_list (thr s u))).
Proof.
  intros W R H. destruct (reachable_inv pt progs s W R) as [x [G E]]. subst s.
  apply (ownership_of_inv pt x t n G H).
Qed.
