(* C07: client of T1K for src/fiber_rwlock.c — rdlock / wrlock / tryrdlock /
   trywrlock / rdunlock / wrunlock by any number of fibers on one lock.
     object 0: word = rwlock->state.blob (64-bit packed word), list = write_waiters
     object 1: list = read_waiters (its word is unused)
     cell 0 (loc 500): data written by writers / read by readers inside their
     critical sections (harness rt/h_rwlock.c).
   Every transition of the lock is: a PLAIN 8-byte read of the blob (kind 9),
   bit-field arithmetic on the private copy, one __sync_bool_compare_and_swap
   (seq_cst CAS, kind 75 / 85), then possibly wait_in_mpsc_queue or
   wake_from_mpsc_queue (T1K frames WSaving.. / KHead..).

   Layout of the blob (include/fiber_rwlock.h, verified by a compiled probe
   that prints blob for unit field values: 1, 2, 4194304, 8796093022208):
     bit 0        write_locked
     bits 1..21   reader_count
     bits 22..42  waiting_readers
     bits 43..63  waiting_writers
   Bit-field arithmetic wraps inside the field (no carry into the neighbour):
   probe: reader_count = 0x1fffff; reader_count += 1  ->  blob = 0.          *)
From Coq Require Import List ZArith Lia Bool Arith.
From LF Require Import Conc T1K.
Import ListNotations.
Local Open Scope Z_scope.

(* ---------- the packed word ---------- *)
Definition FW : Z := 2 ^ 21.                      (* field modulus *)
Record rwf := { f_wl : Z; f_rc : Z; f_wr : Z; f_ww : Z }.

Definition rw_pack (f : rwf) : Z := f_wl f + 2 * f_rc f + 2 ^ 22 * f_wr f + 2 ^ 43 * f_ww f.
Definition rw_unpack (b : Z) : rwf :=
  {| f_wl := b mod 2; f_rc := (b / 2) mod FW; f_wr := (b / 2 ^ 22) mod FW; f_ww := (b / 2 ^ 43) mod FW |}.

(* x += 1 / x -= 1 on a 21-bit field *)
Definition finc (x : Z) : Z := (x + 1) mod FW.
Definition fdec (x : Z) : Z := (x - 1) mod FW.

Definition set_wl f v := {| f_wl := v; f_rc := f_rc f; f_wr := f_wr f; f_ww := f_ww f |}.
Definition set_rc f v := {| f_wl := f_wl f; f_rc := v; f_wr := f_wr f; f_ww := f_ww f |}.
Definition set_wr f v := {| f_wl := f_wl f; f_rc := f_rc f; f_wr := v; f_ww := f_ww f |}.
Definition set_ww f v := {| f_wl := f_wl f; f_rc := f_rc f; f_wr := f_wr f; f_ww := v |}.

(* reader or writer side of an operation *)
Inductive side := SR | SW.

(* rdlock / tryrdlock: waiting_writers || write_locked || waiting_readers;
   wrlock / trywrlock: blob != 0 *)
Definition busy (sd : side) (v : Z) : bool :=
  match sd with
  | SR => let f := rw_unpack v in negb (f_ww f =? 0) || negb (f_wl f =? 0) || negb (f_wr f =? 0)
  | SW => negb (v =? 0)
  end.
(* the word a lock call tries to install when it must wait / may acquire *)
Definition announce (sd : side) (v : Z) : Z :=
  let f := rw_unpack v in
  match sd with SR => rw_pack (set_wr f (finc (f_wr f))) | SW => rw_pack (set_ww f (finc (f_ww f))) end.
Definition acquire (sd : side) (v : Z) : Z :=
  let f := rw_unpack v in
  match sd with SR => rw_pack (set_rc f (finc (f_rc f))) | SW => rw_pack (set_wl f 1) end.

(* what an unlock does after its CAS *)
Inductive handoff := HoNone | HoWriter | HoReaders (cnt : Z).

(* rdunlock / wrunlock: the word the CAS tries to install, and the hand-off *)
Definition release (sd : side) (v : Z) : Z * handoff :=
  let f := rw_unpack v in
  let f1 := match sd with SR => set_rc f (fdec (f_rc f)) | SW => set_wl f 0 end in
  let last := match sd with SR => f_rc f1 =? 0 | SW => true end in
  if last && negb (f_ww f1 =? 0)
  then (rw_pack (set_ww (set_wl f1 1) (fdec (f_ww f1))), HoWriter)
  else if last && negb (f_wr f1 =? 0)
  then (rw_pack (set_wr (set_rc f1 (f_wr f1)) 0), HoReaders (f_wr f1))
  else (rw_pack f1, HoNone).

(* ---------- the client ---------- *)
Inductive rop := ORd | OWr | OTryRd | OTryWr | OUnlock.
Inductive hold := HNone | HRead (seen : Z) | HWrite.

Inductive rwc :=
| RNext (p : list rop) (k : nat) (h : hold)               (* start the next call *)
| LSnap (sd : side) (p : list rop) (k : nat)              (* lock: the blob was read *)
| LCasW (sd : side) (p : list rop) (k : nat)              (* lock: the announcing CAS returned *)
| LCasA (sd : side) (p : list rop) (k : nat)              (* lock: the acquiring CAS returned *)
| LWoken (sd : side) (p : list rop) (k : nat)             (* lock: wait_in_mpsc_queue returned *)
| TSnap (sd : side) (p : list rop) (k : nat)              (* try: the blob was read *)
| TCasA (sd : side) (p : list rop) (k : nat)              (* try: the CAS returned *)
| RSeen (p : list rop) (k : nat) (r : Z)                  (* reader: first read of the cell returned *)
| WWrote (p : list rop) (k : nat) (r : Z)                 (* writer: the cell was written *)
| UCheck (sd : side) (p : list rop) (k : nat) (seen : Z)  (* unlock: the cell was read back *)
| USnap (sd : side) (p : list rop) (k : nat) (r : Z)      (* unlock: the blob was read *)
| UCas (sd : side) (p : list rop) (k : nat) (r : Z) (h : handoff) (* unlock: the CAS returned *)
| UWoke (p : list rop) (k : nat) (r : Z).                 (* unlock: wake_from_mpsc_queue returned *)

Definition retev (t k : nat) (v : Z) : list Z := [Zn t; Zn k; 909; v].

(* the waiter list of each side *)
Definition qof (sd : side) : nat := match sd with SW => O | SR => 1%nat end.

(* begin the calls of the program; calls that the harness skips only emit a
   ret event with value 2.  k = index (from 1) of the call being started *)
Fixpoint start (t : nat) (prog : list rop) (k : nat) (h : hold) : list Z * stack rwc :=
  match prog with
  | [] => ([], [])
  | OUnlock :: p =>
      match h with
      | HNone => let '(e, s) := start t p (S k) h in (retev t k 2 ++ e, s)
      | HRead seen => ([], [CRead 0; FC (UCheck SR p k seen)])
      | HWrite => ([], [CRead 0; FC (UCheck SW p k (Zn t + 1))])
      end
  | o :: p =>
      match h with
      | HNone =>
          match o with
          | ORd => ([], [WReadW 0; FC (LSnap SR p k)])
          | OWr => ([], [WReadW 0; FC (LSnap SW p k)])
          | OTryRd => ([], [WReadW 0; FC (TSnap SR p k)])
          | _ => ([], [WReadW 0; FC (TSnap SW p k)])
          end
      | _ => let '(e, s) := start t p (S k) h in (retev t k 2 ++ e, s)
      end
  end.

(* the lock was acquired by a call that returns r: touch the data cell *)
Definition got (t : nat) (sd : side) (p : list rop) (k : nat) (r : Z) : stack rwc :=
  match sd with
  | SR => [CRead 0; FC (RSeen p k r)]
  | SW => [CWrite 0 (Zn t + 1); FC (WWrote p k r)]
  end.

Definition cret (m : kmem) (t : nat) (c : rwc) (v : Z) : kmem * list Z * stack rwc :=
  match c with
  | RNext p k h => let '(e, s) := start t p k h in (m, e, s)
  (* ---- rdlock / wrlock ---- *)
  | LSnap sd p k =>
      if busy sd v then (m, [], [WCasW 0 v (announce sd v) 5; FC (LCasW sd p k)])
      else (m, [], [WCasW 0 v (acquire sd v) 5; FC (LCasA sd p k)])
  | LCasW sd p k =>
      if v =? 1 then (m, [], [WSaving (qof sd); FC (LWoken sd p k)])
      else (m, [], [WReadW 0; FC (LSnap sd p k)])
  | LCasA sd p k =>
      if v =? 1 then (m, [], got t sd p k 1)
      else (m, [], [WReadW 0; FC (LSnap sd p k)])
  | LWoken sd p k => (m, [], got t sd p k 1)
  (* ---- tryrdlock / trywrlock ---- *)
  | TSnap sd p k =>
      if busy sd v then let '(e, s) := start t p (S k) HNone in (m, retev t k 0 ++ e, s)
      else (m, [], [WCasW 0 v (acquire sd v) 5; FC (TCasA sd p k)])
  | TCasA sd p k =>
      if v =? 1 then (m, [], got t sd p k 1)
      else (m, [], [WReadW 0; FC (TSnap sd p k)])
  (* ---- inside the critical section ---- *)
  | RSeen p k r => let '(e, s) := start t p (S k) (HRead v) in (m, retev t k r ++ e, s)
  | WWrote p k r => let '(e, s) := start t p (S k) HWrite in (m, retev t k r ++ e, s)
  (* ---- rdunlock / wrunlock ---- *)
  | UCheck sd p k seen =>
      let r := if v =? seen then 1 else 7 in
      (m, [], [WReadW 0; FC (USnap sd p k r)])
  | USnap sd p k r =>
      let '(n, h) := release sd v in
      (m, [], [WCasW 0 v n 5; FC (UCas sd p k r h)])
  | UCas sd p k r h =>
      if v =? 1 then
        match h with
        | HoWriter => (m, [], [KHead 0 1 0; FC (UWoke p k r)])
        | HoReaders cnt => (m, [], [KHead 1 cnt 0; FC (UWoke p k r)])
        | HoNone => let '(e, s) := start t p (S k) HNone in (m, retev t k r ++ e, s)
        end
      else (m, [], [WReadW 0; FC (USnap sd p k r)])
  | UWoke p k r => let '(e, s) := start t p (S k) HNone in (m, retev t k r ++ e, s)
  end.

Record st := { mem : kmem; stk : nat -> stack rwc; nthr : nat }.

Definition step (s : st) (t : nat) : st * list Z :=
  let '(m1, e1, s1) := kstep rwc cret (mem s) t (stk s t) in
  ({| mem := m1; stk := upd (stk s) t s1; nthr := nthr s |}, e1).

Definition status_of (s : st) (t : nat) : status :=
  if (t <? nthr s)%nat then kstatus rwc (mem s) t (stk s t) else SDone.

Definition init (progs : list (list rop)) : st :=
  {| mem := kinit 2 (fun _ => 0);
     stk := fun t => [Start; FC (RNext (nth t progs []) 1 HNone)];
     nthr := length progs |}.

Definition M : machine :=
  {| mstate := st; mstep := step; mstatus := status_of; mthreads := nthr |}.

Definition dec_op (p : Z * Z) : rop :=
  match fst p with 1 => ORd | 2 => OWr | 3 => OTryRd | 4 => OTryWr | _ => OUnlock end.

Definition run_case (l : list Z) : list Z :=
  match decode_case l with
  | Some c => run_all M (init (map (map dec_op) (c_progs c))) [] (c_sched c)
                      (Z.to_nat (nthZ (c_params c) 0))
  | None => [(-1)%Z]
  end.
