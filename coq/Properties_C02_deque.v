(* C02 (deque half) — Chase-Lev work-stealing deque of src/work_stealing_deque.c:
   no entry lost, none handed to two takers, across growth and the
   last-element race.  Statements over every reachable state of coq/Wsd.v
   under SC interleaving: one owner (thread 0: push_bottom / pop_bottom, it may
   also steal), any number of thieves (steal), any programs, any schedule, any
   size 2^l of the first array, any start index, any number of growths.
   Hypothesis [owner_only progs] is the discipline the scheduler half of C02
   has to establish.  Guards: top/bottom do not reach 2^63 (Z in the model);
   malloc does not fail.

   Vocabulary (coq/WsdProofs.v):
     Lc s      = bottom + 1 while a pop_bottom is between its speculative
                 store of bottom and its return, else bottom
     content s = tokens at indexes [top, Lc) of the current array
     held s    = the token of a pop_bottom between its winning CAS and its
                 return (at most one)
     plog/slog/olog = ghost logs of the instrumented machine: tokens pushed
                 (in publication order), returned by steals, returned by pops;
                 each is appended by exactly the step that emits the return
                 event (lemma lstep_logs_are_returns), erasure = lstep_erase. *)
From Coq Require Import List ZArith Permutation.
From LF Require Import Conc Wsd WsdProofs WsdTSO.
Import ListNotations.

(* every returned token was pushed, and no more often than it was pushed: the
   multiset of returned tokens is included in the multiset of pushed tokens;
   the pushed tokens are a prefix of the owner's program; if the program's
   tokens are distinct no token is returned twice *)
Theorem wsd_exactly_once : forall l start progs x,
  owner_only progs -> ireach l start progs x ->
  (forall v, cnt (slog x) v + cnt (olog x) v <= cnt (plog x) v) /\
  (exists rest, Permutation (plog x) (slog x ++ olog x ++ rest)) /\
  (exists later, tokens (nth 0 progs []) = plog x ++ later) /\
  (NoDup (tokens (nth 0 progs [])) ->
     NoDup (slog x ++ olog x) /\ incl (slog x ++ olog x) (plog x)).
Proof. intros l start progs x O R. exact (exactly_once_of_linv _ x (ireach_linv l start progs x O R)). Qed.
Print Assumptions wsd_exactly_once.

(* pushed = returned + held by the pop in flight + stored in [top, Lc) of the
   current array; in particular a pushed token that was not returned and is not
   in a pop's local is at some index of [top, Lc) *)
Theorem wsd_no_loss : forall l start progs x,
  owner_only progs -> ireach l start progs x ->
  Permutation (plog x) (slog x ++ olog x ++ held (base x) ++ content (base x)) /\
  (forall v, In v (plog x) ->
     In v (slog x ++ olog x) \/ In v (held (base x)) \/
     exists j, (top (base x) <= j < Lc (base x))%Z /\ get (arrs (base x) (cur (base x))) j = v).
Proof. intros l start progs x O R. exact (no_loss_of_linv _ x (ireach_linv l start progs x O R)). Qed.
Print Assumptions wsd_no_loss.

(* when the owner is not inside the critical part of a pop (in particular when
   no call is in flight) the content is exactly the index range [top, bottom),
   it is pushed minus returned, and it is in push order *)
Theorem wsd_quiescent_content : forall l start progs x,
  owner_only progs -> ireach l start progs x ->
  lkind (pc (thr (base x) 0)) = 0 ->
  content (base x) = map (get (arrs (base x) (cur (base x)))) (zrange (top (base x)) (bot (base x))) /\
  held (base x) = [] /\
  Permutation (plog x) (slog x ++ olog x ++ content (base x)) /\
  subseq (slog x ++ content (base x)) (plog x) /\
  (top (base x) <= bot (base x))%Z.
Proof. intros l start progs x O R. exact (quiescent_of_linv _ x (ireach_linv l start progs x O R)). Qed.
Print Assumptions wsd_quiescent_content.

(* steals return tokens in push order (the stolen tokens followed by the
   current content are a subsequence of the pushed tokens); a steal whose CAS
   is about to succeed returns the first token of the content; a pop that
   returns a token returns the last token of the content (the most recently
   pushed unreturned one) *)
Theorem wsd_steal_fifo_pop_lifo : forall l start progs x,
  owner_only progs -> ireach l start progs x ->
  subseq (slog x ++ content (base x)) (plog x) /\
  (forall u, pc (thr (base x) u) = TCas -> top (base x) = t (thr (base x) u) ->
     exists rest, content (base x) = rv (thr (base x) u) :: rest) /\
  (forall u, pc (thr (base x) u) = OGetN ->
     exists front, content (base x) = front ++ [get (arrs (base x) (a (thr (base x) u))) (b (thr (base x) u))]) /\
  (forall u, pc (thr (base x) u) = OCas -> top (base x) = t (thr (base x) u) ->
     content (base x) = [rv (thr (base x) u)]).
Proof. intros l start progs x O R. exact (order_of_linv _ x (ireach_linv l start progs x O R)). Qed.
Print Assumptions wsd_steal_fifo_pop_lifo.

(* pop_bottom returns ABORT (its CAS fails / it is at the final store after a
   failed CAS) only if top moved from the value t it read in this call to t+1,
   t being the index of the last element, the deque is now empty, and the last
   successful steal in the history took exactly the token the pop had read;
   steal returns ABORT only if top moved past the value it read in this call *)
Theorem wsd_abort_justified : forall l start progs x u,
  owner_only progs -> ireach l start progs x ->
  let s := base x in
  (pc (thr s u) = OCas -> top s <> t (thr s u) ->
     top s = (t (thr s u) + 1)%Z /\ bot s = t (thr s u) /\ content s = [] /\ u = 0 /\
     exists sl, slog x = sl ++ [rv (thr s u)]) /\
  (pc (thr s u) = OFixL ->
     top s = (t (thr s u) + 1)%Z /\ bot s = t (thr s u) /\ content s = [] /\ u = 0 /\
     exists sl, slog x = sl ++ [get (arrs s (cur s)) (b (thr s u))]) /\
  (pc (thr s u) = TCas -> top s <> t (thr s u) -> (t (thr s u) < top s)%Z).
Proof. intros l start progs x u O R. exact (abort_justified_all l start progs x u O R). Qed.
Print Assumptions wsd_abort_justified.

(* pop_bottom returns EMPTY only if the deque is empty at its load of top (and
   still when it returns); steal returns EMPTY only if top >= bottom as read,
   and at its load of bottom the deque is empty or holds only the one element
   that an in-flight pop_bottom has speculatively reserved *)
Theorem wsd_empty_justified : forall l start progs s u,
  owner_only progs -> reachable M (init l start progs) s ->
  (pc (thr s u) = OTop -> (b (thr s u) - top s < 0)%Z -> content s = []) /\
  (pc (thr s u) = OEmp -> content s = [] /\ (b (thr s u) < t (thr s u))%Z) /\
  (pc (thr s u) = TBot -> (bot s - t (thr s u) <= 0)%Z ->
     content s = [] \/ (lkind (pc (thr s 0)) <> 0 /\ length (content s) = 1)) /\
  (pc (thr s u) = TArr -> (b (thr s u) - t (thr s u) <= 0)%Z -> (b (thr s u) <= t (thr s u))%Z).
Proof. intros l start progs s u O R. exact (empty_of_inv s u (reachable_inv l start progs s O R)). Qed.
Print Assumptions wsd_empty_justified.

(* growth: when the new array is published it has twice the size, holds a
   copy of every index in [t_read, bottom) and therefore the same content; a
   thief that holds an older array reads from it the same token as in the
   current array at any index on which its CAS can succeed, and that token is
   the first token of the content *)
Theorem wsd_growth_preserves : forall l start progs s u,
  owner_only progs -> reachable M (init l start progs) s ->
  (pc (thr s u) = UGSt ->
     u = 0 /\ a (thr s u) = cur s /\
     lg (arrs s (na (thr s u))) = S (lg (arrs s (cur s))) /\
     (forall j, (t (thr s u) <= j < b (thr s u))%Z -> get (arrs s (na (thr s u))) j = get (arrs s (cur s)) j) /\
     (t (thr s u) <= top s)%Z /\ b (thr s u) = bot s /\
     map (get (arrs s (na (thr s u)))) (zrange (top s) (Lc s)) = content s) /\
  (pc (thr s u) = TGet -> top s = t (thr s u) ->
     a (thr s u) <= cur s /\
     get (arrs s (a (thr s u))) (t (thr s u)) = get (arrs s (cur s)) (t (thr s u)) /\
     exists rest, content s = get (arrs s (a (thr s u))) (t (thr s u)) :: rest) /\
  (pc (thr s u) = TCas -> top s = t (thr s u) ->
     a (thr s u) <= cur s /\ rv (thr s u) = get (arrs s (cur s)) (t (thr s u)) /\
     exists rest, content s = rv (thr s u) :: rest).
Proof. intros l start progs s u O R. exact (growth_of_inv s u (reachable_inv l start progs s O R)). Qed.
Print Assumptions wsd_growth_preserves.

(* structural core: top <= steal bound <= content bound <= bottom + 1, the
   content always fits in the current array with one slot to spare, the slot a
   push writes is outside the live range, and only thread 0 is ever inside
   push_bottom / pop_bottom *)
Theorem wsd_safety_core : forall l start progs s u,
  owner_only progs -> reachable M (init l start progs) s ->
  (top s <= Ls s <= Lc s)%Z /\ (bot s <= Ls s)%Z /\ (Lc s <= bot s + 1)%Z /\
  (Lc s - top s <= asize (arrs s (cur s)) - 1)%Z /\
  (pc (thr s u) = UPut ->
     u = 0 /\ a (thr s u) = cur s /\ b (thr s u) = bot s /\
     forall j, (top s <= j < bot s)%Z -> slot (arrs s (cur s)) j <> slot (arrs s (cur s)) (b (thr s u))) /\
  (forall v, v <> 0 -> thief_pc (pc (thr s v))).
Proof. intros l start progs s u O R. exact (safety_of_inv s u (reachable_inv l start progs s O R)). Qed.
Print Assumptions wsd_safety_core.

(* ---- the same program on the x86-TSO store-buffer machine (coq/WsdTSO.v) ----
   [treach true] = the code as written (seq_cst store of bottom in pop_bottom
   drains the owner's store buffer); any interleaving of thread steps and
   buffer flushes. *)
Theorem wsd_tso_exactly_once : forall l start progs y,
  owner_only progs -> treach true l start progs y ->
  (forall v, cnt (tsl y) v + cnt (tol y) v <= cnt (tpl y) v) /\
  (exists rest, Permutation (tpl y) (tsl y ++ tol y ++ rest)) /\
  (exists later, tokens (nth 0 progs []) = tpl y ++ later) /\
  (NoDup (tokens (nth 0 progs [])) -> NoDup (tsl y ++ tol y) /\ incl (tsl y ++ tol y) (tpl y)).
Proof. intros l start progs y O R. exact (tso_exactly_once l start progs y O R). Qed.
Print Assumptions wsd_tso_exactly_once.

Theorem wsd_tso_no_loss : forall l start progs y,
  owner_only progs -> treach true l start progs y ->
  Permutation (tpl y) (tsl y ++ tol y ++ held (vw (tb y)) ++ content (vw (tb y))) /\
  (mbot (tb y) <= bot (vw (tb y)))%Z /\
  (buf (tb y) = [] -> mbot (tb y) = bot (vw (tb y)) /\
                      forall k sl, dat (marrs (tb y) k) sl = dat (arrs (vw (tb y)) k) sl).
Proof. intros l start progs y O R. exact (tso_no_loss l start progs y O R). Qed.
Print Assumptions wsd_tso_no_loss.

(* with a release store of bottom in pop_bottom instead of the seq_cst store
   ([treach false]) a token is returned twice on TSO: this is why the
   memory-order field of that store is part of the lock-step comparison *)
Theorem wsd_tso_release_store_refuted :
  exists l start progs y,
    owner_only progs /\ NoDup (tokens (nth 0 progs [])) /\ treach false l start progs y /\
    tpl y = [5; 6]%Z /\ tsl y = [5; 6]%Z /\ tol y = [6]%Z /\ ~ NoDup (tsl y ++ tol y).
Proof. exact tso_release_store_refuted. Qed.
Print Assumptions wsd_tso_release_store_refuted.

(* ---- non-vacuity: the hypotheses are met by concrete reachable states ---- *)
Definition ex_progs := [[OPush 5; OPush 6; OPush 7; OPop; OPop; OPop]; [OSteal]].
Example ex_owner_only : owner_only ex_progs.
Proof. apply owner_only_cons. repeat constructor. Qed.
Definition ex_state sch := fst (run_sched M (init 1 0 ex_progs) sch).

(* growth happened while a thief holds the old array: the thief read top,
   bottom and the array pointer (array 1), then the owner's second push grew
   the deque to array 2; the thief is about to read slot 0 of the old array *)
Example ex_growth_thief_holds_old :
  let s := ex_state [0;0;0;0;0; 1;1;1; 0;0;0;0;0;0;0;0] in
  reachable M (init 1 0 ex_progs) s /\ pc (thr s 1) = TGet /\ top s = t (thr s 1) /\
  a (thr s 1) = 1 /\ cur s = 2 /\ content s = [5; 6]%Z.
Proof. split; [apply run_sched_reachable; constructor | vm_compute; auto]. Qed.

(* the owner is about to publish the grown array *)
Example ex_publishing_growth :
  let s := ex_state [0;0;0;0;0; 0;0;0;0;0] in
  reachable M (init 1 0 ex_progs) s /\ pc (thr s 0) = UGSt /\ na (thr s 0) = 2 /\ cur s = 1.
Proof. split; [apply run_sched_reachable; constructor | vm_compute; auto]. Qed.

(* last-element race: one element, the thief has read top/bottom/array/slot,
   the pop has decremented bottom and read top = bottom; the thief's CAS wins
   and the pop's CAS is about to fail *)
Definition race_progs := [[OPush 5; OPop]; [OSteal]].
Example race_owner_only : owner_only race_progs.
Proof. apply owner_only_cons. repeat constructor. Qed.
Definition race_state sch := fst (run_sched M (init 1 0 race_progs) sch).

Example ex_last_element_race_thief_wins :
  let s := race_state [0;0;0;0;0; 1;1;1;1; 0;0;0;0;0; 1] in
  reachable M (init 1 0 race_progs) s /\ pc (thr s 0) = OCas /\ top s <> t (thr s 0).
Proof. split; [apply run_sched_reachable; constructor | vm_compute; split; [reflexivity|discriminate]]. Qed.

Example ex_last_element_race_owner_wins :
  let s := race_state [0;0;0;0;0; 1;1;1;1; 0;0;0;0;0; 0] in
  reachable M (init 1 0 race_progs) s /\ pc (thr s 1) = TCas /\ top s <> t (thr s 1) /\
  pc (thr s 0) = OFixW /\ held s = [5]%Z.
Proof. split; [apply run_sched_reachable; constructor | vm_compute; repeat split; try reflexivity; discriminate]. Qed.

Example ex_abort_history :
  let x := irun (iinit 1 0 race_progs) [0;0;0;0;0; 1;1;1;1; 0;0;0;0;0; 1; 0] in
  ireach 1 0 race_progs x /\ pc (thr (base x) 0) = OFixL /\ plog x = [5]%Z /\ slog x = [5]%Z /\ olog x = [].
Proof. split; [apply ireach_irun; constructor | vm_compute; auto]. Qed.

(* pop on an empty deque; a thief that loads bottom while a pop has
   speculatively reserved the only element *)
Example ex_pop_empty :
  let s := fst (run_sched M (init 1 0 [[OPop]]) [0;0;0;0]) in
  reachable M (init 1 0 [[OPop]]) s /\ pc (thr s 0) = OEmp.
Proof. split; [apply run_sched_reachable; constructor | vm_compute; reflexivity]. Qed.

Example ex_steal_sees_reserved :
  let s := race_state [0;0;0;0;0; 0;0;0; 1] in
  reachable M (init 1 0 race_progs) s /\ pc (thr s 1) = TBot /\ (bot s - t (thr s 1) <= 0)%Z /\
  content s = [5]%Z.
Proof. split; [apply run_sched_reachable; constructor | vm_compute; repeat split; try reflexivity; discriminate]. Qed.

(* a complete history with a growth, a steal and pops (one through the CAS) *)
Example ex_history :
  let x := irun (iinit 1 0 ex_progs)
             [0;0;0;0;0; 0;0;0;0;0;0;0;0; 0;0;0;0;0; 1;1;1;1;1; 0;0;0;0;0; 0;0;0;0;0;0;0; 0;0;0;0;0] in
  ireach 1 0 ex_progs x /\ plog x = [5; 6; 7]%Z /\ slog x = [5]%Z /\ olog x = [7; 6]%Z /\
  cur (base x) = 2 /\ content (base x) = [] /\ pc (thr (base x) 0) = Fin.
Proof. split; [apply ireach_irun; constructor | vm_compute; auto 10]. Qed.

(* TSO: a state in which the owner's buffer is not empty and memory lags
   behind the view (two pushes buffered, nothing flushed) *)
Example ex_tso_buffered :
  let y := trun true (tinit 2 0 ex_progs) [Some 0;Some 0;Some 0;Some 0;Some 0; Some 0;Some 0;Some 0;Some 0;Some 0] in
  treach true 2 0 ex_progs y /\ length (buf (tb y)) = 4 /\ mbot (tb y) = 0%Z /\ bot (vw (tb y)) = 2%Z.
Proof. split; [apply treach_trun; constructor | vm_compute; auto]. Qed.
