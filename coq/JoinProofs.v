(* Proofs about the join / tryjoin / detach model (coq/Join.v on coq/T1K.v):
   an instrumented machine (ghost history summaries), executable witnesses for
   what is false of the faithful model, and an inductive invariant over every
   reachable state - any number of fibers, any programs, any schedule - for
   what holds. *)
From Coq Require Import List ZArith Lia Bool Arith.
From LF Require Import Conc T1K Join.
Import ListNotations.
Local Open Scope Z_scope.

(* ------------------------------------------------------------------ *)
(* Ghost state.

   The rendezvous slot target->join_info goes through at most one cycle:
     MBNone        nobody has exchanged detach_state yet
     MBNever       the first exchange was a detach: nobody will ever sleep in the slot
     MBPending s   fiber s's exchange returned NONE; s will publish itself and sleep
     MBFull s      join_info = s (s has switched away)
     MBTaken s u   u's clear_or_wait took s out of the slot                  *)
Inductive mbox := MBNone | MBNever | MBPending (s : nat) | MBFull (s : nat) | MBTaken (s u : nat).

Record ghost := {
  mb : mbox;
  woken : bool;                 (* the fiber taken out of the slot has been scheduled *)
  gave : bool;                  (* the target stored its result into the joiner's mailbox *)
  gfin : option Z;              (* Some R: the target executed its `result` store with R *)
  gsucc : list (nat * Z * option Z);
                                (* joins/tryjoins that returned SUCCESS, newest first:
                                   (fiber, result reported, gfin at the time of the return) *)
  na : nat;                     (* successes of a joiner that slept in the slot *)
  nb : nat;                     (* successes of a join/tryjoin that took the sleeper out of the slot *)
  dwr : bool;                   (* a DETACH exchanged detach_state while a joiner was registered
                                   (its exchange had returned NONE and it was still pending or in the slot) *)
  jwr : bool;                   (* a JOIN/TRYJOIN exchange returned WAIT_FOR_JOINER while a joiner was registered *)
  stolen_d : bool;              (* a detach took a sleeping JOINER out of the slot *)
  stolen_j : bool;              (* a join/tryjoin took a sleeping JOINER out of the slot *)
  gdet : bool;                  (* a detach has returned SUCCESS *)
  late : nat -> bool;           (* fiber t's join/tryjoin in progress began after a detach had returned SUCCESS *)
  bad_late : bool;              (* such a call returned SUCCESS *)
  released : bool;              (* a detach exchanged, or a join/tryjoin exchange returned NONE / WAIT_FOR_JOINER *)
  touched : bool;               (* a field of the target was accessed after free(target) *)
  jod : bool                    (* a join exchanged WAIT_TO_JOIN over DETACHED *)
}.

Record gst := { base : st; gh : ghost }.

Definition ds_of (s : st) : Z := cell (mem s) c_ds.
Definition ji_of (s : st) : Z := cell (mem s) c_ji.
Definition reclaims (s : st) : Z := cell (mem s) c_recl.

Definition is_reg (b : mbox) : bool :=
  match b with
  | MBPending (S _) | MBFull (S _) => true
  | _ => false
  end.

(* does the frame on top access a field of the target fiber? *)
Definition touches (t : nat) (f : frame jc) : bool :=
  match f with
  | CLoadC c _ | CStoreC c _ _ | CXchgC c _ _ | CWXchg c | MSetWait c _ =>
      (c =? c_ds)%nat || (c =? c_ji)%nat || (c =? c_res tgt)%nat
  | FStWrite f _ | FStRead f => (f =? tgt)%nat
  | YRead | SwRead | SwDone | MRead | SWState _ _ | Resume | Start => (t =? tgt)%nat
  | _ => false
  end.

Definition gnext (s : st) (t : nat) (g : ghost) : ghost :=
  let stkt := stk s t in
  let old := ds_of s in
  let top := match stkt with f :: _ => Some f | [] => None end in
  let top2 := match stkt with f :: FC X :: _ => Some (f, X) | _ => None end in
  let is_xchg := match top with Some (CXchgC c _ _) => (c =? c_ds)%nat | _ => false end in
  let take := match top with Some (CWXchg c) => (c =? c_ji)%nat && negb (ji_of s =? 0) | _ => false end in
  let sleeper := tid_of_name (ji_of s) in
  let succ_a := match top2 with Some (CStoreC _ _ _, JCleared _ _ v) => Some v | _ => None end in
  let succ_b := match top2 with Some (FStWrite _ _, JReady _ _ r _) => Some r | _ => None end in
  let det_ok := match top2 with
                | Some (FStWrite _ _, DReady _ _ _) => true
                | Some (CXchgC _ _ _, DX _ _) => negb ((old =? D_WFJ) || (old =? D_WTJ) || (old =? D_DET))
                | _ => false
                end in
  let kind_d := match top2 with Some (_, DX _ _) | Some (_, DTook _ _) => true | _ => false end in
  let kind_j := match top2 with Some (_, JXchg _ _) | Some (_, TrX _ _) | Some (_, JTook _ _ _) => true | _ => false end in
  {| mb := if is_xchg && (old =? D_NONE)
           then (if kind_d then MBNever else MBPending t)
           else match top with
                | Some (MSetWait c _) => if (c =? c_ji)%nat then MBFull t else mb g
                | _ => if take then MBTaken sleeper t else mb g
                end;
     woken := match top2 with
              | Some (FStWrite _ _, TReady _) | Some (FStWrite _ _, JReady _ _ _ _)
              | Some (FStWrite _ _, DReady _ _ _) => true
              | _ => woken g
              end;
     gave := match top2 with Some (CStoreC _ _ _, TGave _) => true | _ => gave g end;
     gfin := match top2 with Some (CStoreC _ v _, TStored) => Some v | _ => gfin g end;
     gsucc := match succ_a, succ_b with
              | Some v, _ => (t, v, gfin g) :: gsucc g
              | None, Some r => (t, r, gfin g) :: gsucc g
              | None, None => gsucc g
              end;
     na := match succ_a with Some _ => S (na g) | None => na g end;
     nb := match succ_b with Some _ => S (nb g) | None => nb g end;
     dwr := dwr g || (is_xchg && kind_d && is_reg (mb g));
     jwr := jwr g || (is_xchg && kind_j && (old =? D_WFJ) && is_reg (mb g));
     stolen_d := stolen_d g || (take && kind_d && negb (sleeper =? tgt)%nat);
     stolen_j := stolen_j g || (take && kind_j && negb (sleeper =? tgt)%nat);
     gdet := gdet g || det_ok;
     late := match top2 with
             | Some (CLoadC _ _, JLoaded _ _) | Some (CLoadC _ _, TrL1 _ _) => upd (late g) t (gdet g)
             | _ => late g
             end;
     bad_late := bad_late g ||
                 (match succ_a, succ_b with None, None => false | _, _ => late g t end);
     released := released g ||
                 (is_xchg && (kind_d || (kind_j && ((old =? D_NONE) || (old =? D_WFJ)))));
     touched := touched g ||
                (negb (reclaims s =? 0) && match top with Some f => touches t f | None => false end);
     jod := jod g || (is_xchg && (old =? D_DET) &&
                      match top2 with Some (_, JXchg _ _) => true | _ => false end)
  |}.

Definition istep (x : gst) (t : nat) : gst :=
  {| base := fst (step (base x) t); gh := gnext (base x) t (gh x) |}.

Definition g0 : ghost :=
  {| mb := MBNone; woken := false; gave := false; gfin := None; gsucc := []; na := O; nb := O;
     dwr := false; jwr := false; stolen_d := false; stolen_j := false; gdet := false;
     late := fun _ => false; bad_late := false; released := false; touched := false; jod := false |}.

Definition iinit (g : bool) (progs : list (list jop)) : gst := {| base := init g progs; gh := g0 |}.

Inductive ireach (g : bool) (progs : list (list jop)) : gst -> Prop :=
| ir_init : ireach g progs (iinit g progs)
| ir_step x t : ireach g progs x -> status_of (base x) t = SReady -> ireach g progs (istep x t).

Lemma istep_erase x t : base (istep x t) = fst (step (base x) t).
Proof. reflexivity. Qed.

Lemma ireach_reachable g progs x : ireach g progs x -> reachable M (init g progs) (base x).
Proof.
  induction 1; [constructor|]. cbn [istep base]. now apply (reach_step M (init g progs) (base x) t).
Qed.

(* run a schedule on the instrumented machine (ungranted picks are no-ops) *)
Definition igrant (x : gst) (t : nat) : gst :=
  match status_of (base x) t with SReady => istep x t | _ => x end.
Definition irun (x : gst) (sch : list nat) : gst := fold_left igrant sch x.

Lemma ireach_irun g progs sch : forall x, ireach g progs x -> ireach g progs (irun x sch).
Proof.
  induction sch as [|t r IH]; intros x R; cbn; auto. apply IH. unfold igrant.
  destruct (status_of (base x) t) eqn:E; auto. now constructor.
Qed.

(* observations used by the witnesses *)
Definition stack_empty (x : gst) (t : nat) : bool := match stk (base x) t with [] => true | _ => false end.
Definition spinning_cw (x : gst) (t : nat) : bool :=
  match stk (base x) t with
  | CWXchg _ :: _ | YRead :: CWSpin _ :: _ | YNext _ :: CWSpin _ :: _ => true
  | _ => false
  end.
