(* Proofs about the join / tryjoin / detach model, part 2: every step of a
   ready fiber preserves the invariant of JoinInv.v; the property lemmas
   used by Properties_C04.v. *)
From Coq Require Import List ZArith Lia Bool Arith.
From LF Require Import Conc T1K Join JoinInv.
Import ListNotations.
Local Open Scope Z_scope.

Definition step_goal (x : gst) (t : nat) : Prop :=
  tshape (istep x t) t (stk (base (istep x t)) t) /\ rely x (istep x t) t /\ G (istep x t).

Arguments ev : simpl never.
Arguments retev : simpl never.
Arguments l_state : simpl never.
Arguments l_cell : simpl never.
Arguments fname : simpl never.
Arguments tid_of_name : simpl never.
Arguments Zn : simpl never.
Arguments Z.eqb : simpl nomatch.
Arguments fin : simpl never.

Ltac compute_step Hs :=
  unfold step_goal, istep, step, gnext; rewrite Hs; cbn -[Z.add Z.mul]; rewrite ?orb_false_r.

Ltac gf HG := first
 [ exact (g_ds _ HG) | exact (g_mb _ HG) | exact (g_fin _ HG) | exact (g_wfj _ HG) | exact (g_rel _ HG)
 | exact (g_relmb _ HG) | exact (g_k _ HG) | exact (g_woken _ HG) | exact (g_gave _ HG) | exact (g_taken _ HG)
 | exact (g_std _ HG) | exact (g_stj _ HG) | exact (g_det _ HG) | exact (g_late _ HG) | exact (g_len _ HG)
 | exact (g_na _ HG) | exact (g_nb _ HG) | exact (g_succ _ HG) | exact (g_badlate _ HG) | exact (g_fx _ HG) | reflexivity ].


Lemma fin_out g m t p k v gu m1 e s : fin g m t p k v gu = (m1, e, s) ->
  m1 = (if gu then set_cell m c_inv 1 else m) /\ s = snd (start g t (given_up m1) p (S k)).
Proof.
  unfold fin. destruct (start g t (given_up (if gu then set_cell m c_inv 1 else m)) p (S k)) as [e0 s0] eqn:E.
  intros H. inversion H; subst. split; auto. now rewrite E.
Qed.

Lemma start_shape g inv x t : idle x t -> forall p k, tshape x t (snd (start g t inv p k)).
Proof.
  intros I. induction p as [|o p IH]; intros k; cbn [start].
  - constructor.
  - assert (SK : tshape x t (snd (let '(e, s) := start g t inv p (S k) in (retev t k (-1) ++ e, s)))).
    { specialize (IH (S k)). destruct (start g t inv p (S k)) as [e s]. exact IH. }
    destruct I as [R TP].
    destruct o; try exact SK.
    + destruct (Nat.eqb_spec t tgt) as [E|N]; cbn [orb].
      * exact SK.
      * destruct (g && inv); [exact SK|]. cbn. now constructor.
    + destruct (Nat.eqb_spec t tgt) as [E|N]; cbn [orb].
      * exact SK.
      * destruct (g && inv); [exact SK|]. cbn. now constructor.
    + destruct (Nat.eqb_spec t tgt) as [E|N]; cbn [orb].
      * exact SK.
      * destruct (g && inv); [exact SK|]. cbn. now constructor.
    + cbn. constructor. split; auto.
    + destruct (Nat.eqb_spec t tgt) as [E|N].
      * cbn. constructor; auto. split; auto.
      * exact SK.
Qed.

Lemma run_slots_wait (m : kmem) t r c v : slot_sched m t = false -> slot_mpmc m t = None ->
  slot_mutex m t = None -> slot_wait m t = Some (c, v) ->
  run_slots jc m t r = (set_slot_wait m t None, [], MSetWait c v :: r).
Proof. intros A B C D. unfold run_slots. rewrite A, B, C, D. reflexivity. Qed.

Ltac split_start :=
  match goal with
  | |- context [start ?g ?t ?i ?p ?k] =>
      let e := fresh "e" in let s := fresh "s" in let ES := fresh "ES" in
      remember (start g t i p k) as es eqn:ES; destruct es as [e s];
      assert (s = snd (start g t i p k)) by (rewrite <- ES; reflexivity); clear ES; subst s
  end.

Ltac split_fin :=
  match goal with
  | |- context [fin ?g ?m ?t ?p ?k ?v ?gu] =>
      let m1 := fresh "m1" in let e := fresh "e" in let s := fresh "s" in let EF := fresh "EF" in
      destruct (fin g m t p k v gu) as [[m1 e] s] eqn:EF;
      apply fin_out in EF; destruct EF as [? ?]; subst m1 s
  end.

Ltac rely_same :=
  constructor; cbn; intros;
  try (left; reflexivity); try (left; split; [reflexivity | intros; reflexivity]);
  auto using upd_other; try (left; cbn; apply upd_other; auto).

Section Step.
  Variables (x : gst) (t : nat).
  Hypothesis HG : G x.
  Hypothesis HS : forall u, tshape x u (stk (base x) u).
  Hypothesis St : status_of (base x) t = SReady.

  Lemma st_kstatus : kstatus jc (gm x) t (stk (base x) t) = SReady.
  Proof. unfold status_of in St. destruct (t <? nthr (base x))%nat; [exact St | discriminate]. Qed.

  Lemma st_nonempty : stk (base x) t <> [].
  Proof. intros E. pose proof st_kstatus as K. rewrite E in K. discriminate. Qed.

  (* the stepping fiber is not the one asleep in the slot *)
  Lemma Hnt : forall u, mb (gh x) = MBTaken t u -> woken (gh x) = true.
  Proof.
    intros u E. destruct (woken (gh x)) eqn:W; auto.
    destruct (g_asleep _ HG _ _ E W) as [X HX]. pose proof (HS t) as H. pose proof st_kstatus as K.
    rewrite HX in H, K. inversion H; subst. rewrite W in *. cbn in K.
    match goal with B : blocked _ _ = _ |- _ => cbn in B; rewrite B in K end. discriminate.
  Qed.

  (* g_asleep when mb / woken are unchanged and only t's stack changed *)
  Lemma asleep_keep s1 : forall s u, mb (gh x) = MBTaken s u -> woken (gh x) = false ->
    exists X, upd (stk (base x)) t s1 s = [Asleep; YLoop; FC X].
  Proof.
    intros s u E W. destruct (Nat.eq_dec s t) as [->|N].
    - rewrite (Hnt _ E) in W. discriminate.
    - rewrite upd_other by auto. eapply g_asleep; eauto.
  Qed.

  Lemma full_keep s1 : forall s, mb (gh x) = MBFull s ->
    exists X, upd (stk (base x)) t s1 s = [Asleep; YLoop; FC X].
  Proof.
    intros s E. destruct (g_full _ HG _ E) as [X HX]. destruct (Nat.eq_dec s t) as [->|N].
    - exfalso. pose proof (HS t) as H. pose proof st_kstatus as K. rewrite HX in H, K. inversion H; subst.
      unfold kstatus in K.
      match goal with B : blocked _ _ = _, M : _ \/ _ |- _ =>
        destruct M as [[_ W]|[u Q]]; [rewrite W in B; cbn in B; rewrite B in K; discriminate | congruence] end.
    - rewrite upd_other by auto. eauto.
  Qed.

  (* g_recl when the reclaim count, fstate tgt, gfin, released are unchanged *)
  Lemma recl_keep s1 m' g' fx' : cell m' c_recl = cell (gm x) c_recl -> (t <> tgt -> fstate m' tgt = fstate (gm x) tgt) ->
    gfin g' = gfin (gh x) -> released g' = released (gh x) ->
    let x' := {| base := {| mem := m'; stk := upd (stk (base x)) t s1; nthr := nthr (base x); grd := grd (base x); fxd := fx' |};
                 gh := g' |} in
    reclaims (base x') = 0 \/
    (reclaims (base x') = 1 /\ stk (base x') tgt = [] /\ fstate (gm x') tgt = ST_DONE /\ tfin x').
  Proof.
    intros C F A B x'. destruct (g_recl _ HG) as [R|[R [E [D [T1 T2]]]]].
    - left. unfold reclaims, x'. cbn. rewrite C. exact R.
    - assert (Nt : t <> tgt) by (intros Et; apply st_nonempty; rewrite Et; exact E).
      right. unfold reclaims, tfin, gm, x' in *. cbn. rewrite C, (F Nt), A, B. repeat split; auto.
      rewrite upd_other; auto.
  Qed.

  Lemma recl_keep2 s1 m' g' fx' : cell m' c_recl = cell (gm x) c_recl -> (t <> tgt -> fstate m' tgt = fstate (gm x) tgt) ->
    (gfin (gh x) <> None -> gfin g' <> None) -> (released (gh x) = true -> released g' = true) ->
    let x' := {| base := {| mem := m'; stk := upd (stk (base x)) t s1; nthr := nthr (base x); grd := grd (base x); fxd := fx' |};
                 gh := g' |} in
    reclaims (base x') = 0 \/
    (reclaims (base x') = 1 /\ stk (base x') tgt = [] /\ fstate (gm x') tgt = ST_DONE /\ tfin x').
  Proof.
    intros C F A B x'. destruct (g_recl _ HG) as [R|[R [E [D [T1 T2]]]]].
    - left. unfold reclaims, x'. cbn. rewrite C. exact R.
    - assert (Nt : t <> tgt) by (intros Et; apply st_nonempty; rewrite Et; exact E).
      right. unfold reclaims, tfin, gm, x' in *. cbn. rewrite C, (F Nt). repeat split; auto.
      rewrite upd_other; auto.
  Qed.

  Lemma recl_zero_tgt : t = tgt -> reclaims (base x) = 0.
  Proof.
    intros Et. destruct (g_recl _ HG) as [R|[_ [E _]]]; auto. exfalso. apply st_nonempty. now rewrite Et.
  Qed.

  Lemma gmb_newds d : cell (mem (base x)) c_ds <> D_NONE -> d <> D_NONE ->
    match mb (gh x) with
    | MBNone => d = D_NONE /\ cell (mem (base x)) c_ji = 0
    | MBFull s => d <> D_NONE /\ cell (mem (base x)) c_ji = fname s
    | _ => d <> D_NONE /\ cell (mem (base x)) c_ji = 0
    end.
  Proof.
    intros A B. pose proof (g_mb _ HG) as GM. unfold ds_of, ji_of in GM.
    destruct (mb (gh x)); destruct GM as [G1 G2]; split; auto; contradiction.
  Qed.

  Lemma mb_nn : cell (mem (base x)) c_ds <> D_NONE -> mb (gh x) <> MBNone.
  Proof.
    intros A E. pose proof (g_mb _ HG) as GM. rewrite E in GM. destruct GM as [G1 _]. contradiction.
  Qed.

  Lemma case_y1 p k : stk (base x) t = [YRead; FC (JYielded p k)] -> idle x t -> step_goal x t.
  Proof.
    intros Hs I. pose proof I as [[R1 [R2 R3]] TP]. compute_step Hs. split; [|split].
    - rewrite upd_same. unfold gm in R1. rewrite R1. apply sh_y2. exact I.
    - constructor; cbn; intros; auto using upd_other.
    - constructor; try gf HG.
      + apply asleep_keep.
      + apply full_keep.
      + apply recl_keep; reflexivity.
  Qed.

  Lemma case_start p k : stk (base x) t = [Start; FC (JNext p k)] ->
    blocked (gm x) t = false -> slot_wait (gm x) t = None -> tpre x t -> step_goal x t.
  Proof.
    intros Hs B Sl TP. compute_step Hs. split_start. cbn -[Z.add Z.mul]. rewrite app_nil_r.
    split; [|split].
    - rewrite upd_same. apply start_shape. split; [|exact TP]. unfold run, gm. cbn. rewrite upd_same. auto.
    - rely_same.
    - constructor; try gf HG.
      + apply asleep_keep.
      + apply full_keep.
      + apply recl_keep; try reflexivity. intros N. cbn. apply upd_other. congruence.
  Qed.

  Lemma case_y2 p k : stk (base x) t = [YNext ST_RUNNING; FC (JYielded p k)] -> idle x t -> step_goal x t.
  Proof.
    intros Hs I. compute_step Hs. split_fin. cbn -[Z.add Z.mul]. rewrite ?app_nil_r. split; [|split].
    - rewrite upd_same. apply start_shape. exact I.
    - rely_same.
    - constructor; try gf HG.
      + apply asleep_keep.
      + apply full_keep.
      + apply recl_keep; reflexivity.
  Qed.

  (* ---- set_and_wait ---- *)
  Lemma case_sw X : stk (base x) t = [SWState c_ji (fname t); FC X] ->
    run x t -> mb (gh x) = MBPending t -> sleeperX x t X -> step_goal x t.
  Proof.
    intros Hs [R1 [R2 R3]] E SX. compute_step Hs. split; [|split].
    - rewrite upd_same. apply sh_s1; auto; unfold gm; cbn; now rewrite upd_same.
    - rely_same.
    - constructor; try gf HG.
      + apply asleep_keep.
      + apply full_keep.
      + apply recl_keep; try reflexivity. intros N. cbn. apply upd_other. congruence.
  Qed.

  Ltac kernel_case Hs F :=
    compute_step Hs; unfold gm in F; rewrite ?F; cbn -[Z.add Z.mul]; split; [|split];
    [ rewrite upd_same
    | rely_same
    | constructor; try gf HG; [ apply asleep_keep | apply full_keep | apply recl_keep; reflexivity ] ].

  Lemma case_s1 X : stk (base x) t = [YRead; FC X] ->
    fstate (gm x) t = ST_WAITING -> blocked (gm x) t = false ->
    slot_wait (gm x) t = Some (c_ji, fname t) -> mb (gh x) = MBPending t -> sleeperX x t X -> step_goal x t.
  Proof. intros Hs F B Sl E SX. kernel_case Hs F. now apply sh_s2. Qed.

  Lemma case_s2 X : stk (base x) t = [YNext ST_WAITING; FC X] ->
    fstate (gm x) t = ST_WAITING -> blocked (gm x) t = false ->
    slot_wait (gm x) t = Some (c_ji, fname t) -> mb (gh x) = MBPending t -> sleeperX x t X -> step_goal x t.
  Proof. intros Hs F B Sl E SX. kernel_case Hs F. now apply sh_s3. Qed.

  Lemma case_s3 X : stk (base x) t = [SwRead; YLoop; FC X] ->
    fstate (gm x) t = ST_WAITING -> blocked (gm x) t = false ->
    slot_wait (gm x) t = Some (c_ji, fname t) -> mb (gh x) = MBPending t -> sleeperX x t X -> step_goal x t.
  Proof. intros Hs F B Sl E SX. kernel_case Hs F. now apply sh_s4. Qed.

  Lemma case_s4 X : stk (base x) t = [SwDone; YLoop; FC X] ->
    fstate (gm x) t = ST_WAITING -> blocked (gm x) t = false ->
    slot_wait (gm x) t = Some (c_ji, fname t) -> mb (gh x) = MBPending t -> sleeperX x t X -> step_goal x t.
  Proof. intros Hs F B Sl E SX. kernel_case Hs F. now apply sh_s5. Qed.

  Lemma case_s5 X : stk (base x) t = [MRead; YLoop; FC X] ->
    fstate (gm x) t = ST_WAITING -> blocked (gm x) t = false ->
    slot_wait (gm x) t = Some (c_ji, fname t) -> mb (gh x) = MBPending t -> sleeperX x t X -> step_goal x t.
  Proof.
    intros Hs F B Sl E SX. destruct (g_k _ HG t) as [K1 [K2 [K3 K4]]]. unfold gm in *.
    compute_step Hs. rewrite ?F. cbn -[Z.add Z.mul].
    rewrite (run_slots_wait _ _ _ _ _ K2 K4 K3 Sl). cbn -[Z.add Z.mul]. split; [|split].
    - rewrite upd_same. apply sh_s6; auto. unfold gm. cbn. now rewrite upd_same.
    - rely_same.
    - constructor; try gf HG.
      + apply asleep_keep.
      + apply full_keep.
      + apply recl_keep; reflexivity.
  Qed.

  Lemma case_s6 X : stk (base x) t = [MSetWait c_ji (fname t); YLoop; FC X] ->
    fstate (gm x) t = ST_WAITING -> blocked (gm x) t = false ->
    slot_wait (gm x) t = None -> mb (gh x) = MBPending t -> sleeperX x t X -> step_goal x t.
  Proof.
    intros Hs F B Sl E SX. destruct (g_k _ HG t) as [K1 [K2 [K3 K4]]]. unfold gm in *.
    assert (W : woken (gh x) = false).
    { destruct (woken (gh x)) eqn:W; auto. destruct (g_woken _ HG W) as [s [u Q]]. congruence. }
    assert (Gv : gave (gh x) = false).
    { destruct (gave (gh x)) eqn:W'; auto. destruct (g_gave _ HG W') as [s [u Q]]. congruence. }
    compute_step Hs. unfold sleep. cbn -[Z.add Z.mul]. rewrite K1. cbn -[Z.add Z.mul].
    pose proof (g_mb _ HG) as GM. rewrite E in GM. destruct GM as [GM1 GM2].
    split; [|split].
    - rewrite upd_same. apply sh_s7; cbn; auto.
      + unfold gm. cbn. rewrite upd_same. now rewrite W.
      + intros Q. rewrite W in Q. discriminate.
      + intros Q. rewrite Gv in Q. discriminate.
    - constructor; cbn; intros; auto using upd_other;
        try (left; reflexivity); try (left; split; [reflexivity | intros; reflexivity]).
    - constructor; try gf HG; try (apply recl_keep; reflexivity);
        cbn; auto; try discriminate; try (intros; discriminate).
      + intros [Q|[Q|[Q|[s [u Q]]]]]; try discriminate; apply (g_rel _ HG); auto.
      + intros s Q. inversion Q; subst. rewrite upd_same. eauto.
      + intros Q. rewrite W in Q. discriminate.
      + intros Q. rewrite Gv in Q. discriminate.
      + intros Q. destruct (g_det _ HG Q) as [Q'|[s [u Q']]]; congruence.
      + destruct (g_na _ HG) as [A1 A2]. split; auto. intros Q. destruct (A2 Q) as [s [u [Q' _]]]. congruence.
      + destruct (g_nb _ HG) as [A1 A2]. split; auto. intros Q. destruct (A2 Q) as [s [u [Q' _]]]. congruence.
  Qed.

  Lemma case_s7 X : stk (base x) t = [Asleep; YLoop; FC X] ->
    slot_wait (gm x) t = None -> blocked (gm x) t = negb (woken (gh x)) ->
    ((mb (gh x) = MBFull t /\ woken (gh x) = false) \/ taken_by_any x t) ->
    (woken (gh x) = true -> t <> tgt -> mail_ok x t) -> (gave (gh x) = true -> given x t) ->
    sleeperX x t X -> step_goal x t.
  Proof.
    intros Hs Sl B M Ml _ SX.
    assert (W : woken (gh x) = true).
    { pose proof st_kstatus as K. rewrite Hs in K. unfold kstatus in K. rewrite B in K.
      destruct (woken (gh x)); [auto | discriminate]. }
    rewrite W in B. cbn in B.
    assert (T : taken_by_any x t) by (destruct M as [[_ Q]|Q]; [congruence | exact Q]).
    compute_step Hs. split; [|split].
    - rewrite upd_same. apply sh_s8; auto.
    - rely_same.
    - constructor; try gf HG.
      + apply asleep_keep.
      + apply full_keep.
      + apply recl_keep; reflexivity.
  Qed.

  Lemma case_s8 X : stk (base x) t = [Resume; YLoop; FC X] ->
    slot_wait (gm x) t = None -> blocked (gm x) t = false -> taken_by_any x t ->
    woken (gh x) = true -> (t <> tgt -> mail_ok x t) -> sleeperX x t X -> step_goal x t.
  Proof.
    intros Hs Sl B T W Ml SX. compute_step Hs. split; [|split].
    - rewrite upd_same. apply sh_s9; auto. unfold run, gm. cbn. rewrite upd_same. auto.
    - rely_same.
    - constructor; try gf HG.
      + apply asleep_keep.
      + apply full_keep.
      + apply recl_keep; try reflexivity. intros N. cbn. apply upd_other. congruence.
  Qed.

  Lemma case_s9 X : stk (base x) t = [YRead; FC X] ->
    run x t -> taken_by_any x t -> woken (gh x) = true -> (t <> tgt -> mail_ok x t) -> sleeperX x t X ->
    step_goal x t.
  Proof.
    intros Hs R T W Ml SX. pose proof R as [F _]. kernel_case Hs F. now apply sh_s10.
  Qed.

  Lemma taken_released : (exists s u, mb (gh x) = MBTaken s u) -> released (gh x) = true.
  Proof. intros H. apply (g_rel _ HG). auto. Qed.

  Lemma case_s10 X : stk (base x) t = [YNext ST_RUNNING; FC X] ->
    run x t -> taken_by_any x t -> woken (gh x) = true -> (t <> tgt -> mail_ok x t) -> sleeperX x t X ->
    step_goal x t.
  Proof.
    intros Hs R T W Ml SX. destruct SX as [[E1 [E2 E3]]|[N [[p [k E2]] [NA LT]]]]; subst X.
    - compute_step Hs. split; [|split].
      + rewrite upd_same. apply sh_tdonew; auto. split; auto.
        destruct T as [u T]. apply taken_released. eauto.
      + rely_same.
      + constructor; try gf HG; [apply asleep_keep | apply full_keep | apply recl_keep; reflexivity].
    - compute_step Hs. rewrite (g_fx _ HG). cbn -[Z.add Z.mul]. split; [|split].
      + rewrite upd_same. apply sh_jchk; auto.
      + rely_same.
      + constructor; try gf HG; [apply asleep_keep | apply full_keep | apply recl_keep; reflexivity].
  Qed.

  (* before anybody has been taken out of the slot *)
  Lemma pre_take : (forall s u, mb (gh x) <> MBTaken s u) ->
    woken (gh x) = false /\ gave (gh x) = false /\ na (gh x) = O /\ nb (gh x) = O /\
    (mb (gh x) <> MBNever -> gdet (gh x) = false /\ forall u, late (gh x) u = false).
  Proof.
    intros N. repeat split.
    - destruct (woken (gh x)) eqn:W; auto. destruct (g_woken _ HG W) as [s [u Q]]. now apply N in Q.
    - destruct (gave (gh x)) eqn:W; auto. destruct (g_gave _ HG W) as [s [u Q]]. now apply N in Q.
    - destruct (g_na _ HG) as [A1 A2]. destruct (na (gh x)); auto.
      destruct A2 as [s [u [Q _]]]; [lia | now apply N in Q].
    - destruct (g_nb _ HG) as [A1 A2]. destruct (nb (gh x)); auto.
      destruct A2 as [s [u [Q _]]]; [lia | now apply N in Q].
    - destruct (gdet (gh x)) eqn:W; auto. destruct (g_det _ HG W) as [Q|[s [u Q]]]; [contradiction | now apply N in Q].
    - intros u. destruct (late (gh x) u) eqn:L; auto. pose proof (g_late _ HG _ L) as W.
      destruct (g_det _ HG W) as [Q|[s [u' Q]]]; [contradiction | now apply N in Q].
  Qed.

  Lemma case_c1 X : stk (base x) t = [YRead; CWSpin c_ji; FC X] -> run x t -> cwX x t X -> step_goal x t.
  Proof. intros Hs R CX. pose proof R as [F _]. kernel_case Hs F. now apply sh_c2. Qed.

  Lemma case_c2 X : stk (base x) t = [YNext ST_RUNNING; CWSpin c_ji; FC X] -> run x t -> cwX x t X -> step_goal x t.
  Proof. intros Hs R CX. pose proof R as [F _]. kernel_case Hs F. now apply sh_c0. Qed.

  Lemma case_c0 X : stk (base x) t = [CWXchg c_ji; FC X] -> run x t -> cwX x t X -> step_goal x t.
  Proof.
    intros Hs R CX. pose proof (g_mb _ HG) as GM. unfold ji_of in GM.
    destruct (Z.eqb_spec (cell (mem (base x)) c_ji) 0) as [Z|NZ].
    - (* empty: yield and retry *)
      compute_step Hs. unfold ji_of. rewrite Z. cbn -[Z.add Z.mul]. rewrite ?orb_false_r. split; [|split].
      + rewrite upd_same. now apply sh_c1.
      + rely_same.
      + constructor; try gf HG; [apply asleep_keep | apply full_keep | apply recl_keep; reflexivity].
    - destruct (mb (gh x)) as [| |s0|s|s0 u0] eqn:E; try (exfalso; apply NZ; tauto).
      destruct GM as [GM1 GM2].
      destruct (g_full _ HG _ E) as [X0 HX0].
      assert (Nst : s <> t) by (intros ->; rewrite Hs in HX0; discriminate).
      assert (NTk : forall s' u', mb (gh x) <> MBTaken s' u') by (intros s' u'; rewrite E; discriminate).
      destruct (pre_take NTk) as [W [Gv [NA [NB Q]]]].
      destruct Q as [GD LT]; [rewrite E; discriminate|].
      destruct CX as [[Et [EX [Fn Rl]]]|[[Nt [[p [k [r [EX Fn]]]] [Rl Rg]]]|[Nt [[p [k EX]] [Rl Rg]]]]]; subst X.
      + (* the target takes a joiner *)
        compute_step Hs. unfold ji_of. rewrite GM2, fname_eqb, tid_fname. cbn -[Z.add Z.mul].
        rewrite ?orb_false_r, ?andb_false_r, ?orb_false_r.
        split; [|split].
        * rewrite upd_same. apply sh_tread; auto; cbn; try congruence. split; auto.
        * constructor; cbn; intros; auto using upd_other;
            try (left; reflexivity); try (left; split; [reflexivity | intros; reflexivity]).
          right; right; right. exists s. auto.
        * constructor; try gf HG; try (apply recl_keep; reflexivity); cbn; auto; try discriminate;
            try (intros; discriminate).
          -- intros s0 u Q _. inversion Q; subst. rewrite upd_other by auto. eauto.
          -- rewrite W. discriminate.
          -- rewrite Gv. discriminate.
          -- intros s0 u Q. inversion Q; subst. split; auto; intros; congruence.
          -- rewrite GD. discriminate.
          -- rewrite NA. split; [lia | intros; lia].
          -- rewrite NB. split; [lia | intros; lia].
      + (* a join / tryjoin takes the sleeper *)
        compute_step Hs. unfold ji_of. rewrite GM2, fname_eqb, tid_fname. cbn -[Z.add Z.mul].
        rewrite ?orb_false_r, ?andb_false_r, ?orb_false_r.
        split; [|split].
        * rewrite upd_same. apply sh_jready; auto; cbn; auto.
          intros N. apply orb_true_iff. right. apply negb_true_iff. now apply Nat.eqb_neq.
        * constructor; cbn; intros; auto using upd_other;
            try (left; reflexivity); try (left; split; [reflexivity | intros; reflexivity]);
            try (match goal with H : ?b = true |- _ => rewrite H; reflexivity end).
          right; right; right. exists s. auto.
        * constructor; try gf HG; try (apply recl_keep; reflexivity); cbn; auto; try discriminate;
            try (intros; discriminate).
          -- intros s0 u Q _. inversion Q; subst. rewrite upd_other by auto. eauto.
          -- rewrite W. discriminate.
          -- rewrite Gv. discriminate.
          -- intros s0 u Q. inversion Q; subst. split; auto. intros N _. right.
             apply orb_true_iff. right. apply negb_true_iff. now apply Nat.eqb_neq.
          -- intros Q. apply orb_true_iff in Q. destruct Q as [Q|Q]; [now apply (g_stj _ HG)|].
             apply Rg. rewrite E. apply negb_true_iff, Nat.eqb_neq in Q. destruct s; [contradiction | reflexivity].
          -- rewrite GD. discriminate.
          -- rewrite NA. split; [lia | intros; lia].
          -- rewrite NB. split; [lia | intros; lia].
          -- intros e0 I. pose proof (g_len _ HG) as Ln. rewrite NA, NB in Ln.
             destruct (gsucc (gh x)); [contradiction | discriminate].
      + (* a detach takes the sleeper *)
        compute_step Hs. unfold ji_of. rewrite GM2, fname_eqb, tid_fname, (g_fx _ HG).
        destruct (Nat.eqb_spec s tgt) as [Es|Ns]; cbn -[Z.add Z.mul];
          rewrite ?orb_false_r, ?andb_false_r, ?orb_false_r.
        { (* the sleeper is the target itself: no mark *)
        split; [|split].
        * rewrite upd_same. apply sh_dready; auto; cbn; auto.
        * constructor; cbn; intros; auto using upd_other;
            try (left; reflexivity); try (left; split; [reflexivity | intros; reflexivity]);
            try (match goal with H : ?b = true |- _ => rewrite H; reflexivity end).
          right; right; right. exists s. auto.
        * constructor; try gf HG; cbn; auto; try discriminate; try (intros; discriminate).
          -- intros s0 u Q _. inversion Q; subst. rewrite upd_other by auto. eauto.
          -- rewrite W. discriminate.
          -- rewrite Gv. discriminate.
          -- intros s0 u Q. inversion Q; subst. split; auto; intros; try contradiction; try congruence.
          -- rewrite GD. discriminate.
          -- rewrite NA. split; [lia | intros; lia].
          -- rewrite NB. split; [lia | intros; lia].
          -- destruct (g_recl _ HG) as [RZ|[_ [E0 _]]]; [left; exact RZ | rewrite <- Es in E0; congruence].
        }
        { (* the sleeper is a joiner: mark its mailbox first *)
        split; [|split].
        * rewrite upd_same. apply sh_dsent; auto; cbn; auto.
        * constructor; cbn; intros; auto using upd_other;
            try (left; reflexivity); try (left; split; [reflexivity | intros; reflexivity]);
            try (match goal with H : ?b = true |- _ => rewrite H; reflexivity end).
          right; right; right. exists s. auto.
        * constructor; try gf HG; try (apply recl_keep; reflexivity); cbn; auto; try discriminate;
            try (intros; discriminate).
          -- intros s0 u Q _. inversion Q; subst. rewrite upd_other by auto. eauto.
          -- rewrite W. discriminate.
          -- rewrite Gv. discriminate.
          -- intros s0 u Q. inversion Q; subst. split; auto. intros _ _. left. apply orb_true_r.
          -- intros _. apply Rg. rewrite E. destruct s; [contradiction | reflexivity].
          -- rewrite GD. discriminate.
          -- rewrite NA. split; [lia | intros; lia].
          -- rewrite NB. split; [lia | intros; lia].
        }
  Qed.

  (* ---- the target: fiber_mark_completed ---- *)
  Lemma case_tstore r : stk (base x) t = [CStoreC (c_res tgt) r 3; FC TStored] -> t = tgt -> idle x t ->
    step_goal x t.
  Proof.
    intros Hs Et [R TP]. destruct (TP Et) as [Fn Dn]. compute_step Hs. split; [|split].
    - rewrite upd_same. apply sh_tload; auto. cbn. discriminate.
    - constructor; cbn; intros; auto using upd_other;
        try (left; reflexivity); try (left; split; [reflexivity | intros; reflexivity]).
      left. split; auto. intros u N. unfold gm. cbn. apply upd_other. unfold c_res. lia.
    - constructor; try gf HG; try (apply recl_keep; reflexivity); cbn.
      + intros R0 Q. injection Q as <-. unfold gm. cbn. reflexivity.
      + discriminate.
      + apply asleep_keep.
      + apply full_keep.
      + left. now apply recl_zero_tgt.
  Qed.

  Ltac keepG := constructor; try gf HG; [apply asleep_keep | apply full_keep | apply recl_keep; reflexivity].

  Lemma case_tload : stk (base x) t = [CLoadC c_ds 5; FC TLoaded] -> t = tgt -> run x t ->
    gfin (gh x) <> None -> ds_of (base x) <> D_WFJ -> step_goal x t.
  Proof.
    intros Hs Et R Fn Dn. compute_step Hs.
    destruct (Z.eqb_spec (cell (mem (base x)) c_ds) D_DET) as [Z|NZ]; cbn -[Z.add Z.mul]; (split; [|split]).
    - rewrite upd_same. apply sh_tdonew; auto. split; auto. apply (g_rel _ HG). auto.
    - rely_same.
    - keepG.
    - rewrite upd_same. apply sh_txchg; auto.
    - rely_same.
    - keepG.
  Qed.

  Lemma case_txchg : stk (base x) t = [CXchgC c_ds D_WFJ 5; FC TXchg] -> t = tgt -> run x t ->
    gfin (gh x) <> None -> ds_of (base x) <> D_WFJ -> step_goal x t.
  Proof.
    intros Hs Et R Fn Dn. pose proof (g_mb _ HG) as GM.
    destruct (g_ds _ HG) as [D|[D|[D|D]]]; [| contradiction | |].
    - (* NONE: sleep in the slot *)
      assert (E : mb (gh x) = MBNone).
      { destruct (mb (gh x)); auto; destruct GM as [GM _]; contradiction. }
      assert (NTk : forall s' u', mb (gh x) <> MBTaken s' u') by (intros s' u'; rewrite E; discriminate).
      destruct (pre_take NTk) as [W [Gv [NA [NB Q]]]].
      destruct Q as [GD LT]; [rewrite E; discriminate|].
      compute_step Hs. unfold ds_of in *. rewrite D. cbn -[Z.add Z.mul]. rewrite ?orb_false_r, ?andb_false_r, ?orb_false_r.
      split; [|split].
      + rewrite upd_same. replace (fname tgt) with (fname t) by (now rewrite Et). apply sh_sw; auto. left. auto.
      + constructor; cbn; intros; auto using upd_other;
          try (left; reflexivity); try (left; split; [reflexivity | intros; reflexivity]).
      + constructor; try gf HG; try (apply recl_keep; reflexivity); cbn; auto; try discriminate;
          try (intros; discriminate).
        * split; [discriminate|]. rewrite E in GM. unfold ji_of in GM. tauto.
        * intros [Q|[Q|[Q|[s [u Q]]]]]; discriminate.
        * rewrite W. discriminate.
        * rewrite Gv. discriminate.
        * rewrite GD. discriminate.
        * rewrite NA. split; [lia | intros; lia].
        * rewrite NB. split; [lia | intros; lia].
    - (* WAIT_TO_JOIN: fetch the joiner *)
      assert (Rl : released (gh x) = true) by (apply (g_rel _ HG); auto).
      compute_step Hs. unfold ds_of in *. rewrite D. cbn -[Z.add Z.mul]. rewrite ?orb_false_r, ?andb_false_r, ?orb_false_r.
      split; [|split].
      + rewrite upd_same. apply sh_c0; auto. left. auto.
      + constructor; cbn; intros; auto using upd_other;
          try (left; reflexivity); try (left; split; [reflexivity | intros; reflexivity]).
      + constructor; try gf HG; try (apply recl_keep; reflexivity); cbn; auto; try discriminate;
          try (intros; discriminate).
        * apply gmb_newds; [rewrite D|]; discriminate.
        * apply asleep_keep.
        * apply full_keep.
    - (* DETACHED meanwhile: nothing to do *)
      assert (Rl : released (gh x) = true) by (apply (g_rel _ HG); auto).
      compute_step Hs. unfold ds_of in *. rewrite D. cbn -[Z.add Z.mul]. rewrite ?orb_false_r, ?andb_false_r, ?orb_false_r.
      split; [|split].
      + rewrite upd_same. apply sh_tdonew; auto. split; auto.
      + constructor; cbn; intros; auto using upd_other;
          try (left; reflexivity); try (left; split; [reflexivity | intros; reflexivity]).
      + constructor; try gf HG; try (apply recl_keep; reflexivity); cbn; auto; try discriminate;
          try (intros; discriminate).
        * apply gmb_newds; [rewrite D|]; discriminate.
        * apply asleep_keep.
        * apply full_keep.
  Qed.

  Lemma case_tread j : stk (base x) t = [CLoadC (c_res tgt) 5; FC (TReadRes j)] -> t = tgt -> run x t ->
    mb (gh x) = MBTaken j tgt -> woken (gh x) = false -> gave (gh x) = false -> j <> tgt -> tfin x ->
    step_goal x t.
  Proof.
    intros Hs Et R E W Gv Nj TF. compute_step Hs. split; [|split].
    - rewrite upd_same. apply sh_tgive; auto. cbn.
      destruct TF as [Fn _]. destruct (gfin (gh x)) as [R0|] eqn:F; [|contradiction].
      f_equal. symmetry. exact (g_fin _ HG _ F).
    - rely_same.
    - keepG.
  Qed.

  Lemma case_tgive j v : stk (base x) t = [CStoreC (c_res j) v 5; FC (TGave j)] -> t = tgt -> run x t ->
    mb (gh x) = MBTaken j tgt -> woken (gh x) = false -> gave (gh x) = false -> j <> tgt -> tfin x ->
    gfin (gh x) = Some v -> step_goal x t.
  Proof.
    intros Hs Et R E W Gv Nj TF Fv. compute_step Hs. split; [|split].
    - rewrite upd_same. apply sh_tready; auto.
    - constructor; cbn; intros; auto using upd_other;
        try (left; reflexivity); try (left; split; [reflexivity | intros; reflexivity]).
      right. repeat split; auto. exists j. split; [congruence|]. split.
      + left. split; auto. exists v. split; auto. unfold gm. cbn. apply upd_same.
      + intros u N. unfold gm. cbn. apply upd_other. unfold c_res. lia.
    - constructor; try gf HG; try (apply recl_keep; reflexivity); cbn; auto.
      + intros R0 Q. unfold gm. cbn. rewrite upd_other by (unfold c_res, tgt in *; lia). now apply (g_fin _ HG).
      + apply asleep_keep.
      + apply full_keep.
      + intros _. eauto.
  Qed.

  Lemma sleeper_blocked j u : mb (gh x) = MBTaken j u -> woken (gh x) = false -> blocked (gm x) j = true.
  Proof.
    intros E W. destruct (g_asleep _ HG _ _ E W) as [X HX]. pose proof (HS j) as H. rewrite HX in H.
    inversion H; subst. match goal with B : blocked _ _ = negb _ |- _ => rewrite B, W end. reflexivity.
  Qed.

  Lemma sched_rwk j : mb (gh x) = MBTaken j t -> woken (gh x) = false ->
    (j <> tgt -> nostolen x -> gave (gh x) = true) ->
    true = woken (gh x) /\
    (forall u : nat, u <> t -> upd (blocked (mem (base x))) j false u = blocked (gm x) u) \/
    woken (gh x) = false /\ true = true /\ mb (gh x) = mb (gh x) /\
    (exists s : nat, mb (gh x) = MBTaken s t /\ (s <> tgt -> nostolen x -> gave (gh x) = true) /\
       upd (blocked (mem (base x))) j false s = false /\
       (forall u : nat, u <> t -> u <> s -> upd (blocked (mem (base x))) j false u = blocked (gm x) u)).
  Proof.
    intros E W Gv. right. repeat split; auto. exists j. repeat split; auto.
    - apply upd_same.
    - intros u _ N. now apply upd_other.
  Qed.

  Lemma sched_rfst j u : mb (gh x) = MBTaken j t -> woken (gh x) = false ->
    upd (fstate (mem (base x))) j ST_READY u = fstate (gm x) u \/
    (mb (gh x) = MBTaken u t /\ woken (gh x) = false).
  Proof.
    intros E W. destruct (Nat.eq_dec u j) as [->|N]; [right; auto | left; now apply upd_other].
  Qed.

  Lemma recl_sched j s1 m' g' fx' : mb (gh x) = MBTaken j t -> woken (gh x) = false -> t <> tgt ->
    cell m' c_recl = cell (mem (base x)) c_recl ->
    fstate m' = upd (fstate (mem (base x))) j ST_READY ->
    gfin g' = gfin (gh x) -> released g' = released (gh x) ->
    let x' := {| base := {| mem := m'; stk := upd (stk (base x)) t s1; nthr := nthr (base x); grd := grd (base x); fxd := fx' |};
                 gh := g' |} in
    cell (mem (base x')) c_recl = 0 \/
    (cell (mem (base x')) c_recl = 1 /\ upd (stk (base x)) t s1 tgt = [] /\
     upd (fstate (mem (base x))) j ST_READY tgt = ST_DONE /\ tfin x').
  Proof.
    intros E W Nt C F A B x'. destruct (g_asleep _ HG _ _ E W) as [X HX].
    destruct (g_recl _ HG) as [R|[R [E0 [D [T1 T2]]]]].
    - left. cbn. rewrite C. exact R.
    - right. cbn. rewrite C. unfold tfin, x'. cbn. rewrite A, B. repeat split; auto.
      + rewrite upd_other; auto.
      + rewrite upd_other; auto. intros Q. rewrite <- Q in HX. congruence.
  Qed.

  Lemma case_tready j : stk (base x) t = [FStWrite j ST_READY; FC (TReady j)] -> t = tgt -> run x t ->
    mb (gh x) = MBTaken j tgt -> woken (gh x) = false -> gave (gh x) = true -> j <> tgt -> tfin x ->
    step_goal x t.
  Proof.
    intros Hs Et R E W Gv Nj TF. pose proof (sleeper_blocked _ _ E W) as Bj. unfold gm in Bj.
    destruct R as [R1 [R2 R3]]. unfold gm in *.
    compute_step Hs. unfold wake. cbn -[Z.add Z.mul]. rewrite Bj. cbn -[Z.add Z.mul].
    split; [|split].
    - rewrite upd_same. apply sh_tdonew; auto.
      unfold run, gm. cbn. rewrite !upd_other by congruence. auto.
    - constructor; cbn; intros; auto using upd_other;
        try (left; reflexivity); try (left; split; [reflexivity | intros; reflexivity]).
      + apply sched_rwk; auto. congruence.
      + apply sched_rfst; auto. congruence.
    - constructor; try gf HG; try (apply recl_keep; reflexivity); cbn; auto; try discriminate;
        try (intros; discriminate).
      + apply full_keep.
      + intros _. eauto.
      + left. now apply recl_zero_tgt.
  Qed.

  Ltac keepG_t := constructor; try gf HG;
    [apply asleep_keep | apply full_keep | left; now apply recl_zero_tgt].

  Lemma case_tdonew : stk (base x) t = [FStWrite tgt ST_DONE; FC TDoneW] -> t = tgt -> run x t -> tfin x ->
    step_goal x t.
  Proof.
    intros Hs Et [R1 [R2 R3]] TF. compute_step Hs. split; [|split].
    - rewrite upd_same. apply sh_ty1; auto. unfold tdone_st, gm. cbn. rewrite <- Et. auto.
    - constructor; cbn; intros; auto using upd_other;
        try (left; reflexivity); try (left; split; [reflexivity | intros; reflexivity]).
      left. apply upd_other. congruence.
    - keepG_t.
  Qed.

  Lemma case_ty1 : stk (base x) t = [FStRead tgt; FC TY1] -> t = tgt -> tdone_st x -> step_goal x t.
  Proof.
    intros Hs Et TD. compute_step Hs. split; [|split].
    - rewrite upd_same. now apply sh_ty2.
    - rely_same.
    - keepG_t.
  Qed.
  Lemma case_ty2 : stk (base x) t = [YNext ST_RUNNING; FC TY2] -> t = tgt -> tdone_st x -> step_goal x t.
  Proof.
    intros Hs Et TD. compute_step Hs. split; [|split].
    - rewrite upd_same. now apply sh_ty3.
    - rely_same.
    - keepG_t.
  Qed.
  Lemma case_ty3 : stk (base x) t = [FStRead tgt; FC TY3] -> t = tgt -> tdone_st x -> step_goal x t.
  Proof.
    intros Hs Et TD. compute_step Hs. split; [|split].
    - rewrite upd_same. now apply sh_ty4.
    - rely_same.
    - keepG_t.
  Qed.
  Lemma case_ty4 : stk (base x) t = [FStRead tgt; FC TY4] -> t = tgt -> tdone_st x -> step_goal x t.
  Proof.
    intros Hs Et TD. compute_step Hs. split; [|split].
    - rewrite upd_same. now apply sh_ty5.
    - rely_same.
    - keepG_t.
  Qed.
  Lemma case_ty5 : stk (base x) t = [FStRead tgt; FC TY5] -> t = tgt -> tdone_st x -> step_goal x t.
  Proof.
    intros Hs Et TD. pose proof (recl_zero_tgt Et) as RZ. unfold reclaims in RZ.
    destruct TD as [F [B [Sl TF]]].
    compute_step Hs. split; [|split].
    - rewrite upd_same. apply sh_done.
    - rely_same.
    - constructor; try gf HG.
      + apply asleep_keep.
      + apply full_keep.
      + right. unfold reclaims, gm. cbn. rewrite RZ. repeat split; auto.
        * rewrite <- Et. apply upd_same.
        * apply TF.
        * apply TF.
  Qed.

  (* ---- fiber_join / fiber_tryjoin / fiber_detach ---- *)
  Lemma idle_client x' : t <> tgt -> run x' t -> idle x' t.
  Proof. intros N R. split; auto. intros Q. contradiction. Qed.

  Lemma late_upd b : (b = true -> gdet (gh x) = true) ->
    forall u, upd (late (gh x)) t b u = true -> gdet (gh x) = true.
  Proof.
    intros Hb u. unfold upd. destruct (Nat.eqb u t); auto. apply (g_late _ HG).
  Qed.

  Lemma case_jload p k : stk (base x) t = [CLoadC c_ds 5; FC (JLoaded p k)] -> t <> tgt -> run x t -> step_goal x t.
  Proof.
    intros Hs Nt R. compute_step Hs.
    destruct (Z.eqb_spec (cell (mem (base x)) c_ds) D_DET) as [Z|NZ].
    - split_fin. cbn -[Z.add Z.mul]. rewrite ?app_nil_r. split; [|split].
      + rewrite upd_same. apply start_shape. now apply idle_client.
      + rely_same.
      + constructor; try gf HG; [apply asleep_keep | apply full_keep | now apply late_upd | apply recl_keep; reflexivity].
    - cbn -[Z.add Z.mul]. split; [|split].
      + rewrite upd_same. now apply sh_jxchg.
      + rely_same.
      + constructor; try gf HG; [apply asleep_keep | apply full_keep | now apply late_upd | apply recl_keep; reflexivity].
  Qed.

  Lemma case_trl1 p k : stk (base x) t = [CLoadC c_ds 5; FC (TrL1 p k)] -> t <> tgt -> run x t -> step_goal x t.
  Proof.
    intros Hs Nt R. compute_step Hs.
    destruct (Z.eqb_spec (cell (mem (base x)) c_ds) D_DET) as [Z|NZ].
    - split_fin. cbn -[Z.add Z.mul]. rewrite ?app_nil_r. split; [|split].
      + rewrite upd_same. apply start_shape. now apply idle_client.
      + rely_same.
      + constructor; try gf HG; [apply asleep_keep | apply full_keep | now apply late_upd | apply recl_keep; reflexivity].
    - cbn -[Z.add Z.mul]. split; [|split].
      + rewrite upd_same. now apply sh_trl2.
      + rely_same.
      + constructor; try gf HG; [apply asleep_keep | apply full_keep | now apply late_upd | apply recl_keep; reflexivity].
  Qed.

  Lemma case_trl2 p k : stk (base x) t = [CLoadC c_ds 5; FC (TrL2 p k)] -> t <> tgt -> run x t -> step_goal x t.
  Proof.
    intros Hs Nt R. compute_step Hs.
    destruct (Z.eqb_spec (cell (mem (base x)) c_ds) D_WFJ) as [Z|NZ].
    - cbn -[Z.add Z.mul]. split; [|split].
      + rewrite upd_same. apply sh_trx; auto. unfold ds_of. cbn. rewrite Z. discriminate.
      + rely_same.
      + keepG.
    - split_fin. cbn -[Z.add Z.mul]. rewrite ?app_nil_r. split; [|split].
      + rewrite upd_same. apply start_shape. now apply idle_client.
      + rely_same.
      + keepG.
  Qed.

  Lemma case_jmail p k : stk (base x) t = [CLoadC (c_res t) 5; FC (JMail p k)] -> t <> tgt -> run x t ->
    taken_by_any x t -> woken (gh x) = true -> mail_val x t -> na (gh x) = O -> late (gh x) t = false ->
    step_goal x t.
  Proof.
    intros Hs Nt R T W Ml NA LT. compute_step Hs. split; [|split].
    - rewrite upd_same. apply sh_jclear; auto. intros NS. destruct (Ml NS) as [R0 [A B]]. cbn.
      unfold gm in B. rewrite A. f_equal. auto.
    - rely_same.
    - keepG.
  Qed.


  Lemma case_jchk p k : stk (base x) t = [CLoadC (c_res t) 5; FC (JChk p k)] -> t <> tgt -> run x t ->
    taken_by_any x t -> woken (gh x) = true -> mail_ok x t -> na (gh x) = O -> late (gh x) t = false ->
    step_goal x t.
  Proof.
    intros Hs Nt R T W Ml NA LT. compute_step Hs.
    match goal with |- context [?v =? SENT] => destruct (Z.eqb_spec v SENT) as [Z|NZ] end;
      cbn -[Z.add Z.mul]; (split; [|split]).
    - rewrite upd_same. now apply sh_jdetd.
    - rely_same.
    - keepG.
    - rewrite upd_same. apply sh_jmail; auto. intros NS. destruct (Ml NS) as [Q|Q]; [exact Q|].
      unfold gm in Q. contradiction.
    - rely_same.
    - keepG.
  Qed.

  Lemma case_jdetd p k : stk (base x) t = [CStoreC (c_res t) 0 5; FC (JDetd p k)] -> t <> tgt -> run x t ->
    step_goal x t.
  Proof.
    intros Hs Nt R. compute_step Hs. split_fin. cbn -[Z.add Z.mul]. rewrite ?app_nil_r. split; [|split].
    - rewrite upd_same. apply start_shape. now apply idle_client.
    - constructor; cbn; intros; auto using upd_other;
        try (left; reflexivity); try (left; split; [reflexivity | intros; reflexivity]).
      left. split; auto. intros u N. apply upd_other. lia.
    - constructor; try gf HG; try (apply recl_keep; reflexivity); cbn; auto.
      + intros R0 Q. rewrite upd_other by (unfold tgt in *; lia). now apply (g_fin _ HG).
      + apply asleep_keep.
      + apply full_keep.
  Qed.

  Lemma case_dsent p k j : stk (base x) t = [CStoreC (c_res j) SENT 5; FC (DSent p k j)] -> t <> tgt -> run x t ->
    mb (gh x) = MBTaken j t -> woken (gh x) = false -> gave (gh x) = false -> j <> tgt -> step_goal x t.
  Proof.
    intros Hs Nt R E W Gv Nj. compute_step Hs. split; [|split].
    - rewrite upd_same. apply sh_dready; auto.
    - constructor; cbn; intros; auto using upd_other;
        try (left; reflexivity); try (left; split; [reflexivity | intros; reflexivity]).
      right. repeat split; auto. exists j. split; auto. split.
      + right. split; auto. unfold gm. cbn. apply upd_same.
      + intros u N. unfold gm. cbn. apply upd_other. unfold c_res. lia.
    - constructor; try gf HG; try (apply recl_keep; reflexivity); cbn; auto.
      + intros R0 Q. unfold gm. cbn. rewrite upd_other by (unfold c_res, tgt in *; lia). now apply (g_fin _ HG).
      + apply asleep_keep.
      + apply full_keep.
      + intros _. eauto.
  Qed.

  Lemma case_jreadres p k : stk (base x) t = [CLoadC (c_res tgt) 5; FC (JReadRes p k)] -> t <> tgt -> run x t ->
    gfin (gh x) <> None -> released (gh x) = true -> (is_reg (mb (gh x)) = true -> jwr (gh x) = true) ->
    step_goal x t.
  Proof.
    intros Hs Nt R Fn Rl Rg. compute_step Hs. split; [|split].
    - rewrite upd_same. apply sh_c0; auto. right; left. repeat split; auto.
      exists p, k, (cell (mem (base x)) (c_res tgt)). split; auto. cbn.
      destruct (gfin (gh x)) as [R0|] eqn:F; [|contradiction]. f_equal. symmetry. exact (g_fin _ HG _ F).
    - rely_same.
    - keepG.
  Qed.

  Lemma case_jclear p k v : stk (base x) t = [CStoreC (c_res t) 0 5; FC (JCleared p k v)] -> t <> tgt -> run x t ->
    taken_by_any x t -> woken (gh x) = true -> (nostolen x -> gfin (gh x) = Some v) ->
    na (gh x) = O -> late (gh x) t = false -> step_goal x t.
  Proof.
    intros Hs Nt R T W Vl NA LT. compute_step Hs. split_fin. cbn -[Z.add Z.mul]. rewrite ?app_nil_r.
    rewrite LT, NA, ?orb_false_r. split; [|split].
    - rewrite upd_same. apply start_shape. now apply idle_client.
    - constructor; cbn; intros; auto using upd_other;
        try (left; reflexivity); try (left; split; [reflexivity | intros; reflexivity]).
      left. split; auto. intros u N. apply upd_other. lia.
    - constructor; try gf HG; try (apply recl_keep; reflexivity); cbn; auto; try discriminate;
        try (intros; discriminate).
      + intros R0 Q. rewrite upd_other by (unfold tgt in *; lia). now apply (g_fin _ HG).
      + apply asleep_keep.
      + apply full_keep.
      + pose proof (g_len _ HG) as Ln. rewrite NA in Ln. cbn in Ln. now rewrite Ln.
      + split; auto. intros _. destruct T as [u Q]. exists t, u. auto.
      + intros e0 [<-|I]; [exact Vl | now apply (g_succ _ HG)].
  Qed.

  Lemma case_jready p k r j : stk (base x) t = [FStWrite j ST_READY; FC (JReady p k r j)] -> t <> tgt -> run x t ->
    mb (gh x) = MBTaken j t -> woken (gh x) = false -> gfin (gh x) = Some r -> nb (gh x) = O ->
    late (gh x) t = false -> (j <> tgt -> stolen_j (gh x) = true) -> step_goal x t.
  Proof.
    intros Hs Nt R E W Fr NB LT SJ. pose proof (sleeper_blocked _ _ E W) as Bj. unfold gm in Bj.
    destruct (g_taken _ HG _ _ E) as [Njt _].
    destruct R as [R1 [R2 R3]]. unfold gm in *.
    compute_step Hs. unfold wake. cbn -[Z.add Z.mul]. rewrite Bj. cbn -[Z.add Z.mul].
    split_fin. cbn -[Z.add Z.mul]. rewrite ?app_nil_r. rewrite LT, NB, ?orb_false_r.
    split; [|split].
    - rewrite upd_same. apply start_shape. apply idle_client; auto.
      unfold run, gm. cbn. rewrite !upd_other by congruence. auto.
    - constructor; cbn; intros; auto using upd_other;
        try (left; reflexivity); try (left; split; [reflexivity | intros; reflexivity]).
      + apply sched_rwk; auto. intros N NS. unfold nostolen in NS. rewrite (SJ N) in NS. discriminate.
      + apply sched_rfst; auto.
      + right. eauto.
    - constructor; try gf HG; try (apply recl_keep; reflexivity);
        try (eapply recl_sched; eauto; reflexivity); cbn; auto; try discriminate;
        try (intros; discriminate).
      + apply full_keep.
      + intros _. eauto.
      + pose proof (g_len _ HG) as Ln. rewrite NB in Ln. rewrite Ln. lia.
      + split; auto. intros _. exists j, t. auto.
      + intros e0 [<-|I]; [intros _; exact Fr | now apply (g_succ _ HG)].
  Qed.

  Lemma case_dready p k j : stk (base x) t = [FStWrite j ST_READY; FC (DReady p k j)] -> t <> tgt -> run x t ->
    mb (gh x) = MBTaken j t -> woken (gh x) = false -> (j <> tgt -> gave (gh x) = true) -> step_goal x t.
  Proof.
    intros Hs Nt R E W GvJ. pose proof (sleeper_blocked _ _ E W) as Bj. unfold gm in Bj.
    destruct (g_taken _ HG _ _ E) as [Njt _].
    destruct R as [R1 [R2 R3]]. unfold gm in *.
    compute_step Hs. unfold wake. cbn -[Z.add Z.mul]. rewrite Bj. cbn -[Z.add Z.mul].
    split_fin. cbn -[Z.add Z.mul]. rewrite ?app_nil_r. rewrite ?orb_false_r.
    split; [|split].
    - rewrite upd_same. apply start_shape. apply idle_client; auto.
      unfold run, gm. cbn. rewrite !upd_other by congruence. auto.
    - constructor; cbn; intros; auto using upd_other;
        try (left; reflexivity); try (left; split; [reflexivity | intros; reflexivity]).
      + apply sched_rwk; auto.
      + apply sched_rfst; auto.
    - constructor; try gf HG; try (apply recl_keep; reflexivity);
        try (eapply recl_sched; eauto; reflexivity); cbn; auto; try discriminate;
        try (intros; discriminate).
      + apply full_keep.
      + intros _. eauto.
      + intros _. right. eauto.
      + intros u _. apply orb_true_r.
  Qed.

  Ltac xchg_G := constructor; try gf HG; try (apply recl_keep; reflexivity);
          try (apply recl_keep2; [reflexivity | reflexivity | cbn; auto |
                                  cbn; intros Hrel; rewrite ?Hrel, ?orb_true_r; reflexivity]);
          cbn; auto; try discriminate; try (intros; discriminate).
  Ltac xchg_rely := constructor; cbn; intros; auto using upd_other;
          try (left; reflexivity); try (left; split; [reflexivity | intros; reflexivity]);
          try (match goal with H : ?b = true |- _ => rewrite H; reflexivity end).

  Lemma case_jxchg p k : stk (base x) t = [CXchgC c_ds D_WTJ 5; FC (JXchg p k)] -> t <> tgt -> run x t ->
    step_goal x t.
  Proof.
    intros Hs Nt R. pose proof (g_mb _ HG) as GM.
    destruct (g_ds _ HG) as [D|[D|[D|D]]].
    - (* NONE: register in the slot and sleep *)
      assert (E : mb (gh x) = MBNone).
      { destruct (mb (gh x)); auto; destruct GM as [GM _]; contradiction. }
      assert (NTk : forall s' u', mb (gh x) <> MBTaken s' u') by (intros s' u'; rewrite E; discriminate).
      destruct (pre_take NTk) as [W [Gv [NA [NB Q]]]].
      destruct Q as [GD LT]; [rewrite E; discriminate|].
      compute_step Hs. unfold ds_of in *. rewrite D, E. cbn -[Z.add Z.mul]. rewrite ?orb_false_r, ?andb_false_r, ?orb_false_r.
      split; [|split].
      + rewrite upd_same. apply sh_sw; auto. right. repeat split; eauto.
      + xchg_rely.
      + xchg_G.
        * split; [discriminate|]. rewrite E in GM. unfold ji_of in GM. tauto.
        * intros _. apply orb_true_r.
        * rewrite W. discriminate.
        * rewrite Gv. discriminate.
        * rewrite GD. discriminate.
        * rewrite NA. split; [lia | intros; lia].
        * rewrite NB. split; [lia | intros; lia].
    - (* WAIT_FOR_JOINER: the target is (or will be) in the slot *)
      assert (Fn : gfin (gh x) <> None) by (apply (g_wfj _ HG); exact D).
      compute_step Hs. unfold ds_of in *. rewrite D. cbn -[Z.add Z.mul]. rewrite ?orb_false_r, ?andb_false_r, ?orb_false_r.
      split; [|split].
      + rewrite upd_same. apply sh_jreadres; auto; cbn.
        * apply orb_true_r.
        * intros Q. rewrite Q. apply orb_true_r.
      + xchg_rely.
      + xchg_G.
        * apply gmb_newds; [rewrite D|]; discriminate.
        * intros _. apply orb_true_r.
        * intros _. apply mb_nn. rewrite D. discriminate.
        * apply asleep_keep.
        * apply full_keep.
        * intros Q. rewrite (g_stj _ HG Q). reflexivity.
    - (* WAIT_TO_JOIN: somebody else is joining *)
      compute_step Hs. unfold ds_of in *. rewrite D. cbn -[Z.add Z.mul]. rewrite ?orb_false_r, ?andb_false_r, ?orb_false_r.
      split_fin. cbn -[Z.add Z.mul]. rewrite ?app_nil_r.
      split; [|split].
      + rewrite upd_same. apply start_shape. now apply idle_client.
      + xchg_rely.
      + xchg_G.
        * apply gmb_newds; [rewrite D|]; discriminate.
        * intros _. apply (g_rel _ HG). auto.
        * apply asleep_keep.
        * apply full_keep.
    - (* DETACHED (after our load): error - but detach_state is now WAIT_TO_JOIN *)
      assert (Rl : released (gh x) = true) by (apply (g_rel _ HG); auto).
      compute_step Hs. unfold ds_of in *. rewrite D. cbn -[Z.add Z.mul]. rewrite ?orb_false_r, ?andb_false_r, ?orb_false_r.
      split_fin. cbn -[Z.add Z.mul]. rewrite ?app_nil_r.
      split; [|split].
      + rewrite upd_same. apply start_shape. now apply idle_client.
      + xchg_rely.
      + xchg_G.
        * apply gmb_newds; [rewrite D|]; discriminate.
        * apply asleep_keep.
        * apply full_keep.
  Qed.

  Lemma case_trx p k : stk (base x) t = [CXchgC c_ds D_WTJ 5; FC (TrX p k)] -> t <> tgt -> run x t ->
    ds_of (base x) <> D_NONE -> step_goal x t.
  Proof.
    intros Hs Nt R Dz. unfold ds_of in Dz. pose proof (mb_nn Dz) as Mn.
    destruct (Z.eqb_spec (cell (mem (base x)) c_ds) D_WFJ) as [D|ND].
    - assert (Fn : gfin (gh x) <> None) by (apply (g_wfj _ HG); exact D).
      compute_step Hs. unfold ds_of in *. rewrite D. cbn -[Z.add Z.mul]. rewrite ?orb_false_r, ?andb_false_r, ?orb_false_r.
      split; [|split].
      + rewrite upd_same. apply sh_jreadres; auto; cbn.
        * apply orb_true_r.
        * intros Q. rewrite Q. apply orb_true_r.
      + xchg_rely.
      + xchg_G.
        * apply gmb_newds; [rewrite D|]; discriminate.
        * intros _. apply orb_true_r.
        * apply asleep_keep.
        * apply full_keep.
        * intros Q. rewrite (g_stj _ HG Q). reflexivity.
    - assert (Rl : released (gh x) = true).
      { apply (g_rel _ HG). unfold ds_of. destruct (g_ds _ HG) as [D|[D|[D|D]]]; unfold ds_of in D; auto; contradiction. }
      compute_step Hs. unfold ds_of in *.
      destruct (Z.eqb_spec (cell (mem (base x)) c_ds) D_NONE) as [D0|_]; [contradiction|].
      destruct (Z.eqb_spec (cell (mem (base x)) c_ds) D_WFJ) as [D1|_]; [contradiction|].
      cbn -[Z.add Z.mul]. rewrite ?orb_false_r, ?andb_false_r, ?orb_false_r.
      split_fin. cbn -[Z.add Z.mul]. rewrite ?app_nil_r.
      split; [|split].
      + rewrite upd_same. apply start_shape. now apply idle_client.
      + xchg_rely.
      + xchg_G.
        * apply gmb_newds; [exact Dz | discriminate].
        * apply asleep_keep.
        * apply full_keep.
  Qed.

  Lemma case_dx p k : stk (base x) t = [CXchgC c_ds D_DET 5; FC (DX p k)] -> t <> tgt -> run x t -> step_goal x t.
  Proof.
    intros Hs Nt R. pose proof (g_mb _ HG) as GM.
    destruct (g_ds _ HG) as [D|[D|[D|D]]].
    - (* NONE: detached before anybody waits *)
      assert (E : mb (gh x) = MBNone).
      { destruct (mb (gh x)); auto; destruct GM as [GM _]; contradiction. }
      assert (NTk : forall s' u', mb (gh x) <> MBTaken s' u') by (intros s' u'; rewrite E; discriminate).
      destruct (pre_take NTk) as [W [Gv [NA [NB Q]]]].
      destruct Q as [GD LT]; [rewrite E; discriminate|].
      compute_step Hs. unfold ds_of in *. rewrite D, E. cbn -[Z.add Z.mul]. rewrite ?orb_false_r, ?andb_false_r, ?orb_false_r.
      split_fin. cbn -[Z.add Z.mul]. rewrite ?app_nil_r.
      split; [|split].
      + rewrite upd_same. apply start_shape. now apply idle_client.
      + xchg_rely.
      + xchg_G.
        * split; [discriminate|]. rewrite E in GM. unfold ji_of in GM. tauto.
        * intros _. apply orb_true_r.
        * rewrite W. discriminate.
        * rewrite Gv. discriminate.
        * intros u _. apply orb_true_r.
        * rewrite NA. split; [lia | intros; lia].
        * rewrite NB. split; [lia | intros; lia].
    - (* WAIT_FOR_JOINER: release the finished fiber *)
      compute_step Hs. unfold ds_of in *. rewrite D. cbn -[Z.add Z.mul]. rewrite ?orb_false_r, ?andb_false_r, ?orb_false_r.
      split; [|split].
      + rewrite upd_same. apply sh_c0; auto. right; right. repeat split; eauto; cbn.
        * apply orb_true_r.
        * intros Q. rewrite Q. apply orb_true_r.
      + xchg_rely.
      + xchg_G.
        * apply gmb_newds; [rewrite D|]; discriminate.
        * intros _. apply orb_true_r.
        * intros _. apply mb_nn. rewrite D. discriminate.
        * apply asleep_keep.
        * apply full_keep.
        * intros Q. rewrite (g_std _ HG Q). reflexivity.
    - (* WAIT_TO_JOIN: a joiner is (or was) involved *)
      compute_step Hs. unfold ds_of in *. rewrite D. cbn -[Z.add Z.mul]. rewrite ?orb_false_r, ?andb_false_r, ?orb_false_r.
      split; [|split].
      + rewrite upd_same. apply sh_c0; auto. right; right. repeat split; eauto; cbn.
        * apply orb_true_r.
        * intros Q. rewrite Q. apply orb_true_r.
      + xchg_rely.
      + xchg_G.
        * apply gmb_newds; [rewrite D|]; discriminate.
        * intros _. apply orb_true_r.
        * intros _. apply mb_nn. rewrite D. discriminate.
        * apply asleep_keep.
        * apply full_keep.
        * intros Q. rewrite (g_std _ HG Q). reflexivity.
    - (* already DETACHED *)
      compute_step Hs. unfold ds_of in *. rewrite D. cbn -[Z.add Z.mul]. rewrite ?orb_false_r, ?andb_false_r, ?orb_false_r.
      split_fin. cbn -[Z.add Z.mul]. rewrite ?app_nil_r.
      split; [|split].
      + rewrite upd_same. apply start_shape. now apply idle_client.
      + xchg_rely.
      + xchg_G.
        * apply gmb_newds; [rewrite D|]; discriminate.
        * intros _. apply orb_true_r.
        * intros _. apply mb_nn. rewrite D. discriminate.
        * apply asleep_keep.
        * apply full_keep.
        * intros Q. rewrite (g_std _ HG Q). reflexivity.
  Qed.

  Theorem step_ok : step_goal x t.
  Proof.
    pose proof (HS t) as H. remember (stk (base x) t) as stkt eqn:Hs. symmetry in Hs.
    destruct H.
    - eapply case_start; eauto.
    - exfalso. now apply st_nonempty.
    - eapply case_y1; eauto.
    - eapply case_y2; eauto.
    - eapply case_tstore; eauto.
    - eapply case_tload; eauto.
    - eapply case_txchg; eauto.
    - eapply case_sw; eauto.
    - eapply case_s1; eauto.
    - eapply case_s2; eauto.
    - eapply case_s3; eauto.
    - eapply case_s4; eauto.
    - eapply case_s5; eauto.
    - eapply case_s6; eauto.
    - eapply case_s7; eauto.
    - eapply case_s8; eauto.
    - eapply case_s9; eauto.
    - eapply case_s10; eauto.
    - eapply case_c0; eauto.
    - eapply case_c1; eauto.
    - eapply case_c2; eauto.
    - eapply case_tread; eauto.
    - eapply case_tgive; eauto.
    - eapply case_tready; eauto.
    - eapply case_tdonew; eauto.
    - eapply case_ty1; eauto.
    - eapply case_ty2; eauto.
    - eapply case_ty3; eauto.
    - eapply case_ty4; eauto.
    - eapply case_ty5; eauto.
    - eapply case_jload; eauto.
    - eapply case_jxchg; eauto.
    - eapply case_jchk; eauto.
    - eapply case_jdetd; eauto.
    - eapply case_jmail; eauto.
    - eapply case_jclear; eauto.
    - eapply case_jreadres; eauto.
    - eapply case_jready; eauto.
    - eapply case_trl1; eauto.
    - eapply case_trl2; eauto.
    - eapply case_trx; eauto.
    - eapply case_dx; eauto.
    - eapply case_dsent; eauto.
    - eapply case_dready; eauto.
  Qed.
End Step.

Theorem step_inv x t : Inv x -> status_of (base x) t = SReady -> Inv (istep x t).
Proof.
  intros [HG HS] St. destruct (step_ok x t HG HS St) as [A [B C]]. constructor; [exact C|].
  intros u. destruct (Nat.eq_dec u t) as [->|N]; [exact A|].
  rewrite (r_stk _ _ _ B u N). exact (stable x (istep x t) t u _ HG B N eq_refl (HS u)).
Qed.

Lemma init_inv g progs : Inv (iinit true g progs).
Proof.
  split.
  - constructor; cbn; auto; try discriminate; try (intros; discriminate); try lia.
    all: try (split; [lia | intros; lia]).
    all: try (intros; contradiction).
    intros [Q|[Q|[Q|[s [u Q]]]]]; discriminate.
  - intros t. cbn. constructor; cbn; auto. intros _. split; [reflexivity | discriminate].
Qed.

Theorem ireach_inv g progs x : ireach true g progs x -> Inv x.
Proof. induction 1; [apply init_inv | now apply step_inv]. Qed.


(* ------------------------------------------------------------------ *)
(* Property lemmas (used by Properties_C04.v).                         *)
Lemma nostolen_of_flags x : G x -> jwr (gh x) = false -> nostolen x.
Proof.
  intros HG J. unfold nostolen.
  destruct (stolen_j (gh x)) eqn:E; auto. rewrite (g_stj _ HG E) in J. discriminate.
Qed.

Lemma success_value_of_inv x : Inv x -> jwr (gh x) = false ->
  forall t v f, In (t, v, f) (gsucc (gh x)) -> f = Some v.
Proof.
  intros [HG _] J t v f I. exact (g_succ _ HG _ I (nostolen_of_flags x HG J)).
Qed.

Lemma one_success_of_inv x : Inv x -> jwr (gh x) = false -> (length (gsucc (gh x)) <= 1)%nat.
Proof.
  intros [HG _] J. rewrite (g_len _ HG).
  destruct (g_na _ HG) as [A1 A2]. destruct (g_nb _ HG) as [B1 B2].
  destruct (Nat.eq_dec (na (gh x)) 1) as [EA|NA]; [|lia].
  destruct (Nat.eq_dec (nb (gh x)) 1) as [EB|NB]; [|lia].
  exfalso. destruct A2 as [s [u [Q N]]]; [lia|]. destruct B2 as [s' [u' [Q' S]]]; [lia|].
  assert (s' = s) by congruence. subst s'. rewrite (g_stj _ HG (S N)) in J. discriminate.
Qed.

Lemma detached_fails_of_inv x : Inv x -> bad_late (gh x) = false.
Proof. intros [HG _]. exact (g_badlate _ HG). Qed.

Lemma reclaim_of_inv x : Inv x ->
  reclaims (base x) = 0 \/
  (reclaims (base x) = 1 /\ stk (base x) tgt = [] /\ fstate (mem (base x)) tgt = ST_DONE /\
   gfin (gh x) <> None /\ released (gh x) = true).
Proof. intros [HG _]. destruct (g_recl _ HG) as [R|[R [A [B [C D]]]]]; [left | right]; auto. Qed.

(* a detach that returned SUCCESS leaves the slot dead: nothing is or will be published in it *)
Lemma detached_slot_dead x : Inv x -> gdet (gh x) = true ->
  ji_of (base x) = 0 /\ (mb (gh x) = MBNever \/ exists s u, mb (gh x) = MBTaken s u).
Proof.
  intros [HG _] D. pose proof (g_mb _ HG) as GM. destruct (g_det _ HG D) as [E|[s [u E]]]; rewrite E in GM.
  - split; [tauto | now left].
  - split; [tauto | right; eauto].
Qed.

(* once the target has been freed: it never runs again, and nobody is still in the
   middle of the waker's accesses to it (to_schedule->state = READY; schedule) *)
Lemma reclaimed_quiet x : Inv x -> reclaims (base x) <> 0 ->
  stk (base x) tgt = [] /\
  forall u X, stk (base x) u <> [FStWrite tgt ST_READY; FC X].
Proof.
  intros [HG HS] NZ. destruct (g_recl _ HG) as [R|[_ [E _]]]; [contradiction|]. split; auto.
  intros u X Hs. pose proof (HS u) as H. rewrite Hs in H.
  assert (A : exists w, mb (gh x) = MBTaken tgt w /\ woken (gh x) = false).
  { inversion H; subst; eauto. }
  destruct A as [w [Q W]]. destruct (g_asleep _ HG _ _ Q W) as [X0 HX]. congruence.
Qed.
