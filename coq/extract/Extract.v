(* Extraction of the executable models for the correspondence run.
   Only ExtrOcamlBasic (bool, option, unit, list, prod, sumbool -> OCaml's);
   no Extract Constant.  nat, positive, N, Z stay the extracted inductives. *)
Require Extraction.
Require ExtrOcamlBasic.
From LF Require Ring.
Separate Extraction Ring.run_case.
