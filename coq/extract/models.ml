let table = [
  ("ring", Ring.run_case);
]
