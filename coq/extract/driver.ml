(* Reads one case (a line of integers) per line on stdin, runs the extracted
   model named by argv[1], prints the resulting integers on one line. *)
open BinNums
let rec pos_of_int n =
  if n = 1 then Coq_xH
  else if n land 1 = 1 then Coq_xI (pos_of_int (n lsr 1)) else Coq_xO (pos_of_int (n lsr 1))
let z_of_int n = if n = 0 then Z0 else if n > 0 then Zpos (pos_of_int n) else Zneg (pos_of_int (-n))
let rec int_of_pos = function
  | Coq_xH -> 1 | Coq_xO p -> 2 * int_of_pos p | Coq_xI p -> 2 * int_of_pos p + 1
let int_of_z = function Z0 -> 0 | Zpos p -> int_of_pos p | Zneg p -> - (int_of_pos p)

let models : (string * (coq_Z list -> coq_Z list)) list = Models.table

let () =
  let name = Sys.argv.(1) in
  let f = try Stdlib.List.assoc name models with Not_found -> (prerr_endline ("unknown model " ^ name); exit 2) in
  let buf = Buffer.create 65536 in
  (try
    while true do
      let line = input_line stdin in
      let toks = Stdlib.List.filter (fun s -> s <> "") (String.split_on_char ' ' (String.trim line)) in
      let ints = Stdlib.List.map (fun s -> z_of_int (int_of_string s)) toks in
      let out = f ints in
      Buffer.clear buf;
      Stdlib.List.iteri (fun i z -> if i > 0 then Buffer.add_char buf ' '; Buffer.add_string buf (string_of_int (int_of_z z))) out;
      Buffer.add_char buf '\n';
      print_string (Buffer.contents buf)
    done
  with End_of_file -> ())
