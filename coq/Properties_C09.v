(* C09 -- sleeping fibers wake exactly once and never early.

   Models: coq/SleepTree.v (waiter_insert / waiter_remove_less_than),
   coq/SleepArith.v (tick arithmetic of fiber_sleep and of the libc shims, C
   types explicit), coq/SleepTime.v (time base, chain walk with node
   ownership).  The expressions, the statement sequences and the constants are
   REGENERATED from the working tree into coq/gen/SleepGen.v by
   tools/gen/gen_sleep.py; `sleepgen_match` fails to compile when the sources
   contain anything but the shapes analysed here.

   Verdict of the faithful model of the pinned tree (680a3dd + 2 commits):
     sleep_never_early        REFUTED  three ways:
        F-C09a  stale base               sleep_never_early_refuted
        (and the first candidate repair) sleep_inflight_refuted
        F-C09c  32-bit wrap              sleep_wrap_refuted
     sleep_exactly_once       REFUTED    sleep_walk_after_schedule_refuted (F-C09b)
     tree_remove_exact        holds
   With every read of the timer under the sleep lock (cfg_safe), `next` read
   before fiber_manager_schedule (exact walk) and seconds widened before the
   multiplication, the property holds: sleep_never_early_fixed,
   sleep_exactly_once_model, sleep_fix_no_lost_wakeup, sleep_wide_covers_all.
   Which case the CURRENT sources are in is decided by the boolean constants
   current_is_pinned / cfg_safe cfg_cur / walk_cur_fixed (computed from
   SleepGen) and reported by tools/vf/props/C09.py.

   Outside the model: the kernel's timerfd/epoll behaviour (a read returns the
   number of expirations since the last read; level-triggered readiness), the
   relation of expirations to real time, scheduling latency after the wake-up
   (the property is a lower bound).  Guard: tick counters stay below 2^64. *)
From Coq Require Import List ZArith NArith Lia Bool Permutation Sorting.Sorted.
From LF Require Import SleepTree SleepTreeProofs SleepAst SleepArith SleepTime gen.SleepGen.
Import ListNotations.

(* ================= the tree ================= *)
Theorem tree_bst_inv : forall t, bst t ->
  (forall k id, bst (insert t k id)) /\ (forall b, bst (snd (remove_lt t b))).
Proof. exact tree_bst_inv_l. Qed.
Print Assumptions tree_bst_inv.

(* insert stores the new (key, id) and keeps every other node; on an equal key
   the new node goes directly after the head of the chain, otherwise it is a
   new chain at its sorted position *)
Theorem tree_insert_keeps_all : forall t k id,
  Permutation (elems (insert t k id)) ((k, id) :: elems t) /\
  (bst t ->
   ((forall c, In c (flat t) -> fst c <> k) ->
      exists l1 l2, flat t = l1 ++ l2 /\ flat (insert t k id) = l1 ++ (k, [id]) :: l2) /\
   ((exists c, In c (flat t) /\ fst c = k) ->
      exists l1 ch l2, flat t = l1 ++ (k, ch) :: l2 /\
                       flat (insert t k id) = l1 ++ (k, chain_add ch id) :: l2)).
Proof.
  intros t k id. split; [apply insert_elems|]. intros Hb. split.
  - apply insert_flat_new.
  - now apply insert_flat_equal.
Qed.
Print Assumptions tree_insert_keeps_all.

(* calling waiter_remove_less_than(b) until it returns NULL yields exactly the
   chains with key < b, each once, in increasing key order, each chain in its
   `next` order; what remains is exactly the chains with key >= b *)
Theorem tree_remove_exact : forall t b cs t',
  bst t -> drain t b = (cs, t') ->
  cs = filter (fun c => (fst c <? b)%N) (flat t) /\
  flat t' = filter (fun c => negb (fst c <? b)%N) (flat t) /\
  cs ++ flat t' = flat t /\
  StronglySorted klt cs /\
  fst (remove_lt t' b) = None /\ bst t'.
Proof. exact tree_remove_exact_l. Qed.
Print Assumptions tree_remove_exact.

(* ================= tie to the sources ================= *)
Theorem sleepgen_match :
  (* the sleep_ms expression is one of the two analysed shapes, its types are the expected ones *)
  (sleep_ms_expr = expr_pinned \/ sleep_ms_expr = expr_wide) /\
  (sleep_ms_ty = U64 /\ sleep_param_ty = U32) /\
  (* the timer period is FIBER_TIME_RESOLUTION_MS milliseconds, level-triggered *)
  (1 <= res_ms /\ timer_period_mult = 1000000 /\ timer_level_triggered = true)%Z /\
  (* hand-written closed form = evaluator on the generated AST, boundary sweep *)
  forallb (fun s => forallb (fun us => opt_eqb (sleep_ms_cur s us) (hand s us)) sweep_us) sweep_s = true /\
  (* the three shims *)
  (wrap_sleep = w_sleep /\ wrap_usleep = w_usleep /\ wrap_nanosleep = w_nanosleep) /\
  (* statement sequences of fiber_sleep / wake_sleepers / poll loop / chain walk are known ones *)
  (list_eqb sleep_stmt_eqb sleep_body sleep_pinned_body || list_eqb sleep_stmt_eqb sleep_body sleep_fixed_body) &&
  (list_eqb wake_stmt_eqb wake_prologue wake_pinned_pro || list_eqb wake_stmt_eqb wake_prologue wake_fixed_pro) &&
  (list_eqb poll_stmt_eqb poll_timer_body poll_pinned_body || list_eqb poll_stmt_eqb poll_timer_body poll_fixed_body) &&
  (list_eqb walk_stmt_eqb walk_body walk_pinned || list_eqb walk_stmt_eqb walk_body walk_fixed) &&
  (poll_reads cfg_cur || wake_drains cfg_cur) = true.
Proof.
  split; [exact sleep_expr_cases|]. split; [exact sleepgen_types_known|]. split; [exact sleepgen_res_ms_pos|].
  split; [exact sleepgen_sweep_match|]. split; [exact wrappers_eq|]. exact sleepgen_bodies_known.
Qed.
Print Assumptions sleepgen_match.

(* ================= the arithmetic ================= *)
Local Open Scope Z_scope.

(* under the no-wrap guard the ticks asked for cover the request -- in fact
   res_ms times the request: one unit of sleep_ms is one timer period of
   res_ms milliseconds, the implementation over-sleeps by that factor *)
Theorem sleep_ticks_cover_request : forall s us,
  0 <= s < 2 ^ 32 -> 0 <= us < 2 ^ 32 -> s * 1000 + us / 1000 + 1 < 2 ^ 32 ->
  exists ms, sleep_ms_cur s us = Some ms /\ ms = s * 1000 + us / 1000 + 1 /\
             ms * (res_ms * 1000) >= s * 1000000 + us /\
             ms * (res_ms * 1000) >= res_ms * (s * 1000000 + us).
Proof. exact sleep_ticks_cover_request_l. Qed.
Print Assumptions sleep_ticks_cover_request.

(* F-C09c: `seconds * 1000` in 32 bits: sleep(4294968) asks for 705 ticks *)
Theorem sleep_wrap_refuted :
  exists s, 0 <= s < 2 ^ 32 /\
    exists ms, eval_to U64 (env2 s 0) expr_pinned = Some ms /\ ms * (res_ms * 1000) < s * 1000000.
Proof. exact sleep_wrap_refuted_l. Qed.
Print Assumptions sleep_wrap_refuted.

(* with seconds widened first there is no guard; and if that is what the
   sources contain, it holds of the sources *)
Theorem sleep_wide_covers_all :
  (forall s us, 0 <= s < 2 ^ 32 -> 0 <= us < 2 ^ 32 ->
     exists ms, eval_to U64 (env2 s us) expr_wide = Some ms /\ ms = s * 1000 + us / 1000 + 1 /\
                ms * (res_ms * 1000) >= s * 1000000 + us) /\
  (current_is_pinned = false ->
   forall s us, 0 <= s < 2 ^ 32 -> 0 <= us < 2 ^ 32 ->
     exists ms, sleep_ms_cur s us = Some ms /\ ms * (res_ms * 1000) >= s * 1000000 + us).
Proof. split; [exact sleep_wide_covers_all_l | exact sleep_current_covers_all_l]. Qed.
Print Assumptions sleep_wide_covers_all.

(* what sleep / usleep / nanosleep pass to fiber_sleep(uint32_t, uint32_t):
   sleep exact, usleep exact, nanosleep rounds the nanoseconds UP to the next
   microsecond; time_t tv_sec is truncated to 32 bits by the call (guard:
   tv_sec < 2^32, i.e. 136 years) *)
Theorem sleep_entry_points :
  (forall s, 0 <= s < 2 ^ 32 -> call_args (env2 s 0) wrap_sleep = Some (s, 0)) /\
  (forall us, 0 <= us < 2 ^ 32 ->
     call_args (env2 0 us) wrap_usleep = Some (us / 1000000, us mod 1000000) /\
     (us / 1000000) * 1000000 + us mod 1000000 = us) /\
  (forall sec nsec, 0 <= sec < 2 ^ 63 -> 0 <= nsec < 1000000000 ->
     call_args (envts sec nsec) wrap_nanosleep = Some (sec mod 2 ^ 32, nsec / 1000 + 1) /\
     (nsec / 1000 + 1) * 1000 > nsec) /\
  call_args (envts (2 ^ 32) 0) wrap_nanosleep = Some (0, 1).
Proof.
  split; [exact sleep_args|]. split.
  - intros us H. split; [now apply usleep_args | apply usleep_request_exact; lia].
  - split; [|exact nanosleep_tv_sec_truncated_l].
    intros sec nsec Hs Hn. split; [now apply nanosleep_args | apply nanosleep_rounds_up; lia].
Qed.
Print Assumptions sleep_entry_points.

(* sleeping sleep_ms + 1 expirations means sleep_ms FULL timer periods lie
   between the call and the wake-up, whatever the phase of the timer *)
Theorem full_periods_cover : forall s us ms tc tw,
  0 <= s -> 0 <= us -> ms = s * 1000 + us / 1000 + 1 -> tw >= tc + ms + 1 ->
  (tw - tc - 1) * (res_ms * 1000) >= s * 1000000 + us.
Proof.
  intros s us ms tc tw Hs Hu -> H. pose proof (cover_arith s us Hs Hu) as Cv.
  destruct sleepgen_res_ms_pos as [R _]. nia.
Qed.
Print Assumptions full_periods_cover.
Local Close Scope Z_scope.

(* ================= the time base ================= *)
Local Open Scope N_scope.

(* F-C09a: on the pinned tree (deadline from a stale timer_trigger_count) a
   sleep of 11 ticks issued while 100 expirations are unread ends at the next
   poll, in the same tick *)
Theorem sleep_never_early_refuted :
  exists es, let s := run cfg_pinned exact_walk init es in
    exists e tw, In e (slog s) /\ In (sid e, tw) (wlog s) /\ sms e = 11 /\ tw = tcall e.
Proof.
  exists (repeat Tick 100 ++ [Sleep 11; PollRead; PollWake 0]). cbn zeta.
  destruct stale_base_refuted_l as [Hs Hw]. cbn zeta in Hs, Hw. rewrite Hs, Hw.
  eexists. exists 100. repeat split; cbn; auto.
Qed.
Print Assumptions sleep_never_early_refuted.

(* reading the timer under the lock in fiber_sleep ONLY is not enough: a count
   read by a poller that has not yet taken the lock is still missing *)
Theorem sleep_inflight_refuted :
  exists es, let s := run cfg_candidate exact_walk init es in
    exists e tw, In e (slog s) /\ In (sid e, tw) (wlog s) /\ sms e = 11 /\ tw = tcall e.
Proof.
  exists (repeat Tick 50 ++ [PollRead; Sleep 11; PollWake 0]). cbn zeta.
  destruct inflight_refuted_l as [Hs Hw]. cbn zeta in Hs, Hw. rewrite Hs, Hw.
  eexists. exists 50. repeat split; cbn; auto.
Qed.
Print Assumptions sleep_inflight_refuted.

(* PARTIAL (any configuration, any event sequence, exact walk): a sleeper is
   woken no earlier than sleep_ms + 1 expirations after its call MINUS the
   expirations that were pending (fired but not yet added to
   timer_trigger_count) at the time of the call; in particular never early if
   nothing was pending.
   Full statement `T_wake - T_call >= sleep_ms + 1` fails on the pinned tree
   (sleep_never_early_refuted).  tcall e - sbase e is the pending count: sbase
   is the value of timer_trigger_count the deadline was computed from. *)
Theorem sleep_never_early_partial : forall c es i tw,
  let s := run c exact_walk init es in
  In (i, tw) (wlog s) ->
  exists e, In e (slog s) /\ sid e = i /\ sbase e <= tcall e /\
            tw + (tcall e - sbase e) >= tcall e + sms e + 1.
Proof. intros c es i tw. apply never_early_l. reflexivity. Qed.
Print Assumptions sleep_never_early_partial.

(* with every read of the timer under the sleep lock (the repair): never early *)
Theorem sleep_never_early_fixed : forall c es i tw,
  cfg_safe c = true ->
  let s := run c exact_walk init es in
  In (i, tw) (wlog s) ->
  exists e, In e (slog s) /\ sid e = i /\ tw >= tcall e + sms e + 1.
Proof.
  intros c es i tw Hc s Hin.
  destruct (never_early_l c exact_walk (fun _ => eq_refl) es i tw Hin) as (e & He & Hi & Hb & Hle).
  exists e. repeat split; auto.
  pose proof (base_exact_l c exact_walk es Hc e He). fold s in He. lia.
Qed.
Print Assumptions sleep_never_early_fixed.

(* the repair loses no wake-up: fiber_sleep may consume expirations without
   waking anybody, but the next run of fiber_event_wake_sleepers (at the latest
   at the next expiration: the fd is level-triggered) schedules every sleeper
   whose deadline has passed *)
Theorem sleep_fix_no_lost_wakeup : forall c es k,
  cfg_safe c = true ->
  let s := run c exact_walk init (es ++ [PollWake k]) in
  C s = T s /\ forall e, In e (slog s) -> tcall e + sms e < T s -> In (sid e) (map fst (wlog s)).
Proof. intros c es k Hc. apply no_lost_wakeup_l; auto. Qed.
Print Assumptions sleep_fix_no_lost_wakeup.

(* exactly once, PROVIDED the chain walk reads `next` before it schedules the
   fiber owning the node (walk_fixed): for every environment choice for the
   nodes of already-scheduled fibers, any configuration, any event sequence *)
Theorem sleep_exactly_once_model : forall c env es,
  let s := run c (run_walk walk_fixed env) init es in
  NoDup (tree_ids (tree s) ++ map fst (wlog s)) /\
  (forall i, In i (map sid (slog s)) <-> In i (tree_ids (tree s)) \/ In i (map fst (wlog s))).
Proof. intros c env es. apply exactly_once_l. intros ch. apply walk_fixed_exact. Qed.
Print Assumptions sleep_exactly_once_model.

(* F-C09b: the pinned walk reads to_wake->next AFTER fiber_manager_schedule;
   the node is then havoc.  There are environment choices that (i) drop the
   rest of the chain -- sleepers 2 and 3 have left the tree and are never
   scheduled -- and (ii) schedule a fiber that is not in the chain *)
Theorem sleep_walk_after_schedule_refuted :
  (exists env ch, run_walk walk_pinned env ch <> ch /\ exists i, In i ch /\ ~ In i (run_walk walk_pinned env ch)) /\
  (exists env ch i, In i (run_walk walk_pinned env ch) /\ ~ In i ch) /\
  (exists env es, let s := run cfg_fixed (run_walk walk_pinned env) init es in
     exists i, In i (map sid (slog s)) /\ ~ In i (tree_ids (tree s)) /\ ~ In i (map fst (wlog s))).
Proof.
  destruct walk_refuted_l as (H1 & H2 & H3). split; [|split].
  - exists env_zero, [1; 3; 2]%nat. rewrite H1. split; [discriminate|]. exists 2%nat. cbn. intuition discriminate.
  - exists env_decoy, [1; 3; 2]%nat, 9%nat. rewrite H2. cbn. intuition discriminate.
  - exists env_zero, ([Sleep 11; Sleep 11; Sleep 11] ++ repeat Tick 12 ++ [PollWake 0]). cbn zeta.
    cbn zeta in H3. destruct H3 as (Ht & Hw & Hs). rewrite Ht, Hw, Hs. exists 2%nat. cbn. intuition discriminate.
Qed.
Print Assumptions sleep_walk_after_schedule_refuted.

(* ---- non-vacuity ---- *)
Example ex_tree : let t := insert (insert (insert (insert Leaf 5 1) 3 2) 5 3) 5 4 in
  bst t /\ flat t = [(3, [2%nat]); (5, [1; 4; 3]%nat)] /\ drain t 6 = ([(3, [2%nat]); (5, [1; 4; 3]%nat)], Leaf).
Proof. cbn zeta. split; [repeat apply insert_bst; constructor | vm_compute; auto]. Qed.

Example ex_safe_cfg : cfg_safe cfg_fixed = true /\ cfg_safe cfg_pinned = false /\ cfg_safe cfg_candidate = false.
Proof. vm_compute. auto. Qed.

(* a woken sleeper exists in the repaired configuration, 12 expirations after its call *)
Example ex_fixed_wakes :
  let s := run cfg_fixed exact_walk init (repeat Tick 100 ++ [Sleep 11] ++ repeat Tick 12 ++ [PollWake 0]) in
  wlog s = [(1%nat, 112)] /\ map tcall (slog s) = [100].
Proof. vm_compute. auto. Qed.

(* and overdue sleepers that fiber_sleep's own timer read jumped over are woken at the next expiration *)
Example ex_jump_over :
  let s := run cfg_fixed exact_walk init ([Sleep 2] ++ repeat Tick 40 ++ [Sleep 11] ++ [Tick; PollWake 0]) in
  wlog s = [(1%nat, 41)] /\ C s = 41.
Proof. vm_compute. auto. Qed.
