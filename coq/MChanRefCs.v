(* C11, multi channel, no stranded sender / receiver -- part 3: the credit
   invariant [Cov] is preserved by the steps of the lock holder inside the
   critical section (decision, commit = the high / low write, pop and wake-up of
   the other kind's list, push on the own kind's list). *)
From Coq Require Import List ZArith Lia Bool Arith.
From LF Require Import Conc T1K MChan MChanExclBase MChanExclSteps MChanExclNodes MChanExcl MChanRefBase MChanRefInv.
Import ListNotations.
Local Open Scope Z_scope.

Section Cs.
Variable x : gst.
Variable t : nat.
Hypothesis HI : Inv x.
Hypothesis HV : Cov x.
Hypothesis Hr : role x t = Owner.
Hypothesis Ht : (t < nthr (gb x))%nat.
Notation m := (mem (gb x)).
Notation S := (stk (gb x) t).

Lemma cov_cs_gen x' :
  nthr (gb x') = nthr (gb x) -> csize (gb x') = csize (gb x) -> onelist (gb x') = onelist (gb x) ->
  role x' = role x -> (forall u, u <> t -> stk (gb x') u = stk (gb x) u) ->
  (forall k, cq x' (lcell k) <> [] -> avail x' k <= Z.of_nat (cover x' k)) ->
  tfact x' t ->
  (forall k u, In u (cq x' (lcell k)) ->
     (u < nthr (gb x))%nat /\ exists a, waits (stk (gb x') u) a /\ ak a = k) ->
  (forall u a, waits (stk (gb x') u) a -> chand x' u = CQueued -> In u (cq x' (lcell (ak a)))) ->
  Cov x'.
Proof.
  intros En Ez Eo Er Hst Hcov Htf Hin Hq. constructor.
  - rewrite Eo. apply (V_ol x HV).
  - exact Hcov.
  - intros u. destruct (Nat.eq_dec u t) as [->|N]; [exact Htf|].
    apply (tfact_triv x x' u HI); [|apply Hst; exact N|rewrite Er; reflexivity].
    intros Ho. apply N. apply (I_own1 x (I_C x HI)); assumption.
  - intros k u H. rewrite En. apply Hin. exact H.
  - exact Hq.
Qed.

(* a step that moves neither the counters nor the waiter lists *)
Lemma cov_cs_simple x' :
  nthr (gb x') = nthr (gb x) -> csize (gb x') = csize (gb x) -> onelist (gb x') = onelist (gb x) ->
  role x' = role x -> (forall u, u <> t -> stk (gb x') u = stk (gb x) u) ->
  cell (mem (gb x')) c_high = cell m c_high -> cell (mem (gb x')) c_low = cell m c_low ->
  chand x' = chand x -> cq x' = cq x ->
  (forall k, cq x (lcell k) <> [] ->
     (weight k S (chand x t) <= weight k (stk (gb x') t) (chand x t))%nat \/ avail x k <= 0) ->
  tfact x' t -> (forall a, ~ waits S a) -> (forall a, ~ waits (stk (gb x') t) a) ->
  Cov x'.
Proof.
  intros En Ez Eo Er Hst Eh El Ech Ecq Hw Htf Hnw Hnw'.
  assert (Eav : forall k, avail x' k = avail x k).
  { intros k. unfold avail, occ. rewrite Eh, El, Ez. reflexivity. }
  apply cov_cs_gen; try assumption.
  - intros k Hne. rewrite Ecq in Hne. rewrite Eav.
    pose proof (V_cov x HV k Hne) as Hc.
    pose proof (cover_upd1 x x' k t Ht En) as U.
    assert (Ho : forall u, u <> t -> wof x' k u = wof x k u).
    { intros u Hu. unfold wof. rewrite Ech, (Hst u Hu). reflexivity. }
    specialize (U Ho). unfold wof in U. rewrite Ech in U.
    destruct (Hw k Hne) as [W|W]; lia.
  - intros k u H. rewrite Ecq in H. destruct (V_in x HV k u H) as (Hu & a & Hwt & Hak).
    split; [exact Hu|]. exists a. split; [|exact Hak].
    destruct (Nat.eq_dec u t) as [->|N]; [destruct (Hnw a Hwt)|rewrite (Hst u N); exact Hwt].
  - intros u a Hwt Hq. rewrite Ech in Hq. rewrite Ecq.
    destruct (Nat.eq_dec u t) as [->|N]; [destruct (Hnw' a Hwt)|].
    rewrite (Hst u N) in Hwt. apply (V_q x HV u a Hwt Hq).
Qed.

Ltac stk_other := let u := fresh "u" in let Hu := fresh "Hu" in
  intros u Hu; cbn; apply upd_other; exact Hu.
Ltac nw Hs := let a := fresh "a" in let H := fresh "H" in
  intros a (? & ? & [H|H]); rewrite ?Hs in H; cbn in H; rewrite ?upd_same in H; cbn in H; discriminate.
Ltac tf := unfold tfact; cbn; rewrite upd_same; cbn.
Ltac weq Hs := let k := fresh "k" in intros k _; left; rewrite Hs; cbn; rewrite upd_same; cbn; apply Nat.le_refl.
Ltac go Hs := unfold gstep, step; rewrite Hs; cbn.

Lemma bot_two f c : bot [f; FC c] = Some c.
Proof. destruct f; reflexivity. Qed.

Lemma lcell_lhd k : lhd (lcell k).
Proof. destruct k; unfold lhd; auto. Qed.

Lemma tfact_S c : bot S = Some c ->
  match c with
  | MLow _ hi _ _ => hi = cell m c_high
  | MWt1 a _ _ | MWt2 a _ _ | MWt4 a _ _ => avail x (ak a) <= 0
  | MWt3 a _ _ => avail x (ak a) <= 0
  | _ => True
  end.
Proof.
  intros Hb. pose proof (V_thr x HV t) as T. unfold tfact in T. rewrite Hb in T.
  destruct c; auto. apply T.
Qed.

(* decision and buffer accesses *)
Lemma cov_cs_a ff cc :
  S = stk_of (PCs ff cc) -> X x t (PCs ff cc) ->
  match cc with
  | MHigh _ _ _ | MLow _ _ _ _ | MSIdx _ _ _ | MSBuf _ _ | MSHigh2 _ _
  | MRIdx _ _ | MRBuf _ _ _ | MRClr _ _ _ | MRLow2 _ _ _ => True
  | _ => False
  end -> Cov (gstep x t).
Proof.
  intros Hs HX Hc. pose proof (V_ol x HV) as Vol.
  cbn [X] in HX. destruct cc; try contradiction; clear Hc; cbn [csx] in HX.
  - (* MHigh *) subst ff. go Hs.
    apply cov_cs_simple; try reflexivity; [stk_other|weq Hs|tf; reflexivity|nw Hs|nw Hs].
  - (* MLow *) subst ff.
    assert (Hhi : hi = cell m c_high) by (apply (tfact_S (MLow a hi p k)); rewrite Hs; reflexivity).
    go Hs. destruct a as [v|].
    + destruct (hi - cell m c_low <? csize (gb x)) eqn:E; cbn.
      * apply cov_cs_simple; try reflexivity; [stk_other|weq Hs|tf; exact I|nw Hs|nw Hs].
      * apply Z.ltb_ge in E.
        apply cov_cs_simple; try reflexivity; [stk_other| |tf|nw Hs|nw Hs].
        -- intros kk _. destruct kk; [right|left; rewrite Hs; cbn; rewrite upd_same; cbn; lia].
           unfold avail, occ. lia.
        -- unfold avail, occ. cbn. lia.
    + destruct (cell m c_low <? hi) eqn:E; cbn.
      * apply cov_cs_simple; try reflexivity; [stk_other|weq Hs|tf; exact I|nw Hs|nw Hs].
      * apply Z.ltb_ge in E.
        apply cov_cs_simple; try reflexivity; [stk_other| |tf|nw Hs|nw Hs].
        -- intros kk _. destruct kk; [left; rewrite Hs; cbn; rewrite upd_same; cbn; lia|right].
           unfold avail, occ. lia.
        -- unfold avail, occ. cbn. lia.
  - (* MSIdx *) subst ff. go Hs.
    apply cov_cs_simple; try reflexivity; [stk_other|weq Hs|tf; exact I|nw Hs|nw Hs].
  - (* MSBuf *) destruct HX as (i & v & ->). go Hs.
    apply cov_cs_simple; try reflexivity; [stk_other|apply upd_other; cells|apply upd_other; cells|weq Hs|tf; exact I|nw Hs|nw Hs].
  - (* MSHigh2 *) subst ff. go Hs.
    apply cov_cs_simple; try reflexivity; [stk_other|weq Hs| |nw Hs|nw Hs].
    tf. left. rewrite Vol. cbn. auto.
  - (* MRIdx *) subst ff. go Hs.
    apply cov_cs_simple; try reflexivity; [stk_other|weq Hs|tf; exact I|nw Hs|nw Hs].
  - (* MRBuf *) subst ff. go Hs.
    apply cov_cs_simple; try reflexivity; [stk_other|weq Hs|tf; exact I|nw Hs|nw Hs].
  - (* MRClr *) destruct HX as (i & ->). go Hs.
    apply cov_cs_simple; try reflexivity; [stk_other|apply upd_other; cells|apply upd_other; cells|weq Hs|tf; exact I|nw Hs|nw Hs].
  - (* MRLow2 *) subst ff. go Hs.
    apply cov_cs_simple; try reflexivity; [stk_other|weq Hs| |nw Hs|nw Hs].
    tf. right. rewrite Vol. cbn. auto.
Qed.

(* reading the list of the other kind, and the private writes around push / pop *)
Lemma cov_cs_b ff cc :
  S = stk_of (PCs ff cc) -> X x t (PCs ff cc) ->
  match cc with
  | MWk1 _ _ _ _ | MWk2 _ _ _ _ | MWk3 _ _ _ _ _ | MWk5 _ _ _ _ | MWt1 _ _ _ | MWt2 _ _ _ => True
  | _ => False
  end -> Cov (gstep x t).
Proof.
  intros Hs HX Hc. pose proof (V_ol x HV) as Vol.
  cbn [X] in HX. destruct cc; try contradiction; clear Hc; cbn [csx] in HX.
  - (* MWk1 *) destruct HX as [Hl ->]. go Hs. destruct (cell m c =? 0) eqn:E; cbn.
    + apply Z.eqb_eq in E.
      apply cov_cs_simple; try reflexivity; [stk_other| |tf; exact I|nw Hs|nw Hs].
      intros kk Hne. left. rewrite Hs. cbn. rewrite upd_same. unfold weight, acts, ppb. cbn.
      destruct (Nat.eqb_spec c (lcell kk)) as [->|N]; [|cbn; lia].
      exfalso. pose proof (Q_ok x (I_Q x HI) (lcell kk) Hl) as Hok.
      destruct (cq x (lcell kk)) as [|f rest]; [congruence|]. destruct Hok as [Hv _].
      rewrite Hv in E. unfold fname, Zn in E. lia.
    + apply cov_cs_simple; try reflexivity; [stk_other|weq Hs|tf; exact I|nw Hs|nw Hs].
  - (* MWk2 *) destruct HX as (Hl & -> & Hne). go Hs.
    apply cov_cs_simple; try reflexivity; [stk_other|weq Hs|tf; exact I|nw Hs|nw Hs].
  - (* MWk3 *) destruct HX as (Hl & -> & rest & Eq). go Hs.
    apply cov_cs_simple; try reflexivity; [stk_other|weq Hs|tf; exact I|nw Hs|nw Hs].
  - (* MWk5 *) destruct HX as (-> & Hg). go Hs.
    apply cov_cs_simple; try reflexivity;
      [stk_other|apply upd_other; cells|apply upd_other; cells|weq Hs|tf; exact I|nw Hs|nw Hs].
  - (* MWt1 *) subst ff.
    assert (Hav : avail x (ak a) <= 0) by (apply (tfact_S (MWt1 a p k)); rewrite Hs; reflexivity).
    go Hs.
    apply cov_cs_simple; try reflexivity; [stk_other|weq Hs|tf; exact Hav|nw Hs|nw Hs].
  - (* MWt2 *) subst ff.
    assert (Hav : avail x (ak a) <= 0) by (apply (tfact_S (MWt2 a p k)); rewrite Hs; reflexivity).
    go Hs.
    apply cov_cs_simple; try reflexivity;
      [stk_other|apply upd_other; cells|apply upd_other; cells|weq Hs| |nw Hs|nw Hs].
    tf. split.
    + unfold avail, occ in *. cbn. rewrite !upd_other by cells. exact Hav.
    + rewrite Vol. destruct a; reflexivity.
Qed.

(* the commit: high := high + 1 (send) or low := low + 1 (receive) *)
Lemma cov_cs_commit ff c r p k :
  S = stk_of (PCs ff (MWk0 c r p k)) -> X x t (PCs ff (MWk0 c r p k)) -> Cov (gstep x t).
Proof.
  intros Hs HX. cbn [X csx] in HX. destruct HX as (Hl & v & Hff).
  pose proof (V_thr x HV t) as T. unfold tfact in T. rewrite Hs in T.
  assert (Hin0 : forall kk u, In u (cq x (lcell kk)) -> u <> t).
  { intros kk u H ->. destruct (V_in x HV kk t H) as (_ & a & (p0 & k0 & [E|E]) & _); rewrite Hs in E; cbn in E; rewrite bot_two in E; discriminate. }
  destruct Hff as [-> | ->]; cbn in T; destruct T as [(E1 & Ev & Ec)|(E1 & Ev & Ec)];
    try (exfalso; revert E1; unfold c_high, c_low; lia); subst v c; go Hs.
  - (* send *)
    apply cov_cs_gen; try reflexivity; [stk_other| |tf; exact I| |].
    + intros kk Hne. cbn in Hne. pose proof (V_cov x HV kk Hne) as Hc.
      pose proof (cover_upd1 x _ kk t Ht eq_refl ltac:(intros u Hu; unfold wof; cbn; rewrite upd_other by exact Hu; reflexivity)) as U.
      unfold wof in U. cbn in U. rewrite upd_same, Hs in U. unfold weight, acts, ppb in U. cbn in U.
      unfold avail, occ in *. cbn. rewrite upd_same, upd_other by cells.
      destruct kk; cbn in U; destruct (isk (hk p) _); cbn in U; lia.
    + intros kk u H. cbn in H. destruct (V_in x HV kk u H) as (Hu & a & Hw & Ha).
      split; [exact Hu|]. exists a. split; [|exact Ha]. cbn. rewrite upd_other by (apply (Hin0 kk); exact H). exact Hw.
    + intros u a Hw Hq. cbn in Hq. cbn. destruct (Nat.eq_dec u t) as [->|N].
      * cbn in Hw. rewrite upd_same in Hw. destruct Hw as (p0 & k0 & [E|E]); discriminate.
      * cbn in Hw. rewrite upd_other in Hw by exact N. apply (V_q x HV u a Hw Hq).
  - (* receive *)
    apply cov_cs_gen; try reflexivity; [stk_other| |tf; exact I| |].
    + intros kk Hne. cbn in Hne. pose proof (V_cov x HV kk Hne) as Hc.
      pose proof (cover_upd1 x _ kk t Ht eq_refl ltac:(intros u Hu; unfold wof; cbn; rewrite upd_other by exact Hu; reflexivity)) as U.
      unfold wof in U. cbn in U. rewrite upd_same, Hs in U. unfold weight, acts, ppb in U. cbn in U.
      unfold avail, occ in *. cbn. rewrite upd_same, upd_other by cells.
      destruct kk; cbn in U; destruct (isk (hk p) _); cbn in U; lia.
    + intros kk u H. cbn in H. destruct (V_in x HV kk u H) as (Hu & a & Hw & Ha).
      split; [exact Hu|]. exists a. split; [|exact Ha]. cbn. rewrite upd_other by (apply (Hin0 kk); exact H). exact Hw.
    + intros u a Hw Hq. cbn in Hq. cbn. destruct (Nat.eq_dec u t) as [->|N].
      * cbn in Hw. rewrite upd_same in Hw. destruct Hw as (p0 & k0 & [E|E]); discriminate.
      * cbn in Hw. rewrite upd_other in Hw by exact N. apply (V_q x HV u a Hw Hq).
Qed.
