(* C11, multi channel, no stranded sender / receiver -- part 3: the credit
   invariant [Cov] is preserved by the steps of the lock holder inside the
   critical section (decision, commit = the high / low write, pop and wake-up of
   the other kind's list, push on the own kind's list). *)
From Coq Require Import List ZArith Lia Bool Arith.
From LF Require Import Conc T1K MChan MChanExclBase MChanExclSteps MChanExclNodes MChanExcl MChanRefBase MChanRefInv.
Import ListNotations.
Local Open Scope Z_scope.

Section Cs.
Variable x : gst.
Variable t : nat.
Hypothesis HI : Inv x.
Hypothesis HV : Cov x.
Hypothesis Hr : role x t = Owner.
Hypothesis Ht : (t < nthr (gb x))%nat.
Notation m := (mem (gb x)).
Notation S := (stk (gb x) t).

Lemma cov_cs_gen x' :
  nthr (gb x') = nthr (gb x) -> csize (gb x') = csize (gb x) -> onelist (gb x') = onelist (gb x) ->
  role x' = role x -> (forall u, u <> t -> stk (gb x') u = stk (gb x) u) ->
  (forall k, cq x' (lcell k) <> [] -> avail x' k <= Z.of_nat (cover x' k)) ->
  tfact x' t ->
  (forall k u, In u (cq x' (lcell k)) ->
     (u < nthr (gb x))%nat /\ exists a, waits (stk (gb x') u) a /\ ak a = k) ->
  (forall u a, waits (stk (gb x') u) a -> chand x' u = CQueued -> In u (cq x' (lcell (ak a)))) ->
  Cov x'.
Proof.
  intros En Ez Eo Er Hst Hcov Htf Hin Hq. constructor.
  - rewrite Eo. apply (V_ol x HV).
  - exact Hcov.
  - intros u. destruct (Nat.eq_dec u t) as [->|N]; [exact Htf|].
    apply (tfact_triv x x' u HI); [|apply Hst; exact N|rewrite Er; reflexivity].
    intros Ho. apply N. apply (I_own1 x (I_C x HI)); assumption.
  - intros k u H. rewrite En. apply Hin. exact H.
  - exact Hq.
Qed.

(* a step that moves neither the counters nor the waiter lists *)
Lemma cov_cs_simple x' :
  nthr (gb x') = nthr (gb x) -> csize (gb x') = csize (gb x) -> onelist (gb x') = onelist (gb x) ->
  role x' = role x -> (forall u, u <> t -> stk (gb x') u = stk (gb x) u) ->
  cell (mem (gb x')) c_high = cell m c_high -> cell (mem (gb x')) c_low = cell m c_low ->
  chand x' = chand x -> cq x' = cq x ->
  (forall k, cq x (lcell k) <> [] ->
     (weight k S (chand x t) <= weight k (stk (gb x') t) (chand x t))%nat \/ avail x k <= 0) ->
  tfact x' t -> (forall a, ~ waits S a) -> (forall a, ~ waits (stk (gb x') t) a) ->
  Cov x'.
Proof.
  intros En Ez Eo Er Hst Eh El Ech Ecq Hw Htf Hnw Hnw'.
  assert (Eav : forall k, avail x' k = avail x k).
  { intros k. unfold avail, occ. rewrite Eh, El, Ez. reflexivity. }
  apply cov_cs_gen; try assumption.
  - intros k Hne. rewrite Ecq in Hne. rewrite Eav.
    pose proof (V_cov x HV k Hne) as Hc.
    pose proof (cover_upd1 x x' k t Ht En) as U.
    assert (Ho : forall u, u <> t -> wof x' k u = wof x k u).
    { intros u Hu. unfold wof. rewrite Ech, (Hst u Hu). reflexivity. }
    specialize (U Ho). unfold wof in U. rewrite Ech in U.
    destruct (Hw k Hne) as [W|W]; lia.
  - intros k u H. rewrite Ecq in H. destruct (V_in x HV k u H) as (Hu & a & Hwt & Hak).
    split; [exact Hu|]. exists a. split; [|exact Hak].
    destruct (Nat.eq_dec u t) as [->|N]; [destruct (Hnw a Hwt)|rewrite (Hst u N); exact Hwt].
  - intros u a Hwt Hq. rewrite Ech in Hq. rewrite Ecq.
    destruct (Nat.eq_dec u t) as [->|N]; [destruct (Hnw' a Hwt)|].
    rewrite (Hst u N) in Hwt. apply (V_q x HV u a Hwt Hq).
Qed.

Ltac stk_other := let u := fresh "u" in let Hu := fresh "Hu" in
  intros u Hu; cbn; apply upd_other; exact Hu.
Ltac nw Hs := let a := fresh "a" in let H := fresh "H" in
  intros a (? & ? & [H|H]); rewrite ?Hs in H; cbn in H; rewrite ?upd_same in H; cbn in H; discriminate.
Ltac tf := unfold tfact; cbn; rewrite upd_same; cbn.
Ltac weq Hs := let k := fresh "k" in intros k _; left; rewrite Hs; cbn; rewrite upd_same; cbn; apply Nat.le_refl.
Ltac go Hs := unfold gstep, step; rewrite Hs; cbn.

Lemma bot_two f c : bot [f; FC c] = Some c.
Proof. destruct f; reflexivity. Qed.

Lemma lcell_lhd k : lhd (lcell k).
Proof. destruct k; unfold lhd; auto. Qed.

Lemma tfact_S c : bot S = Some c ->
  match c with
  | MLow _ hi _ _ => hi = cell m c_high
  | MWt1 a _ _ | MWt2 a _ _ | MWt4 a _ _ => avail x (ak a) <= 0
  | MWt3 a _ _ => avail x (ak a) <= 0
  | _ => True
  end.
Proof.
  intros Hb. pose proof (V_thr x HV t) as T. unfold tfact in T. rewrite Hb in T.
  destruct c; auto. apply T.
Qed.

(* decision and buffer accesses *)
Lemma cov_cs_a ff cc :
  S = stk_of (PCs ff cc) -> X x t (PCs ff cc) ->
  match cc with
  | MHigh _ _ _ | MLow _ _ _ _ | MSIdx _ _ _ | MSBuf _ _ | MSHigh2 _ _
  | MRIdx _ _ | MRBuf _ _ _ | MRClr _ _ _ | MRLow2 _ _ _ => True
  | _ => False
  end -> Cov (gstep x t).
Proof.
  intros Hs HX Hc. pose proof (V_ol x HV) as Vol.
  cbn [X] in HX. destruct cc; try contradiction; clear Hc; cbn [csx] in HX.
  - (* MHigh *) subst ff. go Hs.
    apply cov_cs_simple; try reflexivity; [stk_other|weq Hs|tf; reflexivity|nw Hs|nw Hs].
  - (* MLow *) subst ff.
    assert (Hhi : hi = cell m c_high) by (apply (tfact_S (MLow a hi p k)); rewrite Hs; reflexivity).
    go Hs. destruct a as [v|].
    + destruct (hi - cell m c_low <? csize (gb x)) eqn:E; cbn.
      * apply cov_cs_simple; try reflexivity; [stk_other|weq Hs|tf; exact I|nw Hs|nw Hs].
      * apply Z.ltb_ge in E.
        apply cov_cs_simple; try reflexivity; [stk_other| |tf|nw Hs|nw Hs].
        -- intros kk _. destruct kk; [right|left; rewrite Hs; cbn; rewrite upd_same; cbn; lia].
           unfold avail, occ. lia.
        -- unfold avail, occ. cbn. lia.
    + destruct (cell m c_low <? hi) eqn:E; cbn.
      * apply cov_cs_simple; try reflexivity; [stk_other|weq Hs|tf; exact I|nw Hs|nw Hs].
      * apply Z.ltb_ge in E.
        apply cov_cs_simple; try reflexivity; [stk_other| |tf|nw Hs|nw Hs].
        -- intros kk _. destruct kk; [left; rewrite Hs; cbn; rewrite upd_same; cbn; lia|right].
           unfold avail, occ. lia.
        -- unfold avail, occ. cbn. lia.
  - (* MSIdx *) subst ff. go Hs.
    apply cov_cs_simple; try reflexivity; [stk_other|weq Hs|tf; exact I|nw Hs|nw Hs].
  - (* MSBuf *) destruct HX as (i & v & ->). go Hs.
    apply cov_cs_simple; try reflexivity; [stk_other|apply upd_other; cells|apply upd_other; cells|weq Hs|tf; exact I|nw Hs|nw Hs].
  - (* MSHigh2 *) subst ff. go Hs.
    apply cov_cs_simple; try reflexivity; [stk_other|weq Hs| |nw Hs|nw Hs].
    tf. left. rewrite Vol. cbn. auto.
  - (* MRIdx *) subst ff. go Hs.
    apply cov_cs_simple; try reflexivity; [stk_other|weq Hs|tf; exact I|nw Hs|nw Hs].
  - (* MRBuf *) subst ff. go Hs.
    apply cov_cs_simple; try reflexivity; [stk_other|weq Hs|tf; exact I|nw Hs|nw Hs].
  - (* MRClr *) destruct HX as (i & ->). go Hs.
    apply cov_cs_simple; try reflexivity; [stk_other|apply upd_other; cells|apply upd_other; cells|weq Hs|tf; exact I|nw Hs|nw Hs].
  - (* MRLow2 *) subst ff. go Hs.
    apply cov_cs_simple; try reflexivity; [stk_other|weq Hs| |nw Hs|nw Hs].
    tf. right. rewrite Vol. cbn. auto.
Qed.

(* reading the list of the other kind, and the private writes around push / pop *)
Lemma cov_cs_b ff cc :
  S = stk_of (PCs ff cc) -> X x t (PCs ff cc) ->
  match cc with
  | MWk1 _ _ _ _ | MWk2 _ _ _ _ | MWk3 _ _ _ _ _ | MWk5 _ _ _ _ | MWt1 _ _ _ | MWt2 _ _ _ => True
  | _ => False
  end -> Cov (gstep x t).
Proof.
  intros Hs HX Hc. pose proof (V_ol x HV) as Vol.
  cbn [X] in HX. destruct cc; try contradiction; clear Hc; cbn [csx] in HX.
  - (* MWk1 *) destruct HX as [Hl ->]. go Hs. destruct (cell m c =? 0) eqn:E; cbn.
    + apply Z.eqb_eq in E.
      apply cov_cs_simple; try reflexivity; [stk_other| |tf; exact I|nw Hs|nw Hs].
      intros kk Hne. left. rewrite Hs. cbn. rewrite upd_same. unfold weight, acts, ppb. cbn.
      destruct (Nat.eqb_spec c (lcell kk)) as [->|N]; [|cbn; lia].
      exfalso. pose proof (Q_ok x (I_Q x HI) (lcell kk) Hl) as Hok.
      destruct (cq x (lcell kk)) as [|f rest]; [congruence|]. destruct Hok as [Hv _].
      rewrite Hv in E. unfold fname, Zn in E. lia.
    + apply cov_cs_simple; try reflexivity; [stk_other|weq Hs|tf; exact I|nw Hs|nw Hs].
  - (* MWk2 *) destruct HX as (Hl & -> & Hne). go Hs.
    apply cov_cs_simple; try reflexivity; [stk_other|weq Hs|tf; exact I|nw Hs|nw Hs].
  - (* MWk3 *) destruct HX as (Hl & -> & rest & Eq). go Hs.
    apply cov_cs_simple; try reflexivity; [stk_other|weq Hs|tf; exact I|nw Hs|nw Hs].
  - (* MWk5 *) destruct HX as (-> & Hg). go Hs.
    apply cov_cs_simple; try reflexivity;
      [stk_other|apply upd_other; cells|apply upd_other; cells|weq Hs|tf; exact I|nw Hs|nw Hs].
  - (* MWt1 *) subst ff.
    assert (Hav : avail x (ak a) <= 0) by (apply (tfact_S (MWt1 a p k)); rewrite Hs; reflexivity).
    go Hs.
    apply cov_cs_simple; try reflexivity; [stk_other|weq Hs|tf; exact Hav|nw Hs|nw Hs].
  - (* MWt2 *) subst ff.
    assert (Hav : avail x (ak a) <= 0) by (apply (tfact_S (MWt2 a p k)); rewrite Hs; reflexivity).
    go Hs.
    apply cov_cs_simple; try reflexivity;
      [stk_other|apply upd_other; cells|apply upd_other; cells|weq Hs| |nw Hs|nw Hs].
    tf. split.
    + unfold avail, occ in *. cbn. rewrite !upd_other by cells. exact Hav.
    + rewrite Vol. destruct a; reflexivity.
Qed.

(* the commit: high := high + 1 (send) or low := low + 1 (receive) *)
Lemma cov_cs_commit ff c r p k :
  S = stk_of (PCs ff (MWk0 c r p k)) -> X x t (PCs ff (MWk0 c r p k)) -> Cov (gstep x t).
Proof.
  intros Hs HX. cbn [X csx] in HX. destruct HX as (Hl & v & Hff).
  pose proof (V_thr x HV t) as T. unfold tfact in T. rewrite Hs in T.
  assert (Hin0 : forall kk u, In u (cq x (lcell kk)) -> u <> t).
  { intros kk u H ->. destruct (V_in x HV kk t H) as (_ & a & (p0 & k0 & [E|E]) & _); rewrite Hs in E; cbn [stk_of] in E; rewrite bot_two in E; discriminate. }
  destruct Hff as [-> | ->]; cbn in T; destruct T as [(E1 & Ev & Ec)|(E1 & Ev & Ec)];
    try (exfalso; revert E1; unfold c_high, c_low; lia); subst v c; go Hs;
    match goal with |- Cov ?X => set (x' := X) end.
  - (* send *)
    apply cov_cs_gen; try reflexivity; [stk_other| |tf; exact I| |].
    + intros kk Hne. cbn in Hne. pose proof (V_cov x HV kk Hne) as Hc.
      assert (Ho : forall u, u <> t -> wof x' kk u = wof x kk u)
        by (intros u Hu; unfold wof, x'; cbn; rewrite upd_other by exact Hu; reflexivity).
      pose proof (cover_upd1 x x' kk t Ht eq_refl Ho) as U.
      remember (cover x' kk) as cv' eqn:Ecv. clear Ecv.
      unfold wof, x' in U. cbn in U. rewrite upd_same, Hs in U. unfold weight, acts, ppb in U. cbn in U.
      unfold avail, occ, x' in *. cbn. rewrite ?upd_same, ?upd_other by cells.
      destruct kk; cbn in U; destruct (isk (hk p) _); cbn in U; lia.
    + intros kk u H. cbn in H. destruct (V_in x HV kk u H) as (Hu & a & Hw & Ha).
      split; [exact Hu|]. exists a. split; [|exact Ha]. cbn. rewrite upd_other by (apply (Hin0 kk); exact H). exact Hw.
    + intros u a Hw Hq. cbn in Hq. cbn. destruct (Nat.eq_dec u t) as [->|N].
      * cbn in Hw. rewrite upd_same in Hw. destruct Hw as (p0 & k0 & [E|E]); discriminate.
      * cbn in Hw. rewrite upd_other in Hw by exact N. apply (V_q x HV u a Hw Hq).
  - (* receive *)
    apply cov_cs_gen; try reflexivity; [stk_other| |tf; exact I| |].
    + intros kk Hne. cbn in Hne. pose proof (V_cov x HV kk Hne) as Hc.
      assert (Ho : forall u, u <> t -> wof x' kk u = wof x kk u)
        by (intros u Hu; unfold wof, x'; cbn; rewrite upd_other by exact Hu; reflexivity).
      pose proof (cover_upd1 x x' kk t Ht eq_refl Ho) as U.
      remember (cover x' kk) as cv' eqn:Ecv. clear Ecv.
      unfold wof, x' in U. cbn in U. rewrite upd_same, Hs in U. unfold weight, acts, ppb in U. cbn in U.
      unfold avail, occ, x' in *. cbn. rewrite ?upd_same, ?upd_other by cells.
      destruct kk; cbn in U; destruct (isk (hk p) _); cbn in U; lia.
    + intros kk u H. cbn in H. destruct (V_in x HV kk u H) as (Hu & a & Hw & Ha).
      split; [exact Hu|]. exists a. split; [|exact Ha]. cbn. rewrite upd_other by (apply (Hin0 kk); exact H). exact Hw.
    + intros u a Hw Hq. cbn in Hq. cbn. destruct (Nat.eq_dec u t) as [->|N].
      * cbn in Hw. rewrite upd_same in Hw. destruct Hw as (p0 & k0 & [E|E]); discriminate.
      * cbn in Hw. rewrite upd_other in Hw by exact N. apply (V_q x HV u a Hw Hq).
Qed.

Lemma lhd_lcell c : lhd c -> exists kk, c = lcell kk.
Proof. intros [-> | ->]; [exists true|exists false]; reflexivity. Qed.
Lemma lcell_inj k k' : lcell k = lcell k' -> k = k'.
Proof. destruct k, k'; cbn; unfold c_waiters, c_rwaiters; intros; try reflexivity; lia. Qed.

(* the pop: the top of the other kind's list becomes active again *)
Lemma cov_cs_pop ff r g p k :
  S = stk_of (PCs ff (MWk4 r g p k)) -> X x t (PCs ff (MWk4 r g p k)) -> Cov (gstep x t).
Proof.
  intros Hs HX. cbn [X csx] in HX. destruct HX as (c0 & rest & Hl & -> & Eq).
  destruct (lhd_lcell c0 Hl) as (kk & ->).
  assert (Hgin : In g (cq x (lcell kk))) by (rewrite Eq; cbn; auto).
  destruct (V_in x HV kk g Hgin) as (Hg & a & Hwg & Hak).
  pose proof (Q_in x (I_Q x HI) (lcell kk) g Hl Hgin) as Hgq.
  assert (Hnt : forall a0, ~ waits S a0).
  { intros a0 (p0 & k0 & [E|E]); rewrite Hs in E; discriminate. }
  assert (Hgt : g <> t) by (intros ->; apply (Hnt a Hwg)).
  assert (Hgb : exists p0 k0, bot (stk (gb x) g) = Some (MWt5 a p0 k0)).
  { destruct Hwg as (p0 & k0 & [E|E]); [eauto|]. exfalso. apply Hgt.
    apply (I_own1 x (I_C x HI)); [|exact Hr]. apply (bot_cs_owner x g _ HI E). reflexivity. }
  destruct Hgb as (p0 & k0 & Hgb).
  go Hs. rewrite Eq. cbn [List.tl]. match goal with |- Cov ?X => set (x' := X) end.
  assert (Hcq' : forall k1, cq x' (lcell k1) = if Bool.eqb k1 kk then rest else cq x (lcell k1)).
  { intros k1. unfold x'. cbn. unfold upd. destruct (Nat.eqb_spec (lcell k1) (lcell kk)) as [E|N].
    - apply lcell_inj in E. subst k1. rewrite eqb_reflx. reflexivity.
    - destruct (Bool.eqb k1 kk) eqn:Eb; [apply eqb_prop in Eb; congruence|reflexivity]. }
  apply cov_cs_gen; try reflexivity; [stk_other| |tf; exact I| |].
  - intros k1 Hne. rewrite Hcq' in Hne.
    assert (Hne0 : cq x (lcell k1) <> []).
    { destruct (Bool.eqb k1 kk) eqn:Eb; [apply eqb_prop in Eb; subst k1; rewrite Eq; discriminate|exact Hne]. }
    pose proof (V_cov x HV k1 Hne0) as Hc.
    assert (Ho : forall u, u <> t -> u <> g -> wof x' k1 u = wof x k1 u)
      by (intros u Hu Hu'; unfold wof, x'; cbn; rewrite !upd_other by assumption; reflexivity).
    pose proof (cover_upd2 x x' k1 t g Ht Hg (not_eq_sym Hgt) eq_refl Ho) as U.
    remember (cover x' k1) as cv' eqn:Ecv. clear Ecv.
    unfold wof, x' in U. cbn in U. rewrite !upd_same, (upd_other _ _ _ g), (upd_other _ _ _ t) in U by auto.
    rewrite Hs, Hgq in U. unfold weight, acts, ppb in U. rewrite Hgb in U. cbn in U. rewrite Hak in U.
    assert (Eav : avail x' k1 = avail x k1).
    { unfold avail, occ, x'. destruct kk; cbn; rewrite ?upd_other by cells; reflexivity. }
    rewrite Eav.
    destruct (Nat.eqb_spec (lcell kk) (lcell k1)) as [E|N].
    + apply lcell_inj in E. subst k1. rewrite eqb_reflx in U. cbn in U. lia.
    + assert (Bool.eqb kk k1 = false) as Eb by (destruct kk, k1; try reflexivity; congruence).
      rewrite Eb in U. cbn in U. lia.
  - intros k1 u H. rewrite Hcq' in H.
    assert (H0 : In u (cq x (lcell k1))).
    { destruct (Bool.eqb k1 kk) eqn:Eb; [apply eqb_prop in Eb; subst k1; rewrite Eq; cbn; auto|exact H]. }
    destruct (V_in x HV k1 u H0) as (Hu & a1 & Hw & Ha).
    split; [exact Hu|]. exists a1. split; [|exact Ha].
    unfold x'. cbn. rewrite upd_other; [exact Hw|]. intros ->. apply (Hnt a1 Hw).
  - intros u a1 Hw Hq. unfold x' in Hw, Hq. cbn in Hw, Hq.
    destruct (Nat.eq_dec u t) as [->|N].
    { rewrite upd_same in Hw. destruct Hw as (p1 & k1 & [E|E]); discriminate. }
    rewrite upd_other in Hw by exact N.
    destruct (Nat.eq_dec u g) as [->|Ng]; [rewrite upd_same in Hq; discriminate|].
    rewrite upd_other in Hq by exact Ng.
    pose proof (V_q x HV u a1 Hw Hq) as Hin. rewrite Hcq'.
    destruct (Bool.eqb (ak a1) kk) eqn:Eb; [|exact Hin].
    apply eqb_prop in Eb. rewrite Eb, Eq in Hin. destruct Hin as [E|Hin]; [congruence|exact Hin].
Qed.

Lemma acts_nq S0 ch ch' : ch <> CQueued -> ch' <> CQueued -> acts S0 ch = acts S0 ch'.
Proof.
  intros H H'. unfold acts. destruct (bot S0) as [c|]; [|reflexivity].
  destruct c; try reflexivity. destruct ch, ch'; congruence.
Qed.

(* the wake-up of the popped fiber, then fiber_mutex_unlock *)
Lemma cov_cs_wake ff r g p k :
  S = stk_of (PCs ff (MWk6 r g p k)) -> L (view_of x t) (PCs ff (MWk6 r g p k)) ->
  X x t (PCs ff (MWk6 r g p k)) -> Cov (gstep x t).
Proof.
  intros Hs HL HX. cbn [X csx] in HX. destruct HX as (-> & Hg).
  assert (Hgt : g <> t).
  { intros ->. destruct HL as [_ Hcs]. cbn in Hcs. destruct Hcs; congruence. }
  assert (Hnt : forall a0, ~ waits S a0).
  { intros a0 (p0 & k0 & [E|E]); rewrite Hs in E; discriminate. }
  unfold gstep, step. rewrite Hs. cbn -[wake]. match goal with |- Cov ?X => set (x' := X) end.
  assert (Ec : cell (mem (gb x')) = cell m) by (unfold x'; cbn [gb mem]; rewrite wake_cell; reflexivity).
  assert (Hwof : forall k1 u, wof x' k1 u = wof x k1 u).
  { intros k1 u. unfold wof, x'. cbn [gb stk chand]. destruct (Nat.eq_dec u t) as [->|N].
    - rewrite upd_same, upd_other, Hs by auto. reflexivity.
    - rewrite upd_other by exact N. destruct (Nat.eq_dec u g) as [->|Ng]; [|rewrite upd_other by exact Ng; reflexivity].
      rewrite upd_same, Hg. unfold weight. rewrite (acts_nq _ CWoken (CPopped t)) by discriminate. reflexivity. }
  apply cov_cs_gen; try reflexivity; [stk_other| |tf; exact I| |].
  - intros k1 Hne. rewrite (avail_frame x x' k1 Ec eq_refl), (cover_frame x x' k1 eq_refl); [apply (V_cov x HV k1 Hne)|].
    intros u _. apply Hwof.
  - intros k1 u H. destruct (V_in x HV k1 u H) as (Hu & a1 & Hw & Ha).
    split; [exact Hu|]. exists a1. split; [|exact Ha].
    unfold x'. cbn [gb stk]. rewrite upd_other; [exact Hw|]. intros ->. apply (Hnt a1 Hw).
  - intros u a1 Hw Hq. unfold x' in Hw, Hq. cbn [gb stk chand cq] in *.
    destruct (Nat.eq_dec u t) as [->|N].
    { rewrite upd_same in Hw. destruct Hw as (p1 & k1 & [E|E]); discriminate. }
    rewrite upd_other in Hw by exact N.
    destruct (Nat.eq_dec u g) as [->|Ng]; [rewrite upd_same in Hq; discriminate|].
    rewrite upd_other in Hq by exact Ng. apply (V_q x HV u a1 Hw Hq).
Qed.

(* internal_wait: the push on the own kind's list (the buffer allows nothing of that kind) *)
Lemma cov_cs_push ff a p k :
  S = stk_of (PCs ff (MWt3 a p k)) -> L (view_of x t) (PCs ff (MWt3 a p k)) ->
  X x t (PCs ff (MWt3 a p k)) -> Cov (gstep x t).
Proof.
  intros Hs HL HX. cbn [X csx] in HX. destruct HX as (c0 & Hl & -> & Hlink).
  pose proof (V_thr x HV t) as T. unfold tfact in T. rewrite Hs in T. cbn in T. destruct T as [Hav ->].
  assert (Hnt : forall a0, ~ waits S a0).
  { intros a0 (p0 & k0 & [E|E]); rewrite Hs in E; discriminate. }
  assert (Hcht : chand x t <> CQueued).
  { destruct HL as [_ Hcs]. cbn in Hcs. destruct Hcs; congruence. }
  go Hs. match goal with |- Cov ?X => set (x' := X) end.
  assert (Hcq' : forall k1, cq x' (lcell k1) = if Bool.eqb k1 (ak a) then t :: cq x (lcell k1) else cq x (lcell k1)).
  { intros k1. unfold x'. cbn. unfold upd. destruct (Nat.eqb_spec (lcell k1) (lcell (ak a))) as [E|N].
    - apply lcell_inj in E. rewrite E, eqb_reflx. reflexivity.
    - destruct (Bool.eqb k1 (ak a)) eqn:Eb; [apply eqb_prop in Eb; congruence|reflexivity]. }
  assert (Eav : forall k1, avail x' k1 = avail x k1).
  { intros k1. unfold avail, occ, x'. destruct (ak a); cbn; rewrite ?upd_other by cells; reflexivity. }
  assert (Hwof : forall k1 u, wof x' k1 u = wof x k1 u).
  { intros k1 u. unfold wof, x'. cbn [gb stk chand]. destruct (Nat.eq_dec u t) as [->|N].
    - rewrite !upd_same, Hs. reflexivity.
    - rewrite !upd_other by exact N. reflexivity. }
  apply cov_cs_gen; try reflexivity; [stk_other| | | |].
  - intros k1 Hne. rewrite Eav, (cover_frame x x' k1 eq_refl) by (intros u _; apply Hwof).
    rewrite Hcq' in Hne. destruct (Bool.eqb k1 (ak a)) eqn:Eb.
    + apply eqb_prop in Eb. subst k1. lia.
    + apply (V_cov x HV k1 Hne).
  - tf. rewrite Eav. exact Hav.
  - intros k1 u H. rewrite Hcq' in H.
    assert (Hc : (u = t /\ k1 = ak a) \/ In u (cq x (lcell k1))).
    { destruct (Bool.eqb k1 (ak a)) eqn:Eb; [|auto]. apply eqb_prop in Eb. destruct H as [<-|H]; auto. }
    destruct Hc as [[-> ->]|H0].
    + split; [exact Ht|]. exists a. split; [|reflexivity]. unfold x'. cbn. rewrite upd_same.
      exists p, k. right. reflexivity.
    + destruct (V_in x HV k1 u H0) as (Hu & a1 & Hw & Ha).
      split; [exact Hu|]. exists a1. split; [|exact Ha].
      unfold x'. cbn. rewrite upd_other; [exact Hw|]. intros ->. apply (Hnt a1 Hw).
  - intros u a1 Hw Hq. unfold x' in Hw, Hq. cbn [gb stk chand] in Hw, Hq.
    destruct (Nat.eq_dec u t) as [->|N].
    + rewrite upd_same in Hw. destruct Hw as (p1 & k1 & [E|E]); try discriminate.
      injection E as -> _ _. rewrite Hcq', eqb_reflx. cbn. auto.
    + rewrite upd_other in Hw by exact N. rewrite upd_other in Hq by exact N. pose proof (V_q x HV u a1 Hw Hq) as Hin.
      rewrite Hcq'. destruct (Bool.eqb (ak a1) (ak a)); [right|]; exact Hin.
Qed.

(* internal_wait: WAITING + deferred unlock: from now on the fiber counts as blocked *)
Lemma cov_cs_defer ff a p k :
  S = stk_of (PCs ff (MWt4 a p k)) -> L (view_of x t) (PCs ff (MWt4 a p k)) ->
  X x t (PCs ff (MWt4 a p k)) -> Cov (gstep x t).
Proof.
  intros Hs HL HX. cbn [X csx] in HX. subst ff.
  assert (Hav : avail x (ak a) <= 0) by (apply (tfact_S (MWt4 a p k)); rewrite Hs; reflexivity).
  assert (Hcht : chand x t = CQueued) by (destruct HL as [_ Hcs]; exact Hcs).
  go Hs. match goal with |- Cov ?X => set (x' := X) end.
  assert (Hwof : forall k1 u, wof x' k1 u = wof x k1 u).
  { intros k1 u. unfold wof, x'. cbn [gb stk chand]. destruct (Nat.eq_dec u t) as [->|N].
    - rewrite !upd_same, Hs, Hcht. reflexivity.
    - rewrite !upd_other by exact N. reflexivity. }
  apply cov_cs_gen; try reflexivity; [stk_other| | | |].
  - intros k1 Hne. rewrite (avail_frame x x' k1 eq_refl eq_refl), (cover_frame x x' k1 eq_refl) by (intros u _; apply Hwof).
    apply (V_cov x HV k1 Hne).
  - tf. intros _. rewrite (avail_frame x x' _ eq_refl eq_refl). exact Hav.
  - intros k1 u H. destruct (V_in x HV k1 u H) as (Hu & a1 & Hw & Ha).
    split; [exact Hu|]. exists a1. split; [|exact Ha]. unfold x'. cbn.
    destruct (Nat.eq_dec u t) as [->|N]; [|rewrite upd_other by exact N; exact Hw].
    rewrite upd_same. destruct Hw as (p1 & k2 & [E|E]); rewrite Hs in E; try discriminate.
    injection E as -> _ _. exists p, k. left. reflexivity.
  - intros u a1 Hw Hq. unfold x' in Hw, Hq. cbn [gb stk chand cq] in *.
    destruct (Nat.eq_dec u t) as [->|N]; [|rewrite upd_other in Hw by exact N; apply (V_q x HV u a1 Hw Hq)].
    rewrite upd_same in Hw. destruct Hw as (p1 & k1 & [E|E]); try discriminate.
    injection E as <- _ _. apply (V_q x HV t a); [|exact Hq]. exists p, k. right. rewrite Hs. reflexivity.
Qed.

Lemma cov_cs ff cc :
  S = stk_of (PCs ff cc) -> L (view_of x t) (PCs ff cc) -> X x t (PCs ff cc) -> Cov (gstep x t).
Proof.
  intros Hs HL HX. destruct cc;
    try (apply (cov_cs_a _ _ Hs HX I));
    try (apply (cov_cs_b _ _ Hs HX I)).
  - destruct HX.
  - destruct HX.
  - apply (cov_cs_commit _ _ _ _ _ Hs HX).
  - apply (cov_cs_pop _ _ _ _ _ Hs HX).
  - apply (cov_cs_wake _ _ _ _ _ Hs HL HX).
  - destruct HX.
  - apply (cov_cs_push _ _ _ _ Hs HL HX).
  - apply (cov_cs_defer _ _ _ _ Hs HL HX).
  - destruct HX.
Qed.
End Cs.
