(* C07: the lemmas behind Properties_C07.v, derived from the inductive invariant
   (RwlockInv.v, preserved by every step: RwlockMain.reachable_inv). *)
From Coq Require Import List ZArith Lia Bool Arith.
From LF Require Import Conc T1K Rwlock RwlockLemmas RwlockInv RwlockSteps RwlockGlobal RwlockMain.
Import ListNotations.
Local Open Scope Z_scope.

(* ---------- observable notions (no ghost) ---------- *)
(* the client continuation at the bottom of a fiber's stack = the call it is inside *)
Definition cfr (k : stack rwc) : option rwc :=
  match last k Start with FC c => Some c | _ => None end.

(* fiber t is inside a critical section of side sd: the acquiring call has returned
   (or is touching the data cell) and the releasing CAS has not yet succeeded *)
Definition holds (s : st) (t : nat) (sd : side) : Prop :=
  match cfr (stk s t) with
  | Some (RSeen _ _ _) => sd = SR
  | Some (WWrote _ _ _) => sd = SW
  | Some (UCheck sd' _ _ _) | Some (USnap sd' _ _ _) | Some (UCas sd' _ _ _ _) => sd = sd'
  | _ => False
  end.

(* fiber t is inside the wait of rdlock / wrlock (announced in the word, not yet returned) *)
Definition waiting (s : st) (t : nat) (sd : side) : Prop :=
  match cfr (stk s t) with Some (LWoken sd' _ _) => sd = sd' | _ => False end.

(* fiber t is inside tryrdlock / trywrlock *)
Definition trying (s : st) (t : nat) (sd : side) : Prop :=
  match cfr (stk s t) with Some (TSnap sd' _ _) | Some (TCasA sd' _ _) => sd = sd' | _ => False end.

(* fiber t is inside wake_from_mpsc_queue on list q *)
Definition popping (s : st) (t : nat) (q : nat) : Prop :=
  match stk s t with
  | KHead q' _ _ :: _ | KNext q' _ _ _ :: _ | KSetHead q' _ _ _ _ :: _
  | YRead :: KSpin q' _ _ :: _ | YNext _ :: KSpin q' _ _ :: _
  | KData q' _ _ _ _ :: _ | KCopy q' _ _ _ _ :: _ | KOut q' _ _ _ :: _
  | KState q' _ _ _ :: _ | KReady q' _ _ _ :: _ => q' = q
  | _ => False
  end.

Lemma popping_popper s t q : popping s t q -> is_popper (stk s t).
Proof. unfold popping. destruct (stk s t) as [|[] [|[] ?]]; cbn; tauto. Qed.

(* ---------- ghost roles versus observable notions ---------- *)
Lemma start_cfr t p : forall k h, cfr (snd (start t p k h)) = None \/
  (exists sd p' k', cfr (snd (start t p k h)) = Some (LSnap sd p' k') /\ h = HNone) \/
  (exists sd p' k', cfr (snd (start t p k h)) = Some (TSnap sd p' k') /\ h = HNone) \/
  (exists sd p' k' seen, cfr (snd (start t p k h)) = Some (UCheck sd p' k' seen) /\ h <> HNone).
Proof.
  induction p as [|o p IH]; intros k h; cbn [start]; [left; reflexivity|].
  destruct o, h; cbn [snd cfr last];
    try (specialize (IH (S k)); match goal with |- context [start t p (S k) ?h] =>
      specialize (IH h); destruct (start t p (S k) h); exact IH end);
    try (right; left; eexists _, _, _; split; reflexivity);
    try (right; right; left; eexists _, _, _; split; reflexivity);
    try (right; right; right; eexists _, _, _, _; split; [reflexivity|discriminate]).
Qed.

Lemma holds_role m s g t sd : shape m t (grole g t) (stk s t) -> holds s t sd -> grole g t = ROwn sd.
Proof.
  unfold holds. intros Sh H. remember (stk s t) as k0. remember (grole g t) as r0.
  destruct Sh; cbn in H; try tauto; try congruence.
Qed.

Lemma waiting_role m s g t sd : shape m t (grole g t) (stk s t) -> waiting s t sd -> exists w, grole g t = RWait sd w.
Proof.
  unfold waiting. intros Sh H. remember (stk s t) as k0. remember (grole g t) as r0.
  destruct Sh; cbn in H; try tauto; subst; eauto.
Qed.

Lemma holds_lt s g t sd : InvG s g -> holds s t sd -> (t < nthr s)%nat.
Proof.
  intros I H. destruct (Nat.lt_ge_cases t (nthr s)); auto.
  destruct (i_out _ _ I t H0) as [p E]. unfold holds in H. rewrite E in H. cbn in H. tauto.
Qed.

Lemma own_tp0 m t sd k q : shape m t (ROwn sd) k -> tp k q = 0.
Proof. intros H. inversion H; subst; reflexivity. Qed.

Lemma own_contrib s g t sd : InvG s g -> grole g t = ROwn sd -> c_own sd (grole g t) (stk s t) = 1.
Proof.
  intros I R. pose proof (i_shape _ _ I t) as Sh. rewrite R in *. unfold c_own.
  rewrite side_eqb_refl, (own_tp0 _ _ _ _ _ Sh). reflexivity.
Qed.

(* ---------- C07 exclusion ---------- *)
Lemma exclusion_of_inv s t : Inv s -> holds s t SW ->
  forall u, u <> t -> ~ holds s u SW /\ ~ holds s u SR.
Proof.
  intros [g I] Ht u Hu.
  pose proof (holds_role _ _ _ _ _ (i_shape _ _ I t) Ht) as Rt.
  pose proof (holds_lt _ _ _ _ I Ht) as Lt.
  pose proof (i_fields _ _ I) as (F1 & F2 & F3 & F4).
  pose proof (own_contrib s g t SW I Rt) as Ot.
  split; intros Hh.
  - pose proof (holds_role _ _ _ _ _ (i_shape _ _ I u) Hh) as Ru.
    pose proof (holds_lt _ _ _ _ I Hh) as Lu.
    pose proof (own2_le_count s g SW t u I Lt Lu ltac:(auto)) as O2. cbv beta iota in O2.
    pose proof (own_contrib s g u SW I Ru). lia.
  - pose proof (holds_role _ _ _ _ _ (i_shape _ _ I u) Hh) as Ru.
    pose proof (holds_lt _ _ _ _ I Hh) as Lu.
    pose proof (own_le_count s g SW t I Lt) as O1. pose proof (own_le_count s g SR u I Lu) as O3. cbv beta iota in O1, O3.
    pose proof (own_contrib s g u SR I Ru).
    assert (W1 : f_wl (counts s g) = 1) by lia. pose proof (i_excl _ _ I W1). lia.
Qed.

(* ---------- helpers on sums ---------- *)
Definition f_own (sd : side) (C : rwf) : Z := match sd with SW => f_wl C | SR => f_rc C end.
Definition f_ann (sd : side) (C : rwf) : Z := match sd with SW => f_ww C | SR => f_wr C end.

Lemma f_own_sum s g sd : f_own sd (counts s g) = zsum (fun t => c_own sd (grole g t) (stk s t)) (nthr s).
Proof. destruct sd; reflexivity. Qed.
Lemma f_ann_sum s g sd : f_ann sd (counts s g) = zsum (fun t => c_ann sd (grole g t) (stk s t)) (nthr s).
Proof. destruct sd; reflexivity. Qed.

Lemma tp_nonneg m t r k q : shape m t r k -> 0 <= tp k q.
Proof.
  intros H. destruct H; cbn [tp]; try lia; unfold pq in *; destruct (Nat.eqb (qof sd) q); lia.
Qed.

Lemma tp_le_own m t r k sd : shape m t r k -> tp k (qof sd) <= c_own sd r k.
Proof. intros H. unfold c_own. destruct r as [|sd'|sd' []]; try destruct (side_eqb sd sd'); cbn [b2z]; lia. Qed.

Lemma own_zero_all s g sd : InvG s g -> f_own sd (counts s g) = 0 ->
  forall u, (u < nthr s)%nat -> c_own sd (grole g u) (stk s u) = 0 /\ tp (stk s u) (qof sd) = 0.
Proof.
  intros I Z u Hu. pose proof (own_le_count s g sd u I Hu) as L. fold (f_own sd (counts s g)) in L.
  pose proof (shape_own_nonneg _ _ _ _ sd (i_shape _ _ I u)).
  pose proof (tp_le_own _ _ _ _ sd (i_shape _ _ I u)). pose proof (tp_nonneg _ _ _ _ (qof sd) (i_shape _ _ I u)). lia.
Qed.

Lemma ann_zero_all s g sd : InvG s g -> f_own sd (counts s g) = 0 -> f_ann sd (counts s g) = 0 ->
  forall u, (u < nthr s)%nat -> c_ann sd (grole g u) (stk s u) = 0.
Proof.
  intros I Z1 Z2 u Hu. rewrite f_ann_sum in Z2.
  assert (NN : forall j, (j < nthr s)%nat -> 0 <= c_ann sd (grole g j) (stk s j)).
  { intros j Hj. destruct (own_zero_all s g sd I Z1 j Hj) as [_ T]. unfold c_ann. rewrite T.
    destruct (grole g j) as [|?|? []]; try destruct (side_eqb sd _); cbn [b2z]; lia. }
  pose proof (zsum_ge1 _ _ u NN Hu). cbv beta in H. pose proof (NN u Hu). lia.
Qed.

Lemma wait_tp0 m t sd w k q : shape m t (RWait sd w) k -> tp k q = 0.
Proof. intros H. inversion H; subst; reflexivity. Qed.

Lemma waiting_lt s g t sd : InvG s g -> waiting s t sd -> (t < nthr s)%nat.
Proof.
  intros I H. destruct (Nat.lt_ge_cases t (nthr s)); auto.
  destruct (i_out _ _ I t H0) as [p E]. unfold waiting in H. rewrite E in H. cbn in H. tauto.
Qed.

(* if the word shows side sd neither owned/handed nor announced, no fiber holds or waits on that side *)
Lemma side_quiet s g sd : InvG s g -> f_own sd (counts s g) = 0 -> f_ann sd (counts s g) = 0 ->
  forall u, ~ holds s u sd /\ ~ waiting s u sd.
Proof.
  intros I Z1 Z2 u. split; intros H.
  - pose proof (holds_lt _ _ _ _ I H) as Lu.
    pose proof (holds_role _ _ _ _ _ (i_shape _ _ I u) H) as Ru.
    destruct (own_zero_all s g sd I Z1 u Lu) as [E _]. rewrite (own_contrib s g u sd I Ru) in E. lia.
  - pose proof (waiting_lt _ _ _ _ I H) as Lu.
    destruct (waiting_role _ _ _ _ _ (i_shape _ _ I u) H) as [w Ru].
    destruct (own_zero_all s g sd I Z1 u Lu) as [E T].
    pose proof (ann_zero_all s g sd I Z1 Z2 u Lu) as A.
    rewrite Ru in E, A. unfold c_own, c_ann in *. rewrite T, side_eqb_refl in *. destruct w; cbn [b2z] in *; lia.
Qed.

(* ---------- the word ---------- *)
Lemma word_inv_of_inv s : Inv s ->
  exists g, (forall t, shape (mem s) t (grole g t) (stk s t)) /\
            word (mem s) 0 = rw_pack (counts s g) /\ fields_ok (counts s g) /\
            (forall t sd, holds s t sd -> grole g t = ROwn sd) /\
            (forall t sd, waiting s t sd -> exists w, grole g t = RWait sd w) /\
            (f_wl (counts s g) = 1 -> f_rc (counts s g) = 0) /\
            (0 < f_ww (counts s g) + f_wr (counts s g) -> 0 < f_wl (counts s g) + f_rc (counts s g)).
Proof.
  intros [g I]. exists g. repeat split; try apply I.
  - intros t sd. apply holds_role with (m := mem s). apply I.
  - intros t sd. apply waiting_role with (m := mem s). apply I.
Qed.

Lemma word_zero_of_inv s : Inv s -> word (mem s) 0 = 0 -> forall u sd, ~ holds s u sd /\ ~ waiting s u sd.
Proof.
  intros [g I] W u sd. pose proof (i_fields _ _ I) as F. pose proof F as (F1 & F2 & F3 & F4).
  rewrite (i_word _ _ I) in W. unfold rw_pack in W.
  assert (f_wl (counts s g) = 0 /\ f_rc (counts s g) = 0 /\ f_wr (counts s g) = 0 /\ f_ww (counts s g) = 0) as (Z1 & Z2 & Z3 & Z4).
  { change (2 ^ 22) with 4194304 in W. change (2 ^ 43) with 8796093022208 in W. lia. }
  apply (side_quiet s g sd I); destruct sd; cbn; auto.
Qed.

(* ---------- try variants ---------- *)
Lemma try_nonblocking_of_inv s t sd : Inv s -> trying s t sd ->
  (exists c, stk s t = [WReadW 0; FC c]) \/
  (exists e c, stk s t = [WCasW 0 e (acquire sd e) 5; FC c] /\ busy sd e = false).
Proof.
  intros [g I] H. pose proof (i_shape _ _ I t) as Sh. unfold trying in H.
  remember (stk s t) as k0. remember (grole g t) as r0.
  destruct Sh; cbn in H; try tauto; subst; eauto.
Qed.

Lemma try_legal_of_inv s t sd p k e n : Inv s ->
  stk s t = [WCasW 0 e n 5; FC (TCasA sd p k)] -> word (mem s) 0 = e ->
  busy sd e = false /\ n = acquire sd e /\
  (forall u, ~ holds s u SW /\ ~ waiting s u SW) /\
  (sd = SW -> forall u, ~ holds s u SR /\ ~ waiting s u SR).
Proof.
  intros [g I] Hk W. pose proof (i_shape _ _ I t) as Sh. rewrite Hk in Sh.
  inversion Sh; subst. split; auto. split; auto.
  pose proof (i_fields _ _ I) as F.
  assert (Eu : rw_unpack (word (mem s) 0) = counts s g) by (rewrite (i_word _ _ I); apply rw_unpack_pack; auto).
  match goal with H : busy _ _ = false |- _ => rename H into Bz end.
  unfold busy in Bz. destruct sd.
  - rewrite Eu in Bz. destruct (f_ww (counts s g) =? 0) eqn:E2; [|discriminate].
    destruct (f_wl (counts s g) =? 0) eqn:E1; [|discriminate]. apply Z.eqb_eq in E1, E2.
    split; [|discriminate]. apply (side_quiet s g SW I); auto.
  - destruct (word (mem s) 0 =? 0) eqn:E0; [|discriminate]. apply Z.eqb_eq in E0.
    split; [|intros _]; intros u; apply (word_zero_of_inv s (ex_intro _ g I) E0).
Qed.

(* ---------- one consumer ---------- *)
Lemma single_consumer_of_inv s u v q q' : Inv s -> popping s u q -> popping s v q' -> u = v.
Proof. intros [g I] P1 P2. apply (i_one _ _ I); eapply popping_popper; eauto. Qed.

(* the parameters of a wake_from_mpsc_queue in progress: list, count asked for, wake-ups done *)
Definition pop_params (k : stack rwc) : option (nat * Z * Z) :=
  match k with
  | KHead q c w :: _ | KNext q c w _ :: _ | KSetHead q c w _ _ :: _
  | YRead :: KSpin q c w :: _ | YNext _ :: KSpin q c w :: _
  | KData q c w _ _ :: _ | KCopy q c w _ _ :: _ | KOut q c w _ :: _
  | KState q c w _ :: _ | KReady q c w _ :: _ => Some (q, c, w)
  | _ => None
  end.

Lemma popper_bounds_of_inv s u q c w : Inv s -> pop_params (stk s u) = Some (q, c, w) ->
  0 <= w < c /\ (q = 0%nat \/ q = 1%nat) /\ exists p k r, cfr (stk s u) = Some (UWoke p k r).
Proof.
  intros [g I] H. pose proof (i_shape _ _ I u) as Sh.
  remember (stk s u) as k0. remember (grole g u) as r0.
  destruct Sh; cbn in H; try discriminate; inversion H; subst; unfold pq in *;
    (split; [lia|split; [destruct sd; auto|cbn; eauto]]).
Qed.

(* ---------- release ---------- *)
(* what the releasing CAS does when it is about to succeed *)
Lemma release_admits_of_inv s t sd p k r e n h :
  Z.of_nat (nthr s) < 2 ^ 21 -> Inv s -> status_of s t = SReady ->
  stk s t = [WCasW 0 e n 5; FC (UCas sd p k r h)] -> word (mem s) 0 = e ->
  let C := rw_unpack e in
  let s' := fst (step s t) in
  (match h with
   | HoWriter =>        (* exactly one waiting writer is handed the lock *)
       0 < f_ww C /\ n = rw_pack {| f_wl := 1; f_rc := 0; f_wr := f_wr C; f_ww := f_ww C - 1 |} /\
       stk s' t = [KHead 0 1 0; FC (UWoke p k r)]
   | HoReaders c =>     (* all readers waiting at this instant are handed the lock *)
       f_ww C = 0 /\ c = f_wr C /\ 0 < c /\ sd = SW /\
       n = rw_pack {| f_wl := 0; f_rc := c; f_wr := 0; f_ww := 0 |} /\
       stk s' t = [KHead 1 c 0; FC (UWoke p k r)]
   | HoNone =>          (* nobody waits, or other readers still hold the lock *)
       ((f_ww C = 0 /\ f_wr C = 0) \/ (sd = SR /\ 1 < f_rc C)) /\
       f_ww (rw_unpack n) = f_ww C /\ f_wr (rw_unpack n) = f_wr C /\
       stk s' t = snd (start t p (S k) HNone)
   end) /\
  word (mem s') 0 = n /\
  (* the owner/handed counts never both drop to zero while somebody is announced *)
  (0 < f_ww (rw_unpack n) + f_wr (rw_unpack n) -> 0 < f_wl (rw_unpack n) + f_rc (rw_unpack n)).
Proof.
  intros G [g I] R Hk W.
  pose proof (ready_lt _ _ R) as Ht.
  pose proof (i_shape _ _ I t) as Sh. rewrite Hk in Sh. inversion Sh; subst.
  match goal with H : release _ _ = _ |- _ => rename H into Rel end.
  match goal with H : run_ok _ _ |- _ => rename H into RO end.
  match goal with H : ROwn _ = grole g t |- _ => rename H into Hr end.
  intros C s'.
  assert (HC : C = rw_unpack (word (mem s) 0)) by reflexivity. clearbody C.
  assert (Hs' : s' = fst (step s t)) by reflexivity. clearbody s'.
  assert (B : (word (mem s) 0 =? word (mem s) 0) = true) by apply Z.eqb_refl.
  assert (ES : s' = mk s t (set_word (mem s) 0 n) (after_release t p k r h)).
  { rewrite Hs'. symmetry in Hk. destruct h; stp Hk; reflexivity. }
  pose proof (release_inv s g t sd p k r _ n h G I Ht (eq_sym Hk) Hr RO Rel B) as I'. rewrite <- ES in I'.
  assert (Wn : word (mem s') 0 = n) by (rewrite ES; cbn [mk mem set_word word]; apply upd_same).
  assert (Un : rw_unpack n = counts s' (gset_role g t RIdle)).
  { rewrite <- Wn, (i_word _ _ I'). apply rw_unpack_pack. apply (i_fields _ _ I'). }
  split; [|split; [exact Wn|rewrite Un; apply (i_held_lock _ _ I')]].
  assert (Eu : C = counts s g) by (rewrite HC, (i_word _ _ I); apply rw_unpack_pack; apply (i_fields _ _ I)).
  pose proof (i_fields _ _ I) as F. pose proof F as (F1 & F2 & F3 & F4).
  pose proof (i_excl _ _ I) as Ex. pose proof (i_rdead _ _ I) as Rd.
  pose proof (own_le_count s g sd t I Ht) as Own. rewrite (own_contrib s g t sd I (eq_sym Hr)) in Own.
  rewrite (i_word _ _ I) in Rel. rewrite <- Eu in *.
  assert (St : stk s' t = after_release t p k r h) by (rewrite ES; cbn [mk stk]; apply upd_same).
  destruct sd; cbv beta iota in Own.
  - assert (Wl0 : f_wl C = 0) by lia.
    rewrite release_SR in Rel by (auto; lia).
    destruct (f_rc C =? 1) eqn:E1; [destruct (f_ww C =? 0) eqn:E2|]; inversion Rel; subst n h;
      rewrite ?Z.eqb_eq, ?Z.eqb_neq in *.
    + assert (E3 : f_wr C = 0) by (destruct (Z.eq_dec (f_wr C) 0); auto; assert (0 < f_ww C) by (apply Rd; lia); lia).
      split; [left; auto|]. rewrite rw_unpack_pack by (unfold fields_ok, set_rc; cbn [f_wl f_rc f_wr f_ww]; rewrite FW_val in *; lia). cbn. auto.
    + split; [lia|]. split; [|exact St]. unfold set_ww, set_wl, set_rc. cbn [f_wl f_rc f_wr f_ww]. reflexivity.
    + split; [right; split; auto; lia|]. rewrite rw_unpack_pack by (unfold fields_ok, set_rc; cbn [f_wl f_rc f_wr f_ww]; rewrite FW_val in *; lia). cbn. auto.
  - assert (Wl1 : f_wl C = 1) by lia. assert (Rc0 : f_rc C = 0) by auto.
    rewrite release_SW in Rel by auto.
    destruct (f_ww C =? 0) eqn:E2; [destruct (f_wr C =? 0) eqn:E3|]; inversion Rel; subst n h;
      rewrite ?Z.eqb_eq, ?Z.eqb_neq in *.
    + split; [left; auto|]. rewrite rw_unpack_pack by (unfold fields_ok, set_wl; cbn [f_wl f_rc f_wr f_ww]; rewrite FW_val in *; lia). cbn. auto.
    + split; [auto|]. split; [auto|]. split; [lia|]. split; [auto|]. split; [|exact St].
      unfold set_wr, set_rc, set_wl. cbn [f_wl f_rc f_wr f_ww]. rewrite E2. reflexivity.
    + split; [lia|]. split; [|exact St]. unfold set_ww, set_wl. cbn [f_wl f_rc f_wr f_ww]. rewrite Rc0. reflexivity.
Qed.

(* ---------- nobody is stranded ---------- *)
(* a blocked fiber is a waiter of the lock, and the word then shows the lock owned or handed over *)
Lemma blocked_obligation_of_inv s t : Inv s -> status_of s t = SBlocked ->
  (exists sd, waiting s t sd) /\
  0 < f_wl (rw_unpack (word (mem s) 0)) + f_rc (rw_unpack (word (mem s) 0)).
Proof.
  intros [g I] B.
  assert (Ht : (t < nthr s)%nat) by (unfold status_of in B; destruct (Nat.ltb_spec t (nthr s)); [auto|discriminate]).
  assert (AS : exists r, stk s t = Asleep :: r /\ blocked (mem s) t = true).
  { unfold status_of in B. destruct (t <? nthr s)%nat; [|discriminate]. unfold kstatus in B.
    destruct (stk s t) as [|[] ?]; try discriminate. destruct (blocked (mem s) t); [eauto|discriminate]. }
  destruct AS as (r & AS & BL).
  pose proof (i_shape _ _ I t) as Sh. rewrite AS in Sh.
  assert (Eu : rw_unpack (word (mem s) 0) = counts s g) by (rewrite (i_word _ _ I); apply rw_unpack_pack; apply (i_fields _ _ I)).
  rewrite Eu. pose proof (i_fields _ _ I) as (F1 & F2 & F3 & F4).
  inversion Sh; subst.
  - (* the releasing fiber's spin-yield never sleeps: excluded by the shape *)
    split; [exists sd; unfold waiting; rewrite AS; reflexivity|].
    match goal with H : blocked (mem s) t = _ |- _ => rewrite BL in H end.
    pose proof (own_le_count s g sd t I Ht) as O. rewrite <- H in O. unfold c_own in O. rewrite side_eqb_refl in O.
    rewrite AS in O. cbn [tp b2z] in O.
    match goal with H1 : w = InL \/ w = Popped \/ w = Woken |- _ => destruct H1 as [-> | [-> | ->]] end; [| |discriminate].
    + (* announced, not popped *)
      destruct (Z.eq_dec (f_own sd (counts s g)) 0) as [Z0|NZ].
      * assert (0 < f_ann sd (counts s g)).
        { rewrite f_ann_sum.
          assert (NN : forall j, (j < nthr s)%nat -> 0 <= c_ann sd (grole g j) (stk s j)).
          { intros j Hj. destruct (own_zero_all s g sd I Z0 j Hj) as [_ T]. unfold c_ann. rewrite T.
            destruct (grole g j) as [|?|? []]; try destruct (side_eqb sd _); cbn [b2z]; lia. }
          pose proof (zsum_ge1 _ _ t NN Ht) as L. cbv beta in L.
          assert (E1 : c_ann sd (grole g t) (stk s t) = 1).
          { rewrite <- H, AS. unfold c_ann. rewrite side_eqb_refl. reflexivity. }
          lia. }
        apply (i_held_lock _ _ I). unfold f_ann in *. destruct sd; lia.
      * unfold f_own in *. destruct sd; lia.
    + destruct sd; cbv beta iota in O; lia.
Qed.

(* ---------- quiescence ---------- *)
Lemma ready_of_top s u : (u < nthr s)%nat -> stk s u <> [] -> ~ is_asleep (stk s u) -> status_of s u = SReady.
Proof.
  intros Hu NE NA. unfold status_of. destruct (Nat.ltb_spec u (nthr s)); [|lia].
  unfold kstatus. destruct (stk s u) as [|[] ?]; try reflexivity; [congruence|cbn in NA; tauto].
Qed.

(* when no fiber can run, every unit of write_locked / reader_count is accounted for by a fiber
   that finished while holding the lock: nobody else "owns or has been handed" anything *)
Lemma quiescent_owners_of_inv s : Inv s -> (forall t, status_of s t <> SReady) ->
  exists g, word (mem s) 0 = rw_pack (counts s g) /\ fields_ok (counts s g) /\
            (forall t sd, waiting s t sd -> exists w, grole g t = RWait sd w) /\
            forall u sd, 0 < c_own sd (grole g u) (stk s u) -> stk s u = [] /\ grole g u = ROwn sd.
Proof.
  intros [g I] Q. exists g. split; [apply I|]. split; [apply I|].
  split; [intros t sd; apply waiting_role with (m := mem s); apply I|].
  intros u sd P.
  assert (NR : forall v, (v < nthr s)%nat -> stk s v <> [] -> ~ is_asleep (stk s v) -> False).
  { intros v Hv A B. apply (Q v). apply ready_of_top; auto. }
  destruct (Nat.lt_ge_cases u (nthr s)) as [Hu|Hu].
  2:{ destruct (i_out _ _ I u Hu) as [p E]. pose proof (i_shape _ _ I u) as Sh. rewrite E in *.
      inversion Sh; subst. rewrite <- H in P. cbn in P. lia. }
  pose proof (i_shape _ _ I u) as Sh.
  remember (stk s u) as k0 eqn:Hk. remember (grole g u) as r0 eqn:Hr.
  destruct Sh; try (exfalso; apply (NR u Hu); rewrite <- Hk; [discriminate|cbn; tauto]).
  - (* finished *) split; auto. destruct H as [->|[sd' ->]]; [cbn in P; lia|].
    unfold c_own in P. cbn [tp] in P. destruct (side_eqb sd sd') eqn:E; [apply side_eqb_eq in E; congruence|cbn in P; lia].
  - (* asleep *) exfalso. destruct H as [-> | [-> | ->]].
    + unfold c_own in P. cbn [tp] in P. lia.
    + destruct (i_popped _ _ I u sd0 (eq_sym Hr)) as [v Hv].
      pose proof (inflight_popper _ _ _ Hv) as PV. pose proof (out_not_popper _ _ _ I PV) as Lv.
      apply (NR v Lv); destruct (stk s v) as [|[] ?]; cbn in PV; try tauto; try discriminate; cbn; tauto.
    + apply (Q u). unfold status_of. destruct (Nat.ltb_spec u (nthr s)); [|lia]. rewrite <- Hk. cbn [kstatus].
      rewrite H1. reflexivity.
Qed.
