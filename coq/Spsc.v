(* Model of include/spsc_fifo.h (C15, SPSC queue): one step per shared access,
   in the order the -O0 code performs them (rt/h_spsc.c).
   locs: 1 = fifo.head, 2 = fifo.tail; node n (ids from 1, 0 = NULL):
   data = 98+2n, next = 99+2n.  Node 1 is the initial stub.
   push(n) = [harness: n->data := v]  store_rel(n->next, NULL);
             prev := load_acq(tail); store_rel(tail, n); store_rel(prev->next, n)
   trypop  = hd := load_acq(head); hn := load_acq(hd->next);
             if hn = NULL return NULL;
             store_rel(head, hn); x := hn->data; hd->data := x; return hd
             [harness: read hd->data; hand hd back through the free stack]
   Node recycling: every node returned by trypop is put on a free stack (plain
   harness memory, not shared-memory traffic of the library: only one thread
   runs at a time).  ORecyc v = the producer takes the most recently freed
   node (one explicit scheduling point, then the decision) and pushes it with
   data v; with an empty free stack the op is a no-op returning 0.  A recycled
   node still has its stale next pointer. *)
From Coq Require Import List ZArith Lia Bool Arith.
From LF Require Import Conc.
Import ListNotations.

Inductive op := OPush (n v : nat) | OPop | ORecyc (v : nat).

Inductive pcT := PTake | PData | PNull | PLoadTail | PStoreTail | PLink
               | QHead | QNext | QSetHead | QRead | QWrite | QUse | Fin.

Record tst := { pc : pcT; node : nat; arg : nat; prev : nat;
                hd : nat; hn : nat; rdv : nat;
                prog : list op; opi : nat }.

Record st := { head : nat; tail : nat; nxt : nat -> nat; dat : nat -> nat;
               freed : list nat; thr : nat -> tst; nthr : nat }.

Definition with_pc (T : tst) (p : pcT) : tst :=
  {| pc := p; node := node T; arg := arg T; prev := prev T; hd := hd T; hn := hn T;
     rdv := rdv T; prog := prog T; opi := opi T |}.

(* begin the next operation of the program (the C thread runs on to the first
   access of its next call inside the same grant) *)
Definition next_op (T : tst) : tst :=
  match prog T with
  | [] => {| pc := Fin; node := node T; arg := arg T; prev := prev T; hd := hd T; hn := hn T;
             rdv := rdv T; prog := []; opi := opi T |}
  | OPush n v :: r =>
      {| pc := PData; node := n; arg := v; prev := prev T; hd := hd T; hn := hn T;
         rdv := rdv T; prog := r; opi := S (opi T) |}
  | OPop :: r =>
      {| pc := QHead; node := node T; arg := arg T; prev := prev T; hd := hd T; hn := hn T;
         rdv := rdv T; prog := r; opi := S (opi T) |}
  | ORecyc v :: r =>
      {| pc := PTake; node := node T; arg := v; prev := prev T; hd := hd T; hn := hn T;
         rdv := rdv T; prog := r; opi := S (opi T) |}
  end.

Definition set_thr (s : st) (t : nat) (x : tst) : st :=
  {| head := head s; tail := tail s; nxt := nxt s; dat := dat s; freed := freed s;
     thr := upd (thr s) t x; nthr := nthr s |}.

Local Open Scope Z_scope.
Definition ev (t : nat) (loc kind : Z) (v : nat) : list Z := [Z.of_nat t; loc; kind; Z.of_nat v].
Definition ret (t : nat) (T : tst) (v : nat) : list Z := [Z.of_nat t; Z.of_nat (opi T); 909; Z.of_nat v].
Definition dloc (n : nat) : Z := 98 + 2 * Z.of_nat n.
Definition nloc (n : nat) : Z := 99 + 2 * Z.of_nat n.
Local Close Scope Z_scope.

Definition step (s : st) (t : nat) : st * list Z :=
  let T := thr s t in
  match pc T with
  | Fin => (s, [])
  | PTake =>
      match freed s with
      | [] => (set_thr s t (next_op T), ev t 0 99 0 ++ ret t T 0)
      | n :: fr =>
          ({| head := head s; tail := tail s; nxt := nxt s; dat := dat s; freed := fr;
              thr := upd (thr s) t {| pc := PData; node := n; arg := arg T; prev := prev T; hd := hd T;
                                      hn := hn T; rdv := rdv T; prog := prog T; opi := opi T |};
              nthr := nthr s |},
           ev t 0 99 0)
      end
  | PData =>
      ({| head := head s; tail := tail s; nxt := nxt s; dat := upd (dat s) (node T) (arg T); freed := freed s;
          thr := upd (thr s) t (with_pc T PNull); nthr := nthr s |},
       ev t (dloc (node T)) 19 (arg T))
  | PNull =>
      ({| head := head s; tail := tail s; nxt := upd (nxt s) (node T) 0; dat := dat s; freed := freed s;
          thr := upd (thr s) t (with_pc T PLoadTail); nthr := nthr s |},
       ev t (nloc (node T)) 33 0)
  | PLoadTail =>
      (set_thr s t {| pc := PStoreTail; node := node T; arg := arg T; prev := tail s; hd := hd T; hn := hn T;
                      rdv := rdv T; prog := prog T; opi := opi T |},
       ev t 2 22 (tail s))
  | PStoreTail =>
      ({| head := head s; tail := node T; nxt := nxt s; dat := dat s; freed := freed s;
          thr := upd (thr s) t (with_pc T PLink); nthr := nthr s |},
       ev t 2 33 (node T))
  | PLink =>
      ({| head := head s; tail := tail s; nxt := upd (nxt s) (prev T) (node T); dat := dat s; freed := freed s;
          thr := upd (thr s) t (next_op T); nthr := nthr s |},
       ev t (nloc (prev T)) 33 (node T) ++ ret t T (node T))
  | QHead =>
      (set_thr s t {| pc := QNext; node := node T; arg := arg T; prev := prev T; hd := head s; hn := hn T;
                      rdv := rdv T; prog := prog T; opi := opi T |},
       ev t 1 22 (head s))
  | QNext =>
      let e := ev t (nloc (hd T)) 22 (nxt s (hd T)) in
      match nxt s (hd T) with
      | O => (set_thr s t (next_op T), e ++ ret t T 0)
      | S _ =>
          (set_thr s t {| pc := QSetHead; node := node T; arg := arg T; prev := prev T; hd := hd T;
                          hn := nxt s (hd T); rdv := rdv T; prog := prog T; opi := opi T |},
           e)
      end
  | QSetHead =>
      ({| head := hn T; tail := tail s; nxt := nxt s; dat := dat s; freed := freed s;
          thr := upd (thr s) t (with_pc T QRead); nthr := nthr s |},
       ev t 1 33 (hn T))
  | QRead =>
      (set_thr s t {| pc := QWrite; node := node T; arg := arg T; prev := prev T; hd := hd T; hn := hn T;
                      rdv := dat s (hn T); prog := prog T; opi := opi T |},
       ev t (dloc (hn T)) 9 (dat s (hn T)))
  | QWrite =>
      ({| head := head s; tail := tail s; nxt := nxt s; dat := upd (dat s) (hd T) (rdv T); freed := freed s;
          thr := upd (thr s) t (with_pc T QUse); nthr := nthr s |},
       ev t (dloc (hd T)) 19 (rdv T))
  | QUse =>
      ({| head := head s; tail := tail s; nxt := nxt s; dat := dat s; freed := hd T :: freed s;
          thr := upd (thr s) t (next_op T); nthr := nthr s |},
       ev t (dloc (hd T)) 9 (dat s (hd T)) ++ ret t T (hd T))
  end.

Definition status_of (s : st) (t : nat) : status :=
  if t <? nthr s then match pc (thr s t) with Fin => SDone | _ => SReady end else SDone.

Definition idle_thread (p : list op) : tst :=
  next_op {| pc := Fin; node := 0; arg := 0; prev := 0; hd := 0; hn := 0; rdv := 0;
             prog := p; opi := 0 |}.

(* spsc_fifo_init: head = tail = zeroed stub (node 1) *)
Definition init (progs : list (list op)) : st :=
  {| head := 1; tail := 1; nxt := fun _ => 0; dat := fun _ => 0; freed := [];
     thr := fun t => idle_thread (nth t progs []); nthr := length progs |}.

Definition M : machine :=
  {| mstate := st; mstep := step; mstatus := status_of; mthreads := nthr |}.

(* ---------- executable entry point for the correspondence run ---------- *)
Definition dec_op (p : Z * Z) : op :=
  match fst p with
  | 1%Z => OPush (Z.to_nat (snd p / 1000)) (Z.to_nat (snd p mod 1000))
  | 3%Z => ORecyc (Z.to_nat (snd p))
  | _ => OPop
  end.

Definition run_case (l : list Z) : list Z :=
  match decode_case l with
  | Some c =>
      let dmax := Z.to_nat (nthZ (c_params c) 0) in
      run_all M (init (map (map dec_op) (c_progs c))) [] (c_sched c) dmax
  | None => [(-1)%Z]
  end.
