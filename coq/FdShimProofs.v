(* C08 — lemmas about coq/FdShim.v.  Everything is stated for ALL oracles
   (real-call results, wait outcomes, flag bytes seen by should_block), all
   fuel values (non-termination = no outcome, excluded by the statements) and
   all shim records; the generated table only enters through the boolean
   side-conditions (…_b) that Properties_C08.v instantiates. *)
From Coq Require Import List ZArith Bool Lia.
From LF Require Import FdShim.
Import ListNotations.
Open Scope Z_scope.

Lemma forallb_false_witness {A} (f : A -> bool) (l : list A) :
  forallb f l = false -> exists x, In x l /\ f x = false.
Proof.
  induction l as [|a l IH]; cbn; [discriminate|].
  destruct (f a) eqn:E; cbn.
  - intros H. destruct (IH H) as [x [Hx Hf]]. exists x. auto.
  - intros _. exists a. auto.
Qed.

(* ------------------------------------------------------------------------ *)
(* shim_result_allowed                                                        *)
(* ------------------------------------------------------------------------ *)
Section Result.
  Variable sh : shim.
  Variable dw : bool.
  Variable real : nat -> res.
  Variable wres : nat -> bool.
  Variable sbv : nat -> bool.
  Notation rt := (retryable (sh_retry sh)).

  Definition all_retry (n : nat) : Prop := forall k, (k < n)%nat -> rt (real k) = true.

  (* what holds of an outcome together with the number of real calls made *)
  Definition post (n : nat) (o : outcome) : Prop :=
    match o with
    | FromReal r => (0 < n)%nat /\ r = real (n - 1) /\ all_retry (n - 1)
    | FromClosed => all_retry n
    | FromSoError => all_retry n
    end.

  Definition pinv (ph : phase) (n : nat) : Prop :=
    match ph with
    | PReal | PWait => all_retry n
    | PRet o => post n o
    end.

  Lemma after_real_inv n r sb :
    r = real n -> all_retry n -> pinv (after_real sh dw sb n r) (S n).
  Proof.
    intros Hr Hall. unfold after_real.
    assert (Hlast : post (S n) (FromReal r)).
    { cbn. replace (n - 0)%nat with n by lia. repeat split; auto; lia. }
    assert (Hw : rt r && negb dw && sb = true -> all_retry (S n)).
    { intros H. apply andb_prop in H as [H _]. apply andb_prop in H as [H _].
      intros k Hk. destruct (Nat.eq_dec k n) as [->|]; [rewrite <- Hr; exact H|apply Hall; lia]. }
    destruct (sh_shape sh); cbn.
    - destruct (rt r && negb dw && sb) eqn:E; cbn; auto.
    - destruct (rt r && negb dw && sb) eqn:E; cbn; auto.
    - destruct (rt r && negb dw && sb) eqn:E; cbn; [|exact Hlast].
      destruct (Nat.eqb n 0); cbn; auto.
    - destruct (rt r && negb dw && sb) eqn:E; cbn; [|exact Hlast].
      destruct (Nat.eqb n 0); cbn; auto.
    - exact Hlast.
  Qed.

  Lemma after_wake_inv n w : all_retry n -> pinv (after_wake sh w) n.
  Proof. intros H. unfold after_wake. destruct w; [destruct (sh_shape sh)|]; cbn; auto. Qed.

  Lemma go_post : forall fuel ph c c' o,
    pinv ph (nr c) -> go sh dw real wres sbv fuel ph c = (c', Some o) -> post (nr c') o.
  Proof.
    induction fuel as [|f IH]; intros ph c c' o Hinv Hgo.
    - destruct ph; cbn in Hgo; try discriminate. inversion Hgo; subst. exact Hinv.
    - destruct ph; cbn in Hgo.
      + eapply IH; [|exact Hgo]. cbn [nr]. apply after_real_inv; auto.
      + eapply IH; [|exact Hgo]. cbn [nr]. apply after_wake_inv; auto.
      + inversion Hgo; subst. exact Hinv.
  Qed.

  Lemma run_post fuel c' o : run sh dw real wres sbv fuel = (c', Some o) -> post (nr c') o.
  Proof.
    unfold run. intros H. eapply go_post; [|exact H]. cbn [nr].
    assert (A0 : all_retry 0) by (intros k Hk; lia).
    unfold start. destruct (sh_shape sh); cbn; auto. destruct (negb dw && sbv 0%nat); cbn; auto.
  Qed.

  (* a retryable result is an error: it transferred nothing *)
  Lemma retryable_is_error r : rt r = true -> exists e, r = RErr e.
  Proof. destruct r as [v|e]; [destruct (sh_retry sh); discriminate|eauto]. Qed.
End Result.

(* ------------------------------------------------------------------------ *)
(* shim_blocking_never_eagain                                                 *)
(* ------------------------------------------------------------------------ *)
Definition good_outcome (k : retry_errno) (o : outcome) : bool :=
  match o with
  | FromReal r => negb (retryable k r)
  | FromSoError => match k with EINPROGRESS => true | _ => false end
  | FromClosed => false
  end.

(* shapes under which a descriptor in blocking mode never reports the retry errno *)
Definition blocking_ok (s : shim) : bool :=
  match sh_shape s, sh_retry s with
  | PreWaitLoop, _ | PostFailLoop, _ => true
  | SingleWait, EINPROGRESS => true
  | NoWait, ENone => true
  | _, _ => false
  end.
Definition waits (s : shim) : bool := match sh_retry s with ENone => false | _ => true end.
Definition blocking_ok_table (l : list shim) : bool := forallb blocking_ok l.

Section Blocking.
  Variable sh : shim.
  Variable real : nat -> res.
  Variable wres : nat -> bool.
  Variable sbv : nat -> bool.
  Hypothesis Hsb : forall k, sbv k = true.     (* blocking mode, in range, at every test *)
  Hypothesis Hw : forall k, wres k = true.      (* not closed meanwhile *)

  Definition bgood (ph : phase) (n : nat) : Prop :=
    match ph with
    | PRet o => good_outcome (sh_retry sh) o = true
    | PReal => sh_shape sh = SingleWait -> n = 0%nat     (* connect makes one real call *)
    | PWait => True
    end.

  Lemma after_real_bgood : blocking_ok sh = true -> waits sh = true ->
    forall n r, (sh_shape sh = SingleWait -> n = 0%nat) -> bgood (after_real sh false true n r) (S n).
  Proof.
    unfold blocking_ok, waits, bgood, after_real. intros Hok Hwt n r Hn.
    destruct (retryable (sh_retry sh) r) eqn:E; revert E Hok Hwt Hn;
      destruct (sh_shape sh), (sh_retry sh); intros E Hok Hwt Hn; try discriminate; cbn;
      try (rewrite (Hn eq_refl); cbn); cbn in E; try rewrite E; auto.
  Qed.

  Lemma after_wake_bgood : blocking_ok sh = true -> waits sh = true -> forall n, bgood (after_wake sh true) n.
  Proof.
    unfold blocking_ok, waits, bgood, after_wake. intros Hok Hwt n.
    destruct (sh_shape sh), (sh_retry sh); try discriminate; cbn; auto; discriminate.
  Qed.

  Lemma go_blocking : blocking_ok sh = true -> waits sh = true ->
    forall fuel ph c c' o, bgood ph (nr c) ->
      go sh false real wres sbv fuel ph c = (c', Some o) -> good_outcome (sh_retry sh) o = true.
  Proof.
    intros Hok Hwt. induction fuel as [|f IH]; intros ph c c' o Hg Hgo.
    - destruct ph; cbn in Hgo; try discriminate. inversion Hgo; subst. exact Hg.
    - destruct ph; cbn in Hgo.
      + eapply IH; [|exact Hgo]. rewrite Hsb. cbn [nr]. apply after_real_bgood; auto.
      + eapply IH; [|exact Hgo]. rewrite Hw. cbn [nr]. apply after_wake_bgood; auto.
      + inversion Hgo; subst. exact Hg.
  Qed.

  Lemma run_blocking : blocking_ok sh = true -> waits sh = true ->
    forall fuel c' o, run sh false real wres sbv fuel = (c', Some o) -> good_outcome (sh_retry sh) o = true.
  Proof.
    intros Hok Hwt fuel c' o H. unfold run in H. eapply go_blocking; eauto.
    unfold start. rewrite Hsb. destruct (sh_shape sh); cbn; auto.
  Qed.
End Blocking.

(* a waiting shim whose shape is not blocking_ok returns the retry errno (or an
   unfinished connect) to a caller whose descriptor is in blocking mode *)
Definition retry_code (k : retry_errno) : Z := match k with EAGAIN => 1 | EINPROGRESS => 4 | ENone => 0 end.

Lemma not_blocking_ok_refuted (sh : shim) :
  waits sh = true -> blocking_ok sh = false ->
  exists o, snd (run sh false (fun _ => RErr (retry_code (sh_retry sh))) (fun _ => true) (fun _ => true) 4) = Some o
            /\ good_outcome (sh_retry sh) o = false.
Proof.
  unfold waits, blocking_ok, run. destruct sh as [i r d s dwt k nf]. cbn.
  destruct s, k; try discriminate; intros _ _; eexists; split; try (vm_compute; reflexivity); reflexivity.
Qed.

(* ------------------------------------------------------------------------ *)
(* shim_nonblocking_immediate                                                 *)
(* ------------------------------------------------------------------------ *)
Section NonBlocking.
  Variable sh : shim.
  Variable dw : bool.
  Variable real : nat -> res.
  Variable wres : nat -> bool.
  Variable sbv : nat -> bool.
  (* MSG_DONTWAIT passed to a shim that tests it, or should_block false at every test *)
  Hypothesis Hnb : dw = true \/ forall k, sbv k = false.

  Lemma start_nb : start sh dw (sbv 0%nat) = PReal.
  Proof.
    unfold start. destruct (sh_shape sh); auto.
    destruct Hnb as [->|H]; [reflexivity|rewrite H, andb_false_r; reflexivity].
  Qed.

  Lemma after_real_nb k n r : after_real sh dw (sbv k) n r = PRet (FromReal r).
  Proof.
    unfold after_real.
    assert (E : retryable (sh_retry sh) r && negb dw && sbv k = false).
    { destruct Hnb as [->|H]; [cbn; rewrite andb_false_r; reflexivity|rewrite H, andb_false_r; reflexivity]. }
    rewrite E. destruct (sh_shape sh); reflexivity.
  Qed.

  (* exactly one real call, no wait, its result returned *)
  Lemma run_nb fuel : run sh dw real wres sbv (S fuel) =
    ({| nr := 1; nw := 0; nt := 2 |}, Some (FromReal (real 0%nat))).
  Proof.
    unfold run. rewrite start_nb. cbn [go nr nw nt]. rewrite after_real_nb.
    destruct fuel; reflexivity.
  Qed.

  Lemma run_nb_nowait fuel : nw (fst (run sh dw real wres sbv fuel)) = 0%nat.
  Proof. destruct fuel; [unfold run; rewrite start_nb; reflexivity|rewrite run_nb; reflexivity]. Qed.
End NonBlocking.

Section Mask.
  Variables B W : Z.
  Variable m : mexp.

  Lemma mask_respects_sound :
    mask_respects_blocking_bit B W m = true ->
    forall fl, In fl (all_flag_values B W) -> Z.land fl B = 0 -> mask_true B W m fl = false.
  Proof.
    unfold mask_respects_blocking_bit. intros H fl Hin Hz.
    rewrite forallb_forall in H. specialize (H fl Hin). rewrite Hz in H. cbn in H.
    destruct (mask_true B W m fl); [discriminate|reflexivity].
  Qed.

  Lemma mask_respects_refuted :
    mask_respects_blocking_bit B W m = false ->
    exists fl, In fl (all_flag_values B W) /\ Z.land fl B = 0 /\ mask_true B W m fl = true.
  Proof.
    unfold mask_respects_blocking_bit. intros H.
    destruct (forallb_false_witness _ _ H) as [fl [Hin Hf]]. exists fl. split; [exact Hin|].
    destruct (Z.eqb_spec (Z.land fl B) 0) as [E|E]; cbn in Hf; [|discriminate].
    split; [exact E|]. destruct (mask_true B W m fl); [reflexivity|discriminate].
  Qed.
End Mask.

(* with should_block true, a pre-wait shim waits before its first real call *)
Lemma prewait_waits (sh : shim) real wres :
  sh_shape sh = PreWaitLoop ->
  nw (fst (run sh false real wres (fun _ => true) 1)) = 1%nat.
Proof. intros H. unfold run, start. rewrite H. cbn. destruct (after_wake sh (wres 0%nat)); reflexivity. Qed.

(* a post-failure shim waits after an EAGAIN *)
Lemma postfail_waits (sh : shim) wres :
  sh_shape sh = PostFailLoop -> sh_retry sh = EAGAIN ->
  nw (fst (run sh false (fun _ => RErr 1) wres (fun _ => true) 2)) = 1%nat.
Proof.
  intros H R. unfold run, start. rewrite H. cbn. unfold after_real. rewrite H, R. cbn.
  destruct (after_wake sh (wres 0%nat)); reflexivity.
Qed.

(* ------------------------------------------------------------------------ *)
(* shim_bad_fd_in_bounds                                                      *)
(* ------------------------------------------------------------------------ *)
Definition all_checked (K : bcheck) : bool :=
  bc_sb K && bc_cl K && bc_fdclosed K && bc_fc K && bc_io K.

Section Bounds.
  Variable K : bcheck.
  Variables W max_fd : Z.

  Definition sites_in_range (l : list (arr * Z)) : Prop :=
    Forall (fun p => in_range max_fd (snd p) = true) l.

  Lemma site_checked a fd : sites_in_range (site true a max_fd fd).
  Proof. unfold site, sites_in_range. destruct (in_range max_fd fd) eqn:E; repeat constructor; auto. Qed.

  Lemma checked_all_sites : all_checked K = true -> forall fd fl,
    sites_in_range (close_sites K max_fd fd ++ fcntl_sites K max_fd fd fl ++
                    ioctl_sites K max_fd fd fl ++ sb_sites K max_fd fd).
  Proof.
    unfold all_checked. intros H fd fl.
    repeat (apply andb_prop in H as [H ?]).
    unfold close_sites, fcntl_sites, ioctl_sites, sb_sites.
    rewrite H, H0, H1, H2, H3.
    unfold sites_in_range. rewrite !Forall_app. repeat split; try apply site_checked;
      destruct (in_range max_fd fd) eqn:E; repeat constructor; auto.
  Qed.

  (* outside the table nothing is intercepted: the caller gets the real call's
     answer, which for a descriptor the process does not have is an error *)
  Lemma checked_bad_fd_passthrough : all_checked K = true -> forall fd fl r,
    in_range max_fd fd = false ->
    fcntl_result K W max_fd fd fl r = r /\ ioctl_result K W max_fd fd fl r = r.
  Proof.
    unfold all_checked. intros H fd fl r Hr. repeat (apply andb_prop in H as [H ?]).
    unfold fcntl_result, ioctl_result, fcntl_intercepts, ioctl_intercepts. rewrite H0, H1, Hr.
    rewrite andb_false_r. auto.
  Qed.

  (* a descriptor number in range that is not open/managed (byte 0 after close) *)
  Lemma managed_only_passthrough : fc_managed K = true -> io_managed K = true -> forall fd fl r,
    Z.land fl W = 0 ->
    fcntl_result K W max_fd fd fl r = r /\ ioctl_result K W max_fd fd fl r = r.
  Proof.
    intros H1 H2 fd fl r Hz. unfold fcntl_result, ioctl_result, fcntl_intercepts, ioctl_intercepts.
    rewrite H1, H2, Hz. cbn. rewrite !andb_false_r. auto.
  Qed.

  (* refutations: an unchecked entry point indexes with whatever it is given *)
  Lemma unchecked_fd_closed : bc_fdclosed K = false -> forall fd, In (WaitInfo, fd) (close_sites K max_fd fd).
  Proof. intros H fd. unfold close_sites, site. rewrite H. cbn. auto. Qed.
  Lemma unchecked_fcntl : bc_fc K = false -> forall fd fl,
    In (FdInfo, fd) (fcntl_sites K max_fd fd fl) /\
    (fc_managed K = false -> fc_tracks K = false -> forall r, fcntl_result K W max_fd fd fl r = ROk 0).
  Proof.
    intros H fd fl. unfold fcntl_sites, fcntl_result, fcntl_intercepts. rewrite H. split; [cbn; auto|].
    intros M T r. rewrite M, T. reflexivity.
  Qed.
  Lemma unchecked_ioctl : bc_io K = false -> forall fd fl,
    In (FdInfo, fd) (ioctl_sites K max_fd fd fl) /\
    (io_managed K = false -> forall r, ioctl_result K W max_fd fd fl r = ROk 0).
  Proof.
    intros H fd fl. unfold ioctl_sites, ioctl_result, ioctl_intercepts. rewrite H. split; [cbn; auto|].
    intros M r. rewrite M. reflexivity.
  Qed.
End Bounds.

Lemma minus_one_out_of_range max_fd : in_range max_fd (-1) = false.
Proof. reflexivity. Qed.

(* ------------------------------------------------------------------------ *)
(* fdwait_every_waiter_woken                                                  *)
(* ------------------------------------------------------------------------ *)
(* independent specification: the fibers registered and not woken since *)
Fixpoint pending (acc : list nat) (ops : list wop) : list nat :=
  match ops with
  | [] => acc
  | WRegister f _ :: r => pending (f :: acc) r
  | WPoll _ :: r => pending [] r
  | WClose :: r => pending [] r
  end.

(* the protocol: a fiber registers only while it is not already waiting (it is
   suspended from registration until it is woken) *)
Fixpoint proto_ok (acc : list nat) (ops : list wop) : Prop :=
  match ops with
  | [] => True
  | WRegister f _ :: r => ~ In f acc /\ proto_ok (f :: acc) r
  | _ :: r => proto_ok [] r
  end.

Record winv (s : fdw) : Prop := {
  wi_cover : forall f d, In (f, d) (waiters s) -> ev_sub (ev_of_dir d) (events s) = true;
  wi_armed : waiters s <> [] -> armed s = Some (events s) /\ added s = true;
  wi_arm_eq : armed s = None \/ armed s = Some (events s)
}.

Lemma winv0 : winv fdw0.
Proof. constructor; cbn; auto; try contradiction; intros H; contradiction. Qed.

Lemma ev_sub_or_l a b c : ev_sub a b = true -> ev_sub a (ev_or b c) = true.
Proof.
  destruct a as [[] []], b as [[] []], c as [[] []]; cbn; auto.
Qed.
Lemma ev_sub_or_r d e : ev_sub (ev_of_dir d) (ev_or e (ev_of_dir d)) = true.
Proof. destruct d, e as [[] []]; reflexivity. Qed.

Lemma wstep_inv s o : winv s -> winv (fst (wstep true s o)).
Proof.
  intros [C A E]. destruct o as [f d|fired|]; cbn.
  - constructor; cbn.
    + intros g d' [H|H]; [inversion H; subst; apply ev_sub_or_r|apply ev_sub_or_l; eauto].
    + auto.
    + auto.
  - constructor; cbn; [contradiction| intros H; contradiction|].
    destruct (ev_empty (ev_minus (events s) fired)); auto.
  - constructor; cbn; [contradiction|intros H; contradiction|auto].
Qed.

Lemma wrun_inv ops : forall s, winv s -> winv (fst (wrun true s ops)).
Proof.
  induction ops as [|o r IH]; intros s H; cbn; [exact H|].
  pose proof (wstep_inv s o H) as H1. destruct (wstep true s o) as [s1 w1]. cbn in H1.
  specialize (IH s1 H1). destruct (wrun true s1 r) as [s2 w2]. exact IH.
Qed.

(* the waiters list is exactly the set of pending fibers *)
Lemma wrun_waiters ops : forall s,
  map fst (waiters (fst (wrun true s ops))) = pending (map fst (waiters s)) ops.
Proof.
  induction ops as [|o r IH]; intros s; cbn; [reflexivity|].
  destruct o as [f d|fired|]; cbn;
    match goal with |- context [wrun true ?s1 r] => specialize (IH s1); destruct (wrun true s1 r) as [s2 w2] end;
    cbn in *; exact IH.
Qed.

Lemma proto_nodup ops : forall acc, NoDup acc -> proto_ok acc ops -> NoDup (pending acc ops).
Proof.
  induction ops as [|o r IH]; intros acc N P; cbn in *; [exact N|].
  destruct o as [f d|fired|]; [destruct P as [P1 P2]; apply IH; [constructor|]; auto| |];
    apply IH; auto; constructor.
Qed.

(* one poller / close step wakes every waiter, with success / error *)
Lemma poll_wakes_all s fired :
  let '(s', w) := wstep true s (WPoll fired) in
  w = map (fun x => (fst x, true)) (waiters s) /\ waiters s' = [] /\
  events s' = ev_minus (events s) fired /\
  armed s' = (if ev_empty (events s') then None else Some (events s')).
Proof. cbn. auto. Qed.

Lemma close_wakes_all s :
  let '(s', w) := wstep true s WClose in
  w = map (fun x => (fst x, false)) (waiters s) /\ waiters s' = [] /\
  events s' = (false, false) /\ added s' = false /\ armed s' = None.
Proof. cbn. auto. Qed.

Lemma register_keeps s f d :
  let '(s', w) := wstep true s (WRegister f d) in
  w = [] /\ waiters s' = (f, d) :: waiters s /\ armed s' = Some (events s') /\
  events s' = ev_or (events s) (ev_of_dir d).
Proof. cbn. auto. Qed.

(* waking only the first waiter strands the others: the descriptor is disarmed
   (ONESHOT fired, nothing left to re-arm) while a fiber is still queued *)
Lemma wake_first_only_strands :
  let s := fst (wrun false fdw0 [WRegister 1%nat DirIn; WRegister 2%nat DirIn; WPoll (true, false)]) in
  waiters s = [(1%nat, DirIn)] /\ armed s = None.
Proof. vm_compute. auto. Qed.

(* an entry point without a dominating bounds test indexes with -1 *)
Definition all_sites (K : bcheck) (max_fd fd fl : Z) : list (arr * Z) :=
  close_sites K max_fd fd ++ fcntl_sites K max_fd fd fl ++ ioctl_sites K max_fd fd fl ++ sb_sites K max_fd fd.

Lemma unchecked_refuted (K : bcheck) (max_fd : Z) :
  all_checked K = false ->
  exists p, In p (all_sites K max_fd (-1) 0) /\ in_range max_fd (snd p) = false.
Proof.
  destruct K as [a b c d e f g h]. unfold all_checked, all_sites, close_sites, fcntl_sites, ioctl_sites, sb_sites, site.
  cbn [bc_sb bc_cl bc_fdclosed bc_fc bc_io].
  destruct a, b, c, d, e; cbn; try discriminate; intros _; eexists; (split; [left; reflexivity|reflexivity]).
Qed.
