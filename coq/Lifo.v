(* Model of include/mpmc_lifo.h (C20): one step per shared access.
   The 16-byte cell is (counter, head): loc 0 = counter (blob.low), loc 1 = head
   (blob.high); node n (ids 1.., 0 = NULL) has its [next] field at loc 99+2n.
   push: aload counter; aload head; node->next = head; DCAS.
   pop : aload counter; aload head (NULL -> return); read head->next; DCAS.
   compare_and_swap2 is one step that compares BOTH words and emits two trace
   lines (cell contents after the operation, kind 115 ok / 125 failed).
   The read of head->next in pop is a plain read of whatever the node holds at
   that instant; the node may already have been popped, re-pushed or be in the
   middle of another thread's push (the ABA scenario).
   Counter: unbounded Z.  There is no wrap in the model; the guard is "fewer
   than 2^64 successful updates between a thread's counter load and its DCAS".
   (Printed values of the C counter are signed 64-bit, so a start value of -2
   exercises the unsigned wrap 2^64-1 -> 0 of the real code faithfully.)
   Node ownership: every thread carries the list [own] of nodes it holds
   (initially k private nodes, later also the nodes it popped); OPush a pushes
   the node at index (a mod length own); a thread without nodes skips the call
   (ret 0, no access).  ODrain = pop until NULL. *)
From Coq Require Import List ZArith Lia Bool Arith.
From LF Require Import Conc.
Import ListNotations.

Inductive op := OPush (a : nat) | OPop | ODrain.

Inductive pcT := PCtr | PHead | PNext | PCas | QCtr | QHead | QNext | QCas | Fin.

Record tst := { pc : pcT; sc : Z; sh : nat; sn : nat; node : nat; drain : bool;
                own : list nat; prog : list op; opi : nat }.

Record st := { ctr : Z; head : nat; next : nat -> nat; thr : nat -> tst; nthr : nat }.

Definition retev (t i v : nat) : list Z := [Z.of_nat t; Z.of_nat i; 909%Z; Z.of_nat v].

(* begin the next call of the program; a push by a thread that owns no node
   is skipped (its ret event is emitted at once) *)
Fixpoint begin (t : nat) (ow : list nat) (p : list op) (i : nat) : tst * list Z :=
  match p with
  | [] => ({| pc := Fin; sc := 0; sh := 0; sn := 0; node := 0; drain := false;
              own := ow; prog := []; opi := i |}, [])
  | OPush a :: r =>
      match ow with
      | [] => let '(T, e) := begin t ow r (S i) in (T, retev t (S i) 0 ++ e)
      | _ => ({| pc := PCtr; sc := 0; sh := 0; sn := 0; node := nth (a mod length ow) ow 0;
                 drain := false; own := ow; prog := r; opi := S i |}, [])
      end
  | OPop :: r => ({| pc := QCtr; sc := 0; sh := 0; sn := 0; node := 0; drain := false;
                     own := ow; prog := r; opi := S i |}, [])
  | ODrain :: r => ({| pc := QCtr; sc := 0; sh := 0; sn := 0; node := 0; drain := true;
                       own := ow; prog := r; opi := S i |}, [])
  end.

Definition next_op (t : nat) (T : tst) (ow : list nat) : tst * list Z := begin t ow (prog T) (opi T).

Definition set_thr (s : st) (t : nat) (x : tst) : st :=
  {| ctr := ctr s; head := head s; next := next s; thr := upd (thr s) t x; nthr := nthr s |}.

Definition ev (t : nat) (loc kind : Z) (v : Z) : list Z := [Z.of_nat t; loc; kind; v].
Definition nloc (n : nat) : Z := (99 + 2 * Z.of_nat n)%Z.

Definition step (s : st) (t : nat) : st * list Z :=
  let T := thr s t in
  match pc T with
  | Fin => (s, [])
  | PCtr => (set_thr s t {| pc := PHead; sc := ctr s; sh := sh T; sn := sn T; node := node T; drain := drain T;
                            own := own T; prog := prog T; opi := opi T |},
             ev t 0 22 (ctr s))
  | PHead => (set_thr s t {| pc := PNext; sc := sc T; sh := head s; sn := sn T; node := node T; drain := drain T;
                             own := own T; prog := prog T; opi := opi T |},
              ev t 1 22 (Z.of_nat (head s)))
  | PNext => ({| ctr := ctr s; head := head s; next := upd (next s) (node T) (sh T);
                 thr := upd (thr s) t {| pc := PCas; sc := sc T; sh := sh T; sn := sn T; node := node T;
                                         drain := drain T; own := own T; prog := prog T; opi := opi T |};
                 nthr := nthr s |},
              ev t (nloc (node T)) 19 (Z.of_nat (sh T)))
  | PCas =>
      if (ctr s =? sc T)%Z && (head s =? sh T)
      then let '(T', e) := next_op t T (remove Nat.eq_dec (node T) (own T)) in
           ({| ctr := (ctr s + 1)%Z; head := node T; next := next s;
               thr := upd (thr s) t T'; nthr := nthr s |},
            ev t 0 115 (ctr s + 1)%Z ++ ev t 1 115 (Z.of_nat (node T)) ++ retev t (opi T) (node T) ++ e)
      else (set_thr s t {| pc := PCtr; sc := sc T; sh := sh T; sn := sn T; node := node T; drain := drain T;
                           own := own T; prog := prog T; opi := opi T |},
            ev t 0 125 (ctr s) ++ ev t 1 125 (Z.of_nat (head s)))
  | QCtr => (set_thr s t {| pc := QHead; sc := ctr s; sh := sh T; sn := sn T; node := node T; drain := drain T;
                            own := own T; prog := prog T; opi := opi T |},
             ev t 0 22 (ctr s))
  | QHead =>
      match head s with
      | O => let '(T', e) := next_op t T (own T) in
             (set_thr s t T', ev t 1 22 0 ++ retev t (opi T) 0 ++ e)
      | S _ => (set_thr s t {| pc := QNext; sc := sc T; sh := head s; sn := sn T; node := node T; drain := drain T;
                               own := own T; prog := prog T; opi := opi T |},
                ev t 1 22 (Z.of_nat (head s)))
      end
  | QNext => (set_thr s t {| pc := QCas; sc := sc T; sh := sh T; sn := next s (sh T); node := node T; drain := drain T;
                             own := own T; prog := prog T; opi := opi T |},
              ev t (nloc (sh T)) 9 (Z.of_nat (next s (sh T))))
  | QCas =>
      if (ctr s =? sc T)%Z && (head s =? sh T)
      then let '(T', e) :=
             if drain T
             then ({| pc := QCtr; sc := sc T; sh := sh T; sn := sn T; node := node T; drain := true;
                      own := sh T :: own T; prog := prog T; opi := opi T |}, [])
             else next_op t T (sh T :: own T) in
           ({| ctr := (ctr s + 1)%Z; head := sn T; next := next s;
               thr := upd (thr s) t T'; nthr := nthr s |},
            ev t 0 115 (ctr s + 1)%Z ++ ev t 1 115 (Z.of_nat (sn T)) ++ retev t (opi T) (sh T) ++ e)
      else (set_thr s t {| pc := QCtr; sc := sc T; sh := sh T; sn := sn T; node := node T; drain := drain T;
                           own := own T; prog := prog T; opi := opi T |},
            ev t 0 125 (ctr s) ++ ev t 1 125 (Z.of_nat (head s)))
  end.

Definition status_of (s : st) (t : nat) : status :=
  if t <? nthr s then match pc (thr s t) with Fin => SDone | _ => SReady end else SDone.

(* thread t initially owns the k nodes t*k+1 .. t*k+k *)
Definition init_own (k nt t : nat) : list nat := if t <? nt then seq (t * k + 1) k else [].

Definition init (k : nat) (start : Z) (progs : list (list op)) : st :=
  {| ctr := start; head := 0; next := fun _ => 0;
     thr := fun t => fst (begin t (init_own k (length progs) t) (nth t progs []) 0);
     nthr := length progs |}.

(* events of the skipped calls at thread start, in tid order *)
Definition init_events (k : nat) (progs : list (list op)) : list Z :=
  flat_map (fun t => snd (begin t (init_own k (length progs) t) (nth t progs []) 0))
           (seq 0 (length progs)).

Definition M : machine :=
  {| mstate := st; mstep := step; mstatus := status_of; mthreads := nthr |}.

(* ---------- executable entry point for the correspondence run ---------- *)
Definition dec_op (p : Z * Z) : op :=
  match fst p with
  | 1%Z => OPush (Z.to_nat (snd p))
  | 3%Z => ODrain
  | _ => OPop
  end.

Definition run_case (l : list Z) : list Z :=
  match decode_case l with
  | Some c =>
      let k := Z.to_nat (nthZ (c_params c) 0) in
      let start := nthZ (c_params c) 1 in
      let dmax := Z.to_nat (nthZ (c_params c) 2) in
      let progs := map (map dec_op) (c_progs c) in
      run_all M (init k start progs) (init_events k progs) (c_sched c) dmax
  | None => [(-1)%Z]
  end.
