(* C19 - the x86-64 assembly context switch preserves machine state; a new
   context starts its function with the given argument on a correctly aligned
   private stack.

   TRANSLATOR ROUTE: [swap_code], [swap_inputs], [swap_clobbers], [init_pushes],
   [init_align_mask], ... come from gen/CtxGen.v, which tools/gen/gen_ctx.py
   regenerates from src/fiber_context.c (x86-64 FIBER_FAST_SWITCHING branch) on
   every run of the check; the theorems below are re-proved against that file.
   They hold for ALL register files and memories (symbolic, no bounds).

   Modelled, not verified (assumptions of this file):
   * The template overwrites rax, rcx and the input operand register rdi
     WITHOUT declaring them (no outputs, clobbers = "cc","memory"); after a
     resume every caller-saved register holds whatever the other context left.
     [swap_clobbers_declared] states exactly this set.  This is sound only
     because the asm statement is the LAST statement of fiber_context_swap
     (checked syntactically by the translator: swap_asm_is_last = true) and
     fiber_context_swap is an out-of-line function (separate translation unit,
     not inlined, no LTO), so the compiler keeps nothing live in caller-saved
     registers across the template and every caller treats them as clobbered
     by the call.  The out-of-line part is an assumption, not checked here.
   * ISA semantics of coq/CtxIsa.v: unbounded integers (no wrap at 2^64),
     8-byte aligned accesses only, flags not modelled, no signals/interrupts
     using the stack below rsp (red zone is not used by the template).
   * rdi/rsi at entry of the template hold &from->ctx_stack_pointer and
     to->ctx_stack_pointer (the translator checks the C expressions bound to
     the operands; that gcc honours the "D"/"S" constraints is trusted).
   * stack_released_once (each stack released exactly once at destroy, never
     for thread contexts) is NOT proved here: it is checked by the
     differential harness rt/h_ctx.c (malloc/free, mmap/munmap,
     __splitstack_makecontext/releasecontext balance per create/destroy).
   * Outside the model: the ucontext back-end, i386, split-stack runtime
     internals, MXCSR / x87 control word (not saved by the code; the harness
     reports whether they differ across switches). *)
From Coq Require Import List ZArith Lia.
From LF Require Import Conc CtxIsa CtxProofs.
From LF Require Import gen.CtxGen.
Import ListNotations.
Open Scope Z_scope.

(* One switch.  B is suspended: its frame fB (layout r15,r14,r13,r12,rbx,rbp,rip
   at f_sp .. f_sp+48, the layout the code itself writes - see the last
   conjunct) is in memory and ctx_stack_pointer(B) = f_sp fB is passed in the
   "to" operand register; the running context A passes the address slotA of
   its own ctx_stack_pointer in the "from" operand register.  A's 7-word push
   area [rsp-56, rsp) and slotA do not overlap B's frame or each other.  Then
   the template terminates through its jmp with: control at B's saved rip,
   rbx/rbp/r12-r15 = B's saved values, rsp = f_sp+56 (B's rsp before its own
   switch), rdi = the word at f_sp+64 (the "param" slot of a new context), all
   memory outside A's push area and slotA unchanged (in particular B's stack),
   and A suspended in exactly the same layout with resume address [la
   resume_label] (so the statement applies to A in turn). *)
Theorem swap_roundtrip : forall la m fB,
  frame_at (mm m) fB ->
  rg m to_reg = f_sp fB ->
  rg m RSP mod 8 = 0 -> rg m from_reg mod 8 = 0 ->
  (rg m RSP <= f_sp fB \/ f_sp fB + 56 <= rg m RSP - 56) ->
  ~ (f_sp fB <= rg m from_reg < f_sp fB + 56) ->
  ~ (rg m RSP - 56 <= rg m from_reg < rg m RSP) ->
  exists m',
    exec la swap_code m = Exited m' /\
    resumed fB m' /\
    rg m' RDI = mm m' (f_sp fB + 64) /\
    (forall a, ~ (rg m RSP - 56 <= a < rg m RSP) -> a <> rg m from_reg -> mm m' a = mm m a) /\
    mm m' (rg m from_reg) = rg m RSP - 56 /\
    frame_at (mm m') (frame_of m (la resume_label)).
Proof. intros la m fB. exact (roundtrip la m fB). Qed.
Print Assumptions swap_roundtrip.

(* Any sequence of switches (and arbitrary computation of the running context
   in between that stays off the other contexts' saved stacks) among any set
   of contexts with pairwise disjoint stacks: in every reachable world every
   suspended context still has its frame and stack intact (Inv), and whenever
   the running context calls the switch towards any context [to], the switch
   terminates and [to] observes exactly the rip, rsp, callee-saved registers
   and stack contents [rsp, hi) it had when it was last switched out
   ([w_out w to] is the machine state recorded at that moment). *)
Theorem swap_sequence : forall la L w0 w to,
  layout_ok L -> Inv L w0 -> wreach la L w0 w -> switch_pre L w to ->
  Inv L w /\
  exists m', exec la swap_code (w_m w) = Exited m' /\ observes L to (w_out w to) m'.
Proof.
  intros la L w0 w to HL I0 R P.
  split; [exact (inv_reach la L w0 w HL I0 R) | exact (sequence la L w0 w to HL I0 R P)].
Qed.
Print Assumptions swap_sequence.

(* Switching into a context built by the generated init sequence (stack
   [base, base+size), size >= init_min_size (103 bytes for the pinned source); the ten initial words [sp, sp+72) are
   still as init left them when the switch happens) enters the run function with
   rdi = param, rsp = 8 mod 16 (as after a call), rsp inside the private stack
   with the dummy return address 0 on top, callee-saved registers 0, and leaves
   the caller suspended in the standard layout. *)
Theorem swap_fresh : forall la m base size param fn mem0 mem1 sp,
  init_min_size <= size ->
  init_context init_top_back_words init_align_mask init_pushes base size param fn mem0
    = Some (sp, mem1) ->
  (forall a, sp <= a < sp + 72 -> mm m a = mem1 a) ->
  rg m to_reg = sp ->
  rg m RSP mod 8 = 0 -> rg m from_reg mod 8 = 0 ->
  (rg m RSP <= base \/ base + size <= rg m RSP - 56) ->
  ~ (base <= rg m from_reg < base + size) ->
  ~ (rg m RSP - 56 <= rg m from_reg < rg m RSP) ->
  exists m',
    exec la swap_code m = Exited m' /\
    rip m' = fn /\ rg m' RDI = param /\
    rg m' RSP mod 16 = 8 /\ base <= rg m' RSP /\ rg m' RSP + 8 <= base + size /\
    mm m' (rg m' RSP) = 0 /\
    (forall r, In r callee_saved -> rg m' r = 0) /\
    mm m' (rg m from_reg) = rg m RSP - 56 /\
    frame_at (mm m') (frame_of m (la resume_label)).
Proof.
  intros la m base size param fn mem0 mem1 sp.
  exact (fresh la m base size param fn mem0 mem1 sp).
Qed.
Print Assumptions swap_fresh.

(* and the init sequence always succeeds on such a stack, writes only inside it *)
Theorem init_builds_frame : forall base size param fn mem,
  init_min_size <= size ->
  exists sp mem',
    init_context init_top_back_words init_align_mask init_pushes base size param fn mem
      = Some (sp, mem') /\
    sp mod 16 = 0 /\ base <= sp /\ sp + 72 + 8 <= base + size /\
    frame_at mem' (fresh_frame sp fn) /\
    mem' (sp + 56) = 0 /\ mem' (sp + 64) = param /\
    (forall a, ~ (sp <= a < sp + 72) -> mem' a = mem a).
Proof. exact init_frame. Qed.
Print Assumptions init_builds_frame.

(* Every register the template writes is restored for the resumed context
   (rsp, rbx, rbp, r12-r15: swap_roundtrip), or is an input operand register, or
   is one of rax, rcx, rdi.  Precisely: the registers it modifies without
   declaring them (not an output, not a clobber, not restored) are rax, rcx and
   rdi - rdi is an INPUT operand that the template overwrites, rsi is only
   read.  All other registers keep their value.  The template ends with its
   resume label, is volatile with a "memory" clobber, and is the last
   statement of fiber_context_swap (see the header for why this matters). *)
Theorem swap_clobbers_declared :
  (forall r, In r (written swap_code) ->
     In r (RSP :: callee_saved) \/ In r (map snd swap_inputs) \/ In r [RAX; RCX; RDI]) /\
  undeclared_writes = [RAX; RCX; RDI] /\
  (forall la m m' r, exec la swap_code m = Exited m' ->
     ~ In r (written swap_code) -> rg m' r = rg m r) /\
  (swap_asm_is_last = true /\ swap_volatile = true /\ In CMemory swap_clobbers) /\
  (exists pre, swap_code = pre ++ [ILabel resume_label]) /\
  (input_reg SrcFromSlot swap_inputs = Some from_reg /\
   input_reg SrcToSp swap_inputs = Some to_reg /\ from_reg <> to_reg).
Proof.
  split; [exact writes_allowed|]. split; [exact undeclared_exact|].
  split; [exact unwritten_preserved|]. split; [exact asm_shape|].
  split; [exact resume_is_end | exact operands_distinct].
Qed.
Print Assumptions swap_clobbers_declared.

(* The C statements of fiber_context_swap that precede the template (generated
   table swap_prologue: asserts, operand declarations, split-stack and tsan
   bookkeeping, prefetches - the translator rejects any other statement shape)
   are all executed UNCONDITIONALLY, and under FIBER_STACK_SPLIT the
   bookkeeping is exactly __splitstack_getcontext(from) followed by
   __splitstack_setcontext(to): the outgoing context's split-stack state is
   captured on EVERY switch-out.  (Syntactic match only; the split-stack
   runtime itself is outside the model - the large-frame scenarios of
   rt/h_ctx.c exercise it.) *)
Theorem swap_prologue_unconditional :
  forallb pc_uncond swap_prologue = true /\
  split_calls = [(GSplit, KSplitGetFrom); (GSplit, KSplitSetTo)].
Proof. exact prologue_ok. Qed.
Print Assumptions swap_prologue_unconditional.

(* Shape of the stack management calls (syntactic; released-exactly-once is
   checked by the harness, see the header): fiber_context_init calls
   fiber_context_alloc_stack once, before it touches the stack pointer, and
   fails if it fails; fiber_context_destroy's whole body is
   `if (ctx && !ctx->is_thread) { ... }` and calls fiber_free_stack once. *)
Theorem stack_calls_shape :
  init_alloc_calls = 1%nat /\ init_alloc_first = true /\
  destroy_free_calls = 1%nat /\ destroy_guard_not_thread = true.
Proof. exact stack_calls_ok. Qed.
Print Assumptions stack_calls_shape.

(* ---- non-vacuity: a concrete two-context ping-pong, by vm_compute ---- *)
Definition ex_la (l : nat) : Z := 7000 + Z.of_nat l.
(* context 0 (thread): stack [16384, 40960), ctx_stack_pointer at 256.
   context 1 (new):    stack [65536, 69632), ctx_stack_pointer at 320,
                       run function at code address 9000, param 42. *)
Definition ex_L : layout :=
  {| live := fun c => (c < 2)%nat;
     slot := fun c => 256 + 64 * Z.of_nat c;
     lo := fun c => match c with O => 16384 | _ => 65536 end;
     hi := fun c => match c with O => 40960 | _ => 69632 end |}.
Definition ex_init :=
  init_context init_top_back_words init_align_mask init_pushes 65536 4096 42 9000 (fun _ => 0).
Definition ex_sp1 : Z := match ex_init with Some (sp, _) => sp | None => 0 end.
Definition ex_mem1 : Z -> Z :=
  match ex_init with Some (sp, mem) => upd_mem mem 320 sp | None => fun _ => 0 end.
(* the running context sets its registers and is about to call the switch *)
Definition ex_call (mem : Z -> Z) (rsp : Z) (me to : nat) (v : Z) : mach :=
  {| rg := upd_reg (upd_reg (fun r => match r with
                                      | RSP => rsp | RBX => v + 1 | RBP => v + 2 | R12 => v + 3
                                      | R13 => v + 4 | R14 => v + 5 | R15 => v + 6 | _ => 5
                                      end) from_reg (slot ex_L me)) to_reg (mem (slot ex_L to));
     mm := mem; rip := 0 |}.
Definition ex_obs (r : result) : list Z :=
  match r with
  | Exited m => [1; rip m; rg m RDI; rg m RSP; rg m RBX; rg m RBP; rg m R12; rg m R13; rg m R14; rg m R15]
  | Fell _ => [2]
  | Faulted => [3]
  end.
Definition ex_next (r : result) (rsp : Z) (me to : nat) (v : Z) : result :=
  match r with Exited m => exec ex_la swap_code (ex_call (mm m) rsp me to v) | x => x end.

Definition ex_m0 := ex_call ex_mem1 32768 0 1 100.
Definition ex_r1 := exec ex_la swap_code ex_m0.                 (* 0 -> 1 (new)  *)
Definition ex_r2 := ex_next ex_r1 (69592 - 64) 1 0 200.         (* 1 -> 0        *)
Definition ex_r3 := ex_next ex_r2 (32768 - 128) 0 1 300.        (* 0 -> 1        *)
Definition ex_r4 := ex_next ex_r3 (69592 - 64) 1 0 400.         (* 1 -> 0        *)

Example ex_min_size : init_min_size <= 4096.
Proof. vm_compute. discriminate. Qed.
Example ex_fresh_entry : ex_obs ex_r1 = [1; 9000; 42; 69592; 0; 0; 0; 0; 0; 0] /\ 69592 mod 16 = 8.
Proof. vm_compute. split; reflexivity. Qed.
Example ex_back_to_0 : ex_obs ex_r2 = [1; 7000; 0; 32768; 101; 102; 103; 104; 105; 106].
Proof. vm_compute. reflexivity. Qed.
Example ex_back_to_1 : ex_obs ex_r3 = [1; 7000; 0; 69592 - 64; 201; 202; 203; 204; 205; 206].
Proof. vm_compute. reflexivity. Qed.
Example ex_back_to_0_again : ex_obs ex_r4 = [1; 7000; 0; 32768 - 128; 301; 302; 303; 304; 305; 306].
Proof. vm_compute. reflexivity. Qed.

(* the hypotheses of swap_fresh are met by ex_m0 *)
Example ex_fresh_hyps : exists mem1,
  ex_init = Some (ex_sp1, mem1) /\
  (forall a, ex_sp1 <= a < ex_sp1 + 72 -> mm ex_m0 a = mem1 a) /\
  rg ex_m0 to_reg = ex_sp1 /\ rg ex_m0 RSP mod 8 = 0 /\ rg ex_m0 from_reg mod 8 = 0 /\
  (rg ex_m0 RSP <= 65536 \/ 65536 + 4096 <= rg ex_m0 RSP - 56) /\
  ~ (65536 <= rg ex_m0 from_reg < 65536 + 4096) /\
  ~ (rg ex_m0 RSP - 56 <= rg ex_m0 from_reg < rg ex_m0 RSP).
Proof.
  destruct ex_init as [[sp mem]|] eqn:E; [|vm_compute in E; discriminate].
  assert (Hsp : sp = 69536) by (vm_compute in E; congruence). subst sp.
  assert (Hsp1 : ex_sp1 = 69536) by (unfold ex_sp1; rewrite E; reflexivity).
  assert (Hm : mm ex_m0 = upd_mem mem 320 69536)
    by (unfold ex_m0, ex_call, ex_mem1; rewrite E; reflexivity).
  assert (R1 : rg ex_m0 RSP = 32768) by (vm_compute; reflexivity).
  assert (R2 : rg ex_m0 from_reg = 256) by (vm_compute; reflexivity).
  assert (R3 : rg ex_m0 to_reg = 69536) by (vm_compute; reflexivity).
  exists mem. rewrite Hsp1, Hm, R1, R2, R3.
  split; [reflexivity|]. split; [intros a Ha; apply upd_mem_other; lia|].
  repeat split; try reflexivity; lia.
Qed.

(* the hypotheses of swap_sequence are met: a world with context 0 running,
   context 1 new; and worlds reached from it by two real switches *)
Definition ex_g1 : mach :=
  {| rg := fun r => match r with RSP => 69592 | _ => 0 end; mm := ex_mem1; rip := 9000 |}.
Definition ex_w0 : world := {| w_m := ex_m0; w_cur := 0; w_out := fun _ => ex_g1 |}.

Example ex_layout_ok : layout_ok ex_L.
Proof.
  unfold layout_ok, ex_L; cbn [live slot lo hi]. repeat split.
  - intros c d Hc Hd. destruct c as [|[|c]], d as [|[|d]]; try lia.
  - intros c d Hc Hd. lia.
  - intros c d Hc Hd. destruct c as [|[|c]], d as [|[|d]]; try lia.
  - intros c Hc. destruct c as [|[|c]]; try lia; vm_compute; reflexivity.
Qed.

Example ex_inv0 : Inv ex_L ex_w0 /\ switch_pre ex_L ex_w0 1.
Proof.
  split.
  - split; [cbn; lia|]. intros c Hc Hn. cbn in Hc, Hn.
    assert (c = 1%nat) by lia. subst c.
    unfold suspended_ok, frame_at; cbn [ex_w0 w_m w_out w_cur ex_g1 rg mm rip frame_of
      f_sp f_r15 f_r14 f_r13 f_r12 f_rbx f_rbp f_rip ex_m0 ex_call ex_L lo hi slot].
    repeat split; try (vm_compute; reflexivity); try (vm_compute; discriminate).
  - unfold switch_pre. cbn [ex_L live lo hi slot ex_w0 w_m w_cur].
    repeat split; try (vm_compute; reflexivity); try (vm_compute; discriminate); try lia.
Qed.

Definition ex_exited (r : result) : bool := match r with Exited _ => true | _ => false end.
Example ex_r1_exited : ex_exited ex_r1 = true.
Proof. vm_compute. reflexivity. Qed.

Example ex_first_switch : exists m1, exec ex_la swap_code (w_m ex_w0) = Exited m1.
Proof.
  assert (A : exists m1, ex_r1 = Exited m1).
  { pose proof ex_r1_exited as X1. destruct ex_r1 as [m1| |]; try discriminate X1. eauto. }
  assert (B1 : ex_r1 = exec ex_la swap_code ex_m0) by reflexivity.
  assert (B2 : ex_m0 = w_m ex_w0) by reflexivity.
  destruct A as [m1 E]. exists m1. rewrite <- B2, <- B1. exact E.
Qed.

Example ex_two_switches_reachable : exists w2,
  wreach ex_la ex_L ex_w0 w2 /\ w_cur w2 = 0%nat /\ rg (w_out w2 1) RBX = 201.
Proof.
  destruct ex_first_switch as [m1 E1].
  set (w1 := {| w_m := m1; w_cur := 1;
                w_out := upd (w_out ex_w0) (w_cur ex_w0) (set_rip (w_m ex_w0) (ex_la resume_label)) |}).
  assert (R1 : wreach ex_la ex_L ex_w0 w1).
  { eapply wr_step; [apply wr_init|].
    exact (ws_switch ex_la ex_L ex_w0 1 m1 (proj2 ex_inv0) E1). }
  (* context 1 computes: new register values, deeper rsp; memory untouched *)
  set (mu := ex_call (mm m1) (69592 - 64) 1 0 200).
  set (w1u := {| w_m := mu; w_cur := w_cur w1; w_out := w_out w1 |}).
  assert (R1u : wreach ex_la ex_L ex_w0 w1u).
  { eapply wr_step; [exact R1|]. apply (ws_user ex_la ex_L w1 mu).
    intros c Hc Hn. split; [reflexivity | intros; reflexivity]. }
  assert (P : switch_pre ex_L w1u 0).
  { unfold switch_pre. cbn [ex_L live lo hi slot w1u w1 w_m w_cur mu ex_call rg mm].
    concrete_operands. cbn [upd_reg reg_eqb].
    repeat split; try lia; try reflexivity; try (vm_compute; reflexivity). }
  destruct (swap_sequence ex_la ex_L ex_w0 w1u 0 ex_layout_ok (proj1 ex_inv0) R1u P)
    as [_ [m2 [E2 _]]].
  eexists. split; [eapply wr_step; [exact R1u | exact (ws_switch ex_la ex_L w1u 0 m2 P E2)]|].
  split; [reflexivity|]. vm_compute. reflexivity.
Qed.
