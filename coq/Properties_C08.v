(* C08 — shimmed descriptor I/O behaves like the blocking call it replaces.
   PARTIAL: the Linux kernel is outside the model.  What is proved is the
   logic libfiber adds around the real calls (src/fiber_io.c, descriptor part
   of src/fiber_event_native.c), for ALL descriptors (any fd : Z), all argument
   values, all results of the real calls, all wait outcomes, all interleaved
   changes of the flag byte, any number of retries (fuel = how long we look;
   the statements are about every invocation that returns).

   The shim table, the should_block mask, the bounds-check flags and the
   structure of the wait layer come from gen/ShimGen.v, regenerated from the
   working tree on every run.  Each theorem that depends on the table is stated
   twice, both always provable:
       X            : <side condition computed from the table> = true  -> statement
       X_refutable  : <side condition> = false -> a concrete counterexample exists
   gen/ShimMatch.v (also generated) records which of the two side conditions
   holds for the current tree and derives the unconditional corollary or the
   unconditional refutation.  The check requires the `= true` lemmas; a
   refutation is a finding (F-C08a..d on the pinned tree).

   Outside the model (assumptions of the label `partial`):
     - what a real call returns, that epoll reports readiness, that a descriptor
       the process does not have yields an error from the real call;
     - descriptors returned by the kernel are in [0, max_fd) (setup_socket, pipe
       and the poller index with them unchecked; max_fd is RLIMIT_NOFILE's hard
       limit at fiber_io_init / fiber_event_init; the two copies of max_fd agree
       as long as that limit fits an int);
     - the spinlock / spinlock_to_unlock hand-over around registration (the waiter
       is on the list before it is switched out, the lock is released only after
       the switch) is the C01 protocol; here registration, poller step and close
       are atomic steps on the record, which that protocol justifies;
     - connect: a wake-up of the connecting fiber that is not caused by the
       connection completing (needs a second fiber waiting on the same
       unconnected socket) is not excluded by the single wait;
     - `int ret` truncation of ssize_t in read/readv/recv*/write/writev;
       SO_REUSEADDR set on every socket; Solaris / libev back-ends. *)
From Coq Require Import List ZArith Bool Lia.
From LF Require Import FdShim FdShimProofs.
From LF Require Import gen.ShimGen.
Import ListNotations.
Open Scope Z_scope.

(* ---- side conditions computed from the generated table ------------------ *)
Definition B : Z := io_flag_blocking.
Definition W : Z := io_flag_waitable.
Definition K : bcheck :=
  {| bc_sb := bc_should_block; bc_cl := bc_close; bc_fdclosed := bc_fiber_fd_closed;
     bc_fc := bc_fcntl; bc_io := bc_ioctl;
     fc_managed := fcntl_managed_only; io_managed := ioctl_managed_only;
     fc_tracks := fcntl_tracks_mode |}.
Definition waiting_shims : list shim := filter waits shims.

Definition sb_guard_eqb (a b : sb_guard) : bool :=
  match a, b with
  | GNotLocked, GNotLocked | GInit, GInit | GBelowMax, GBelowMax | GNonNeg, GNonNeg => true
  | _, _ => false
  end.
Definition has_guard (g : sb_guard) : bool := existsb (sb_guard_eqb g) sb_guards.

(* the table is the one the model was written for: 18 shims, every shim calls
   its own libc function and waits for the direction of its transfer, every call
   with a flags argument honours MSG_DONTWAIT, should_block has its three guards,
   the mask blocks a BLOCKING|WAITABLE descriptor *)
Definition table_sane_b : bool :=
  Nat.eqb (length shims) 18 &&
  forallb (fun s => Z.eqb (shim_id_code (sh_id s)) (shim_id_code (sh_real s)) &&
                    dir_eqb (sh_dir s) (expected_dir (sh_id s))) shims &&
  forallb (fun s => implb (has_flags_arg (sh_id s)) (sh_dontwait s)) waiting_shims &&
  has_guard GNotLocked && has_guard GInit && has_guard GBelowMax &&
  Z.eqb B 1 && Z.eqb W 2 &&
  mask_blocks_when_blocking B W sb_mask.
(* a descriptor the library does not manage (byte 0, or BLOCKING alone after
   FIONBIO 0 on it) never makes a shim wait *)
Definition mask_unmanaged_b : bool := mask_ignores_unmanaged B W sb_mask.
Definition blocking_table_b : bool := forallb blocking_ok waiting_shims.
Definition mask_b : bool := mask_respects_blocking_bit B W sb_mask.
Definition bounds_b : bool := all_checked K.
Definition managed_b : bool := fcntl_managed_only && ioctl_managed_only.
Definition wait_layer_b : bool :=
  ev_wake_all && ev_poll_locks && ev_poll_clears_fired && ev_poll_rearms_rest && ev_poll_wakes &&
  ev_poll_unlocks && ev_poll_order_ok && ev_close_locks && ev_close_deletes && ev_close_wakes_error &&
  ev_close_unlocks && ev_wait_locks && ev_wait_ors_in && ev_wait_ors_out && ev_wait_oneshot &&
  ev_wait_arms && ev_wait_links && ev_wait_enqueues && ev_wait_sets_waiting &&
  ev_wait_unlock_after_switch && ev_wait_yields && ev_wait_reports_close && ev_wait_order_ok.

(* fcntl(F_SETFL, v) follows v & O_NONBLOCK for every v; F_GETFL reports the caller's mode *)
Definition fcntl_tracks_b : bool := fcntl_tracks_mode.
(* the retry decision is taken on the errno of the real call just made: the source
   re-reads errno on the kernel thread the fiber resumed on.  When this is false the
   identification "tested errno = errno of the last real call" (built into after_real)
   is not justified for >= 2 kernel threads: gcc keeps the __errno_location() of the
   thread the fiber ran on before it waited.  This is below the source-level model; the
   differential run (2 kernel threads) is what exhibits it. *)
Definition errno_fresh_b : bool := errno_fresh.

(* should_block as the shims evaluate it, from the generated mask *)
Definition sb (max_fd : Z) (locked inited : bool) (fd fl : Z) : bool :=
  should_block B W max_fd sb_mask locked inited fd fl.

(* ---- 1. the result is that of the last real call ------------------------ *)
(* For every shim of the table and every invocation that returns:
   - a value/errno taken from a real call is that of the LAST real call made;
   - every earlier real call of the invocation failed with the retry errno
     (EAGAIN/EWOULDBLOCK; EINPROGRESS for connect), hence transferred nothing;
   - so no real call follows one that transferred data;
   - the only other ways to return are: the descriptor was closed while waiting
     (-1), or connect's SO_ERROR after its wait; then ALL real calls made had
     failed with the retry errno. *)
Theorem shim_result_allowed : forall s dw real wres sbv fuel c o,
  In s shims ->
  run s dw real wres sbv fuel = (c, Some o) ->
  match o with
  | FromReal r => (0 < nr c)%nat /\ r = real (nr c - 1)%nat
  | FromClosed | FromSoError => forall k, (k < nr c)%nat -> retryable (sh_retry s) (real k) = true
  end /\
  (forall k, (S k < nr c)%nat ->
     retryable (sh_retry s) (real k) = true /\ exists e, real k = RErr e).
Proof.
  intros s dw real wres sbv fuel c o _ H. pose proof (run_post s dw real wres sbv fuel c o H) as P.
  split.
  - destruct o; cbn in P; [destruct P as [P1 [P2 _]]; auto|exact P|exact P].
  - intros k Hk.
    assert (R : retryable (sh_retry s) (real k) = true).
    { destruct o; cbn in P; [destruct P as [_ [_ P3]]; apply P3; lia|apply P; lia|apply P; lia]. }
    split; [exact R|exact (retryable_is_error s (real k) R)].
Qed.
Print Assumptions shim_result_allowed.

(* ---- 2. blocking mode never reports EAGAIN ------------------------------ *)
(* descriptor in blocking mode and in range at every test of should_block
   (sbv k = true), not closed while waiting (wres k = true), no MSG_DONTWAIT:
   what is returned is a real-call result that is not the retry errno (or,
   for connect, the SO_ERROR verdict). *)
Theorem shim_blocking_never_eagain :
  blocking_table_b = true ->
  forall s real wres sbv fuel c o,
  In s shims -> waits s = true ->
  (forall k, sbv k = true) -> (forall k, wres k = true) ->
  run s false real wres sbv fuel = (c, Some o) ->
  good_outcome (sh_retry s) o = true.
Proof.
  intros T s real wres sbv fuel c o Hin Hw Hsb Hwr H.
  unfold blocking_table_b in T. rewrite forallb_forall in T.
  assert (Hok : blocking_ok s = true).
  { apply T. unfold waiting_shims. apply filter_In. auto. }
  exact (run_blocking s real wres sbv Hsb Hwr Hok Hw fuel c o H).
Qed.
Print Assumptions shim_blocking_never_eagain.

Theorem shim_blocking_never_eagain_refutable :
  blocking_table_b = false ->
  exists s, In s shims /\ waits s = true /\
  exists real o,
    snd (run s false real (fun _ => true) (fun _ => true) 4) = Some o /\
    good_outcome (sh_retry s) o = false.
Proof.
  intros T. unfold blocking_table_b in T.
  destruct (forallb_false_witness _ _ T) as [s [Hin Hf]].
  unfold waiting_shims in Hin. apply filter_In in Hin as [Hin Hw].
  exists s. repeat split; auto.
  destruct (not_blocking_ok_refuted s Hw Hf) as [o [H1 H2]]. eauto.
Qed.
Print Assumptions shim_blocking_never_eagain_refutable.

(* the byte says what the caller asked for: with the generated mask, a managed
   descriptor in blocking mode (byte BLOCKING|WAITABLE) makes should_block true *)
Theorem blocking_mode_blocks :
  table_sane_b = true -> forall max_fd fd,
  in_range max_fd fd = true -> sb max_fd false true fd (Z.lor B W) = true.
Proof.
  intros T max_fd fd Hr. unfold table_sane_b in T.
  repeat (apply andb_prop in T as [T ?]).
  unfold sb, should_block. rewrite Hr. cbn. unfold mask_blocks_when_blocking in *. assumption.
Qed.
Print Assumptions blocking_mode_blocks.

Theorem unmanaged_never_blocks :
  mask_unmanaged_b = true -> forall max_fd locked inited fd fl,
  fl = 0 \/ fl = B -> sb max_fd locked inited fd fl = false.
Proof.
  intros M max_fd locked inited fd fl Hfl. unfold mask_unmanaged_b, mask_ignores_unmanaged in M.
  apply andb_prop in M as [M0 MB]. unfold sb, should_block.
  destruct Hfl as [->| ->]; [destruct (mask_true B W sb_mask 0)|destruct (mask_true B W sb_mask B)];
    try discriminate; apply andb_false_r.
Qed.
Print Assumptions unmanaged_never_blocks.

(* ---- 3. non-blocking mode returns immediately --------------------------- *)
(* BLOCKING cleared (fcntl O_NONBLOCK / ioctl FIONBIO 1) at every test, or
   MSG_DONTWAIT passed to a call that has a flags argument: exactly one real
   call, no wait step, its result returned — for every shim, any descriptor. *)
Theorem shim_nonblocking_immediate :
  mask_b = true -> table_sane_b = true ->
  forall s msg_dontwait max_fd locked inited fd fl real wres fuel,
  In s shims -> waits s = true ->
  ((has_flags_arg (sh_id s) = true /\ msg_dontwait = true) \/
   (forall k, In (fl k) (all_flag_values B W) /\ Z.land (fl k) B = 0)) ->
  run s (sh_dontwait s && msg_dontwait) real wres (fun k => sb max_fd locked inited fd (fl k)) (S fuel) =
  ({| nr := 1; nw := 0; nt := 2 |}, Some (FromReal (real 0%nat))).
Proof.
  intros M T s dwf max_fd locked inited fd fl real wres fuel Hin Hw Hc.
  apply run_nb. destruct Hc as [[Hf Hd]|Hfl].
  - left. subst dwf. rewrite andb_true_r.
    unfold table_sane_b in T. repeat (apply andb_prop in T as [T ?]).
    match goal with H : forallb (fun s => implb (has_flags_arg (sh_id s)) (sh_dontwait s)) _ = true |- _ =>
      rewrite forallb_forall in H; specialize (H s) end.
    assert (I : In s waiting_shims) by (apply filter_In; auto).
    match goal with H : In s waiting_shims -> _ |- _ => specialize (H I); rewrite Hf in H; exact H end.
  - right. intros k. destruct (Hfl k) as [H1 H2]. unfold sb, should_block.
    rewrite (mask_respects_sound B W sb_mask M (fl k) H1 H2). apply andb_false_r.
Qed.
Print Assumptions shim_nonblocking_immediate.

Theorem shim_nonblocking_immediate_refutable :
  mask_b = false ->
  exists fl, In fl (all_flag_values B W) /\ Z.land fl B = 0 /\
  (* a descriptor whose BLOCKING bit is cleared still makes should_block true ... *)
  (forall max_fd fd, in_range max_fd fd = true -> sb max_fd false true fd fl = true) /\
  (* ... so every pre-wait shim waits before its first real call *)
  (forall s real wres, sh_shape s = PreWaitLoop ->
     nw (fst (run s false real wres (fun _ => true) 1)) = 1%nat).
Proof.
  intros M. destruct (mask_respects_refuted B W sb_mask M) as [fl [H1 [H2 H3]]].
  exists fl. repeat split; auto.
  - intros max_fd fd Hr. unfold sb, should_block. rewrite Hr, H3. reflexivity.
  - intros s real wres Hs. apply prewait_waits; auto.
Qed.
Print Assumptions shim_nonblocking_immediate_refutable.

(* with mode tracking, after F_SETFL v on a managed descriptor the BLOCKING bit is set
   exactly when v has no O_NONBLOCK, whatever the byte was before *)
Theorem mode_follows_setfl :
  fcntl_tracks_b = true -> table_sane_b = true ->
  forall fl nonblock, In fl (all_flag_values B W) ->
  (Z.land (fl_setfl B fl nonblock) B = 0 <-> nonblock = true) /\
  Z.land (fl_setfl B fl nonblock) W = Z.land fl W.
Proof.
  intros _ T fl nb Hin. unfold table_sane_b in T. repeat (apply andb_prop in T as [T ?]).
  repeat match goal with H : Z.eqb _ _ = true |- _ => apply Z.eqb_eq in H end.
  assert (HB : B = 1) by assumption. assert (HW : W = 2) by assumption.
  unfold all_flag_values in Hin. rewrite HB, HW in *. cbn in Hin.
  destruct Hin as [<-|[<-|[<-|[<-|[]]]]]; destruct nb; cbn; split; split; intros; try reflexivity; try discriminate.
Qed.
Print Assumptions mode_follows_setfl.

(* ---- 4. a bad descriptor never indexes outside the tables --------------- *)
(* for EVERY fd : Z (negative, >= max_fd, closed) and every flag byte: all index
   sites of close (incl. fiber_fd_closed), fcntl, ioctl and should_block (reached
   from every other shim) are within [0, max_fd); an out-of-range fd is never
   intercepted, so the caller gets the real call's answer (an error for a
   descriptor the process does not have — kernel, outside the model). *)
Theorem shim_bad_fd_in_bounds :
  bounds_b = true ->
  forall max_fd fd fl,
  sites_in_range max_fd (all_sites K max_fd fd fl) /\
  (in_range max_fd fd = false -> forall r,
     fcntl_result K W max_fd fd fl r = r /\ ioctl_result K W max_fd fd fl r = r) /\
  (in_range max_fd fd = false -> forall locked inited, sb max_fd locked inited fd fl = false).
Proof.
  intros Hb max_fd fd fl. split; [|split].
  - apply checked_all_sites; exact Hb.
  - intros Hr r. apply checked_bad_fd_passthrough; auto.
  - intros Hr locked inited. unfold sb, should_block. rewrite Hr. rewrite andb_false_r. reflexivity.
Qed.
Print Assumptions shim_bad_fd_in_bounds.

(* a descriptor number in range that the library does not manage (never set up,
   or closed: close clears the byte) is not intercepted either *)
Theorem shim_closed_fd_passthrough :
  managed_b = true ->
  forall max_fd fd fl r, Z.land fl W = 0 ->
  fcntl_result K W max_fd fd fl r = r /\ ioctl_result K W max_fd fd fl r = r.
Proof.
  intros M max_fd fd fl r Hz. unfold managed_b in M. apply andb_prop in M as [M1 M2].
  apply managed_only_passthrough; auto.
Qed.
Print Assumptions shim_closed_fd_passthrough.

Theorem shim_bad_fd_in_bounds_refutable :
  bounds_b = false ->
  forall max_fd, exists p, In p (all_sites K max_fd (-1) 0) /\ in_range max_fd (snd p) = false.
Proof. intros Hb max_fd. apply unchecked_refuted. exact Hb. Qed.
Print Assumptions shim_bad_fd_in_bounds_refutable.

(* ---- 5. every registered waiter is woken -------------------------------- *)
(* wait record {events, added, armed, waiters} of one descriptor, any sequence of
   registrations (by fibers not already queued), poller steps and closes:
   - the queue is exactly the set of fibers registered and not woken since, each
     once; whenever it is non-empty the descriptor is armed (ONESHOT) for
     `events`, which covers the direction of every queued fiber;
   - a poller step wakes ALL queued fibers with success, leaves
     events = events minus the fired bits, and re-arms exactly those;
   - close wakes ALL queued fibers with the error result, clears events/added.
   (Atomicity of each step w.r.t. the switch of the registering fiber = C01.) *)
Theorem fdwait_every_waiter_woken :
  ev_wake_all = true ->
  forall ops, proto_ok [] ops ->
  let s := fst (wrun ev_wake_all fdw0 ops) in
  map fst (waiters s) = pending [] ops /\ NoDup (map fst (waiters s)) /\ winv s /\
  (forall fired, let '(s', w) := wstep ev_wake_all s (WPoll fired) in
     w = map (fun x => (fst x, true)) (waiters s) /\ waiters s' = [] /\
     events s' = ev_minus (events s) fired /\
     armed s' = (if ev_empty (events s') then None else Some (events s'))) /\
  (let '(s', w) := wstep ev_wake_all s WClose in
     w = map (fun x => (fst x, false)) (waiters s) /\ waiters s' = [] /\
     events s' = (false, false) /\ added s' = false /\ armed s' = None).
Proof.
  intros Ha ops P. rewrite Ha. cbn zeta.
  pose proof (wrun_waiters ops fdw0) as E. cbn [fdw0 waiters map] in E.
  split; [exact E|]. split; [rewrite E; apply proto_nodup; [constructor|exact P]|].
  split; [apply wrun_inv; apply winv0|]. split.
  - intros fired. apply (poll_wakes_all (fst (wrun true fdw0 ops)) fired).
  - apply (close_wakes_all (fst (wrun true fdw0 ops))).
Qed.
Print Assumptions fdwait_every_waiter_woken.

Theorem fdwait_every_waiter_woken_refutable :
  ev_wake_all = false ->
  let s := fst (wrun ev_wake_all fdw0 [WRegister 1%nat DirIn; WRegister 2%nat DirIn; WPoll (true, false)]) in
  waiters s = [(1%nat, DirIn)] /\ armed s = None.
Proof. intros ->. exact wake_first_only_strands. Qed.
Print Assumptions fdwait_every_waiter_woken_refutable.

(* ---- non-vacuity --------------------------------------------------------- *)
Definition ex_read : shim :=
  {| sh_id := SRead; sh_real := SRead; sh_dir := DirIn; sh_shape := PreWaitLoop; sh_dontwait := false;
     sh_retry := EAGAIN; sh_newfd := false |}.
Definition ex_write : shim :=
  {| sh_id := SWrite; sh_real := SWrite; sh_dir := DirOut; sh_shape := PostFailLoop; sh_dontwait := false;
     sh_retry := EAGAIN; sh_newfd := false |}.

(* a blocking read: waits, the first real call still finds nothing, waits again, gets 5 bytes *)
Example ex_read_blocks_then_reads :
  run ex_read false (fun k => match k with O => RErr 1 | _ => ROk 5 end) (fun _ => true) (fun _ => true) 10 =
  ({| nr := 2; nw := 2; nt := 5 |}, Some (FromReal (ROk 5))).
Proof. vm_compute. reflexivity. Qed.

(* a blocking write of more than the buffer: EAGAIN, wait, short count *)
Example ex_write_retries :
  run ex_write false (fun k => match k with O => RErr 1 | _ => ROk 4096 end) (fun _ => true) (fun _ => true) 10 =
  ({| nr := 2; nw := 1; nt := 4 |}, Some (FromReal (ROk 4096))).
Proof. vm_compute. reflexivity. Qed.

(* closed while waiting *)
Example ex_read_closed :
  run ex_read false (fun _ => RErr 1) (fun _ => false) (fun _ => true) 10 =
  ({| nr := 0; nw := 1; nt := 2 |}, Some FromClosed).
Proof. vm_compute. reflexivity. Qed.

(* the read and write shims of the example are the generated ones (whatever the tree says) *)
Example ex_table_has_waiting_shims : (10 <= length waiting_shims)%nat.
Proof. vm_compute. repeat constructor. Qed.

(* the hypotheses of theorem 3 are met: byte WAITABLE (= BLOCKING cleared on a managed descriptor) *)
Example ex_nonblocking_byte : In W (all_flag_values B W) /\ Z.land W B = 0.
Proof. vm_compute. auto. Qed.

(* the hypotheses of theorem 5 are met by a run with two waiters for different
   directions: the poller step for IN wakes both and leaves OUT armed *)
Example ex_fdwait_two_directions :
  let ops := [WRegister 1%nat DirIn; WRegister 2%nat DirOut] in
  proto_ok [] ops /\
  let s := fst (wrun true fdw0 ops) in
  wstep true s (WPoll (true, false)) =
  ({| events := (false, true); added := true; armed := Some (false, true); waiters := [] |},
   [(2%nat, true); (1%nat, true)]).
Proof. split; [cbn; intuition|vm_compute; reflexivity]. Qed.

(* out-of-range descriptors exist for every table size *)
Example ex_bad_fds : forall max_fd, 0 <= max_fd ->
  in_range max_fd (-1) = false /\ in_range max_fd max_fd = false /\ in_range max_fd (max_fd + 7) = false.
Proof.
  intros m Hm. unfold in_range. repeat split.
  - destruct (m <? m) eqn:E; [apply Z.ltb_lt in E; lia|apply andb_false_r].
  - destruct (m + 7 <? m) eqn:E; [apply Z.ltb_lt in E; lia|apply andb_false_r].
Qed.
