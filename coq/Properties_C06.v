(* C06 — fiber semaphore (src/fiber_semaphore.c on the wait_in_mpmc_queue /
   wake_from_mpmc_queue protocol of src/fiber_manager.c): never over-admits,
   never loses a post.  Statements over every reachable state of coq/Sem.v (a
   client of the T1 kernel model coq/T1K.v): any initial value >= 0, any number
   of fibers, any programs of wait / trywait / post, any schedule.

   Ghost history counters live in the instrumented machine [ist] of
   SemProofs.v ([base] erases to the executable model, [ireach_base]):
     posts_begun x      post calls started (their first load is about to run or has run)
     posts_effective x  posts whose increment of the counter (CAS or fetch_add) happened
     succeeded x        wait / trywait calls that succeeded: wait found a unit at its
                        fetch_sub, trywait's CAS succeeded, or a post made the sleeping
                        waiter READY
   Guards: the MPMC waiter queue is an atomic FIFO (property C13); the counter stays
   inside the int range (the model word is an unbounded Z). *)
From Coq Require Import List ZArith Lia Bool Arith.
From LF Require Import Conc T1K Sem SemProofs.
Import ListNotations.
Local Open Scope Z_scope.

(* at every instant: successful waits <= initial value + posts begun *)
Theorem sem_no_over_admission : forall v progs x,
  0 <= v -> ireach v progs x ->
  succeeded x <= v + posts_begun x.
Proof. exact over_admission_reach. Qed.
Print Assumptions sem_no_over_admission.

(* the counter is the initial value plus the posts that incremented it (by CAS from a
   non-negative value, or by fetch_add after waking a waiter) minus the fetch_subs of
   wait (those that found a unit and those that announced a waiter) minus the
   successful trywaits; and a negative counter is exactly the number of announced
   waiters: not yet pushed + queued + popped by a post but not yet READY + READY but
   not yet compensated by that post's fetch_add *)
Theorem sem_counter_inv : forall v progs x,
  0 <= v -> ireach v progs x ->
  counter (base x) = v + gPcas (g x) + gPwake (g x) - gWfast (g x) - gWslow (g x) - gTok (g x) /\
  Z.max 0 (- counter (base x)) = NPRE (base x) + QLEN (base x) + NPOP (base x) + NADD (base x).
Proof. exact counter_reach. Qed.
Print Assumptions sem_counter_inv.

(* trywait never blocks: while call k of fiber t is a trywait, the fiber is runnable and
   its next access is the acquire load or the release CAS of the counter (no wait, yield
   or sleep frame); it returns 0 exactly at a load that sees a non-positive counter, and
   returns 1 exactly at its own successful CAS from a positive value v to v - 1 *)
Theorem sem_trywait : forall v progs s t p k,
  0 <= v -> reachable M (init v progs) s ->
  In (FC (STryLoad p k)) (stk s t) \/ In (FC (STryCas p k)) (stk s t) ->
  ((t < nthr s)%nat -> status_of s t = SReady) /\
  ((stk s t = [WLoadW 0 2; FC (STryLoad p k)] /\
    snd (step s t) = ev t (l_word 0) 22 (pc64 (counter s)) ++ (if 0 <? counter s then [] else retev t k 0) /\
    counter (fst (step s t)) = counter s)
   \/
   (exists c, 0 < c /\ stk s t = [WCasW 0 c (c - 1) 3; FC (STryCas p k)] /\
      if counter s =? c
      then snd (step s t) = ev t (l_word 0) 73 (pc64 (c - 1)) ++ retev t k 1 /\ counter (fst (step s t)) = c - 1
      else snd (step s t) = ev t (l_word 0) 83 (pc64 (counter s)) /\ counter (fst (step s t)) = counter s)).
Proof. exact trywait_reach. Qed.
Print Assumptions sem_trywait.

(* no lost post, obligation form.  If fiber t is waiting (it announced itself by
   decrementing the counter below zero and either its push on the waiter queue is still
   pending in its maintenance slot, or it sleeps and no post has made it READY) then
   - the counter is negative,
   - no unit is available in the sense of completed posts:
       initial + posts whose increment happened - successful waits <= 0,
   - and if initial + posts BEGUN - successful waits > 0, then some post is in progress
     that has not made any fiber READY yet, and that post is runnable (it is never
     blocked: it loads / pops / CASes until it wakes a waiter or increments). *)
Theorem sem_no_lost_post : forall v progs x t,
  0 <= v -> ireach v progs x -> waiting (base x) t ->
  counter (base x) < 0 /\
  v + posts_effective x - succeeded x <= 0 /\
  (0 < v + posts_begun x - succeeded x ->
   exists u, (u < nthr (base x))%nat /\ post_unwoken (stk (base x) u) /\ status_of (base x) u = SReady).
Proof. exact no_lost_post_reach. Qed.
Print Assumptions sem_no_lost_post.

(* no lost post at quiescence (no fiber can take a step: each has finished or sleeps):
   every waiting fiber is on the waiter queue, every post has had its effect, and if
   somebody is still blocked then the counter is minus the number of blocked fibers and
   every unit has been consumed: initial + posts = successful waits *)
Theorem sem_no_lost_post_quiescent : forall v progs x,
  0 <= v -> ireach v progs x -> quiescent (base x) ->
  (forall t, waiting (base x) t -> In t (mq (mem (base x)) 0)) /\
  posts_begun x = posts_effective x /\
  (mq (mem (base x)) 0%nat <> [] ->
     counter (base x) = - QLEN (base x) /\ v + posts_begun x = succeeded x).
Proof. exact quiescence_reach. Qed.
Print Assumptions sem_no_lost_post_quiescent.

(* once activity ceases (every fiber has finished or is inside its sleep; in particular
   no post and no announcement is in progress) the value is
   initial + posts - successful waits - fibers still blocked; with nobody blocked it is
   initial + posts - successful waits, and it is non-negative *)
Theorem sem_value_at_quiescence : forall v progs x,
  0 <= v -> ireach v progs x -> settled (base x) ->
  counter (base x) = v + posts_begun x - succeeded x - QLEN (base x) /\
  (mq (mem (base x)) 0%nat = [] ->
     counter (base x) = v + posts_begun x - succeeded x /\ 0 <= counter (base x)).
Proof. exact value_reach. Qed.
Print Assumptions sem_value_at_quiescence.

(* ---- non-vacuity: the hypotheses are met by concrete reachable states ---- *)
Definition ex_progs := [[SWait]; [SPost]].
Definition ex_x sch := irun (iinit 0 ex_progs) sch.

(* fiber 0 announced itself (counter -1, push pending), fiber 1's post has begun:
   initial + posts begun - succeeded = 1 > 0 and the post has woken nobody yet *)
Example ex_waiting_with_post_in_progress :
  let x := ex_x [0; 0; 1]%nat in
  ireach 0 ex_progs x /\ waiting (base x) 0 /\ counter (base x) = -1 /\
  0 + posts_begun x - succeeded x = 1 /\ post_unwoken (stk (base x) 1).
Proof.
  split; [apply ireach_irun; constructor|].
  split; [left; right; eexists; vm_compute; reflexivity|].
  split; [vm_compute; reflexivity|]. split; [vm_compute; reflexivity|].
  left. eexists _, _, _. vm_compute. reflexivity.
Qed.

(* the post found the counter negative but the queue still empty (the waiter has not
   switched away yet): it spins on the load, still runnable *)
Example ex_post_spins_before_push :
  let x := ex_x [0; 0; 1; 1; 1; 1]%nat in
  ireach 0 ex_progs x /\ waiting (base x) 0 /\ mq (mem (base x)) 0%nat = [] /\
  stk (base x) 1 = [WLoadW 0 2; FC (SPostLoad [] 1 false)] /\ status_of (base x) 1 = SReady.
Proof.
  split; [apply ireach_irun; constructor|].
  split; [left; right; eexists; vm_compute; reflexivity|]. vm_compute. auto.
Qed.

(* a lone waiter on an empty semaphore: quiescent, blocked on the queue, counter -1,
   initial + posts = succeeded = 0 *)
Example ex_quiescent_blocked :
  let x := irun (iinit 0 [[SWait]]) [0; 0; 0; 0; 0; 0; 0; 0; 0; 0]%nat in
  ireach 0 [[SWait]] x /\ quiescent (base x) /\ asleepW (base x) 0 /\
  mq (mem (base x)) 0%nat = [0%nat] /\ counter (base x) = -1 /\ succeeded x = 0.
Proof.
  split; [apply ireach_irun; constructor|].
  split.
  { intros t Ht. assert (t = 0%nat) by (vm_compute in Ht; lia). subst t. vm_compute. discriminate. }
  split; [split; [eexists _, _; vm_compute; reflexivity|vm_compute; reflexivity]|].
  vm_compute. auto.
Qed.

(* the whole wait / post pair runs to completion: everybody finished, value 0 = 0 + 1 - 1 *)
Example ex_completed :
  let x := ex_x [0; 0; 0; 0; 0; 0; 0; 0; 1; 1; 1; 1; 1; 1; 0; 0; 0; 0]%nat in
  ireach 0 ex_progs x /\ settled (base x) /\ stk (base x) 0 = [] /\ stk (base x) 1 = [] /\
  counter (base x) = 0 /\ posts_begun x = 1 /\ succeeded x = 1.
Proof.
  split; [apply ireach_irun; constructor|].
  split.
  { intros t Ht. assert (t = 0 \/ t = 1)%nat by (vm_compute in Ht; lia). destruct H; subst t; left; vm_compute; reflexivity. }
  vm_compute. auto 10.
Qed.

(* the bound of sem_no_over_admission is tight; a trywait call in progress *)
Example ex_tight :
  let x := irun (iinit 1 [[SWait]; [STry]]) [0; 0; 1]%nat in
  ireach 1 [[SWait]; [STry]] x /\ succeeded x = 1 + posts_begun x /\
  In (FC (STryLoad [] 1)) (stk (base x) 1).
Proof.
  split; [apply ireach_irun; constructor|]. split; [vm_compute; reflexivity|].
  vm_compute. auto.
Qed.
