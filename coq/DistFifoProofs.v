(* Proofs about the distinguished-FIFO model (coq/DistFifo.v).  Instrumented
   machine:
     qs     = the nodes linked from head.node: the dummy, then the queue,
     hist   = pushes (value, at the write tail->next = n), pops (value, at the
              successful DCAS), EMPTY answers (at the read of head->next), in
              the order they took effect; an EMPTY answered from a snapshot
              that was already out of date is logged as HSpur,
     ver    = number of successful DCAS, sver t = ver at t's last counter read,
     pv t   = the value taken by t's last successful DCAS.
   Thread 0 is the only pusher; any number of poppers, any programs, any
   schedule, popped nodes are reused at once through the pool. *)
From Coq Require Import List ZArith Lia Bool Arith Permutation.
From LF Require Import Conc DcasLib DistFifo.
Import ListNotations.

Inductive hev := HPush (v : nat) | HPop (t v : nat) | HEmpty (t : nat) | HSpur (t : nat).

Record ist := { base : st; qs : list nat; hist : list hev; ver : nat; sver : nat -> nat; pv : nat -> nat }.

Definition cas_ok (s : st) (T : tst) : bool := (ctr s =? sc T)%Z && (hnode s =? sh T).

Definition lstep (x : ist) (t : nat) : ist :=
  let s := base x in
  let T := thr s t in
  let s' := fst (step s t) in
  match pc T with
  | QCtr => {| base := s'; qs := qs x; hist := hist x; ver := ver x; sver := upd (sver x) t (ver x); pv := pv x |}
  | PLink => {| base := s'; qs := qs x ++ [node T]; hist := hist x ++ [HPush (val T)];
                ver := ver x; sver := sver x; pv := pv x |}
  | QNext => match next s (sh T) with
             | O => {| base := s'; qs := qs x;
                       hist := hist x ++ [if sver x t =? ver x then HEmpty t else HSpur t];
                       ver := ver x; sver := sver x; pv := pv x |}
             | S _ => {| base := s'; qs := qs x; hist := hist x; ver := ver x; sver := sver x; pv := pv x |}
             end
  | QCas => if cas_ok s T
            then {| base := s'; qs := tl (qs x); hist := hist x ++ [HPop t (sd T)];
                    ver := S (ver x); sver := sver x; pv := upd (pv x) t (sd T) |}
            else {| base := s'; qs := qs x; hist := hist x; ver := ver x; sver := sver x; pv := pv x |}
  | _ => {| base := s'; qs := qs x; hist := hist x; ver := ver x; sver := sver x; pv := pv x |}
  end.

Lemma lstep_erase x t : base (lstep x t) = fst (step (base x) t).
Proof.
  unfold lstep. destruct (pc (thr (base x) t)); try reflexivity.
  - destruct (next _ _); reflexivity.
  - destruct (cas_ok _ _); reflexivity.
Qed.

Definition iinit p start progs : ist :=
  {| base := init p start progs; qs := [1]; hist := []; ver := 0; sver := fun _ => 0; pv := fun _ => 0 |}.

Inductive ireach p start progs : ist -> Prop :=
| ir_init : ireach p start progs (iinit p start progs)
| ir_step x t : ireach p start progs x -> ireach p start progs (lstep x t).

Lemma reachable_ireach p start progs s :
  reachable M (init p start progs) s -> exists x, ireach p start progs x /\ base x = s.
Proof.
  induction 1 as [|s t R IH St].
  - exists (iinit p start progs). split; [constructor|reflexivity].
  - destruct IH as (x & Rx & <-). exists (lstep x t). split; [constructor; auto|apply lstep_erase].
Qed.

Definition irun (x : ist) (sch : list nat) : ist := fold_left lstep sch x.
Lemma ireach_irun p start progs sch : forall x, ireach p start progs x -> ireach p start progs (irun x sch).
Proof. induction sch as [|t r IH]; intros x R; cbn; auto. apply IH. constructor. exact R. Qed.

(* sequential FIFO specification over the pushed values *)
Fixpoint replay (h : list hev) (q : list nat) : option (list nat) :=
  match h with
  | [] => Some q
  | HPush v :: r => replay r (q ++ [v])
  | HPop _ v :: r => match q with
                     | a :: q' => if Nat.eqb a v then replay r q' else None
                     | [] => None
                     end
  | HEmpty _ :: r => match q with [] => replay r [] | _ :: _ => None end
  | HSpur _ :: r => replay r q
  end.

Lemma replay_app h1 h2 : forall s,
  replay (h1 ++ h2) s = match replay h1 s with Some s1 => replay h2 s1 | None => None end.
Proof.
  induction h1 as [|e r IH]; intros s; cbn; auto.
  destruct e; auto.
  - destruct s as [|a s']; auto. destruct (Nat.eqb a v); auto.
  - destruct s; auto.
Qed.

(* ---------- invariant ---------- *)
Definition hnodes (T : tst) : list nat :=
  match pc T with
  | HData | PTail | PNull | PLink => [node T]
  | QWData | QRData => [sh T]
  | _ => []
  end.

(* holder 0 is the pool, holder S t is thread t *)
Definition held (x : ist) (i : nat) : list nat :=
  match i with O => pool (base x) | S t => hnodes (thr (base x) t) end.

Definition scok (start : Z) (vr sv : nat) (T : tst) : Prop :=
  sc T = (start + Z.of_nat sv)%Z /\ sv <= vr.

Definition lok (start : Z) (hn tl : nat) (nx dt : nat -> nat) (vr sv pvt t : nat) (T : tst) : Prop :=
  match pc T with
  | HData => t = 0
  | PTail => t = 0 /\ dt (node T) = val T
  | PNull => t = 0 /\ dt (node T) = val T /\ ltl T = tl
  | PLink => t = 0 /\ dt (node T) = val T /\ ltl T = tl /\ nx (node T) = 0
  | PSetTail => t = 0
  | QCtr | Fin => True
  | QNode => scok start vr sv T
  | QNext => scok start vr sv T /\ (sv = vr -> hn = sh T)
  | QData => scok start vr sv T /\ sn T <> 0 /\ (sv = vr -> hn = sh T /\ nx (sh T) = sn T)
  | QCas => scok start vr sv T /\ sn T <> 0 /\
            (sv = vr -> hn = sh T /\ nx (sh T) = sn T /\ dt (sn T) = sd T)
  | QWData => sd T = pvt
  | QRData => dt (sh T) = pvt
  end.

Definition tail_ok (s : st) (q : list nat) : Prop :=
  last q 0 = match pc (thr s 0) with PSetTail => node (thr s 0) | _ => tail s end.

Record LInv (U : nat -> Prop) (start : Z) (x : ist) : Prop := {
  g_chain : chain (next (base x)) (hnode (base x)) (qs x);
  g_ne : qs x <> [];
  g_tail : tail_ok (base x) (qs x);
  g_own : OwnInv U (qs x) (held x);
  g_ver : ctr (base x) = (start + Z.of_nat (ver x))%Z;
  g_loc : forall t, lok start (hnode (base x)) (tail (base x)) (next (base x)) (data (base x))
                        (ver x) (sver x t) (pv x t) t (thr (base x) t);
  g_hist : replay (hist x) [] = Some (map (data (base x)) (tl (qs x)))
}.

Lemma own_ext U stk (H H' : nat -> list nat) :
  (forall u, H' u = H u) -> OwnInv U stk H -> OwnInv U stk H'.
Proof.
  intros E. apply (own_perm U stk H H' 0); auto. rewrite E. apply Permutation_refl.
Qed.

(* the facts another thread relies on survive writes to nodes it neither
   holds nor can currently reach through the structure *)
Lemma lok_other start hn tl tl' nx dt nx' dt' q vr sv pvt t T :
  chain nx hn q -> q <> [] ->
  (forall n, In n q \/ In n (hnodes T) -> nx' n = nx n /\ dt' n = dt n) ->
  (t = 0 -> tl' = tl) ->
  lok start hn tl nx dt vr sv pvt t T -> lok start hn tl' nx' dt' vr sv pvt t T.
Proof.
  intros C Hne E Et. unfold lok, hnodes in *.
  assert (Hh : hn <> 0). { destruct q; [congruence|]. cbn in C. destruct C as (-> & Z & _). exact Z. }
  destruct (pc T) eqn:Hpc; auto.
  - intros (A & B). split; auto. rewrite (proj2 (E (node T) (or_intror (or_introl eq_refl)))). exact B.
  - intros (A & B & D). repeat split; auto.
    + rewrite (proj2 (E (node T) (or_intror (or_introl eq_refl)))). exact B.
    + rewrite Et; auto.
  - intros (A & B & D & F). repeat split; auto.
    + rewrite (proj2 (E (node T) (or_intror (or_introl eq_refl)))). exact B.
    + rewrite Et; auto.
    + rewrite (proj1 (E (node T) (or_intror (or_introl eq_refl)))). exact F.
  - intros (A & B & D). split; auto. split; auto. intros Es. destruct (D Es) as [D1 D2]. split; auto.
    assert (Hi : In (sh T) q) by (rewrite <- D1; eapply chain_head_in; eauto).
    rewrite (proj1 (E (sh T) (or_introl Hi))). exact D2.
  - intros (A & B & D). split; auto. split; auto. intros Es. destruct (D Es) as (D1 & D2 & D3).
    assert (Hi : In (sh T) q) by (rewrite <- D1; eapply chain_head_in; eauto).
    split; auto. split.
    + rewrite (proj1 (E (sh T) (or_introl Hi))). exact D2.
    + destruct (chain_cons_inv _ _ _ C Hh) as (r & Er & Cr). rewrite D1, D2 in Cr.
      assert (Hj : In (sn T) q). { rewrite Er. right. eapply chain_head_in; eauto. }
      rewrite (proj2 (E (sn T) (or_introl Hj))). exact D3.
  - intros A. rewrite (proj2 (E (sh T) (or_intror (or_introl eq_refl)))). exact A.
Qed.

Ltac thr_cases u t :=
  destruct (Nat.eq_dec u t) as [->|?];
  [ rewrite ?upd_same in * | rewrite ?(upd_other _ t _ u) in * by assumption ].

(* a step of thread t that leaves the queue alone and writes only to nodes it holds *)
Lemma frame_step U start x x' t :
  LInv U start x ->
  qs x' = qs x -> ver x' = ver x ->
  ctr (base x') = ctr (base x) -> hnode (base x') = hnode (base x) ->
  (forall u, u <> t -> thr (base x') u = thr (base x) u /\ sver x' u = sver x u /\ pv x' u = pv x u) ->
  OwnInv U (qs x) (held x') ->
  (forall n, ~ In n (held x (S t)) -> next (base x') n = next (base x) n /\ data (base x') n = data (base x) n) ->
  tail_ok (base x') (qs x) ->
  (t <> 0 -> tail (base x') = tail (base x)) ->
  lok start (hnode (base x')) (tail (base x')) (next (base x')) (data (base x'))
      (ver x') (sver x' t) (pv x' t) t (thr (base x') t) ->
  replay (hist x') [] = Some (map (data (base x)) (tl (qs x))) ->
  LInv U start x'.
Proof.
  intros [Ic Ine It Io Iv Il Ih] Eq Ev Ec Ehn Eo Io' En Tk Etl Lt Hh.
  assert (Eq_q : forall n, In n (qs x) -> next (base x') n = next (base x) n /\ data (base x') n = data (base x) n).
  { intros n Hn. apply En. intros Hi. apply (o_hs _ _ _ Io (S t) n Hi Hn). }
  constructor; auto.
  - rewrite Eq, Ehn. revert Ic. apply chain_ext. intros n Hn. apply Eq_q; auto.
  - rewrite Eq; auto.
  - rewrite Eq; auto.
  - rewrite Eq; auto.
  - rewrite Ec, Ev; auto.
  - intros u. destruct (Nat.eq_dec u t) as [->|Hu]; auto.
    destruct (Eo u Hu) as (-> & -> & ->). rewrite Ev, Ehn.
    apply (lok_other start (hnode (base x)) (tail (base x)) (tail (base x')) (next (base x)) (data (base x))
                     (next (base x')) (data (base x')) (qs x)); auto.
    + intros n [Hn|Hn]; [apply Eq_q; auto|]. apply En. intros Hi.
      assert (S u = S t) by (apply (o_disj _ _ _ Io (S u) (S t) n); auto). congruence.
    + intros ->. apply Etl; auto.
  - rewrite Hh, Eq. f_equal. apply map_ext_in. intros n Hn. symmetry. apply Eq_q.
    destruct (qs x); [contradiction|right; auto].
Qed.

(* ---------- starting / finishing a call ---------- *)
Definition fresh (t : nat) (T' : tst) (pl pl' : list nat) : Prop :=
  ((pc T' = QCtr \/ pc T' = Fin) /\ pl' = pl) \/
  (t = 0 /\ pc T' = HData /\ In (node T') pl /\ pl' = remove Nat.eq_dec (node T') pl).

Lemma begin_spec t p : forall pl i,
  fresh t (fst (fst (begin t pl p i))) pl (snd (fst (begin t pl p i))).
Proof.
  induction p as [|o r IH]; intros pl i; cbn [begin].
  - left. cbn. auto.
  - destruct o.
    + destruct t as [|t'].
      * destruct pl as [|b pl'].
        -- specialize (IH [] (S i)). destruct (begin 0 [] r (S i)) as [[T pl2] e]. exact IH.
        -- right. cbn [fst snd mk pc node]. repeat split; auto.
           apply nth_In. apply Nat.mod_upper_bound. cbn; lia.
      * specialize (IH pl (S i)). destruct (begin (S t') pl r (S i)) as [[T pl2] e]. exact IH.
    + left. cbn. auto.
    + left. cbn. auto.
Qed.

Lemma finish_spec t T again pl :
  fresh t (fst (fst (finish t T again pl))) pl (snd (fst (finish t T again pl))).
Proof. unfold finish. destruct again; [left; cbn; auto|apply begin_spec]. Qed.

Lemma fresh_lok start hn tl nx dt vr sv pvt t T' pl pl' :
  fresh t T' pl pl' -> lok start hn tl nx dt vr sv pvt t T'.
Proof. unfold fresh, lok. intros [[[E|E] _]|(E0 & E & _)]; rewrite E; auto. Qed.

Lemma fresh_not_settail t T' pl pl' : fresh t T' pl pl' -> pc T' <> PSetTail.
Proof. unfold fresh. intros [[[E|E] _]|(E0 & E & _)]; rewrite E; discriminate. Qed.

(* thread t ends a call holding [hl] (nothing, or the node it popped): the node
   goes to the pool, and the next call may take a node out of the pool *)
Lemma finish_own U stk (H : nat -> list nat) t hl T' pl' :
  OwnInv U stk H -> H (S t) = hl -> (hl = [] \/ exists m, hl = [m]) ->
  fresh t T' (hl ++ H 0) pl' ->
  OwnInv U stk (fun i => match i with 0 => pl' | S u => if Nat.eqb u t then hnodes T' else H (S u) end).
Proof.
  intros I Eh Hl F.
  pose (H1 := fun i => match i with 0 => hl ++ H 0 | S u => if Nat.eqb u t then [] else H (S u) end).
  assert (I1 : OwnInv U stk H1).
  { destruct Hl as [->|[m ->]].
    - apply (own_ext U stk H); auto. intros [|u]; cbn; auto.
      destruct (Nat.eqb_spec u t) as [->|]; auto.
    - apply (own_move U stk H H1 (S t) 0 m); auto.
      + cbn. rewrite Nat.eqb_refl, Eh. apply Permutation_refl.
      + intros [|u] A B; cbn; [congruence|]. destruct (Nat.eqb_spec u t) as [->|]; congruence. }
  destruct F as [[Hp ->]|(-> & Hp & Hin & ->)].
  - apply (own_ext U stk H1); auto. intros [|u]; cbn; auto.
    destruct (Nat.eqb_spec u t) as [->|]; auto. unfold hnodes. destruct Hp as [->| ->]; reflexivity.
  - apply (own_move U stk H1 _ 0 1 (node T')); auto.
    + cbn. apply remove_perm; auto. apply (o_hnodup _ _ _ I1 0).
    + cbn. unfold hnodes. rewrite Hp. reflexivity.
    + intros [|[|u]] A B; cbn; congruence.
Qed.

Lemma tail_ok_upd s s' q t T' :
  tail_ok s q -> thr s' = upd (thr s) t T' -> tail s' = tail s ->
  pc (thr s t) <> PSetTail -> pc T' <> PSetTail -> tail_ok s' q.
Proof.
  unfold tail_ok. intros K E Et A B. rewrite E, Et. destruct (Nat.eq_dec t 0) as [->|Hn].
  - rewrite upd_same. rewrite K. destruct (pc (thr s 0)); destruct (pc T'); congruence.
  - rewrite upd_other by auto. exact K.
Qed.

Lemma lok_bump start hn tl nx dt hn' vr sv pvt t T :
  lok start hn tl nx dt vr sv pvt t T -> lok start hn' tl nx dt (S vr) sv pvt t T.
Proof. unfold lok, scok. destruct (pc T); intuition lia. Qed.

Lemma lok_link start hn tl nx dt l n vr sv pvt t T :
  t <> 0 -> nx l = 0 -> lok start hn tl nx dt vr sv pvt t T -> lok start hn tl (upd nx l n) dt vr sv pvt t T.
Proof.
  intros Ht El. unfold lok. destruct (pc T); auto; try tauto.
  - intros (A & B & D). split; auto. split; auto. intros Es. destruct (D Es) as [D1 D2]. split; auto.
    rewrite upd_other; auto. intros E. rewrite E in D2. congruence.
  - intros (A & B & D). split; auto. split; auto. intros Es. destruct (D Es) as (D1 & D2 & D3). split; auto.
    split; auto. rewrite upd_other; auto. intros E. rewrite E in D2. congruence.
Qed.

Ltac others := intros ? ?; cbn; rewrite ?upd_other by assumption; auto.
Ltac own_same x Io HT Hpc t :=
  apply (own_ext _ _ (held x)); [|exact Io]; intros [|v]; cbn; [reflexivity|];
  destruct (Nat.eq_dec v t) as [->|?];
  [ rewrite upd_same, <- HT; unfold hnodes; cbn [pc node sh]; rewrite Hpc; reflexivity
  | rewrite upd_other by assumption; reflexivity ].
Ltac tail_same I HT Hpc :=
  eapply tail_ok_upd; [apply (g_tail _ _ _ I)|reflexivity|reflexivity
                      |rewrite <- HT, Hpc; discriminate|cbn; discriminate].
Ltac fin_own x Io Hh t T' pl :=
  apply (own_ext _ _ (fun i => match i with 0 => pl | S u => if Nat.eqb u t then hnodes T' else held x (S u) end));
  [ intros [|u]; cbn; auto; destruct (Nat.eqb_spec u t) as [->|];
    [rewrite upd_same|rewrite upd_other by auto]; reflexivity | ].

Theorem linv_step U start x t : LInv U start x -> LInv U start (lstep x t).
Proof.
  intros I. unfold lstep, step. remember (thr (base x) t) as T eqn:HT.
  assert (LT := g_loc _ _ _ I t). rewrite <- HT in LT. unfold lok in LT.
  assert (Hh : held x (S t) = hnodes T) by (cbn; rewrite <- HT; reflexivity).
  pose proof (g_own _ _ _ I) as Io.
  destruct (pc T) eqn:Hpc; cbn [fst].
  - (* HData *)
    eapply frame_step with (t := t); [exact I|reflexivity|reflexivity|reflexivity|reflexivity|..];
      cbn [base qs hist ver sver pv ctr hnode tail next data pool thr set_thr].
    + others.
    + own_same x Io HT Hpc t.
    + intros n Hn. split; auto. apply upd_other. intros ->. apply Hn. rewrite Hh. unfold hnodes. rewrite Hpc. left; auto.
    + tail_same I HT Hpc.
    + auto.
    + rewrite upd_same. unfold lok; cbn. rewrite upd_same. auto.
    + apply (g_hist _ _ _ I).
  - (* PTail *)
    eapply frame_step with (t := t); [exact I|reflexivity|reflexivity|reflexivity|reflexivity|..];
      cbn [base qs hist ver sver pv ctr hnode tail next data pool thr set_thr].
    + others.
    + own_same x Io HT Hpc t.
    + auto.
    + tail_same I HT Hpc.
    + auto.
    + rewrite upd_same. unfold lok; cbn. tauto.
    + apply (g_hist _ _ _ I).
  - (* PNull *)
    eapply frame_step with (t := t); [exact I|reflexivity|reflexivity|reflexivity|reflexivity|..];
      cbn [base qs hist ver sver pv ctr hnode tail next data pool thr set_thr].
    + others.
    + own_same x Io HT Hpc t.
    + intros n Hn. split; auto. apply upd_other. intros ->. apply Hn. rewrite Hh. unfold hnodes. rewrite Hpc. left; auto.
    + tail_same I HT Hpc.
    + auto.
    + rewrite upd_same. unfold lok; cbn. rewrite upd_same. tauto.
    + apply (g_hist _ _ _ I).
  - (* PLink *)
    destruct LT as (L0 & L1 & L2 & L3). subst t.
    destruct I as [Ic Ine It Io' Iv Il Ih].
    assert (Hl : last (qs x) 0 = ltl T).
    { unfold tail_ok in It. rewrite <- HT, Hpc in It. congruence. }
    assert (Hn : In (node T) (held x 1)) by (rewrite Hh; unfold hnodes; rewrite Hpc; left; auto).
    assert (Hlz : next (base x) (ltl T) = 0) by (rewrite <- Hl; eapply chain_last; eauto).
    constructor; cbn [base qs hist ver sver pv ctr hnode tail next data pool thr].
    + assert (Eq : qs x = removelast (qs x) ++ [ltl T]) by (rewrite <- Hl; apply app_removelast_last; auto).
      pose proof (o_hs _ _ _ Io 1 _ Hn) as Hns. pose proof (o_nodup _ _ _ Io) as Hnd.
      rewrite Eq in Ic, Hns, Hnd |- *. rewrite <- app_assoc.
      apply chain_snoc; auto.
      apply (o_hnz _ _ _ Io 1); auto.
    + destruct (qs x); discriminate.
    + unfold tail_ok; cbn. apply last_last.
    + apply (own_give_end U (qs x) (held x) _ 1 (node T)); auto.
      * intros [|[|u]] Hu; cbn; try congruence.
      * cbn. rewrite <- HT. unfold hnodes. rewrite Hpc. apply Permutation_refl.
    + exact Iv.
    + intros u. thr_cases u 0.
      * unfold lok; cbn. reflexivity.
      * apply lok_link; auto.
    + rewrite replay_app, Ih. cbn.
      destruct (qs x) as [|a r]; [congruence|]. cbn. rewrite map_app. cbn. rewrite L1. reflexivity.
  - (* PSetTail *)
    destruct (finish t T false (pool (base x))) as [[T' pl] e] eqn:Ef. cbn [fst].
    pose proof (finish_spec t T false (pool (base x))) as Fr. rewrite Ef in Fr. cbn [fst snd] in Fr.
    assert (Hn : hnodes T = []) by (unfold hnodes; rewrite Hpc; reflexivity).
    eapply frame_step with (t := t); [exact I|reflexivity|reflexivity|reflexivity|reflexivity|..];
      cbn [base qs hist ver sver pv ctr hnode tail next data pool thr set_thr].
    + others.
    + fin_own x Io Hh t T' pl.
      apply (finish_own U (qs x) (held x) t (hnodes T) T' pl Io Hh); [left; auto|].
      rewrite Hn. exact Fr.
    + auto.
    + subst t. pose proof (g_tail _ _ _ I) as It. unfold tail_ok in *. cbn. rewrite ?upd_same.
      rewrite <- HT, Hpc in It. rewrite It.
      pose proof (fresh_not_settail _ _ _ _ Fr). destruct (pc T'); congruence.
    + intros Hne. congruence.
    + rewrite upd_same. eapply fresh_lok; eauto.
    + apply (g_hist _ _ _ I).
  - (* QCtr *)
    eapply frame_step with (t := t); [exact I|reflexivity|reflexivity|reflexivity|reflexivity|..];
      cbn [base qs hist ver sver pv ctr hnode tail next data pool thr set_thr].
    + others.
    + own_same x Io HT Hpc t.
    + auto.
    + tail_same I HT Hpc.
    + auto.
    + rewrite !upd_same. unfold lok, scok; cbn. split; auto. apply (g_ver _ _ _ I).
    + apply (g_hist _ _ _ I).
  - (* QNode *)
    eapply frame_step with (t := t); [exact I|reflexivity|reflexivity|reflexivity|reflexivity|..];
      cbn [base qs hist ver sver pv ctr hnode tail next data pool thr set_thr].
    + others.
    + own_same x Io HT Hpc t.
    + auto.
    + tail_same I HT Hpc.
    + auto.
    + rewrite !upd_same. unfold lok; cbn. split; auto.
    + apply (g_hist _ _ _ I).
  - (* QNext *)
    destruct LT as (L1 & L2).
    destruct (next (base x) (sh T)) eqn:En.
    + destruct (finish t T false (pool (base x))) as [[T' pl] e] eqn:Ef. cbn [fst].
      pose proof (finish_spec t T false (pool (base x))) as Fr. rewrite Ef in Fr. cbn [fst snd] in Fr.
      assert (Hn : hnodes T = []) by (unfold hnodes; rewrite Hpc; reflexivity).
      eapply frame_step with (t := t); [exact I|reflexivity|reflexivity|reflexivity|reflexivity|..];
        cbn [base qs hist ver sver pv ctr hnode tail next data pool thr set_thr].
      * others.
      * fin_own x Io Hh t T' pl.
        apply (finish_own U (qs x) (held x) t (hnodes T) T' pl Io Hh); [left; auto|].
        rewrite Hn. exact Fr.
      * auto.
      * eapply tail_ok_upd; [apply (g_tail _ _ _ I)|reflexivity|reflexivity
                            |rewrite <- HT, Hpc; discriminate|eapply fresh_not_settail; eauto].
      * auto.
      * rewrite upd_same. eapply fresh_lok; eauto.
      * rewrite replay_app, (g_hist _ _ _ I).
        destruct (Nat.eqb_spec (sver x t) (ver x)) as [Es|Es]; cbn; [|reflexivity].
        pose proof (g_chain _ _ _ I) as C. rewrite (L2 Es) in C.
        assert (Hz : sh T <> 0).
        { pose proof (g_ne _ _ _ I). destruct (qs x); [congruence|]. cbn in C. destruct C as (-> & Z & _). exact Z. }
        destruct (chain_cons_inv _ _ _ C Hz) as (r & Er & Cr). rewrite En in Cr. apply chain_zero in Cr.
        rewrite Er, Cr. cbn. reflexivity.
    + cbn [fst].
      eapply frame_step with (t := t); [exact I|reflexivity|reflexivity|reflexivity|reflexivity|..];
        cbn [base qs hist ver sver pv ctr hnode tail next data pool thr set_thr].
      * others.
      * own_same x Io HT Hpc t.
      * auto.
      * tail_same I HT Hpc.
      * auto.
      * rewrite !upd_same. unfold lok; cbn. rewrite En. split; auto.
      * apply (g_hist _ _ _ I).
  - (* QData *)
    destruct LT as (L1 & L2 & L3).
    eapply frame_step with (t := t); [exact I|reflexivity|reflexivity|reflexivity|reflexivity|..];
      cbn [base qs hist ver sver pv ctr hnode tail next data pool thr set_thr].
    + others.
    + own_same x Io HT Hpc t.
    + auto.
    + tail_same I HT Hpc.
    + auto.
    + rewrite !upd_same. unfold lok; cbn. split; auto. split; auto. intros Es. destruct (L3 Es). auto.
    + apply (g_hist _ _ _ I).
  - (* QCas *)
    destruct LT as ([L1 L1'] & L2 & L3).
    destruct (cas_ok (base x) T) eqn:Ec; unfold cas_ok in Ec; rewrite Ec.
    + cbn [fst]. apply andb_true_iff in Ec. destruct Ec as [Ec _]. apply Z.eqb_eq in Ec.
      destruct I as [Ic Ine It Io' Iv Il Ih].
      assert (Es : sver x t = ver x) by lia. destruct (L3 Es) as (D1 & D2 & D3).
      assert (Hz : sh T <> 0).
      { destruct (qs x); [congruence|]. cbn in Ic. destruct Ic as (E0 & Z & _). congruence. }
      rewrite D1 in Ic. destruct (chain_cons_inv _ _ _ Ic Hz) as (r1 & Er1 & Cr1). rewrite D2 in Cr1.
      destruct (chain_cons_inv _ _ _ Cr1 L2) as (r2 & Er2 & Cr2).
      constructor; cbn [base qs hist ver sver pv ctr hnode tail next data pool thr].
      * rewrite Er1. cbn [tl]. exact Cr1.
      * rewrite Er1, Er2. discriminate.
      * unfold tail_ok in *. cbn. rewrite Er1, Er2 in *.
        change (last (sh T :: sn T :: r2) 0) with (last (sn T :: r2) 0) in It. cbn [tl]. rewrite It.
        destruct (Nat.eq_dec t 0) as [->|Hn]; [rewrite upd_same, <- HT, Hpc; reflexivity|].
        rewrite upd_other by auto. reflexivity.
      * apply (own_take U [sh T] (tl (qs x)) (held x) _ (S t)).
        -- intros [|u] Hu; cbn; auto. rewrite upd_other by congruence. reflexivity.
        -- cbn. rewrite upd_same, <- HT. unfold hnodes; cbn [pc sh]. rewrite Hpc. apply Permutation_refl.
        -- rewrite Er1. cbn. rewrite Er1 in Io. exact Io.
      * lia.
      * intros u. thr_cases u t.
        -- unfold lok; cbn. reflexivity.
        -- eapply lok_bump. apply Il.
      * rewrite replay_app, Ih, Er1, Er2. cbn. rewrite D3, Nat.eqb_refl. reflexivity.
    + destruct (finish t T (drain T) (pool (base x))) as [[T' pl] e] eqn:Ef. cbn [fst].
      pose proof (finish_spec t T (drain T) (pool (base x))) as Fr. rewrite Ef in Fr. cbn [fst snd] in Fr.
      assert (Hn : hnodes T = []) by (unfold hnodes; rewrite Hpc; reflexivity).
      eapply frame_step with (t := t); [exact I|reflexivity|reflexivity|reflexivity|reflexivity|..];
        cbn [base qs hist ver sver pv ctr hnode tail next data pool thr set_thr].
      * others.
      * fin_own x Io Hh t T' pl.
        apply (finish_own U (qs x) (held x) t (hnodes T) T' pl Io Hh); [left; auto|].
        rewrite Hn. exact Fr.
      * auto.
      * eapply tail_ok_upd; [apply (g_tail _ _ _ I)|reflexivity|reflexivity
                            |rewrite <- HT, Hpc; discriminate|eapply fresh_not_settail; eauto].
      * auto.
      * rewrite upd_same. eapply fresh_lok; eauto.
      * apply (g_hist _ _ _ I).
  - (* QWData *)
    eapply frame_step with (t := t); [exact I|reflexivity|reflexivity|reflexivity|reflexivity|..];
      cbn [base qs hist ver sver pv ctr hnode tail next data pool thr set_thr].
    + others.
    + own_same x Io HT Hpc t.
    + intros n Hn. split; auto. apply upd_other. intros ->. apply Hn. rewrite Hh. unfold hnodes. rewrite Hpc. left; auto.
    + tail_same I HT Hpc.
    + auto.
    + rewrite upd_same. unfold lok; cbn. rewrite upd_same. exact LT.
    + apply (g_hist _ _ _ I).
  - (* QRData *)
    destruct (finish t T (drain T) (sh T :: pool (base x))) as [[T' pl] e] eqn:Ef. cbn [fst].
    pose proof (finish_spec t T (drain T) (sh T :: pool (base x))) as Fr. rewrite Ef in Fr. cbn [fst snd] in Fr.
    assert (Hn : hnodes T = [sh T]) by (unfold hnodes; rewrite Hpc; reflexivity).
    eapply frame_step with (t := t); [exact I|reflexivity|reflexivity|reflexivity|reflexivity|..];
      cbn [base qs hist ver sver pv ctr hnode tail next data pool thr set_thr].
    + others.
    + fin_own x Io Hh t T' pl.
      apply (finish_own U (qs x) (held x) t (hnodes T) T' pl Io Hh); [right; eauto|].
      rewrite Hn. exact Fr.
    + auto.
    + eapply tail_ok_upd; [apply (g_tail _ _ _ I)|reflexivity|reflexivity
                          |rewrite <- HT, Hpc; discriminate|eapply fresh_not_settail; eauto].
    + auto.
    + rewrite upd_same. eapply fresh_lok; eauto.
    + apply (g_hist _ _ _ I).
  - (* Fin *)
    destruct x; cbn in *; exact I.
Qed.

(* ---------- initial state ---------- *)
Definition univ (p n : nat) : Prop := 1 <= n <= p + 1.

Lemma init_linv p start progs : LInv (univ p) start (iinit p start progs).
Proof.
  pose (H0 := fun i : nat => match i with 0 => seq 2 p | S _ => @nil nat end).
  assert (I0 : OwnInv (univ p) [1] H0).
  { constructor.
    - constructor; [intros []|constructor].
    - intros n [<-|[]]. discriminate.
    - intros [|t]; cbn; [apply seq_NoDup|constructor].
    - intros [|t] n; cbn; [rewrite in_seq; lia|tauto].
    - intros [|t] [|u] n; cbn; tauto.
    - intros [|t] n; cbn; [|tauto]. rewrite in_seq. intros A [B|[]]. lia.
    - intros n [A B]. destruct (Nat.eq_dec n 1) as [->|Hn]; [left; left; auto|].
      right. exists 0. cbn. rewrite in_seq. lia. }
  pose proof (begin_spec 0 (nth 0 progs []) (seq 2 p) 0) as F0.
  assert (Fo : forall t pl, hnodes (fst (fst (begin (S t) pl (nth (S t) progs []) 0))) = []).
  { intros t pl. destruct (begin_spec (S t) (nth (S t) progs []) pl 0) as [[[E|E] _]|(E & _)]; [| |discriminate];
      unfold hnodes; rewrite E; reflexivity. }
  constructor; cbn [base qs hist ver sver pv iinit].
  - cbn. auto.
  - discriminate.
  - unfold tail_ok. cbn. unfold start0.
    pose proof (fresh_not_settail _ _ _ _ F0) as Hn.
    destruct (pc (fst (fst (begin 0 (seq 2 p) (nth 0 progs []) 0)))); congruence.
  - pose proof (finish_own (univ p) [1] H0 0 [] _ _ I0 eq_refl (or_introl eq_refl) F0) as I1.
    revert I1. apply own_ext. intros [|[|u]]; cbn; auto.
  - cbn. lia.
  - intros [|t]; cbn; eapply fresh_lok; apply begin_spec.
  - reflexivity.
Qed.

Theorem ireach_linv p start progs x : ireach p start progs x -> LInv (univ p) start x.
Proof. induction 1; [apply init_linv|apply linv_step; auto]. Qed.

(* ---------- the statements used by Properties_C20.v ---------- *)
Lemma pop_snapshot_of_linv U start x t :
  LInv U start x -> pc (thr (base x) t) = QCas -> ctr (base x) = sc (thr (base x) t) ->
  sver x t = ver x /\ hnode (base x) = sh (thr (base x) t) /\
  next (base x) (sh (thr (base x) t)) = sn (thr (base x) t) /\
  data (base x) (sn (thr (base x) t)) = sd (thr (base x) t) /\
  exists r, qs x = sh (thr (base x) t) :: sn (thr (base x) t) :: r.
Proof.
  intros I Hpc Hc. assert (LT := g_loc _ _ _ I t). unfold lok in LT. rewrite Hpc in LT.
  destruct LT as ([L1 L1'] & L2 & L3). pose proof (g_ver _ _ _ I) as Iv.
  assert (Es : sver x t = ver x) by lia. destruct (L3 Es) as (D1 & D2 & D3). repeat split; auto.
  pose proof (g_chain _ _ _ I) as Ic. pose proof (g_ne _ _ _ I) as Ine.
  assert (Hz : sh (thr (base x) t) <> 0).
  { destruct (qs x); [congruence|]. cbn in Ic. destruct Ic as (E0 & Z & _). congruence. }
  rewrite D1 in Ic. destruct (chain_cons_inv _ _ _ Ic Hz) as (r1 & Er1 & Cr1). rewrite D2 in Cr1.
  destruct (chain_cons_inv _ _ _ Cr1 L2) as (r2 & Er2 & Cr2). exists r2. congruence.
Qed.

Fixpoint pushed (h : list hev) : list nat :=
  match h with [] => [] | HPush v :: r => v :: pushed r | _ :: r => pushed r end.
Fixpoint popped (h : list hev) : list nat :=
  match h with [] => [] | HPop _ v :: r => v :: popped r | _ :: r => popped r end.

Lemma replay_fifo h : forall q q', replay h q = Some q' -> q ++ pushed h = popped h ++ q'.
Proof.
  induction h as [|e r IH]; intros q q' H; cbn in H.
  - inversion H; subst. cbn. apply app_nil_r.
  - destruct e as [v|u v|u|u]; cbn [pushed popped].
    + apply IH in H. rewrite <- app_assoc in H. exact H.
    + destruct q as [|a q0]; [discriminate|]. destruct (Nat.eqb_spec a v); [|discriminate]. subst a.
      apply IH in H. cbn. f_equal. exact H.
    + destruct q; [|discriminate]. apply IH in H. exact H.
    + apply IH in H. exact H.
Qed.

Lemma fifo_of_linv U start x :
  LInv U start x ->
  replay (hist x) [] = Some (map (data (base x)) (tl (qs x))) /\
  pushed (hist x) = popped (hist x) ++ map (data (base x)) (tl (qs x)) /\
  chain (next (base x)) (hnode (base x)) (qs x) /\ qs x <> [].
Proof.
  intros I. split; [apply (g_hist _ _ _ I)|]. split.
  - apply (replay_fifo _ _ _ (g_hist _ _ _ I)).
  - split; [apply (g_chain _ _ _ I)|apply (g_ne _ _ _ I)].
Qed.

(* EMPTY: the queue is empty at the read of head->next, or a pop took effect
   since this call read the counter (then the answer may be spurious) *)
Lemma empty_justified_of_linv U start x t :
  LInv U start x -> pc (thr (base x) t) = QNext -> next (base x) (sh (thr (base x) t)) = 0 ->
  (sver x t = ver x /\ qs x = [sh (thr (base x) t)]) \/ sver x t < ver x.
Proof.
  intros I Hpc En. assert (LT := g_loc _ _ _ I t). unfold lok in LT. rewrite Hpc in LT.
  destruct LT as ([L1 L1'] & L2).
  destruct (Nat.eq_dec (sver x t) (ver x)) as [Es|Es]; [left|right; lia]. split; auto.
  pose proof (g_chain _ _ _ I) as C. rewrite (L2 Es) in C.
  assert (Hz : sh (thr (base x) t) <> 0).
  { pose proof (g_ne _ _ _ I). destruct (qs x); [congruence|]. cbn in C. destruct C as (-> & Z & _). exact Z. }
  destruct (chain_cons_inv _ _ _ C Hz) as (r & Er & Cr). rewrite En in Cr. apply chain_zero in Cr.
  rewrite Er, Cr. reflexivity.
Qed.

(* RETRY: only if a pop took effect since this call read the counter *)
Lemma retry_justified_of_linv U start x t :
  LInv U start x -> pc (thr (base x) t) = QCas -> cas_ok (base x) (thr (base x) t) = false ->
  sver x t < ver x.
Proof.
  intros I Hpc Hc. assert (LT := g_loc _ _ _ I t). unfold lok in LT. rewrite Hpc in LT.
  destruct LT as ([L1 L1'] & L2 & L3). pose proof (g_ver _ _ _ I) as Iv.
  destruct (Nat.eq_dec (sver x t) (ver x)) as [Es|Es]; [|lia]. exfalso.
  destruct (L3 Es) as (D1 & _). unfold cas_ok in Hc. apply andb_false_iff in Hc.
  destruct Hc as [Hc|Hc]; [apply Z.eqb_neq in Hc; lia|apply Nat.eqb_neq in Hc; congruence].
Qed.

(* the value the harness reads from the returned node is the value taken at the DCAS *)
Lemma pop_value_of_linv U start x t :
  LInv U start x -> pc (thr (base x) t) = QRData -> data (base x) (sh (thr (base x) t)) = pv x t.
Proof. intros I Hpc. assert (LT := g_loc _ _ _ I t). unfold lok in LT. rewrite Hpc in LT. exact LT. Qed.

Lemma single_pusher_of_linv U start x t :
  LInv U start x ->
  match pc (thr (base x) t) with HData | PTail | PNull | PLink | PSetTail => t = 0 | _ => True end.
Proof. intros I. assert (LT := g_loc _ _ _ I t). unfold lok in LT. destruct (pc (thr (base x) t)); tauto. Qed.

Lemma no_lost_no_dup_of_linv U start x : LInv U start x -> OwnInv U (qs x) (held x).
Proof. intros I. apply (g_own _ _ _ I). Qed.
