(* Proofs about the MPMC-FIFO-over-hazard-pointers model (coq/MpmcHp.v):
   layered inductive invariants over every reachable state (any number of
   threads, records joining at any time, any programs, any schedule, node
   reuse through the LIFO pool), then an instrumented machine with history
   logs and allocation generations.  The list lemmas, binary search and scan
   partition lemmas come from HazardProofs.v; the hazard-pointer safety
   argument (layer V below) is the one of HazardProofs.v carried over to the
   combined state, with "validated against a cell" replaced by "validated
   against fifo.head / fifo.tail". *)
From Coq Require Import List ZArith Lia Bool Arith Permutation Sorted.
From LF Require Import Conc Hazard HazardProofs MpmcHp.
Import ListNotations.

Ltac ifs := repeat match goal with |- context [if ?b then _ else _] => destruct b end.

Ltac ifs_nat := repeat match goal with
  | |- context [if (?a =? ?b) then _ else _] => destruct (a =? b)
  | |- context [if (?a <? ?b) then _ else _] => destruct (a <? b)
  | |- context [if (?a <=? ?b) then _ else _] => destruct (a <=? b) end.

Ltac msimp :=
  cbn [pc prog opi joined isq arg nn hh pv rv cur chead cnt idx maxp snap rlist held
       set_pc set_prog set_joined set_call set_nn set_hh set_pv set_rv set_cur set_chead set_cnt
       set_scan set_rlist set_held
       hhead recs rnext rthr slot qhead qtail qs nval nprev pool thr nthr
       set_thr set_rnext set_rthr set_recs set_slot set_q set_nprev set_alloc set_pool] in *.

(* ================================================================== *)
(* A. starting calls                                                    *)
(* ================================================================== *)
Definition same_regs (T T2 : tst) : Prop :=
  joined T2 = joined T /\ rlist T2 = rlist T /\ held T2 = held T.

Definition start_ok (T : tst) : Prop :=
  match pc T with
  | J1 => joined T = false
  | PA | Q1 | S1 => joined T = true
  | Fin => True
  | _ => False
  end.

Lemma enter_ok T o T' : enter T o = Some T' -> same_regs T T' /\ start_ok T'.
Proof.
  unfold enter, same_regs, start_ok. destruct o; intros H;
    try (destruct (joined T) eqn:J; inversion H; subst; cbn; auto); discriminate.
Qed.

Lemma begin_ok t T p : forall k, same_regs T (fst (begin t T p k)) /\ start_ok (fst (begin t T p k)).
Proof.
  induction p as [|o r IH]; intros k; cbn [begin].
  - cbn. unfold same_regs, start_ok; cbn; auto.
  - destruct (enter T o) as [T'|] eqn:E.
    + apply enter_ok in E. destruct E as [A B]. cbn [fst]. split.
      * unfold same_regs in *; cbn; tauto.
      * unfold start_ok in *; cbn. exact B.
    + specialize (IH (S k)). destruct (begin t T r (S k)) as [T2 e]. exact IH.
Qed.

Lemma finish_ok t T v : same_regs T (fst (finish t T v)) /\ start_ok (fst (finish t T v)).
Proof.
  unfold finish. pose proof (begin_ok t T (prog T) (opi T)) as H.
  destruct (begin t T (prog T) (opi T)) as [T2 e]. exact H.
Qed.

Ltac fin_tac :=
  match goal with
  | |- context [finish ?t ?T ?v] =>
    let H := fresh "Hfin" in
    let T2 := fresh "T2" in let e2 := fresh "e2" in
    pose proof (finish_ok t T v) as H; destruct (finish t T v) as [T2 e2]; cbn [fst snd] in H |- *
  end.

(* ================================================================== *)
(* B. layer R: the record list                                          *)
(* ================================================================== *)
Definition rlocalP (rc : list nat) (nx : nat -> nat) (t : nat) (T : tst) : Prop :=
  match pc T with
  | J1 => joined T = false
  | J2 => joined T = false /\ okh rc (chead T)
  | J3 | J4 | J5 | J6 => joined T = false /\ okh rc (chead T) /\ nx (S t) = chead T
  | S2 => joined T = true /\ In (chead T) rc
  | S3 | S4 => joined T = true /\ In (cur T) rc
  | Fin => True
  | _ => joined T = true
  end.

Definition rlocal (s : st) := rlocalP (recs s) (rnext s).

Record RInv (s : st) : Prop := {
  r_head : hhead s = hd 0 (recs s);
  r_nodup : NoDup (recs s);
  r_nz : ~ In 0 (recs s);
  r_link : linked (rnext s) (recs s);
  r_join : forall t, joined (thr s t) = true <-> In (S t) (recs s);
  r_loc : forall t, rlocal s t (thr s t)
}.

Lemma start_rlocal rc nx t T : start_ok T -> rlocalP rc nx t T.
Proof. unfold start_ok, rlocalP. destruct (pc T); auto; tauto. Qed.

Lemma rinv_frame s s' t T' :
  RInv s -> hhead s' = hhead s -> recs s' = recs s -> rnext s' = rnext s ->
  thr s' = upd (thr s) t T' -> joined T' = joined (thr s t) -> rlocal s t T' -> RInv s'.
Proof.
  intros [Ih Ind Inz Il Ij Iloc] Eh Er En Ethr Ej L.
  constructor; unfold rlocal in *; rewrite ?Eh, ?Er, ?En, ?Ethr; auto.
  - intros u. thr_cases u t; [rewrite Ej|]; apply Ij.
  - intros u. thr_cases u t; auto.
Qed.

Lemma rlocal_nx rc nx nx' u T : nx' (S u) = nx (S u) -> rlocalP rc nx u T -> rlocalP rc nx' u T.
Proof. intros A. unfold rlocalP. destruct (pc T); auto; rewrite ?A; auto. Qed.

Lemma rlocal_push rc nx r u T :
  ~ In r rc -> rlocalP rc nx u T -> rlocalP (r :: rc) nx u T.
Proof.
  intros Hn.
  assert (Ok : forall c, okh rc c -> okh (r :: rc) c).
  { intros c [X|X]; [left; right; auto | right; auto]. }
  unfold rlocalP. destruct (pc T); auto; try (intros (A & B & D); auto); try (intros (A & B); split; auto; right; auto).
Qed.

Section Proofs.
Variable sort : list nat -> list nat.
Hypothesis sort_perm : forall l, Permutation l (sort l).
Hypothesis sort_sorted : forall l, Sorted le (sort l).

Ltac frame_r s t I :=
  eapply (rinv_frame s _ t); [exact I | reflexivity | reflexivity | reflexivity | reflexivity | | ].

Lemma rinv_fin s s' t T0 T2 :
  RInv s -> hhead s' = hhead s -> recs s' = recs s -> rnext s' = rnext s -> thr s' = thr s ->
  joined T0 = joined (thr s t) -> same_regs T0 T2 /\ start_ok T2 -> RInv (set_thr s' t T2).
Proof.
  intros I E1 E2 E3 E4 J [[A _] B]. eapply (rinv_frame s _ t T2); auto; msimp; try congruence.
  apply start_rlocal. exact B.
Qed.

(* local step of thread t: only its own registers change *)
Ltac rloc s t I T :=
  eapply (rinv_frame s _ t); try reflexivity; try exact I; try (subst T; reflexivity);
  try (unfold rlocal, rlocalP; msimp; ifs; msimp; auto; fail).

Lemma rinv_step s t : RInv s -> RInv (fst (step sort s t)).
Proof.
  intros I. pose proof I as [Ih Ind Inz Il Ij Iloc].
  unfold step. remember (thr s t) as T eqn:HT.
  assert (LT := Iloc t). rewrite <- HT in LT. unfold rlocal, rlocalP in LT.
  assert (JT : joined T = true <-> In (S t) (recs s)) by (rewrite HT; apply Ij).
  assert (Efin : forall s' T0 v, hhead s' = hhead s -> recs s' = recs s -> rnext s' = rnext s -> thr s' = thr s ->
            joined T0 = joined T -> RInv (set_thr s' t (fst (finish t T0 v)))).
  { intros s' T0 v E1 E2 E3 E4 E5. apply (rinv_fin s s' t T0); auto; [congruence|apply finish_ok]. }
  destruct (pc T) eqn:Hpc; cbn [fst].
  - (* J1 *) frame_r s t I; [subst T; reflexivity|]. unfold rlocal, rlocalP; msimp. split; auto. rewrite Ih. apply okh_hd.
  - (* J2 *) destruct LT as [J O].
    assert (NI : ~ In (S t) (recs s)) by (intros X; apply JT in X; congruence).
    constructor; msimp; auto.
    + apply linked_upd_notin; auto.
    + intros u. thr_cases u t; msimp; [rewrite HT|]; apply Ij.
    + intros u. thr_cases u t.
      * unfold rlocal, rlocalP; msimp. rewrite upd_same. auto.
      * apply (rlocal_nx _ (rnext s)); [apply upd_other; congruence|apply Iloc].
  - (* J3 *) destruct LT as (J & O & N). frame_r s t I; [subst T; reflexivity|].
    unfold rlocal, rlocalP; msimp. ifs; msimp; auto.
  - (* J4 *) destruct LT as (J & O & N). frame_r s t I; [subst T; reflexivity|].
    unfold rlocal, rlocalP; msimp. ifs; msimp; auto.
  - (* J5 *) destruct LT as (J & O & N). constructor; msimp; auto.
    + intros u. thr_cases u t; msimp; [rewrite HT|]; apply Ij.
    + intros u. thr_cases u t; [unfold rlocal, rlocalP; msimp; auto|apply Iloc].
  - (* J6 *) destruct LT as (J & O & N).
    assert (NI : ~ In (S t) (recs s)) by (intros X; apply JT in X; congruence).
    destruct (Nat.eqb_spec (hhead s) (chead T)) as [E|E]; cbn [fst].
    + constructor; msimp; auto.
      * constructor; auto.
      * cbn [In]. intros [X|X]; [discriminate|tauto].
      * split; [rewrite N, <- E; exact Ih|exact Il].
      * intros u. cbn [In]. thr_cases u t; msimp.
        -- split; auto.
        -- rewrite Ij. split; [auto|]. intros [X|X]; [congruence|auto].
      * intros u. thr_cases u t; [unfold rlocal, rlocalP; msimp; auto|].
        apply rlocal_push; auto. apply Iloc.
    + frame_r s t I; [subst T; reflexivity|]. unfold rlocal, rlocalP; msimp. split; auto. rewrite Ih. apply okh_hd.
  - (* J7 *) destruct (rnext s (S t) =? 0); cbn [fst].
    + fin_tac. apply (rinv_fin s s t T); auto. congruence.
    + rloc s t I T.
  - (* J8 *) constructor; msimp; auto.
    + intros u. thr_cases u t; msimp; [rewrite HT|]; apply Ij.
    + intros u. thr_cases u t; [unfold rlocal, rlocalP; msimp; auto|apply Iloc].
  - (* J9 *) destruct (rnext s (cur T) =? 0); cbn [fst].
    + fin_tac. apply (rinv_fin s s t T); auto. congruence.
    + rloc s t I T.
  - (* PA *) destruct (pool s) as [|f p]; cbn [fst].
    + fin_tac. apply (rinv_fin s s t T); auto. congruence.
    + rloc s t I T.
  - (* P0 *) rloc s t I T.
  - (* P1 *) rloc s t I T.
  - (* P2 *) rloc s t I T.
  - (* P3 *) destruct (qtail s =? hh T); cbn [fst]; rloc s t I T.
  - (* P4 *) rloc s t I T.
  - (* P5 *) destruct (qtail s =? hh T); cbn [fst].
    + rloc s t I T.
    + rloc s t I T.
  - (* P6 *) rloc s t I T.
  - (* P7 *) fin_tac. apply (rinv_fin s _ t (set_held T (upd (held T) 0 0))); auto. msimp. congruence.
  - (* Q1 *) rloc s t I T.
  - (* Q2 *) rloc s t I T.
  - (* Q3 *) destruct (qhead s =? hh T); cbn [fst]; rloc s t I T.
  - (* Q4 *) rloc s t I T.
  - (* Q4e *) fin_tac. apply (rinv_fin s _ t (set_held T (upd (held T) 0 0))); auto. msimp. congruence.
  - (* Q5 *) rloc s t I T.
  - (* Q6 *) destruct (qhead s =? hh T); cbn [fst]; rloc s t I T.
  - (* Q7 *) rloc s t I T.
  - (* Q8 *) destruct (qhead s =? hh T); cbn [fst].
    + rloc s t I T.
    + rloc s t I T.
  - (* Q9 *) rloc s t I T.
  - (* Q10 *) rloc s t I T.
  - (* R1 *) destruct (rthr s (S t) <=? length (rlist T)); cbn [fst].
    + rloc s t I T.
    + fin_tac. apply (rinv_fin s s t T); auto. congruence.
  - (* S1 *) frame_r s t I; [subst T; reflexivity|]. unfold rlocal, rlocalP; msimp. split; auto.
    rewrite Ih. apply (in_hd_in (S t)). apply JT. exact LT.
  - (* S2 *) frame_r s t I; [subst T; reflexivity|]. unfold rlocal, rlocalP; msimp. exact LT.
  - (* S3 *) frame_r s t I; [subst T; reflexivity|]. unfold rlocal, rlocalP; msimp. ifs; msimp; exact LT.
  - (* S4 *) destruct LT as (J & Hc).
    destruct (from_next (rnext s) (recs s) (cur T) Ind Il Inz Hc) as [[A B]|[A [B D]]].
    + rewrite A. cbn [Nat.eqb]. fin_tac.
      apply (rinv_fin s _ t (set_rlist T (scan_keep sort (snap T) (rlist T)))); auto. msimp. congruence.
    + destruct (Nat.eqb_spec (rnext s (cur T)) 0) as [E|_]; [contradiction|]. cbn [fst].
      frame_r s t I; [subst T; reflexivity|]. unfold rlocal, rlocalP; msimp. auto.
  - (* Fin *) exact I.
Qed.

End Proofs.

Lemma init_thr_ok P NN Mq progs t :
  let T := thr (init P NN Mq progs) t in
  joined T = (t <? P) /\ rlist T = [] /\ (forall i, held T i = 0) /\ start_ok T.
Proof.
  cbn [thr init]. destruct (begin_ok t (idle (t <? P)) (nth t progs []) 0) as [[A [B D]] E].
  rewrite A, B, D. cbn. auto.
Qed.

Lemma init_rinv P NN Mq progs : RInv (init P NN Mq progs).
Proof.
  constructor; cbn [hhead recs rnext init]; auto.
  - now rewrite down_hd.
  - apply down_nodup.
  - rewrite down_in. lia.
  - apply down_linked. lia.
  - intros t. destruct (init_thr_ok P NN Mq progs t) as [A _]. rewrite A, down_in.
    destruct (Nat.ltb_spec t P); split; intros; try lia; auto; discriminate.
  - intros t. apply start_rlocal. apply (init_thr_ok P NN Mq progs t).
Qed.

(* ================================================================== *)
(* C. adjacency in the ghost node sequence                              *)
(* ================================================================== *)
Fixpoint adj (a b : nat) (l : list nat) : Prop :=
  match l with
  | [] => False
  | x :: r => (x = a /\ hd 0 r = b /\ r <> []) \/ adj a b r
  end.

Lemma adj_in a b l : ~ In 0 l -> adj a b l -> In a l /\ In b l.
Proof.
  induction l as [|x r IH]; cbn [adj]; [tauto|]. intros H0 [[-> [Hb Hr]]|H].
  - split; [left; auto|]. right. destruct r; [tauto|]. cbn in Hb. subst. left; auto.
  - destruct (IH ltac:(cbn in H0; tauto) H). split; right; auto.
Qed.

Lemma adj_fun a b b' l : NoDup l -> ~ In 0 l -> adj a b l -> adj a b' l -> b = b'.
Proof.
  induction l as [|x r IH]; cbn [adj]; [tauto|]. intros Hnd H0 H1 H2.
  inversion Hnd as [|? ? Hx Hnd']; subst.
  assert (H0' : ~ In 0 r) by (cbn in H0; tauto).
  destruct H1 as [[-> [Hb _]]|H1], H2 as [[E [Hb' _]]|H2].
  - congruence.
  - exfalso. apply Hx. apply (adj_in a b' r H0' H2).
  - exfalso. subst x. apply Hx. apply (adj_in a b r H0' H1).
  - apply IH; auto.
Qed.

Lemma adj_snoc a b l n : l <> [] ->
  (adj a b (l ++ [n]) <-> adj a b l \/ (a = last l 0 /\ b = n)).
Proof.
  induction l as [|x r IH]; [tauto|]. intros _. cbn [app adj].
  destruct r as [|y r'].
  - cbn. split.
    + intros [[-> [<- _]]|[[_ [_ X]]|[]]]; [right; auto|tauto].
    + intros [[[_ [_ X]]|[]]|[-> ->]]; [tauto|left; repeat split; auto; discriminate].
  - specialize (IH ltac:(discriminate)). cbn [app] in IH. rewrite IH.
    change (last (x :: y :: r') 0) with (last (y :: r') 0). cbn [hd app].
    split.
    + intros [[-> [<- _]]|[X|X]]; [left; left; repeat split; auto; discriminate|left; right; auto|right; auto].
    + intros [[[-> [<- _]]|X]|X]; [left; repeat split; auto; discriminate|right; left; auto|right; right; auto].
Qed.

Lemma adj_not_last a b l : NoDup l -> ~ In 0 l -> adj a b l -> a <> last l 0.
Proof.
  induction l as [|x r IH]; cbn [adj]; [tauto|]. intros Hnd H0 H.
  inversion Hnd as [|? ? Hx Hnd']; subst. assert (H0' : ~ In 0 r) by (cbn in H0; tauto).
  destruct r as [|y r']; [cbn in H; destruct H as [[_ [_ X]]|[]]; tauto|].
  change (last (x :: y :: r') 0) with (last (y :: r') 0).
  destruct H as [[-> _]|H].
  - intros E. apply Hx. rewrite E. apply (@exists_last _ (y :: r') ltac:(discriminate)) || idtac.
    destruct (@exists_last _ (y :: r') ltac:(discriminate)) as [l' [z Ez]]. rewrite Ez, last_last.
    apply in_or_app. right. left. auto.
  - apply IH; auto.
Qed.

Lemma last_in (l : list nat) : l <> [] -> In (last l 0) l.
Proof.
  intros H. destruct (@exists_last _ l H) as [l' [z Ez]]. rewrite Ez, last_last.
  apply in_or_app. right. left. auto.
Qed.

Lemma last_tl (l : list nat) : tl l <> [] -> last (tl l) 0 = last l 0.
Proof. destruct l as [|x [|y r]]; cbn [tl]; try tauto; intros _; reflexivity. Qed.

Lemma last_snoc (l : list nat) n : last (l ++ [n]) 0 = n.
Proof. apply last_last. Qed.

(* ================================================================== *)
(* D. layer Q: the queue and the partition of the nodes; layer V:       *)
(*    validated protections and what a popper knows (definitions)       *)
(* ================================================================== *)
Definition privp (p : pcT) : bool := match p with P0 | P1 | P2 | P3 | P4 | P5 => true | _ => false end.
Definition handp (p : pcT) : bool := match p with Q9 | Q10 => true | _ => false end.
Definition opc (p : pcT) : bool := privp p || handp p.
Definition p15 (p : pcT) : bool := match p with P1 | P2 | P3 | P4 | P5 => true | _ => false end.
(* the node a thread holds privately: allocated and not yet in the queue
   (push), or dequeued and not yet retired (trypop) *)
Definition own (T : tst) : nat := if privp (pc T) then nn T else if handp (pc T) then hh T else 0.

Record QInv (s : st) : Prop := {
  q_ne : qs s <> [];
  q_head : qhead s = hd 0 (qs s);
  q_tail : qtail s = last (qs s) 0;
  q_nodup : NoDup (qs s);
  q_nz : ~ In 0 (qs s);
  q_link : forall a b, adj a b (qs s) ->
     nprev s a = b \/
     (nprev s a = 0 /\ exists t, pc (thr s t) = P6 /\ hh (thr s t) = a /\ nn (thr s t) = b);
  q_last : nprev s (qtail s) = 0;
  q_p6 : forall t, pc (thr s t) = P6 ->
     adj (hh (thr s t)) (nn (thr s t)) (qs s) /\ nprev s (hh (thr s t)) = 0;
  q_p6u : forall t u, pc (thr s t) = P6 -> pc (thr s u) = P6 -> nn (thr s t) = nn (thr s u) -> t = u;
  q_priv : forall t, p15 (pc (thr s t)) = true -> nprev s (nn (thr s t)) = 0;
  n_pool_nd : NoDup (pool s);
  n_pool_nz : ~ In 0 (pool s);
  n_rl_nd : forall t, NoDup (rlist (thr s t));
  n_rl_nz : forall t, ~ In 0 (rlist (thr s t));
  n_rl_disj : forall t u n, In n (rlist (thr s t)) -> In n (rlist (thr s u)) -> t = u;
  n_q_pool : forall n, In n (qs s) -> ~ In n (pool s);
  n_q_rl : forall n t, In n (qs s) -> ~ In n (rlist (thr s t));
  n_pool_rl : forall n t, In n (pool s) -> ~ In n (rlist (thr s t));
  n_own : forall t, opc (pc (thr s t)) = true ->
     own (thr s t) <> 0 /\ ~ In (own (thr s t)) (qs s) /\ ~ In (own (thr s t)) (pool s) /\
     (forall u, ~ In (own (thr s t)) (rlist (thr s u))) /\
     (forall u, u <> t -> opc (pc (thr s u)) = true -> own (thr s u) <> own (thr s t))
}.

Definition vscan (rc : list nat) (T : tst) (r i n : nat) : Prop :=
  match pc T with
  | S2 => In r (from (chead T) rc)
  | S3 => (r = cur T /\ idx T <= i) \/ In r (tl (from (cur T) rc)) \/ In n (snap T)
  | S4 => In r (tl (from (cur T) rc)) \/ In n (snap T)
  | _ => True
  end.

(* a popper whose head protection is validated: the head it holds is not
   recycled, so if it is still in the queue it is still the dummy *)
Definition vq4 (s : st) (T : tst) : Prop :=
  held T 0 = hh T /\ hh T <> 0 /\ (In (hh T) (qs s) -> hh T = qhead s).
Definition vq5 (s : st) (T : tst) : Prop :=
  pv T <> 0 /\ (qhead s = hh T -> nprev s (hh T) = pv T).

Definition vlocal (s : st) (t : nat) (T : tst) : Prop :=
  match pc T with
  | P3 | Q3 => slot s (S t) 0 = hh T
  | Q4 => vq4 s T
  | Q5 => vq4 s T /\ vq5 s T
  | Q6 => vq4 s T /\ vq5 s T /\ slot s (S t) 1 = pv T
  | Q7 => vq4 s T /\ vq5 s T /\ held T 1 = pv T
  | Q8 => vq4 s T /\ vq5 s T /\ held T 1 = pv T /\ rv T = nval s (pv T)
  | _ => True
  end.

Definition wherep (s : st) (n : nat) : Prop :=
  In n (qs s) \/ (exists t, handp (pc (thr s t)) = true /\ hh (thr s t) = n) \/
  (exists t, In n (rlist (thr s t))).

Record VInv (s : st) : Prop := {
  v_i2 : forall u i, held (thr s u) i <> 0 -> i < 2;
  v_slot : forall u i, held (thr s u) i <> 0 -> slot s (S u) i = held (thr s u) i;
  v_join : forall u i, held (thr s u) i <> 0 -> joined (thr s u) = true;
  v_pool : forall u i, held (thr s u) i <> 0 -> ~ In (held (thr s u) i) (pool s);
  v_priv : forall u i t, held (thr s u) i <> 0 -> privp (pc (thr s t)) = true ->
             nn (thr s t) <> held (thr s u) i;
  v_where : forall u i, held (thr s u) i <> 0 -> wherep s (held (thr s u) i);
  v_scan : forall u i t, held (thr s u) i <> 0 -> In (held (thr s u) i) (rlist (thr s t)) ->
             vscan (recs s) (thr s t) (S u) i (held (thr s u) i);
  v_loc : forall t, vlocal s t (thr s t);
  v_rlnz : forall t n, In n (rlist (thr s t)) -> nprev s n <> 0;
  v_handnz : forall t, handp (pc (thr s t)) = true -> nprev s (hh (thr s t)) <> 0
}.

(* thread t changes only registers that the Q layer does not look at *)
Lemma qinv_frame s s' t T' :
  QInv s -> qs s' = qs s -> qhead s' = qhead s -> qtail s' = qtail s -> nprev s' = nprev s ->
  pool s' = pool s -> thr s' = upd (thr s) t T' ->
  rlist T' = rlist (thr s t) -> own T' = own (thr s t) -> opc (pc T') = opc (pc (thr s t)) ->
  pc (thr s t) <> P6 -> pc T' <> P6 ->
  (p15 (pc T') = true -> p15 (pc (thr s t)) = true /\ nn T' = nn (thr s t)) -> QInv s'.
Proof.
  intros [A1 A2 A3 A4 A5 A6 A7 A8 A8u A9 B1 B2 B3 B4 B5 B6 B7 B8 B9] Eq Eh Et En Ep Ethr Erl Eo Eopc N6 N6' H15.
  constructor; rewrite ?Eq, ?Eh, ?Et, ?En, ?Ep, ?Ethr; auto.
  - intros a b Hab. destruct (A6 a b Hab) as [X|[X [u (U1 & U2 & U3)]]]; [left; auto|right; split; auto].
    exists u. assert (u <> t) by (intros ->; tauto). rewrite upd_other; auto.
  - intros u. thr_cases u t; [tauto|auto].
  - intros u v. thr_cases u t; [tauto|]. thr_cases v t; [tauto|]. auto.
  - intros u. thr_cases u t; [|auto]. intros X. destruct (H15 X) as [Y ->]. auto.
  - intros u. thr_cases u t; [rewrite Erl|]; auto.
  - intros u. thr_cases u t; [rewrite Erl|]; auto.
  - intros u v n. thr_cases u t; thr_cases v t; rewrite ?Erl; eauto.
  - intros n u. thr_cases u t; rewrite ?Erl; eauto.
  - intros n u. thr_cases u t; rewrite ?Erl; eauto.
  - assert (RL : forall v, rlist (upd (thr s) t T' v) = rlist (thr s v)).
    { intros v. thr_cases v t; auto. }
    intros u. thr_cases u t.
    + rewrite Eopc, Eo. intros X. destruct (B9 t X) as (C1 & C2 & C3 & C4 & C5).
      repeat split; auto.
      * intros v. rewrite RL. auto.
      * intros v Hv. rewrite upd_other by auto. auto.
    + intros X. destruct (B9 u X) as (C1 & C2 & C3 & C4 & C5). repeat split; auto.
      * intros v. rewrite RL. auto.
      * intros v Hv. thr_cases v t; [rewrite Eopc, Eo|]; auto.
Qed.

Lemma start_not_own T : start_ok T ->
  opc (pc T) = false /\ own T = 0 /\ pc T <> P6 /\ p15 (pc T) = false.
Proof. unfold start_ok, own. destruct (pc T); cbn; intros H; try tauto; repeat split; auto; discriminate. Qed.

Lemma opc_false_own T : opc (pc T) = false -> own T = 0.
Proof. unfold opc, own. destruct (privp (pc T)), (handp (pc T)); cbn; auto; discriminate. Qed.

Lemma qinv_fin s s' t T0 T2 :
  QInv s -> qs s' = qs s -> qhead s' = qhead s -> qtail s' = qtail s -> nprev s' = nprev s ->
  pool s' = pool s -> thr s' = thr s ->
  rlist T0 = rlist (thr s t) -> opc (pc (thr s t)) = false -> pc (thr s t) <> P6 ->
  same_regs T0 T2 /\ start_ok T2 -> QInv (set_thr s' t T2).
Proof.
  intros Q E1 E2 E3 E4 E5 E6 Erl Ho N6 [[_ [A _]] B].
  destruct (start_not_own T2 B) as (C1 & C2 & C3 & C4).
  eapply (qinv_frame s _ t T2); auto; msimp; try congruence;
    try (rewrite C2; symmetry; apply opc_false_own; auto; fail); try (intros X; congruence).
Qed.

Section Proofs2.
Variable sort : list nat -> list nat.
Hypothesis sort_perm : forall l, Permutation l (sort l).
Hypothesis sort_sorted : forall l, Sorted le (sort l).

Lemma qinv_step s t : RInv s -> QInv s -> VInv s -> QInv (fst (step sort s t)).
Proof.
  intros I Q V. pose proof Q as [A1 A2 A3 A4 A5 A6 A7 A8 A8u A9 B1 B2 B3 B4 B5 B6 B7 B8 B9].
  unfold step. remember (thr s t) as T eqn:HT.
  assert (VT := v_loc s V t). rewrite <- HT in VT. unfold vlocal in VT.
  Ltac qloc s t Q T HT Hpc :=
    eapply (qinv_frame s _ t); try reflexivity; try exact Q; try (subst T; reflexivity);
    try (rewrite <- ?HT; ifs_nat; unfold own, opc; msimp; rewrite ?Hpc; cbn [privp handp p15 orb]; auto; try discriminate; try tauto; fail).
  Ltac qfin s t Q T HT Hpc T0 :=
    fin_tac; apply (qinv_fin s _ t T0); auto;
    try (rewrite <- ?HT; msimp; rewrite ?Hpc; cbn; auto; try discriminate; try congruence; fail).
  (* the P6 witness of q_link survives a step of a thread that is not at P6 *)
  assert (LinkW : forall T' (f : nat -> nat), pc T <> P6 ->
            (forall a, In a (qs s) -> f a = nprev s a) ->
            forall a b, adj a b (qs s) ->
            f a = b \/ (f a = 0 /\ exists u, pc (upd (thr s) t T' u) = P6 /\ hh (upd (thr s) t T' u) = a /\ nn (upd (thr s) t T' u) = b)).
  { intros T' f N6 Hf a b Hab. rewrite (Hf a (proj1 (adj_in a b _ A5 Hab))).
    destruct (A6 a b Hab) as [X|[X [u (U1 & U2 & U3)]]]; [left; auto|right; split; auto].
    exists u. assert (u <> t) by (intros ->; rewrite <- HT in U1; congruence). rewrite upd_other; auto. }
  destruct (pc T) eqn:Hpc; cbn [fst].
  - (* J1 *) qloc s t Q T HT Hpc.
  - (* J2 *) qloc s t Q T HT Hpc.
  - (* J3 *) qloc s t Q T HT Hpc.
  - (* J4 *) qloc s t Q T HT Hpc.
  - (* J5 *) qloc s t Q T HT Hpc.
  - (* J6 *) destruct (hhead s =? chead T); cbn [fst]; qloc s t Q T HT Hpc.
  - (* J7 *) destruct (rnext s (S t) =? 0); cbn [fst]; [qfin s t Q T HT Hpc T|qloc s t Q T HT Hpc].
  - (* J8 *) qloc s t Q T HT Hpc.
  - (* J9 *) destruct (rnext s (cur T) =? 0); cbn [fst]; [qfin s t Q T HT Hpc T|qloc s t Q T HT Hpc].
  - (* PA *) clear A1 A2 A3 A4 A5 A6 A7 A8 A8u A9 B1 B2 B3 B4 B5 B6 B7 B8 B9.
    destruct (pool s) as [|f p] eqn:Hp; cbn [fst]; [qfin s t Q T HT Hpc T|].
    pose proof Q as [A1 A2 A3 A4 A5 A6 A7 A8 A8u A9 B1 B2 B3 B4 B5 B6 B7 B8 B9].
    assert (Hf : In f (pool s)) by (rewrite Hp; cbn; auto).
    rewrite Hp in B1. apply NoDup_cons_iff in B1. destruct B1 as [Hfp Hndp].
    assert (Sub : forall n, In n p -> In n (pool s)) by (intros; rewrite Hp; cbn; auto).
    assert (RL : forall v, rlist (upd (thr s) t (set_pc (set_nn T f) P0) v) = rlist (thr s v)).
    { intros v. thr_cases v t; msimp; congruence. }
    constructor; msimp.
    + exact A1.
    + exact A2.
    + exact A3.
    + exact A4.
    + exact A5.
    + apply LinkW; auto. congruence.
    + exact A7.
    + intros u. thr_cases u t; msimp; [discriminate|auto].
    + intros u v. thr_cases u t; msimp; [discriminate|]. thr_cases v t; msimp; [discriminate|]. auto.
    + intros u. thr_cases u t; msimp; [discriminate|auto].
    + exact Hndp.
    + intros X. apply B2. auto.
    + intros u. rewrite RL. auto.
    + intros u. rewrite RL. auto.
    + intros u v n. rewrite !RL. apply B5.
    + intros n X Y. apply (B6 n X). auto.
    + intros n u. rewrite RL. auto.
    + intros n u X. rewrite RL. auto.
    + intros u. thr_cases u t; unfold own, opc; msimp.
      * cbn. intros _. split; [intros ->; apply B2; auto|]. split; [intros X; apply (B6 f X Hf)|].
        split; [auto|]. split.
        -- intros v. rewrite RL. apply B8; auto.
        -- intros v Hv. rewrite upd_other by auto. intros X E.
           destruct (B9 v X) as (_ & _ & C3 & _). apply C3. unfold own in *. rewrite E. auto.
      * intros X. destruct (B9 u X) as (C1 & C2 & C3 & C4 & C5). unfold own, opc in *.
        split; auto. split; auto. split; [auto|]. split.
        -- intros v. rewrite RL. auto.
        -- intros v Hv. thr_cases v t; msimp; [cbn; intros _ E; apply C3; rewrite <- E; auto|auto].
  - (* P0 *) assert (Ho := B9 t). rewrite <- HT, Hpc in Ho. specialize (Ho eq_refl).
    unfold own in Ho. rewrite Hpc in Ho. cbn in Ho. destruct Ho as (C1 & C2 & C3 & C4 & C5).
    assert (NQ : forall a, In a (qs s) -> a <> nn T) by (intros a Ha ->; tauto).
    assert (RL : forall v, rlist (upd (thr s) t (set_pc T P1) v) = rlist (thr s v)).
    { intros v. thr_cases v t; msimp; congruence. }
    constructor; msimp.
    + exact A1.
    + exact A2.
    + exact A3.
    + exact A4.
    + exact A5.
    + apply LinkW; [congruence|]. intros a Ha. apply upd_other. apply NQ; auto.
    + rewrite upd_other; auto. apply NQ. rewrite A3. apply last_in; auto.
    + intros u. thr_cases u t; msimp; [discriminate|]. intros X. destruct (A8 u X) as [Y1 Y2]. split; auto.
      rewrite upd_other; auto. apply NQ. apply (adj_in _ _ _ A5 Y1).
    + intros u v. thr_cases u t; msimp; [discriminate|]. thr_cases v t; msimp; [discriminate|]. auto.
    + intros u. thr_cases u t; msimp; [intros _; rewrite ?upd_same; reflexivity|]. intros X.
      rewrite upd_other; auto. assert (Ou : opc (pc (thr s u)) = true) by (destruct (pc (thr s u)); auto; discriminate).
      specialize (C5 u n Ou). unfold own in C5. destruct (pc (thr s u)); cbn in *; auto; discriminate.
    + exact B1.
    + exact B2.
    + intros u. rewrite RL. auto.
    + intros u. rewrite RL. auto.
    + intros u v n. rewrite !RL. apply B5.
    + exact B6.
    + intros n u. rewrite RL. auto.
    + intros n u. rewrite RL. auto.
    + intros u. thr_cases u t; unfold own, opc; msimp.
      * cbn. intros _. repeat split; auto.
        -- intros v. rewrite RL. auto.
        -- intros v Hv. rewrite upd_other by auto. intros X. specialize (C5 v Hv X). unfold own in C5. auto.
      * intros X. destruct (B9 u X) as (D1 & D2 & D3 & D4 & D5). unfold own, opc in *. repeat split; auto.
        -- intros v. rewrite RL. auto.
        -- intros v Hv. thr_cases v t; msimp; [cbn; intros _|auto].
           specialize (D5 t Hv). rewrite <- HT, Hpc in D5. cbn in D5. auto.
  - (* P1 *) qloc s t Q T HT Hpc.
  - (* P2 *) qloc s t Q T HT Hpc.
  - (* P3 *) destruct (qtail s =? hh T); cbn [fst]; qloc s t Q T HT Hpc.
  - (* P4 *) qloc s t Q T HT Hpc.
  - (* P5 *) destruct (Nat.eqb_spec (qtail s) (hh T)) as [E|E]; cbn [fst]; [|qloc s t Q T HT Hpc].
    assert (Ho := B9 t). rewrite <- HT, Hpc in Ho. specialize (Ho eq_refl).
    unfold own in Ho. rewrite Hpc in Ho. cbn in Ho. destruct Ho as (C1 & C2 & C3 & C4 & C5).
    assert (Pv := A9 t). rewrite <- HT, Hpc in Pv. specialize (Pv eq_refl).
    assert (RL : forall v, rlist (upd (thr s) t (set_pc T P6) v) = rlist (thr s v)).
    { intros v. thr_cases v t; msimp; congruence. }
    assert (InS : forall n, In n (qs s ++ [nn T]) <-> In n (qs s) \/ n = nn T).
    { intros n. rewrite in_app_iff. cbn. intuition. }
    constructor; msimp.
    + intros X. apply app_eq_nil in X. destruct X; discriminate.
    + rewrite A2. destruct (qs s); [tauto|reflexivity].
    + now rewrite last_snoc.
    + apply nodup_app; auto; [repeat constructor; auto|]. intros a Ha [<-|[]]. tauto.
    + rewrite InS. intros [X|X]; [tauto|congruence].
    + intros a b Hab. apply adj_snoc in Hab; auto. destruct Hab as [Hab|[-> ->]].
      * apply (LinkW (set_pc T P6) (nprev s)); auto. congruence.
      * right. rewrite <- A3. split; auto. exists t. rewrite upd_same. msimp. auto.
    + exact Pv.
    + intros u. thr_cases u t; msimp.
      * intros _. split; [apply adj_snoc; auto; right; split; congruence|]. rewrite <- E. auto.
      * intros X. destruct (A8 u X) as [Y1 Y2]. split; auto. apply adj_snoc; auto.
    + intros u v. thr_cases u t; thr_cases v t; msimp; auto.
      * intros _ X E2. exfalso. apply C2. rewrite E2. apply (adj_in _ _ _ A5 (proj1 (A8 v X))).
      * intros X _ E2. exfalso. apply C2. rewrite <- E2. apply (adj_in _ _ _ A5 (proj1 (A8 u X))).
    + intros u. thr_cases u t; msimp; [discriminate|auto].
    + exact B1.
    + exact B2.
    + intros u. rewrite RL. auto.
    + intros u. rewrite RL. auto.
    + intros u v n. rewrite !RL. apply B5.
    + intros n. rewrite InS. intros [X| ->]; auto.
    + intros n u. rewrite InS, RL. intros [X| ->]; auto.
    + intros n u. rewrite RL. auto.
    + intros u. thr_cases u t; unfold own, opc; msimp; [cbn; discriminate|].
      intros X. destruct (B9 u X) as (D1 & D2 & D3 & D4 & D5). unfold own, opc in *. split; auto. split.
      { rewrite InS. intros [Y|Y]; [tauto|]. assert (t <> u) by auto. specialize (D5 t H). rewrite <- HT, Hpc in D5. cbn in D5. specialize (D5 eq_refl). congruence. }
      split; auto. split.
      * intros v. rewrite RL. auto.
      * intros v Hv. thr_cases v t; msimp; [cbn; discriminate|auto].
  - (* P6 *) assert (P6t := A8 t). rewrite <- HT in P6t. destruct (P6t Hpc) as [Hadj Hz].
    assert (RL : forall v, rlist (upd (thr s) t (set_pc T P7) v) = rlist (thr s v)).
    { intros v. thr_cases v t; msimp; congruence. }
    destruct (adj_in _ _ _ A5 Hadj) as [Hhq Hnq].
    constructor; msimp.
    + exact A1.
    + exact A2.
    + exact A3.
    + exact A4.
    + exact A5.
    + intros a b Hab. destruct (Nat.eq_dec a (hh T)) as [->|Hne].
      * left. rewrite upd_same. apply (adj_fun (hh T) _ _ (qs s)); auto.
      * rewrite upd_other by auto.
        destruct (A6 a b Hab) as [X|[X [u (U1 & U2 & U3)]]]; [left; auto|right; split; auto].
        exists u. assert (u <> t) by (intros ->; rewrite <- HT in U2; congruence). rewrite upd_other; auto.
    + rewrite upd_other; auto. rewrite A3. intros X. apply (adj_not_last _ _ _ A4 A5 Hadj). auto.
    + intros u. thr_cases u t; msimp; [discriminate|]. intros X. destruct (A8 u X) as [Y1 Y2]. split; auto.
      rewrite upd_other; auto. intros E2. apply n. apply A8u; auto; [rewrite <- HT; auto|].
      rewrite <- HT. rewrite E2 in Y1. apply (adj_fun (hh T) _ _ (qs s)); auto.
    + intros u v. thr_cases u t; msimp; [discriminate|]. thr_cases v t; msimp; [discriminate|]. auto.
    + intros u. thr_cases u t; msimp; [discriminate|]. intros X. rewrite upd_other; auto.
      assert (Ou : opc (pc (thr s u)) = true) by (destruct (pc (thr s u)); auto; discriminate).
      destruct (B9 u Ou) as (_ & D2 & _). unfold own in D2.
      intros E2. apply D2. destruct (pc (thr s u)); cbn in *; try discriminate; rewrite E2; auto.
    + exact B1.
    + exact B2.
    + intros u. rewrite RL. auto.
    + intros u. rewrite RL. auto.
    + intros u v n. rewrite !RL. apply B5.
    + exact B6.
    + intros n u. rewrite RL. auto.
    + intros n u. rewrite RL. auto.
    + intros u. thr_cases u t; unfold own, opc; msimp; [cbn; discriminate|].
      intros X. destruct (B9 u X) as (D1 & D2 & D3 & D4 & D5). unfold own, opc in *. repeat split; auto.
      * intros v. rewrite RL. auto.
      * intros v Hv. thr_cases v t; msimp; [cbn; discriminate|auto].
  - (* P7 *) qfin s t Q T HT Hpc (set_held T (upd (held T) 0 0)).
  - (* Q1 *) qloc s t Q T HT Hpc.
  - (* Q2 *) qloc s t Q T HT Hpc.
  - (* Q3 *) destruct (qhead s =? hh T); cbn [fst]; qloc s t Q T HT Hpc.
  - (* Q4 *) qloc s t Q T HT Hpc.
  - (* Q4e *) qfin s t Q T HT Hpc (set_held T (upd (held T) 0 0)).
  - (* Q5 *) qloc s t Q T HT Hpc.
  - (* Q6 *) destruct (qhead s =? hh T); cbn [fst]; qloc s t Q T HT Hpc.
  - (* Q7 *) qloc s t Q T HT Hpc.
  - (* Q8 *) destruct (Nat.eqb_spec (qhead s) (hh T)) as [E|E]; cbn [fst]; [|qloc s t Q T HT Hpc].
    destruct VT as (_ & [Hpv Hnp] & _). specialize (Hnp E).
    destruct (qs s) as [|n0 rest] eqn:Eqs; [tauto|]. cbn [hd] in A2.
    assert (Hn0' : n0 = hh T) by congruence. rewrite Hn0' in *. clear Hn0'.
    destruct rest as [|n1 r2].
    { exfalso. cbn in A3. rewrite A3 in A7. congruence. }
    assert (n1 = pv T).
    { destruct (A6 (hh T) n1) as [X|[X _]]; [cbn; left; repeat split; auto; discriminate|congruence|congruence]. }
    rewrite H in *. clear H. apply NoDup_cons_iff in A4. destruct A4 as [Hn0 A4].
    assert (RL : forall v, rlist (upd (thr s) t (set_pc T Q9) v) = rlist (thr s v)).
    { intros v. thr_cases v t; msimp; congruence. }
    constructor; msimp; cbn [tl].
    + discriminate.
    + reflexivity.
    + exact A3.
    + exact A4.
    + cbn [In] in A5 |- *. tauto.
    + intros a b Hab. destruct (A6 a b) as [X|[X [u (U1 & U2 & U3)]]]; [cbn [adj]; right; exact Hab|left; auto|].
      right; split; auto. exists u. assert (u <> t) by (intros ->; rewrite <- HT in U1; congruence).
      rewrite upd_other; auto.
    + exact A7.
    + intros u. thr_cases u t; msimp; [discriminate|]. intros X. destruct (A8 u X) as [Y1 Y2]. split; auto.
      cbn [adj] in Y1. destruct Y1 as [[Z _]|Y1]; [congruence|exact Y1].
    + intros u v. thr_cases u t; msimp; [discriminate|]. thr_cases v t; msimp; [discriminate|]. auto.
    + intros u. thr_cases u t; msimp; [discriminate|auto].
    + exact B1.
    + exact B2.
    + intros u. rewrite RL. auto.
    + intros u. rewrite RL. auto.
    + intros u v n. rewrite !RL. apply B5.
    + intros n X. apply B6. right; auto.
    + intros n u X. rewrite RL. apply B7. right; auto.
    + intros n u. rewrite RL. auto.
    + intros u. thr_cases u t; unfold own, opc; msimp.
      * cbn. intros _. split; [intros X; apply A5; left; auto|]. split; [auto|].
        split; [apply B6; left; auto|]. split.
        -- intros v. rewrite RL. apply B7. left; auto.
        -- intros v Hv. rewrite upd_other by auto. intros X E2.
           destruct (B9 v X) as (_ & D2 & _). apply D2. unfold own in *. rewrite E2. left; auto.
      * intros X. destruct (B9 u X) as (D1 & D2 & D3 & D4 & D5). unfold own, opc in *. split; auto. split.
        { intros Y. apply D2. right; auto. } split; auto. split.
        -- intros v. rewrite RL. auto.
        -- intros v Hv. thr_cases v t; msimp; [cbn; intros _ E2; apply D2; rewrite <- E2; left; auto|auto].
  - (* Q9 *) qloc s t Q T HT Hpc.
  - (* Q10 *) assert (Ho := B9 t). rewrite <- HT, Hpc in Ho. specialize (Ho eq_refl).
    unfold own in Ho. rewrite Hpc in Ho. cbn in Ho. destruct Ho as (C1 & C2 & C3 & C4 & C5).
    set (T' := set_pc (set_rlist (set_held T (upd (held T) 1 0)) (hh T :: rlist T)) R1).
    assert (RL : forall v, rlist (upd (thr s) t T' v) = if v =? t then hh T :: rlist T else rlist (thr s v)).
    { intros v. unfold upd. destruct (v =? t); reflexivity. }
    constructor; msimp.
    + exact A1.
    + exact A2.
    + exact A3.
    + exact A4.
    + exact A5.
    + apply LinkW; auto. congruence.
    + exact A7.
    + intros u. thr_cases u t; [cbn; discriminate|auto].
    + intros u v. thr_cases u t; [cbn; discriminate|]. thr_cases v t; [cbn; discriminate|]. auto.
    + intros u. thr_cases u t; [cbn; discriminate|auto].
    + exact B1.
    + exact B2.
    + intros u. rewrite RL. destruct (Nat.eqb_spec u t) as [->|]; auto. constructor; [intros X; apply (C4 t); rewrite <- HT; exact X|rewrite HT; apply B3].
    + intros u. rewrite RL. destruct (Nat.eqb_spec u t) as [->|]; auto. intros [X|X]; [congruence|]. apply (B4 t). rewrite <- HT; auto.
    + intros u v n. rewrite !RL.
      destruct (Nat.eqb_spec u t) as [->|Hu]; destruct (Nat.eqb_spec v t) as [->|Hv]; auto.
      * intros [<-|X] Y; [exfalso; apply (C4 v); auto|]. apply (B5 t v n); auto. rewrite <- HT; auto.
      * intros Y [<-|X]; [exfalso; apply (C4 u); auto|]. apply (B5 u t n); auto. rewrite <- HT; auto.
      * apply B5.
    + exact B6.
    + intros n u Hn. rewrite RL. destruct (Nat.eqb_spec u t) as [->|Hu]; [|apply B7; auto].
      intros [<-|X]; [tauto|]. apply (B7 n t Hn). rewrite <- HT; auto.
    + intros n u Hn. rewrite RL. destruct (Nat.eqb_spec u t) as [->|Hu]; [|apply B8; auto].
      intros [<-|X]; [tauto|]. apply (B8 n t Hn). rewrite <- HT; auto.
    + intros u. thr_cases u t; [cbn; discriminate|].
      intros X. destruct (B9 u X) as (D1 & D2 & D3 & D4 & D5). split; auto. split; auto. split; auto. split.
      * intros v. rewrite RL. destruct (Nat.eqb_spec v t) as [->|Hv]; auto.
        intros [Y|Y]; [|apply (D4 t); rewrite <- HT; auto].
        apply (D5 t); auto; [rewrite <- HT, Hpc; auto|]. unfold own at 1. rewrite <- HT, Hpc. cbn. auto.
      * intros v Hv. thr_cases v t; [cbn; discriminate|auto].
  - (* R1 *) destruct (rthr s (S t) <=? length (rlist T)); cbn [fst]; [qloc s t Q T HT Hpc|qfin s t Q T HT Hpc T].
  - (* S1 *) qloc s t Q T HT Hpc.
  - (* S2 *) qloc s t Q T HT Hpc.
  - (* S3 *) qloc s t Q T HT Hpc.
  - (* S4 *) destruct (rnext s (cur T) =? 0); cbn [fst]; [|qloc s t Q T HT Hpc].
    fin_tac. destruct Hfin as [[_ [Erl _]] Bst]. msimp.
    destruct (start_not_own T2 Bst) as (S1' & S2' & S3' & S4').
    set (keep := scan_keep sort (snap T) (rlist T)) in *.
    set (gcl := scan_gc sort (snap T) (rlist T)) in *.
    assert (RL : forall u, rlist (upd (thr s) t T2 u) = if u =? t then keep else rlist (thr s u)).
    { intros u. unfold upd. destruct (u =? t); auto. }
    assert (Kin : forall n, In n keep -> In n (rlist (thr s t))).
    { intros n X. apply keep_in in X. rewrite <- HT. tauto. }
    assert (Gin : forall n, In n gcl -> In n (rlist (thr s t))).
    { intros n X. apply gc_in in X. rewrite <- HT. tauto. }
    assert (KG : forall n, In n keep -> In n gcl -> False).
    { intros n X Y. apply keep_in in X. apply gc_in in Y. destruct X, Y. congruence. }
    assert (Pin : forall n, In n (rev gcl ++ pool s) <-> In n gcl \/ In n (pool s)).
    { intros n. rewrite in_app_iff, <- in_rev. tauto. }
    constructor; msimp.
    + exact A1.
    + exact A2.
    + exact A3.
    + exact A4.
    + exact A5.
    + apply LinkW; auto. congruence.
    + exact A7.
    + intros u. thr_cases u t; [tauto|auto].
    + intros u v. thr_cases u t; [tauto|]. thr_cases v t; [tauto|]. auto.
    + intros u. thr_cases u t; [congruence|auto].
    + apply nodup_app; auto.
      * apply nodup_rev, gc_nodup. rewrite HT. apply B3.
      * intros a Ha Hb. apply in_rev in Ha. apply (B8 a t Hb). auto.
    + rewrite Pin. intros [X|X]; [apply (B4 t); auto|auto].
    + intros u. rewrite RL. destruct (Nat.eqb_spec u t) as [->|]; auto. apply keep_nodup. rewrite HT. apply B3.
    + intros u. rewrite RL. destruct (Nat.eqb_spec u t) as [->|]; auto. intros X. apply (B4 t). auto.
    + intros u v n. rewrite !RL.
      destruct (Nat.eqb_spec u t) as [->|Hu]; destruct (Nat.eqb_spec v t) as [->|Hv]; auto.
      * intros X Y. apply (B5 t v n); auto.
      * intros X Y. apply (B5 u t n); auto.
      * apply B5.
    + intros n Hn. rewrite Pin. intros [X|X]; [apply (B7 n t Hn); auto|apply (B6 n Hn X)].
    + intros n u Hn. rewrite RL. destruct (Nat.eqb_spec u t) as [->|Hu]; [|apply B7; auto].
      intros X. apply (B7 n t Hn). auto.
    + intros n u. rewrite Pin, RL. destruct (Nat.eqb_spec u t) as [->|Hu].
      * intros [X|X] Y; [eapply KG; eauto|]. apply (B8 n t X). auto.
      * intros [X|X] Y; [apply Hu; symmetry; apply (B5 t u n); auto|]. apply (B8 n u X); auto.
    + intros u. thr_cases u t; [congruence|]. intros X.
      destruct (B9 u X) as (D1 & D2 & D3 & D4 & D5). split; auto. split; auto. split.
      { rewrite Pin. intros [Y|Y]; [apply (D4 t); auto|auto]. }
      split.
      * intros v. rewrite RL. destruct (Nat.eqb_spec v t) as [->|Hv]; auto. intros Y. apply (D4 t). auto.
      * intros v Hv. thr_cases v t; [congruence|auto].
  - (* Fin *) exact Q.
Qed.

(* ================================================================== *)
(* E. layer V: validated protections                                    *)
(* ================================================================== *)
Definition noscan (T : tst) : Prop := match pc T with S2 | S3 | S4 => False | _ => True end.

Lemma noscan_vscan rc T r i n : noscan T -> vscan rc T r i n.
Proof. unfold noscan, vscan. destruct (pc T); tauto. Qed.

Lemma vlocal_ext s s' u T :
  slot s' = slot s -> qs s' = qs s -> qhead s' = qhead s -> nprev s' = nprev s -> nval s' = nval s ->
  vlocal s u T -> vlocal s' u T.
Proof. intros E1 E2 E3 E4 E5. unfold vlocal, vq4, vq5. rewrite E1, E2, E3, E4, E5. auto. Qed.

(* thread t moves to T' with the same held / rlist; the shared state that the
   V layer looks at is unchanged (recs may grow) *)
Lemma vinv_frame s s' t T' :
  VInv s -> slot s' = slot s -> pool s' = pool s -> qs s' = qs s -> qhead s' = qhead s ->
  nprev s' = nprev s -> nval s' = nval s ->
  thr s' = upd (thr s) t T' -> held T' = held (thr s t) ->
  (joined (thr s t) = true -> joined T' = true) -> rlist T' = rlist (thr s t) ->
  (privp (pc T') = true -> privp (pc (thr s t)) = true /\ nn T' = nn (thr s t)) ->
  handp (pc T') = handp (pc (thr s t)) -> (handp (pc T') = true -> hh T' = hh (thr s t)) ->
  (forall u i, held (thr s u) i <> 0 -> i < 2 -> joined (thr s u) = true ->
               slot s (S u) i = held (thr s u) i ->
               In (held (thr s u) i) (rlist (thr s t)) ->
               vscan (recs s) (thr s t) (S u) i (held (thr s u) i) ->
               vscan (recs s') T' (S u) i (held (thr s u) i)) ->
  vlocal s' t T' ->
  (forall u r i n, u <> t -> vscan (recs s) (thr s u) r i n -> vscan (recs s') (thr s u) r i n) ->
  VInv s'.
Proof.
  intros [V1 V2 V3 V4 V5 V6 V7 V8 V9 V10] Es Ep Eq Eh En Ev Ethr Eheld Ej Erl Hpriv Hhand Hhh Hsc Hl Hv.
  assert (HH : forall u, held (upd (thr s) t T' u) = held (thr s u)).
  { intros u. thr_cases u t; auto. }
  assert (RL : forall u, rlist (upd (thr s) t T' u) = rlist (thr s u)).
  { intros u. thr_cases u t; auto. }
  constructor; rewrite ?Es, ?Ep, ?Ethr.
  - intros u i. rewrite HH. apply V1.
  - intros u i. rewrite HH. apply V2.
  - intros u i. rewrite HH. intros Hn. specialize (V3 u i Hn). thr_cases u t; auto.
  - intros u i. rewrite HH. apply V4.
  - intros u i w. rewrite HH. intros Hn. thr_cases w t; [|apply V5; auto].
    intros X. destruct (Hpriv X) as [Y ->]. apply V5; auto.
  - intros u i. rewrite HH. intros Hn. unfold wherep. rewrite Ethr.
    destruct (V6 u i Hn) as [X|[[w [X1 X2]]|[w X]]].
    + left. rewrite Eq. auto.
    + right; left. exists w. thr_cases w t; [|auto]. assert (handp (pc T') = true) by congruence.
      split; auto. rewrite Hhh; auto.
    + right; right. exists w. rewrite RL. auto.
  - intros u i w. rewrite HH, RL. intros Hn Hr. thr_cases w t; [|apply Hv; auto].
    apply Hsc; eauto.
  - intros u. thr_cases u t; auto. eapply vlocal_ext; eauto.
  - intros u n. rewrite RL, En. apply V9.
  - intros u. rewrite En. thr_cases u t; [|apply V10]. intros X. rewrite Hhh; auto. apply V10. congruence.
Qed.

Lemma vlocal_ext2 s s' u T :
  slot s' (S u) = slot s (S u) -> qs s' = qs s -> qhead s' = qhead s -> nprev s' = nprev s -> nval s' = nval s ->
  vlocal s u T -> vlocal s' u T.
Proof. intros E1 E2 E3 E4 E5. unfold vlocal, vq4, vq5. rewrite E1, E2, E3, E4, E5. auto. Qed.

(* thread t writes v into its own slot k *)
Lemma vinv_slot s s' t T' k v :
  VInv s -> slot s' = upd (slot s) (S t) (upd (slot s (S t)) k v) ->
  pool s' = pool s -> qs s' = qs s -> qhead s' = qhead s -> nprev s' = nprev s -> nval s' = nval s ->
  recs s' = recs s -> thr s' = upd (thr s) t T' -> held T' = upd (held (thr s t)) k 0 ->
  joined T' = joined (thr s t) -> rlist T' = rlist (thr s t) ->
  (privp (pc T') = true -> privp (pc (thr s t)) = true /\ nn T' = nn (thr s t)) ->
  handp (pc T') = handp (pc (thr s t)) -> (handp (pc T') = true -> hh T' = hh (thr s t)) ->
  noscan T' -> vlocal s' t T' -> VInv s'.
Proof.
  intros [V1 V2 V3 V4 V5 V6 V7 V8 V9 V10] Es Ep Eq Eh En Ev Er Ethr Eheld Ej Erl Hpriv Hhand Hhh Hns Hl.
  assert (HH : forall u i, held (upd (thr s) t T' u) i <> 0 ->
             held (upd (thr s) t T' u) i = held (thr s u) i /\ held (thr s u) i <> 0 /\ (u = t -> i <> k)).
  { intros u i. thr_cases u t; [|intros; repeat split; auto; tauto].
    rewrite Eheld. destruct (Nat.eq_dec i k) as [->|Hik]; [rewrite upd_same; tauto|].
    rewrite upd_other by auto. auto. }
  assert (RL : forall u, rlist (upd (thr s) t T' u) = rlist (thr s u)).
  { intros u. thr_cases u t; auto. }
  constructor; rewrite ?Es, ?Ep, ?Er, ?Ethr.
  - intros u i Hn. destruct (HH u i Hn) as (E & Hn' & _). eauto.
  - intros u i Hn. destruct (HH u i Hn) as (E & Hn' & Hk). rewrite E.
    destruct (Nat.eq_dec u t) as [->|Hne].
    + rewrite upd_same, upd_other by auto. auto.
    + rewrite upd_other by congruence. auto.
  - intros u i Hn. destruct (HH u i Hn) as (E & Hn' & _). specialize (V3 u i Hn'). thr_cases u t; congruence.
  - intros u i Hn. destruct (HH u i Hn) as (E & Hn' & _). rewrite E. auto.
  - intros u i w Hn. destruct (HH u i Hn) as (E & Hn' & _). rewrite E. thr_cases w t; [|apply V5; auto].
    intros X. destruct (Hpriv X) as [Y ->]. apply V5; auto.
  - intros u i Hn. destruct (HH u i Hn) as (E & Hn' & _). rewrite E. unfold wherep. rewrite Ethr.
    destruct (V6 u i Hn') as [X|[[w [X1 X2]]|[w X]]].
    + left. rewrite Eq. auto.
    + right; left. exists w. thr_cases w t; [|auto]. assert (handp (pc T') = true) by congruence.
      split; auto. rewrite Hhh; auto.
    + right; right. exists w. rewrite RL. auto.
  - intros u i w Hn. destruct (HH u i Hn) as (E & Hn' & _). rewrite E, RL. intros Hr.
    thr_cases w t; [apply noscan_vscan; auto|apply V7; auto].
  - intros u. thr_cases u t; auto. apply (vlocal_ext2 s); auto.
    rewrite Es. rewrite upd_other; auto; congruence.
  - intros u n. rewrite RL, En. apply V9.
  - intros u. rewrite En. thr_cases u t; [|apply V10]. intros X. rewrite Hhh; auto. apply V10. congruence.
Qed.

(* thread t validates node n in slot k: n is in the queue right now *)
Lemma vinv_validate s t T' k n :
  QInv s -> VInv s -> k < 2 -> slot s (S t) k = n -> joined (thr s t) = true -> In n (qs s) ->
  held T' = upd (held (thr s t)) k n -> joined T' = joined (thr s t) -> rlist T' = rlist (thr s t) ->
  (privp (pc T') = true -> privp (pc (thr s t)) = true /\ nn T' = nn (thr s t)) ->
  handp (pc T') = handp (pc (thr s t)) -> (handp (pc T') = true -> hh T' = hh (thr s t)) ->
  noscan T' -> vlocal s t T' -> VInv (set_thr s t T').
Proof.
  intros Q [V1 V2 V3 V4 V5 V6 V7 V8 V9 V10] Hk Hs Hj Hq Eheld Ej Erl Hpriv Hhand Hhh Hns Hl.
  assert (HH : forall u i, held (upd (thr s) t T' u) i <> 0 ->
             (u = t /\ i = k /\ held (upd (thr s) t T' u) i = n) \/
             (held (upd (thr s) t T' u) i = held (thr s u) i /\ held (thr s u) i <> 0)).
  { intros u i. thr_cases u t; [|intros; right; auto].
    rewrite Eheld. destruct (Nat.eq_dec i k) as [->|Hik]; [rewrite upd_same; auto|].
    rewrite upd_other by auto. auto. }
  assert (RL : forall u, rlist (upd (thr s) t T' u) = rlist (thr s u)).
  { intros u. thr_cases u t; auto. }
  constructor; msimp.
  - intros u i Hn. destruct (HH u i Hn) as [(-> & -> & _)|[E Hn']]; eauto.
  - intros u i Hn. destruct (HH u i Hn) as [(-> & -> & E)|[E Hn']]; rewrite E; auto.
  - intros u i Hn. destruct (HH u i Hn) as [(-> & -> & E)|[E Hn']].
    + rewrite upd_same. congruence.
    + specialize (V3 u i Hn'). thr_cases u t; congruence.
  - intros u i Hn. destruct (HH u i Hn) as [(-> & -> & E)|[E Hn']]; rewrite E; auto.
    apply (n_q_pool s Q); auto.
  - intros u i w Hn. assert (PW : privp (pc (upd (thr s) t T' w)) = true ->
                               privp (pc (thr s w)) = true /\ nn (upd (thr s) t T' w) = nn (thr s w)).
    { thr_cases w t; auto. }
    intros X. destruct (PW X) as [Y ->].
    destruct (HH u i Hn) as [(-> & -> & E)|[E Hn']]; rewrite E; [|apply V5; auto].
    assert (Ow : opc (pc (thr s w)) = true) by (unfold opc; rewrite Y; auto).
    destruct (n_own s Q w Ow) as (_ & D2 & _). unfold own in D2. rewrite Y in D2. intros Z. apply D2. congruence.
  - intros u i Hn. unfold wherep; msimp.
    destruct (HH u i Hn) as [(-> & -> & E)|[E Hn']]; rewrite E; [left; auto|].
    destruct (V6 u i Hn') as [X|[[w [X1 X2]]|[w X]]].
    + left. auto.
    + right; left. exists w. thr_cases w t; [|auto]. assert (handp (pc T') = true) by congruence.
      split; auto. rewrite Hhh; auto.
    + right; right. exists w. rewrite RL. auto.
  - intros u i w Hn. rewrite RL.
    destruct (HH u i Hn) as [(-> & -> & E)|[E Hn']]; rewrite E; intros Hr.
    + exfalso. apply (n_q_rl s Q n w Hq Hr).
    + thr_cases w t; [apply noscan_vscan; auto|apply V7; auto].
  - intros u. thr_cases u t; auto. exact (V8 u).
  - intros u m. rewrite RL. apply V9.
  - intros u. thr_cases u t; [|apply V10]. intros X. rewrite Hhh; auto. apply V10. congruence.
Qed.

Lemma head_succ s p : QInv s -> nprev s (qhead s) = p -> p <> 0 -> exists r2, qs s = qhead s :: p :: r2.
Proof.
  intros Q Hp Hnz. pose proof (q_ne s Q) as A1. pose proof (q_head s Q) as A2. pose proof (q_tail s Q) as A3.
  destruct (qs s) as [|n0 rest] eqn:E; [tauto|]. cbn [hd] in A2. subst n0.
  destruct rest as [|n1 r2].
  - exfalso. cbn in A3. pose proof (q_last s Q). congruence.
  - exists r2. f_equal. f_equal.
    destruct (q_link s Q (qhead s) n1) as [X|[X _]]; [rewrite E; cbn; left; repeat split; auto; discriminate|congruence|congruence].
Qed.

Lemma start_props T : start_ok T -> noscan T /\ privp (pc T) = false /\ handp (pc T) = false.
Proof. unfold start_ok, noscan. destruct (pc T); cbn; intros H; try tauto; auto. Qed.

Lemma start_vlocal s t T : start_ok T -> vlocal s t T.
Proof. unfold start_ok, vlocal. destruct (pc T); tauto. Qed.

Definition q58 (p : pcT) : bool := match p with Q5 | Q6 | Q7 | Q8 => true | _ => false end.

Lemma vlocal_q58 s u T : q58 (pc T) = true -> vlocal s u T -> vq4 s T /\ vq5 s T.
Proof. unfold vlocal. destruct (pc T); cbn; try discriminate; tauto. Qed.

(* safety of the gc list at the end of a scan (as HazardProofs.safe_gc) *)
Lemma safe_gc s t u i :
  RInv s -> VInv s -> pc (thr s t) = S4 -> rnext s (cur (thr s t)) = 0 ->
  held (thr s u) i <> 0 ->
  ~ In (held (thr s u) i) (scan_gc sort (snap (thr s t)) (rlist (thr s t))).
Proof.
  intros I V Hpc Hnx Hn Hin. apply gc_in in Hin. destruct Hin as [Hrl Hb].
  pose proof (v_scan s V u i t Hn Hrl) as B6. unfold vscan in B6. rewrite Hpc in B6.
  assert (LT := r_loc s I t). unfold rlocal, rlocalP in LT. rewrite Hpc in LT. destruct LT as [_ Hc].
  destruct (from_next (rnext s) (recs s) _ (r_nodup s I) (r_link s I) (r_nz s I) Hc) as [[A B]|[A _]]; [|contradiction].
  rewrite B in B6. cbn [tl In] in B6. destruct B6 as [[]|Hs].
  assert (bsearch (sort (snap (thr s t))) (held (thr s u) i) = true).
  { apply bsearch_correct; auto. eapply Permutation_in; [apply sort_perm|exact Hs]. }
  congruence.
Qed.

Lemma vscan_push r0 rc T r i n :
  ~ In r0 rc -> (match pc T with S2 => In (chead T) rc | S3 | S4 => In (cur T) rc | _ => True end) ->
  vscan rc T r i n -> vscan (r0 :: rc) T r i n.
Proof.
  intros Hn Hc. unfold vscan. destruct (pc T); auto; rewrite from_cons_ne; auto; intros X; rewrite X in Hn; tauto.
Qed.

(* a write to the prev field of node x that is in no retired list, in no
   popper's hand, and is not the head that a popper past Q4 still believes in *)
Lemma vinv_nprev s t T' x v :
  VInv s -> held T' = held (thr s t) -> joined T' = joined (thr s t) -> rlist T' = rlist (thr s t) ->
  (privp (pc T') = true -> privp (pc (thr s t)) = true /\ nn T' = nn (thr s t)) ->
  handp (pc T') = false -> handp (pc (thr s t)) = false -> noscan T' ->
  vlocal s t T' -> q58 (pc T') = false ->
  (forall u n, In n (rlist (thr s u)) -> n <> x) ->
  (forall u, handp (pc (thr s u)) = true -> hh (thr s u) <> x) ->
  (forall u, u <> t -> q58 (pc (thr s u)) = true -> qhead s = hh (thr s u) -> hh (thr s u) <> x) ->
  VInv (set_thr (set_nprev s x v) t T').
Proof.
  intros [V1 V2 V3 V4 V5 V6 V7 V8 V9 V10] Eheld Ej Erl Hpriv Hh1 Hh2 Hns Hl Hq X1 X2 X3.
  assert (HH : forall u, held (upd (thr s) t T' u) = held (thr s u)).
  { intros u. thr_cases u t; auto. }
  assert (RL : forall u, rlist (upd (thr s) t T' u) = rlist (thr s u)).
  { intros u. thr_cases u t; auto. }
  constructor; msimp.
  - intros u i. rewrite HH. apply V1.
  - intros u i. rewrite HH. apply V2.
  - intros u i. rewrite HH. intros Hn. specialize (V3 u i Hn). thr_cases u t; congruence.
  - intros u i. rewrite HH. apply V4.
  - intros u i w. rewrite HH. intros Hn. thr_cases w t; [|apply V5; auto].
    intros X. destruct (Hpriv X) as [Y ->]. apply V5; auto.
  - intros u i. rewrite HH. intros Hn. unfold wherep; msimp.
    destruct (V6 u i Hn) as [X|[[w [Y1 Y2]]|[w X]]].
    + left. auto.
    + right; left. exists w. thr_cases w t; [congruence|auto].
    + right; right. exists w. rewrite RL. auto.
  - intros u i w. rewrite HH, RL. intros Hn Hr. thr_cases w t; [apply noscan_vscan; auto|apply V7; auto].
  - intros u. thr_cases u t.
    + unfold vlocal, vq4, vq5 in *; msimp. destruct (pc T'); try discriminate; auto.
    + assert (Lu := V8 u). unfold vlocal, vq4, vq5 in *; msimp.
      assert (K : q58 (pc (thr s u)) = true -> qhead s = hh (thr s u) ->
                  upd (nprev s) x v (hh (thr s u)) = nprev s (hh (thr s u))).
      { intros A B. apply upd_other. apply X3; auto. }
      destruct (pc (thr s u)); auto; cbn in K;
        repeat match goal with H : _ /\ _ |- _ => destruct H end; repeat split; auto;
        intros E; rewrite K; auto.
  - intros u n. rewrite RL. intros Hr. rewrite upd_other; [apply (V9 u); auto|apply (X1 u); auto].
  - intros u. thr_cases u t; [congruence|]. intros Y. rewrite upd_other; [apply V10; auto|apply X2; auto].
Qed.

Lemma vinv_step s t : RInv s -> QInv s -> VInv s -> VInv (fst (step sort s t)).
Proof.
  intros I Q V. pose proof V as [V1 V2 V3 V4 V5 V6 V7 V8 V9 V10].
  pose proof I as [Ih Ind Inz Il Ij Iloc].
  unfold step. remember (thr s t) as T eqn:HT.
  assert (LT := Iloc t). rewrite <- HT in LT. unfold rlocal, rlocalP in LT.
  assert (VT := V8 t). rewrite <- HT in VT. unfold vlocal in VT.
  assert (JT : joined T = true <-> In (S t) (recs s)) by (rewrite HT; apply Ij).
  Ltac vside T HT Hpc :=
    try reflexivity; try (subst T; reflexivity);
    try (rewrite <- ?HT; ifs_nat; msimp; rewrite ?Hpc; cbn [privp handp]; auto; try discriminate; try tauto; fail);
    try (intros; apply noscan_vscan; unfold noscan; ifs_nat; msimp; auto; fail);
    try (unfold vlocal; ifs_nat; msimp; exact Logic.I);
    try (unfold noscan; ifs_nat; msimp; exact Logic.I);
    try (intros ? ? ? ? _ X; exact X).
  Ltac vloc s t V T HT Hpc := eapply (vinv_frame s _ t); try exact V; vside T HT Hpc.
  Ltac fin_open :=
    match goal with |- context [finish ?tt ?T0 ?v] =>
      let H := fresh "Hfin" in
      pose proof (finish_ok tt T0 v) as H; destruct (finish tt T0 v) as [?T2 ?e2]; cbn [fst snd] in H |- *;
      destruct H as [[?Fj [?Frl ?Fh]] ?Fs];
      match goal with Fs' : start_ok _ |- _ => destruct (start_props _ Fs') as (?Fn & ?Fp & ?Fq) end
    end.
  Ltac vfin s t V T HT Hpc :=
    fin_open;
    eapply (vinv_frame s _ t); try exact V; try reflexivity;
    try (rewrite <- ?HT; msimp; congruence);
    try (rewrite <- ?HT; msimp; rewrite ?Hpc; cbn [privp handp]; congruence);
    try (intros; apply noscan_vscan; auto; fail);
    try (apply start_vlocal; auto; fail);
    try (intros ? ? ? ? _ X; exact X).
  destruct (pc T) eqn:Hpc; cbn [fst].
  - (* J1 *) vloc s t V T HT Hpc.
  - (* J2 *) vloc s t V T HT Hpc.
  - (* J3 *) vloc s t V T HT Hpc.
  - (* J4 *) vloc s t V T HT Hpc.
  - (* J5 *) vloc s t V T HT Hpc.
  - (* J6 *) destruct (Nat.eqb_spec (hhead s) (chead T)) as [E|E]; cbn [fst]; [|vloc s t V T HT Hpc].
    assert (NI : ~ In (S t) (recs s)) by (intros X; apply JT in X; destruct LT; congruence).
    eapply (vinv_frame s _ t); try exact V; vside T HT Hpc.
    msimp. intros u r i n Hu. apply vscan_push; auto.
    assert (Lu := Iloc u). unfold rlocal, rlocalP in Lu. destruct (pc (thr s u)); tauto.
  - (* J7 *) destruct (rnext s (S t) =? 0); cbn [fst]; [vfin s t V T HT Hpc|vloc s t V T HT Hpc].
  - (* J8 *) vloc s t V T HT Hpc.
  - (* J9 *) destruct (rnext s (cur T) =? 0); cbn [fst]; [vfin s t V T HT Hpc|vloc s t V T HT Hpc].
  - (* PA *) clear V1 V2 V3 V4 V5 V6 V7 V8 V9 V10.
    destruct (pool s) as [|f p] eqn:Hp; cbn [fst]; [vfin s t V T HT Hpc|].
    pose proof V as [V1 V2 V3 V4 V5 V6 V7 V8 V9 V10].
    assert (HH : forall u, held (upd (thr s) t (set_pc (set_nn T f) P0) u) = held (thr s u)).
    { intros u. thr_cases u t; msimp; congruence. }
    assert (RL : forall u, rlist (upd (thr s) t (set_pc (set_nn T f) P0) u) = rlist (thr s u)).
    { intros u. thr_cases u t; msimp; congruence. }
    assert (NP : forall u i, held (thr s u) i <> 0 -> held (thr s u) i <> f).
    { intros u i Hn E. apply (V4 u i Hn). rewrite Hp, E. left; auto. }
    constructor; msimp.
    + intros u i. rewrite HH. apply V1.
    + intros u i. rewrite HH. apply V2.
    + intros u i. rewrite HH. intros Hn. specialize (V3 u i Hn). thr_cases u t; msimp; congruence.
    + intros u i. rewrite HH. intros Hn X. apply (V4 u i Hn). rewrite Hp. right; auto.
    + intros u i w. rewrite HH. intros Hn. thr_cases w t; msimp; [|apply V5; auto].
      intros _ E. apply (NP u i Hn). auto.
    + intros u i. rewrite HH. intros Hn. unfold wherep; msimp.
      destruct (V6 u i Hn) as [X|[[w [Y1 Y2]]|[w X]]].
      * left; auto.
      * right; left. exists w. thr_cases w t; [rewrite <- HT, Hpc in Y1; discriminate|auto].
      * right; right. exists w. rewrite RL. auto.
    + intros u i w. rewrite HH, RL. intros Hn Hr. thr_cases w t; [apply noscan_vscan; exact Logic.I|apply V7; auto].
    + intros u. thr_cases u t; [exact Logic.I|].
      assert (Lu := V8 u). unfold vlocal, vq4, vq5 in *; msimp.
      destruct (pc (thr s u)); auto. destruct Lu as (A & B & C & D).
      repeat match goal with H : _ /\ _ |- _ => destruct H end. repeat split; auto.
      rewrite upd_other; auto. rewrite <- C. apply NP. congruence.
    + intros u n. rewrite RL. apply V9.
    + intros u. thr_cases u t; msimp; [discriminate|apply V10].
  - (* P0 *) assert (Ho := n_own s Q t). rewrite <- HT, Hpc in Ho. specialize (Ho eq_refl).
    unfold own in Ho. rewrite Hpc in Ho. cbn in Ho. destruct Ho as (C1 & C2 & C3 & C4 & C5).
    assert (X1 : forall u n, In n (rlist (thr s u)) -> n <> nn T).
    { intros u n Hr E. subst n. apply (C4 u). auto. }
    assert (X2 : forall u, handp (pc (thr s u)) = true -> hh (thr s u) <> nn T).
    { intros u Hu E. assert (u <> t) by (intros ->; rewrite <- HT, Hpc in Hu; discriminate).
      apply (C5 u); auto; [unfold opc; rewrite Hu; apply orb_true_r|].
      unfold own. rewrite Hu. destruct (privp (pc (thr s u))) eqn:X; [|auto].
      destruct (pc (thr s u)); discriminate. }
    assert (X3 : forall u, u <> t -> q58 (pc (thr s u)) = true -> qhead s = hh (thr s u) -> hh (thr s u) <> nn T).
    { intros u Hu Hq Eq E. destruct (vlocal_q58 s u _ Hq (V8 u)) as [[A1 [A2 _]] _].
      apply (V5 u 0 t); [congruence|rewrite <- HT, Hpc; auto|]. rewrite <- HT. congruence. }
    apply vinv_nprev; auto; vside T HT Hpc.
  - (* P1 *) vloc s t V T HT Hpc.
  - (* P2 *) eapply (vinv_slot s _ t _ 0 (hh T)); try exact V; vside T HT Hpc.
    unfold vlocal; msimp. now rewrite !upd_same.
  - (* P3 *) destruct (Nat.eqb_spec (qtail s) (hh T)) as [E|E]; cbn [fst]; [|vloc s t V T HT Hpc].
    assert (Hs0 : slot s (S t) 0 = hh T) by exact VT.
    assert (Hq : In (hh T) (qs s)) by (rewrite <- E, (q_tail s Q); apply last_in; apply (q_ne s Q)).
    apply (vinv_validate s t _ 0 (hh T)); auto; vside T HT Hpc.
  - (* P4 *) vloc s t V T HT Hpc.
  - (* P5 *) destruct (Nat.eqb_spec (qtail s) (hh T)) as [E|E]; cbn [fst]; [|vloc s t V T HT Hpc].
    assert (HH : forall u, held (upd (thr s) t (set_pc T P6) u) = held (thr s u)).
    { intros u. thr_cases u t; msimp; congruence. }
    assert (RL : forall u, rlist (upd (thr s) t (set_pc T P6) u) = rlist (thr s u)).
    { intros u. thr_cases u t; msimp; congruence. }
    constructor; msimp.
    + intros u i. rewrite HH. apply V1.
    + intros u i. rewrite HH. apply V2.
    + intros u i. rewrite HH. intros Hn. specialize (V3 u i Hn). thr_cases u t; msimp; congruence.
    + intros u i. rewrite HH. apply V4.
    + intros u i w. rewrite HH. intros Hn. thr_cases w t; msimp; [discriminate|apply V5; auto].
    + intros u i. rewrite HH. intros Hn. unfold wherep; msimp.
      destruct (V6 u i Hn) as [X|[[w [Y1 Y2]]|[w X]]].
      * left. apply in_or_app; auto.
      * right; left. exists w. thr_cases w t; [rewrite <- HT, Hpc in Y1; discriminate|auto].
      * right; right. exists w. rewrite RL. auto.
    + intros u i w. rewrite HH, RL. intros Hn Hr. thr_cases w t; [apply noscan_vscan; exact Logic.I|apply V7; auto].
    + intros u. thr_cases u t; [exact Logic.I|].
      assert (Lu := V8 u). unfold vlocal, vq4, vq5 in *; msimp.
      assert (K : held (thr s u) 0 = hh (thr s u) -> hh (thr s u) <> 0 ->
                  In (hh (thr s u)) (qs s ++ [nn T]) -> In (hh (thr s u)) (qs s)).
      { intros A B X. apply in_app_or in X. destruct X as [X|[X|[]]]; auto. exfalso.
        apply (V5 u 0 t); [congruence|rewrite <- HT, Hpc; auto|]. rewrite <- HT. congruence. }
      destruct (pc (thr s u)); auto;
        repeat match goal with H : _ /\ _ |- _ => destruct H end; repeat split; auto.
    + intros u n. rewrite RL. apply V9.
    + intros u. thr_cases u t; msimp; [discriminate|apply V10].
  - (* P6 *) destruct (q_p6 s Q t) as [Hadj Hz]; [rewrite <- HT; auto|]. rewrite <- HT in *.
    destruct (adj_in _ _ _ (q_nz s Q) Hadj) as [Hhq _].
    assert (X1 : forall u n, In n (rlist (thr s u)) -> n <> hh T).
    { intros u n Hr E. subst n. apply (n_q_rl s Q _ u Hhq Hr). }
    assert (X2 : forall u, handp (pc (thr s u)) = true -> hh (thr s u) <> hh T).
    { intros u Hu E.
      assert (Ou : opc (pc (thr s u)) = true) by (unfold opc; rewrite Hu; apply orb_true_r).
      destruct (n_own s Q u Ou) as (_ & D2 & _). apply D2. unfold own. rewrite Hu.
      destruct (privp (pc (thr s u))) eqn:X; [destruct (pc (thr s u)); discriminate|]. congruence. }
    assert (X3 : forall u, u <> t -> q58 (pc (thr s u)) = true -> qhead s = hh (thr s u) -> hh (thr s u) <> hh T).
    { intros u Hu Hq Eq E. destruct (vlocal_q58 s u _ Hq (V8 u)) as [_ [B1 B2]].
      specialize (B2 Eq). congruence. }
    apply vinv_nprev; auto; vside T HT Hpc.
  - (* P7 *) fin_open. eapply (vinv_slot s _ t _ 0 0); try exact V; try reflexivity;
      try (rewrite <- ?HT; msimp; congruence);
      try (rewrite <- ?HT; msimp; rewrite ?Hpc; cbn [privp handp]; congruence); auto.
    apply start_vlocal; auto.
  - (* Q1 *) vloc s t V T HT Hpc.
  - (* Q2 *) eapply (vinv_slot s _ t _ 0 (hh T)); try exact V; vside T HT Hpc.
    unfold vlocal; msimp. now rewrite !upd_same.
  - (* Q3 *) destruct (Nat.eqb_spec (qhead s) (hh T)) as [E|E]; cbn [fst]; [|vloc s t V T HT Hpc].
    assert (Hq : In (hh T) (qs s)).
    { rewrite <- E, (q_head s Q). pose proof (q_ne s Q). destruct (qs s); [tauto|left; auto]. }
    assert (Hs0 : slot s (S t) 0 = hh T) by exact VT.
    assert (Hl : vlocal s t (set_pc (set_held T (upd (held T) 0 (hh T))) Q4)).
    { unfold vlocal, vq4; msimp. rewrite upd_same. repeat split; auto.
      intros X. apply (q_nz s Q). congruence. }
    apply (vinv_validate s t _ 0 (hh T)); auto; vside T HT Hpc.
  - (* Q4 *) eapply (vinv_frame s _ t); try exact V; vside T HT Hpc.
    unfold vlocal. destruct (Nat.eqb_spec (nprev s (hh T)) 0) as [E|E]; msimp; [exact Logic.I|].
    split; [exact VT|]. unfold vq5; msimp. auto.
  - (* Q4e *) fin_open. eapply (vinv_slot s _ t _ 0 0); try exact V; try reflexivity;
      try (rewrite <- ?HT; msimp; congruence);
      try (rewrite <- ?HT; msimp; rewrite ?Hpc; cbn [privp handp]; congruence); auto.
    apply start_vlocal; auto.
  - (* Q5 *) eapply (vinv_slot s _ t _ 1 (pv T)); try exact V; vside T HT Hpc.
    destruct VT as [[A1 [A2 A3]] [B1 B2]].
    unfold vlocal, vq4, vq5; msimp. rewrite !upd_same. rewrite upd_other by auto. repeat split; auto.
  - (* Q6 *) destruct (Nat.eqb_spec (qhead s) (hh T)) as [E|E]; cbn [fst]; [|vloc s t V T HT Hpc].
    destruct VT as ([A1 [A2 A3]] & [B1 B2] & Hs).
    assert (Hq : In (pv T) (qs s)).
    { destruct (head_succ s (pv T) Q) as [r2 Er]; [rewrite E; auto|auto|]. rewrite Er. right; left; auto. }
    assert (Hl : vlocal s t (set_pc (set_held T (upd (held T) 1 (pv T))) Q7)).
    { unfold vlocal, vq4, vq5; msimp. rewrite upd_same. rewrite upd_other by auto. repeat split; auto. }
    apply (vinv_validate s t _ 1 (pv T)); auto; vside T HT Hpc.
  - (* Q7 *) eapply (vinv_frame s _ t); try exact V; vside T HT Hpc.
    unfold vlocal, vq4, vq5 in *; msimp. destruct VT as ((A1 & A2 & A3) & (B1 & B2) & C). repeat split; auto.
  - (* Q8 *) destruct (Nat.eqb_spec (qhead s) (hh T)) as [E|E]; cbn [fst]; [|vloc s t V T HT Hpc].
    destruct VT as ([A1 [A2 A3]] & [B1 B2] & Hh1 & Hrv). specialize (B2 E).
    destruct (head_succ s (pv T) Q) as [r2 Er]; [rewrite E; auto|auto|]. rewrite E in Er.
    pose proof (q_nodup s Q) as Hnd. rewrite Er in Hnd. apply NoDup_cons_iff in Hnd. destruct Hnd as [Hn0 Hnd].
    apply NoDup_cons_iff in Hnd. destruct Hnd as [Hn1 _].
    assert (HH : forall u, held (upd (thr s) t (set_pc T Q9) u) = held (thr s u)).
    { intros u. thr_cases u t; msimp; congruence. }
    assert (RL : forall u, rlist (upd (thr s) t (set_pc T Q9) u) = rlist (thr s u)).
    { intros u. thr_cases u t; msimp; congruence. }
    constructor; msimp; rewrite ?Er; cbn [tl].
    + intros u i. rewrite HH. apply V1.
    + intros u i. rewrite HH. apply V2.
    + intros u i. rewrite HH. intros Hn. specialize (V3 u i Hn). thr_cases u t; msimp; congruence.
    + intros u i. rewrite HH. apply V4.
    + intros u i w. rewrite HH. intros Hn. thr_cases w t; msimp; [discriminate|apply V5; auto].
    + intros u i. rewrite HH. intros Hn. unfold wherep; msimp.
      destruct (V6 u i Hn) as [X|[[w [Y1 Y2]]|[w X]]].
      * rewrite Er in X. destruct X as [X|X]; [|left; auto].
        right; left. exists t. rewrite upd_same. msimp. auto.
      * right; left. exists w. thr_cases w t; [rewrite <- HT, Hpc in Y1; discriminate|auto].
      * right; right. exists w. rewrite RL. auto.
    + intros u i w. rewrite HH, RL. intros Hn Hr. thr_cases w t; [apply noscan_vscan; exact Logic.I|apply V7; auto].
    + intros u. thr_cases u t; [exact Logic.I|].
      assert (Lu := V8 u). unfold vlocal, vq4, vq5 in *; msimp. rewrite Er in Lu.
      assert (K1 : hh (thr s u) <> 0 -> (In (hh (thr s u)) (hh T :: pv T :: r2) -> hh (thr s u) = qhead s) ->
                   In (hh (thr s u)) (pv T :: r2) -> hh (thr s u) = pv T).
      { intros _ A X. exfalso. apply Hn0. rewrite <- E, <- (A (or_intror X)). exact X. }
      assert (K2 : forall z, (In (hh (thr s u)) (hh T :: pv T :: r2) -> hh (thr s u) = qhead s) ->
                   pv T = hh (thr s u) -> z).
      { intros z A X. exfalso. apply Hn0. rewrite <- E, <- (A (or_intror (or_introl X))), <- X. left; auto. }
      destruct (pc (thr s u)); auto;
        repeat match goal with H : _ /\ _ |- _ => destruct H end; repeat split; auto;
        intros; eapply K2; eauto.
    + intros u n. rewrite RL. apply V9.
    + intros u. thr_cases u t; msimp; [intros _; congruence|apply V10].
  - (* Q9 *) eapply (vinv_slot s _ t _ 0 0); try exact V; vside T HT Hpc.
  - (* Q10 *) set (T' := set_pc (set_rlist (set_held T (upd (held T) 1 0)) (hh T :: rlist T)) R1).
    assert (HH : forall u i, held (upd (thr s) t T' u) i <> 0 ->
               held (upd (thr s) t T' u) i = held (thr s u) i /\ held (thr s u) i <> 0 /\ (u = t -> i <> 1)).
    { intros u i. thr_cases u t; [|intros; repeat split; auto; tauto].
      unfold T'; msimp. destruct (Nat.eq_dec i 1) as [->|Hik]; [rewrite upd_same; tauto|].
      rewrite upd_other by auto. rewrite <- HT. auto. }
    assert (RL : forall u, rlist (upd (thr s) t T' u) = if u =? t then hh T :: rlist T else rlist (thr s u)).
    { intros u. unfold upd. destruct (u =? t); reflexivity. }
    constructor; msimp.
    + intros u i Hn. destruct (HH u i Hn) as (E & Hn' & _). eauto.
    + intros u i Hn. destruct (HH u i Hn) as (E & Hn' & Hk). rewrite E.
      destruct (Nat.eq_dec u t) as [->|Hne].
      * rewrite upd_same, upd_other by auto. auto.
      * rewrite upd_other by congruence. auto.
    + intros u i Hn. destruct (HH u i Hn) as (E & Hn' & _). specialize (V3 u i Hn').
      thr_cases u t; [unfold T'; msimp; congruence|auto].
    + intros u i Hn. destruct (HH u i Hn) as (E & Hn' & _). rewrite E. auto.
    + intros u i w Hn. destruct (HH u i Hn) as (E & Hn' & _). rewrite E.
      thr_cases w t; [unfold T'; msimp; discriminate|apply V5; auto].
    + intros u i Hn. destruct (HH u i Hn) as (E & Hn' & _). rewrite E. unfold wherep; msimp.
      destruct (V6 u i Hn') as [X|[[w [Y1 Y2]]|[w X]]].
      * left; auto.
      * destruct (Nat.eq_dec w t) as [->|Hw].
        -- right; right. exists t. rewrite RL, Nat.eqb_refl. left. rewrite <- HT in Y2. auto.
        -- right; left. exists w. rewrite upd_other by auto. auto.
      * right; right. exists w. rewrite RL. destruct (Nat.eqb_spec w t) as [->|]; auto.
        right. rewrite <- HT in X. auto.
    + intros u i w Hn. destruct (HH u i Hn) as (E & Hn' & _). rewrite E, RL.
      thr_cases w t; [intros _; apply noscan_vscan; exact Logic.I|].
      destruct (Nat.eqb_spec w t); [contradiction|]. apply V7; auto.
    + intros u. thr_cases u t; [exact Logic.I|].
      apply (vlocal_ext2 s); auto. msimp. rewrite upd_other; auto; congruence.
    + intros u n. rewrite RL. destruct (Nat.eqb_spec u t) as [->|]; [|apply V9].
      intros [<-|X]; [rewrite HT; apply (V10 t); rewrite <- HT, Hpc; auto|apply (V9 t); rewrite <- HT; auto].
    + intros u. thr_cases u t; [unfold T'; msimp; discriminate|apply V10].
  - (* R1 *) destruct (rthr s (S t) <=? length (rlist T)); cbn [fst]; [vloc s t V T HT Hpc|vfin s t V T HT Hpc].
  - (* S1 *) eapply (vinv_frame s _ t); try exact V; vside T HT Hpc.
    msimp. intros u i Hn Hi Hj Hs Hr _. unfold vscan; msimp. rewrite Ih, from_hd by auto. apply Ij. auto.
  - (* S2 *) destruct LT as [J Hc]. eapply (vinv_frame s _ t); try exact V; vside T HT Hpc.
    msimp. intros u i Hn Hi Hj Hs Hr. rewrite <- HT. unfold vscan; rewrite Hpc; msimp.
    destruct (from_in_hd _ _ Hc) as [tl0 E]. rewrite E. cbn [In tl]. intros [X|X]; [left; split; [auto|lia]|auto].
  - (* S3 *) destruct LT as (J & Hc). eapply (vinv_frame s _ t); try exact V; vside T HT Hpc.
    msimp. intros u i Hn Hik Hj Hs Hr. rewrite <- HT. unfold vscan at 1; rewrite Hpc.
    intros [[X1 X2]|[X|X]].
    + destruct (Nat.eq_dec (idx T) i) as [Ei|Ei].
      * rewrite <- X1, Ei, Hs.
        destruct (Nat.eqb_spec (held (thr s u) i) 0); [contradiction|].
        unfold vscan. ifs; msimp; [right; right|right]; apply in_or_app; right; cbn; auto.
      * unfold KS. destruct (Nat.ltb_spec (S (idx T)) 2); [|lia].
        unfold vscan; msimp. left. split; auto. lia.
    + unfold vscan. ifs; msimp; auto.
    + assert (In (held (thr s u) i) (snap T ++ [slot s (cur T) (idx T)])) by (apply in_or_app; auto).
      unfold vscan. ifs; msimp; auto.
  - (* S4 *) destruct LT as (J & Hc).
    destruct (from_next (rnext s) (recs s) (cur T) Ind Il Inz Hc) as [[A B]|[A [B D]]].
    + rewrite A. cbn [Nat.eqb]. fin_open. msimp.
      set (keep := scan_keep sort (snap T) (rlist T)) in *.
      set (gcl := scan_gc sort (snap T) (rlist T)) in *.
      assert (HH : forall u, held (upd (thr s) t T2 u) = held (thr s u)).
      { intros u. thr_cases u t; congruence. }
      assert (RL : forall u, rlist (upd (thr s) t T2 u) = if u =? t then keep else rlist (thr s u)).
      { intros u. unfold upd. destruct (u =? t); auto. }
      assert (SAFE : forall u i, held (thr s u) i <> 0 -> ~ In (held (thr s u) i) gcl).
      { intros u i Hn. unfold gcl. rewrite HT. apply safe_gc; auto; rewrite <- HT; auto. }
      assert (KEEP : forall u i, held (thr s u) i <> 0 -> In (held (thr s u) i) (rlist T) -> In (held (thr s u) i) keep).
      { intros u i Hn Hr. apply keep_in. split; auto.
        destruct (bsearch (sort (snap T)) (held (thr s u) i)) eqn:X; auto. exfalso.
        apply (SAFE u i Hn). apply gc_in. auto. }
      constructor; msimp.
      * intros u i. rewrite HH. apply V1.
      * intros u i. rewrite HH. apply V2.
      * intros u i. rewrite HH. intros Hn. specialize (V3 u i Hn). thr_cases u t; congruence.
      * intros u i. rewrite HH. intros Hn. rewrite in_app_iff, <- in_rev. intros [X|X]; [apply (SAFE u i Hn X)|apply (V4 u i Hn X)].
      * intros u i w. rewrite HH. intros Hn. thr_cases w t; [congruence|apply V5; auto].
      * intros u i. rewrite HH. intros Hn. unfold wherep; msimp.
        destruct (V6 u i Hn) as [X|[[w [Y1 Y2]]|[w X]]].
        -- left; auto.
        -- right; left. exists w. thr_cases w t; [rewrite <- HT, Hpc in Y1; discriminate|auto].
        -- right; right. exists w. rewrite RL. destruct (Nat.eqb_spec w t) as [->|]; auto.
           apply KEEP; auto. rewrite HT. auto.
      * intros u i w. rewrite HH, RL. intros Hn. thr_cases w t; [intros _; apply noscan_vscan; auto|].
        destruct (Nat.eqb_spec w t); [contradiction|]. apply V7; auto.
      * intros u. thr_cases u t; [apply start_vlocal; auto|exact (V8 u)].
      * intros u n. rewrite RL. destruct (Nat.eqb_spec u t) as [->|]; [|apply V9].
        intros X. apply keep_in in X. apply (V9 t). rewrite <- HT. tauto.
      * intros u. thr_cases u t; [congruence|apply V10].
    + destruct (Nat.eqb_spec (rnext s (cur T)) 0) as [E|_]; [contradiction|]. cbn [fst].
      eapply (vinv_frame s _ t); try exact V; vside T HT Hpc.
      msimp. intros u i Hn Hik Hj Hs Hr. rewrite <- HT. unfold vscan; rewrite Hpc; msimp.
      rewrite D. cbn [tl]. destruct (from_in_hd _ _ B) as [tl0 E]. rewrite E. cbn [In tl].
      intros [[X|X]|X]; auto. left. split; [auto|lia].
  - (* Fin *) exact V.
Qed.

End Proofs2.

(* ================================================================== *)
(* F. initial state                                                     *)
(* ================================================================== *)
Lemma last_seq a n : last (seq a (S n)) 0 = a + n.
Proof.
  revert a. induction n as [|n IH]; intros a; [cbn; lia|].
  change (seq a (S (S n))) with (a :: seq (S a) (S n)).
  change (last (a :: seq (S a) (S n)) 0) with (last (seq (S a) (S n)) 0). rewrite IH. lia.
Qed.

Lemma adj_seq a b k n : adj a b (seq k n) -> b = S a /\ k <= a /\ S a < k + n.
Proof.
  revert k. induction n as [|n IH]; intros k; cbn [seq adj]; [tauto|].
  intros [[<- [Hb Hr]]|H].
  - destruct n; [cbn in Hr; tauto|]. cbn in Hb. subst. lia.
  - destruct (IH _ H) as (A & B & C). lia.
Qed.

Lemma init_qinv P NN Mq progs : QInv (init P NN Mq progs).
Proof.
  assert (RL : forall t, rlist (thr (init P NN Mq progs) t) = []) by (intros t; apply init_thr_ok).
  assert (ST : forall t, start_ok (thr (init P NN Mq progs) t)) by (intros t; apply init_thr_ok).
  assert (NO : forall t, opc (pc (thr (init P NN Mq progs) t)) = false /\
                         pc (thr (init P NN Mq progs) t) <> P6 /\ p15 (pc (thr (init P NN Mq progs) t)) = false).
  { intros t. destruct (start_not_own _ (ST t)) as (A & B & C & D). auto. }
  constructor; try (intros; rewrite RL in *; cbn in *; tauto); try (intros t; rewrite RL; constructor).
  - cbn [qs init]. discriminate.
  - reflexivity.
  - cbn [qtail qs init]. rewrite last_seq. lia.
  - cbn [qs init]. apply seq_NoDup.
  - cbn [qs init]. rewrite in_seq. lia.
  - cbn [qs nprev init]. intros a b Hab. apply adj_seq in Hab. destruct Hab as (-> & A & B). left.
    destruct (Nat.leb_spec 1 a); [|lia]. destruct (Nat.leb_spec a Mq); [|lia]. reflexivity.
  - cbn [qtail nprev init]. destruct (Nat.leb_spec (S Mq) Mq); [lia|]. now rewrite andb_false_r.
  - intros t X. exfalso. apply (proj1 (proj2 (NO t))). exact X.
  - intros t u X. exfalso. apply (proj1 (proj2 (NO t))). exact X.
  - intros t X. destruct (NO t) as (_ & _ & Y). congruence.
  - cbn [pool init]. apply seq_NoDup.
  - cbn [pool init]. rewrite in_seq. lia.
  - cbn [qs pool init]. intros n. rewrite !in_seq. lia.
  - intros t X. destruct (NO t) as (Y & _). congruence.
Qed.

Lemma init_vinv P NN Mq progs : VInv (init P NN Mq progs).
Proof.
  assert (H0 : forall u i, held (thr (init P NN Mq progs) u) i = 0) by (intros u; apply init_thr_ok).
  assert (RL : forall t, rlist (thr (init P NN Mq progs) t) = []) by (intros t; apply init_thr_ok).
  assert (ST : forall t, start_ok (thr (init P NN Mq progs) t)) by (intros t; apply init_thr_ok).
  constructor; try (intros u i; rewrite H0; tauto); try (intros u i w; rewrite H0; tauto).
  - intros t. apply start_vlocal. apply ST.
  - intros t n. rewrite RL. cbn. tauto.
  - intros t X. destruct (start_props _ (ST t)) as (_ & _ & Y). congruence.
Qed.

(* ================================================================== *)
(* G. the combined invariant over every reachable state                 *)
(* ================================================================== *)
Record Inv (s : st) : Prop := { i_r : RInv s; i_q : QInv s; i_v : VInv s }.

Section Proofs3.
Variable sort : list nat -> list nat.
Hypothesis sort_perm : forall l, Permutation l (sort l).
Hypothesis sort_sorted : forall l, Sorted le (sort l).

Lemma step_inv s t : Inv s -> Inv (fst (step sort s t)).
Proof.
  intros [R Q V]. constructor.
  - apply rinv_step; auto.
  - apply qinv_step; auto.
  - apply vinv_step; auto.
Qed.

Lemma init_inv P NN Mq progs : Inv (init P NN Mq progs).
Proof. constructor; [apply init_rinv|apply init_qinv|apply init_vinv]. Qed.

Theorem reachable_inv P NN Mq progs s : reachable (M sort) (init P NN Mq progs) s -> Inv s.
Proof.
  apply (invariant_ind (M sort) Inv (init P NN Mq progs)).
  - apply init_inv.
  - intros s0 t I _. apply step_inv; exact I.
Qed.

(* ---------------- statements over the base machine ---------------- *)
(* the node whose field the next step of thread t reads or writes *)
Definition accessed (s : st) (t : nat) : option nat :=
  let T := thr s t in
  match pc T with
  | P0 | P4 => Some (nn T)      (* new_node->prev = NULL; new_node->next = tail *)
  | P6 => Some (hh T)           (* tail->prev = new_node *)
  | Q4 => Some (hh T)           (* head->prev *)
  | Q7 => Some (pv T)           (* prev->value *)
  | _ => None
  end.

Lemma no_deref_of_inv s t n : Inv s -> accessed s t = Some n -> n <> 0 /\ ~ In n (pool s).
Proof.
  intros [R Q V]. unfold accessed. destruct (pc (thr s t)) eqn:Hpc; try discriminate; intros E; inversion E; subst.
  - assert (Ho := n_own s Q t). rewrite Hpc in Ho. specialize (Ho eq_refl). unfold own in Ho. rewrite Hpc in Ho. cbn in Ho. tauto.
  - assert (Ho := n_own s Q t). rewrite Hpc in Ho. specialize (Ho eq_refl). unfold own in Ho. rewrite Hpc in Ho. cbn in Ho. tauto.
  - destruct (q_p6 s Q t Hpc) as [Ha _]. destruct (adj_in _ _ _ (q_nz s Q) Ha) as [Hq _]. split.
    + intros X. apply (q_nz s Q). congruence.
    + intros X. apply (n_q_pool s Q _ Hq X).
  - assert (L := v_loc s V t). unfold vlocal in L. rewrite Hpc in L. destruct L as (A1 & A2 & _).
    split; auto. rewrite <- A1. apply (v_pool s V). congruence.
  - assert (L := v_loc s V t). unfold vlocal in L. rewrite Hpc in L. destruct L as (_ & [B1 _] & C).
    split; auto. rewrite <- C. apply (v_pool s V). congruence.
Qed.

Lemma empty_justified_of_inv s t : Inv s -> pc (thr s t) = Q4 -> nprev s (hh (thr s t)) = 0 ->
  hh (thr s t) = qhead s /\
  (tl (qs s) = [] \/
   exists u, pc (thr s u) = P6 /\ hh (thr s u) = qhead s /\ nn (thr s u) = hd 0 (tl (qs s))).
Proof.
  intros [R Q V] Hpc Hz.
  assert (L := v_loc s V t). unfold vlocal in L. rewrite Hpc in L. destruct L as (A1 & A2 & A3).
  assert (Hn : held (thr s t) 0 <> 0) by congruence.
  assert (Hq : In (hh (thr s t)) (qs s)).
  { destruct (v_where s V t 0 Hn) as [X|[[w [Y1 Y2]]|[w X]]]; rewrite A1 in *; auto; exfalso.
    - apply (v_handnz s V w Y1). congruence.
    - apply (v_rlnz s V w _ X). auto. }
  specialize (A3 Hq). split; auto.
  pose proof (q_ne s Q) as N1. pose proof (q_head s Q) as N2.
  destruct (qs s) as [|n0 rest] eqn:E; [tauto|]. cbn [hd] in N2. cbn [tl].
  destruct rest as [|n1 r2]; [left; auto|right]. cbn [hd].
  destruct (q_link s Q n0 n1) as [X|[X [u (U1 & U2 & U3)]]]; [rewrite E; cbn; left; repeat split; auto; discriminate| |].
  - exfalso. assert (n1 <> 0). { intros ->. apply (q_nz s Q). rewrite E. right; left; auto. } congruence.
  - exists u. repeat split; auto. congruence.
Qed.

Lemma head_cas_of_inv s t : Inv s -> pc (thr s t) = Q8 -> qhead s = hh (thr s t) ->
  exists r2, qs s = hh (thr s t) :: pv (thr s t) :: r2 /\ rv (thr s t) = nval s (pv (thr s t)) /\
             held (thr s t) 0 = hh (thr s t) /\ held (thr s t) 1 = pv (thr s t) /\
             ~ In (hh (thr s t)) (pool s) /\ ~ In (pv (thr s t)) (pool s).
Proof.
  intros [R Q V] Hpc E.
  assert (L := v_loc s V t). unfold vlocal in L. rewrite Hpc in L.
  destruct L as ((A1 & A2 & A3) & (B1 & B2) & C & D). specialize (B2 E).
  destruct (head_succ s (pv (thr s t)) Q) as [r2 Er]; [rewrite E; auto|auto|]. rewrite E in Er.
  exists r2. repeat split; auto.
  - rewrite <- A1. apply (v_pool s V). congruence.
  - rewrite <- C. apply (v_pool s V). congruence.
Qed.

Definition gc_list (s : st) (t : nat) : list nat :=
  match pc (thr s t) with
  | S4 => if rnext s (cur (thr s t)) =? 0
          then scan_gc sort (snap (thr s t)) (rlist (thr s t)) else []
  | _ => []
  end.

Lemma safe_of_inv s t u i : Inv s -> held (thr s u) i <> 0 -> ~ In (held (thr s u) i) (gc_list s t).
Proof.
  intros I Hn. unfold gc_list. destruct (pc (thr s t)) eqn:Hpc; auto.
  destruct (Nat.eqb_spec (rnext s (cur (thr s t))) 0) as [E|E]; auto.
  apply (safe_gc sort sort_perm sort_sorted); auto; apply I.
Qed.

Lemma gc_step s t : pc (thr s t) = S4 -> rnext s (cur (thr s t)) = 0 ->
  pool (fst (step sort s t)) = rev (gc_list s t) ++ pool s.
Proof.
  intros Hpc Hnx. unfold step, gc_list. rewrite Hpc, Hnx. cbn [Nat.eqb].
  destruct (finish _ _ _) as [T2 e2]. reflexivity.
Qed.

(* ---------------- the instrumented machine ---------------- *)
(* plog: values in tail-CAS order; qlog: values in head-CAS order; gen n:
   how many times node n was allocated; hgen t: the generation of the head
   that thread t validated at Q3 *)
Record ist := { base : st; plog : list nat; qlog : list nat; gen : nat -> nat; hgen : nat -> nat }.

Definition lstep (x : ist) (t : nat) : ist :=
  let s := base x in
  let T := thr s t in
  let s' := fst (step sort s t) in
  match pc T with
  | PA => match pool s with
          | f :: _ => {| base := s'; plog := plog x; qlog := qlog x;
                         gen := upd (gen x) f (S (gen x f)); hgen := hgen x |}
          | [] => {| base := s'; plog := plog x; qlog := qlog x; gen := gen x; hgen := hgen x |}
          end
  | P5 => if qtail s =? hh T
          then {| base := s'; plog := plog x ++ [arg T]; qlog := qlog x; gen := gen x; hgen := hgen x |}
          else {| base := s'; plog := plog x; qlog := qlog x; gen := gen x; hgen := hgen x |}
  | Q3 => if qhead s =? hh T
          then {| base := s'; plog := plog x; qlog := qlog x; gen := gen x;
                  hgen := upd (hgen x) t (gen x (hh T)) |}
          else {| base := s'; plog := plog x; qlog := qlog x; gen := gen x; hgen := hgen x |}
  | Q8 => if qhead s =? hh T
          then {| base := s'; plog := plog x; qlog := qlog x ++ [rv T]; gen := gen x; hgen := hgen x |}
          else {| base := s'; plog := plog x; qlog := qlog x; gen := gen x; hgen := hgen x |}
  | _ => {| base := s'; plog := plog x; qlog := qlog x; gen := gen x; hgen := hgen x |}
  end.

Lemma lstep_erase x t : base (lstep x t) = fst (step sort (base x) t).
Proof.
  unfold lstep. destruct (pc (thr (base x) t)); try reflexivity;
    try (destruct (pool (base x)); reflexivity);
    match goal with |- context [if ?b then _ else _] => destruct b end; reflexivity.
Qed.

Definition iinit P NN Mq progs : ist :=
  {| base := init P NN Mq progs; plog := map (nval (init P NN Mq progs)) (seq 2 Mq); qlog := [];
     gen := fun _ => 0; hgen := fun _ => 0 |}.

Inductive ireach P NN Mq progs : ist -> Prop :=
| ir_init : ireach P NN Mq progs (iinit P NN Mq progs)
| ir_step x t : ireach P NN Mq progs x -> ireach P NN Mq progs (lstep x t).

Definition irun (x : ist) (sch : list nat) : ist := fold_left lstep sch x.
Lemma ireach_irun P NN Mq progs sch : forall x, ireach P NN Mq progs x -> ireach P NN Mq progs (irun x sch).
Proof. induction sch as [|t r IH]; intros x R; cbn; auto. apply IH. constructor. exact R. Qed.

Definition q48 (p : pcT) : bool := match p with Q4 | Q5 | Q6 | Q7 | Q8 => true | _ => false end.

Record LInv (x : ist) : Prop := {
  l_inv : Inv (base x);
  l_hist : plog x = qlog x ++ map (nval (base x)) (tl (qs (base x)));
  l_arg : forall t, privp (pc (thr (base x) t)) = true -> nval (base x) (nn (thr (base x) t)) = arg (thr (base x) t);
  l_gen : forall t, q48 (pc (thr (base x) t)) = true -> gen x (hh (thr (base x) t)) = hgen x t
}.

Ltac fin_all :=
  repeat match goal with
  | |- context [finish ?t ?T ?v] =>
    let H := fresh "Hf" in
    pose proof (finish_ok t T v) as H; destruct (finish t T v) as [? ?]; cbn [fst snd] in H
  end.

Ltac step_open s t Hpc :=
  unfold step; destruct (pc (thr s t)) eqn:Hpc; try congruence; try tauto;
  ifs_nat; try (destruct (pool s)); fin_all; cbn [fst]; msimp.

Lemma step_other s t u : u <> t -> thr (fst (step sort s t)) u = thr s u.
Proof. intros Hu. step_open s t Hpc; rewrite ?upd_other by auto; reflexivity. Qed.

Lemma step_qs s t : pc (thr s t) <> P5 -> pc (thr s t) <> Q8 -> qs (fst (step sort s t)) = qs s.
Proof. intros A B. step_open s t Hpc; reflexivity. Qed.

Lemma step_nval s t : pc (thr s t) <> PA -> nval (fst (step sort s t)) = nval s.
Proof. intros A. step_open s t Hpc; reflexivity. Qed.

Lemma start_q48 T : start_ok T -> q48 (pc T) = false.
Proof. unfold start_ok. destruct (pc T); cbn; tauto. Qed.

Lemma step_priv s t : pc (thr s t) <> PA -> privp (pc (thr (fst (step sort s t)) t)) = true ->
  privp (pc (thr s t)) = true /\ nn (thr (fst (step sort s t)) t) = nn (thr s t) /\
  arg (thr (fst (step sort s t)) t) = arg (thr s t).
Proof.
  intros A. step_open s t Hpc; rewrite ?upd_same; msimp; rewrite ?Hpc; cbn [privp]; auto; try discriminate;
    repeat match goal with H : same_regs _ ?T2 /\ start_ok ?T2 |- _ =>
      destruct H as [_ H]; destruct (start_props _ H) as (_ & ? & _) end; congruence.
Qed.

Lemma step_q48 s t : pc (thr s t) <> Q3 -> q48 (pc (thr (fst (step sort s t)) t)) = true ->
  q48 (pc (thr s t)) = true /\ hh (thr (fst (step sort s t)) t) = hh (thr s t).
Proof.
  intros A. step_open s t Hpc; rewrite ?upd_same; msimp; rewrite ?Hpc; cbn [q48]; auto; try discriminate;
    repeat match goal with H : same_regs _ ?T2 /\ start_ok ?T2 |- _ =>
      destruct H as [_ H]; apply start_q48 in H end; congruence.
Qed.

Lemma linv_boring x t s' :
  LInv x -> Inv s' -> qs s' = qs (base x) -> nval s' = nval (base x) ->
  (forall u, u <> t -> thr s' u = thr (base x) u) ->
  (privp (pc (thr s' t)) = true ->
     privp (pc (thr (base x) t)) = true /\ nn (thr s' t) = nn (thr (base x) t) /\
     arg (thr s' t) = arg (thr (base x) t)) ->
  (q48 (pc (thr s' t)) = true -> q48 (pc (thr (base x) t)) = true /\ hh (thr s' t) = hh (thr (base x) t)) ->
  LInv {| base := s'; plog := plog x; qlog := qlog x; gen := gen x; hgen := hgen x |}.
Proof.
  intros [L1 L2 L3 L4] I' Eq Ev Ho Hp Hq. constructor; cbn [base plog qlog gen hgen]; auto.
  - rewrite Eq, Ev. exact L2.
  - intros u. rewrite Ev. destruct (Nat.eq_dec u t) as [->|Hu].
    + intros X. destruct (Hp X) as (A & -> & ->). auto.
    + rewrite Ho by auto. apply L3.
  - intros u. destruct (Nat.eq_dec u t) as [->|Hu].
    + intros X. destruct (Hq X) as (A & ->). auto.
    + rewrite Ho by auto. apply L4.
Qed.

Lemma linv_step x t : LInv x -> LInv (lstep x t).
Proof.
  intros L. pose proof L as [L1 L2 L3 L4]. pose proof (step_inv (base x) t L1) as I'.
  pose proof L1 as [R Q V].
  unfold lstep. set (s := base x) in *. destruct (pc (thr s t)) eqn:Hpc;
    try (apply (linv_boring x t); auto;
         [apply step_qs; fold s; congruence | apply step_nval; fold s; congruence
         | intros u Hu; apply step_other; auto
         | apply step_priv; fold s; congruence | apply step_q48; fold s; congruence]).
  - (* PA *) destruct (pool s) as [|f p] eqn:Hp.
    + apply (linv_boring x t); auto; fold s.
      * apply step_qs; fold s; congruence.
      * unfold step. rewrite Hpc, Hp. fin_all. reflexivity.
      * intros u Hu; apply step_other; auto.
      * unfold step. rewrite Hpc, Hp. fin_all. cbn [fst]. msimp. rewrite upd_same.
        destruct Hf as [_ Hf]. destruct (start_props _ Hf) as (_ & X & _). congruence.
      * unfold step. rewrite Hpc, Hp. fin_all. cbn [fst]. msimp. rewrite upd_same.
        destruct Hf as [_ Hf]. apply start_q48 in Hf. congruence.
    + assert (Hfp : In f (pool s)) by (rewrite Hp; left; auto).
      assert (Es : fst (step sort s t) = set_thr (set_alloc s p f (arg (thr s t))) t (set_pc (set_nn (thr s t) f) P0)).
      { unfold step. rewrite Hpc, Hp. reflexivity. }
      rewrite Es in *. constructor; cbn [base plog qlog gen hgen]; msimp; auto.
      * rewrite L2. f_equal. apply map_ext_in. intros a Ha. symmetry. apply upd_other.
        intros ->. apply (n_q_pool s Q f); auto. destruct (qs s); [destruct Ha|right; auto].
      * intros u. thr_cases u t; msimp; [intros _; rewrite ?upd_same; reflexivity|]. intros X.
        rewrite upd_other; [apply L3; auto|]. intros E.
        assert (Ou : opc (pc (thr s u)) = true) by (unfold opc; rewrite X; auto).
        destruct (n_own s Q u Ou) as (_ & _ & D3 & _). apply D3. unfold own. rewrite X, E. auto.
      * intros u. thr_cases u t; msimp; [discriminate|]. intros X.
        rewrite upd_other; [apply L4; auto|]. intros E.
        assert (Lu := v_loc s V u). unfold vlocal in Lu.
        assert (A : vq4 s (thr s u)) by (destruct (pc (thr s u)); try discriminate; tauto).
        destruct A as (A1 & A2 & _). apply (v_pool s V u 0); [congruence|]. rewrite A1, E. auto.
  - (* P5 *) destruct (Nat.eqb_spec (qtail s) (hh (thr s t))) as [E|E].
    + assert (Es : fst (step sort s t) = set_thr (set_q s (qhead s) (nn (thr s t)) (qs s ++ [nn (thr s t)])) t (set_pc (thr s t) P6)).
      { unfold step. rewrite Hpc. destruct (Nat.eqb_spec (qtail s) (hh (thr s t))); [reflexivity|contradiction]. }
      rewrite Es in *. constructor; cbn [base plog qlog gen hgen]; msimp; auto.
      * rewrite L2, <- app_assoc. f_equal. pose proof (q_ne s Q).
        destruct (qs s) as [|a l]; [tauto|]. cbn [tl app]. rewrite map_app. cbn [map]. f_equal. f_equal.
        symmetry. apply L3. fold s. rewrite Hpc. reflexivity.
      * intros u. thr_cases u t; msimp; [discriminate|apply L3].
      * intros u. thr_cases u t; msimp; [discriminate|apply L4].
    + apply (linv_boring x t); auto; fold s.
      * unfold step. rewrite Hpc. destruct (Nat.eqb_spec (qtail s) (hh (thr s t))); [contradiction|reflexivity].
      * apply step_nval; fold s; congruence.
      * intros u Hu; apply step_other; auto.
      * apply step_priv; fold s; congruence.
      * apply step_q48; fold s; congruence.
  - (* Q3 *) destruct (Nat.eqb_spec (qhead s) (hh (thr s t))) as [E|E].
    + assert (Es : fst (step sort s t) = set_thr s t (set_pc (set_held (thr s t) (upd (held (thr s t)) 0 (hh (thr s t)))) Q4)).
      { unfold step. rewrite Hpc. destruct (Nat.eqb_spec (qhead s) (hh (thr s t))); [reflexivity|contradiction]. }
      rewrite Es in *. constructor; cbn [base plog qlog gen hgen]; msimp; auto.
      * intros u. thr_cases u t; msimp; [discriminate|apply L3].
      * intros u. thr_cases u t; msimp; [intros _; reflexivity|apply L4].
    + apply (linv_boring x t); auto; fold s.
      * apply step_qs; fold s; congruence.
      * apply step_nval; fold s; congruence.
      * intros u Hu; apply step_other; auto.
      * apply step_priv; fold s; congruence.
      * unfold step. rewrite Hpc. destruct (Nat.eqb_spec (qhead s) (hh (thr s t))); [contradiction|].
        cbn [fst]. msimp. rewrite upd_same. msimp. discriminate.
  - (* Q8 *) destruct (Nat.eqb_spec (qhead s) (hh (thr s t))) as [E|E].
    + destruct (head_cas_of_inv s t L1 Hpc E) as (r2 & Er & Hrv & _).
      assert (Es : fst (step sort s t) = set_thr (set_q s (pv (thr s t)) (qtail s) (tl (qs s))) t (set_pc (thr s t) Q9)).
      { unfold step. rewrite Hpc. destruct (Nat.eqb_spec (qhead s) (hh (thr s t))); [reflexivity|contradiction]. }
      rewrite Es in *. constructor; cbn [base plog qlog gen hgen]; msimp; auto.
      * rewrite L2, Er. cbn [tl map]. rewrite <- app_assoc. cbn [app]. rewrite Hrv. reflexivity.
      * intros u. thr_cases u t; msimp; [discriminate|apply L3].
      * intros u. thr_cases u t; msimp; [discriminate|apply L4].
    + apply (linv_boring x t); auto; fold s.
      * unfold step. rewrite Hpc. destruct (Nat.eqb_spec (qhead s) (hh (thr s t))); [contradiction|reflexivity].
      * apply step_nval; fold s; congruence.
      * intros u Hu; apply step_other; auto.
      * apply step_priv; fold s; congruence.
      * apply step_q48; fold s; congruence.
Qed.

Lemma iinit_linv P NN Mq progs : LInv (iinit P NN Mq progs).
Proof.
  assert (ST : forall t, start_ok (thr (init P NN Mq progs) t)) by (intros t; apply init_thr_ok).
  constructor; cbn [base plog qlog gen hgen iinit].
  - apply init_inv.
  - reflexivity.
  - intros t X. destruct (start_props _ (ST t)) as (_ & Y & _). congruence.
  - intros t X. rewrite (start_q48 _ (ST t)) in X. discriminate.
Qed.

Theorem ireach_linv P NN Mq progs x : ireach P NN Mq progs x -> LInv x.
Proof. induction 1; [apply iinit_linv|apply linv_step; auto]. Qed.


(* ---------------- statements over the instrumented machine ---------------- *)
Lemma fifo_of_linv x : LInv x ->
  exists rest, plog x = qlog x ++ rest /\ rest = map (nval (base x)) (tl (qs (base x))).
Proof. intros L. eexists. split; [apply (l_hist x L)|reflexivity]. Qed.

Lemma pop_oldest_of_linv x t : LInv x ->
  pc (thr (base x) t) = Q8 -> qhead (base x) = hh (thr (base x) t) ->
  nth_error (plog x) (length (qlog x)) = Some (rv (thr (base x) t)).
Proof.
  intros L Hpc E. destruct (head_cas_of_inv _ t (l_inv x L) Hpc E) as (r2 & Er & Hrv & _).
  rewrite (l_hist x L), Er. cbn [tl map]. rewrite nth_error_app2 by lia. rewrite Nat.sub_diag. cbn. congruence.
Qed.

Lemma empty_of_linv x t : LInv x ->
  pc (thr (base x) t) = Q4 -> nprev (base x) (hh (thr (base x) t)) = 0 ->
  hh (thr (base x) t) = qhead (base x) /\
  (plog x = qlog x \/
   exists u, pc (thr (base x) u) = P6 /\ hh (thr (base x) u) = qhead (base x) /\
             nn (thr (base x) u) = hd 0 (tl (qs (base x)))).
Proof.
  intros L Hpc Hz. destruct (empty_justified_of_inv _ t (l_inv x L) Hpc Hz) as [A [B|B]]; split; auto.
  left. rewrite (l_hist x L), B. cbn. apply app_nil_r.
Qed.

Lemma aba_of_linv x t : LInv x -> pc (thr (base x) t) = Q8 ->
  gen x (hh (thr (base x) t)) = hgen x t /\
  (qhead (base x) = hh (thr (base x) t) ->
     exists r2, qs (base x) = hh (thr (base x) t) :: pv (thr (base x) t) :: r2 /\
                rv (thr (base x) t) = nval (base x) (pv (thr (base x) t))).
Proof.
  intros L Hpc. split.
  - apply (l_gen x L). rewrite Hpc. reflexivity.
  - intros E. destruct (head_cas_of_inv _ t (l_inv x L) Hpc E) as (r2 & Er & Hrv & _). eauto.
Qed.

(* the generation of a node changes exactly when it is allocated from the pool *)
Lemma gen_alloc x t n : gen (lstep x t) n <> gen x n ->
  pc (thr (base x) t) = PA /\ hd 0 (pool (base x)) = n /\ In n (pool (base x)) /\ gen (lstep x t) n = S (gen x n).
Proof.
  unfold lstep. destruct (pc (thr (base x) t)) eqn:Hpc; cbn [gen]; try tauto;
    try (match goal with |- context [if ?b then _ else _] => destruct b end; cbn [gen]; tauto).
  destruct (pool (base x)) as [|f p]; cbn [gen]; [tauto|].
  destruct (Nat.eq_dec n f) as [->|Hne]; [|rewrite upd_other by auto; tauto].
  rewrite upd_same. intros _. cbn. auto.
Qed.

End Proofs3.
