(* Proofs about the hazard-pointer model (coq/Hazard.v): binary search, the
   scan partition, and layered inductive invariants over every reachable state
   (any number of threads/records joining at any time, any K, any programs,
   any schedule).  qsort is a Section variable with Permutation + Sorted
   hypotheses. *)
From Coq Require Import List ZArith Lia Bool Arith Permutation Sorted.
From LF Require Import Conc Hazard.
Import ListNotations.

(* ================================================================== *)
(* A. binary search                                                    *)
(* ================================================================== *)
Definition nth_sorted (h : list nat) : Prop :=
  forall i j, i <= j -> j < length h -> nth i h 0 <= nth j h 0.

Lemma sorted_nth_sorted h : Sorted le h -> nth_sorted h.
Proof.
  intros Hs. apply Sorted_StronglySorted in Hs; [|intros a b c; lia].
  induction Hs as [|a l Hs IH Hall]; intros i j Hij Hj; cbn in *; [lia|].
  destruct i as [|i], j as [|j]; try lia.
  - rewrite Forall_forall in Hall. apply Hall. apply nth_In. lia.
  - apply IH; lia.
Qed.

Lemma bs_loop_spec fuel h x : nth_sorted h -> forall st en,
  (0 <= st)%Z -> (en < Z.of_nat (length h))%Z -> (en - st + 1 <= Z.of_nat fuel)%Z ->
  (fst (bs_loop fuel h x st en) = true <->
     exists i, (st <= i <= en)%Z /\ nth (Z.to_nat i) h 0 = x) /\
  Forall (fun m => (st <= m <= en)%Z) (snd (bs_loop fuel h x st en)).
Proof.
  intros Hs. induction fuel as [|f IH]; intros st en H0 H1 H2; cbn [bs_loop].
  - cbn. split; [|constructor]. split; [discriminate|]. intros [i [Hi _]]. lia.
  - destruct (Z.leb_spec st en) as [Hle|Hgt].
    2:{ cbn. split; [|constructor]. split; [discriminate|]. intros [i [Hi _]]. lia. }
    set (mid := ((st + en) / 2)%Z).
    assert (Hm : (st <= mid <= en)%Z).
    { unfold mid. pose proof (Z.div_mod (st + en) 2 ltac:(lia)). pose proof (Z.mod_pos_bound (st + en) 2 ltac:(lia)). lia. }
    set (mv := nth (Z.to_nat mid) h 0).
    destruct (Nat.ltb_spec x mv) as [Hlt|Hge].
    + specialize (IH st (mid - 1)%Z ltac:(lia) ltac:(lia) ltac:(lia)).
      destruct (bs_loop f h x st (mid - 1)) as [r p]. cbn [fst snd] in *. destruct IH as [IH1 IH2]. split.
      * rewrite IH1. split; intros [i [Hi Hx]]; exists i; split; auto; try lia.
        assert (i <= mid - 1)%Z; [|lia].
        destruct (Z.le_gt_cases i (mid - 1)); auto. exfalso.
        assert (mv <= nth (Z.to_nat i) h 0) by (apply Hs; lia). lia.
      * constructor; [lia|]. eapply Forall_impl; [|exact IH2]. cbn; intros; lia.
    + destruct (Nat.ltb_spec mv x) as [Hlt2|Hge2].
      * specialize (IH (mid + 1)%Z en ltac:(lia) ltac:(lia) ltac:(lia)).
        destruct (bs_loop f h x (mid + 1) en) as [r p]. cbn [fst snd] in *. destruct IH as [IH1 IH2]. split.
        -- rewrite IH1. split; intros [i [Hi Hx]]; exists i; split; auto; try lia.
           assert (mid + 1 <= i)%Z; [|lia].
           destruct (Z.le_gt_cases (mid + 1) i); auto. exfalso.
           assert (nth (Z.to_nat i) h 0 <= mv) by (apply Hs; lia). lia.
        -- constructor; [lia|]. eapply Forall_impl; [|exact IH2]. cbn; intros; lia.
      * cbn [fst snd]. split; [|constructor; [lia|constructor]].
        split; auto. intros _. exists mid. split; auto. fold mv. lia.
Qed.

(* found <-> member; every probed index is inside the haystack *)
Lemma bsearch_tr_correct h x : nth_sorted h ->
  (fst (bsearch_tr h x) = true <-> In x h) /\
  Forall (fun m => (0 <= m < Z.of_nat (length h))%Z) (snd (bsearch_tr h x)).
Proof.
  intros Hs. unfold bsearch_tr. destruct h as [|a l] eqn:E.
  - cbn. split; [|constructor]. split; [discriminate|tauto].
  - rewrite <- E in *. assert (L : 0 < length h) by (subst h; cbn; lia).
    destruct (bs_loop_spec (length h) h x Hs 0%Z (Z.of_nat (length h) - 1)%Z ltac:(lia) ltac:(lia) ltac:(lia)) as [A B].
    split.
    + rewrite A. split.
      * intros [i [Hi Hx]]. rewrite <- Hx. apply nth_In. lia.
      * intros Hin. destruct (In_nth h x 0 Hin) as [k [Hk Hx]]. exists (Z.of_nat k). rewrite Nat2Z.id. split; auto. lia.
    + eapply Forall_impl; [|exact B]. cbn; intros; lia.
Qed.

Lemma bsearch_correct h x : Sorted le h -> (bsearch h x = true <-> In x h).
Proof. intros Hs. apply (bsearch_tr_correct h x (sorted_nth_sorted h Hs)). Qed.

(* ================================================================== *)
(* B. list helpers: suffix of the record list starting at a record      *)
(* ================================================================== *)
Fixpoint from (c : nat) (l : list nat) : list nat :=
  match l with
  | [] => []
  | r :: rest => if r =? c then l else from c rest
  end.

Fixpoint linked (nx : nat -> nat) (l : list nat) : Prop :=
  match l with
  | [] => True
  | r :: rest => nx r = hd 0 rest /\ linked nx rest
  end.

Lemma from_notin c l : ~ In c l -> from c l = [].
Proof.
  induction l as [|r rest IH]; cbn; auto. intros H.
  destruct (Nat.eqb_spec r c); [tauto|]. apply IH. tauto.
Qed.

Lemma from_cons_ne c r l : r <> c -> from c (r :: l) = from c l.
Proof. intros H. cbn. destruct (Nat.eqb_spec r c); congruence. Qed.

Lemma from_hd l : ~ In 0 l -> from (hd 0 l) l = l.
Proof. destruct l as [|r rest]; cbn; auto. now rewrite Nat.eqb_refl. Qed.

Lemma from_incl c l : incl (from c l) l.
Proof.
  induction l as [|r rest IH]; cbn; [apply incl_refl|].
  destruct (r =? c); [apply incl_refl|]. now apply incl_tl.
Qed.

Lemma from_length c l : length (from c l) <= length l.
Proof.
  induction l as [|r rest IH]; cbn; auto. destruct (r =? c); cbn; lia.
Qed.

Lemma from_in_hd c l : In c l -> exists tl0, from c l = c :: tl0.
Proof.
  induction l as [|r rest IH]; cbn; [tauto|]. intros H.
  destruct (Nat.eqb_spec r c) as [->|Hne]; [eexists; reflexivity|].
  apply IH. destruct H; congruence.
Qed.

Lemma from_next nx l c : NoDup l -> linked nx l -> ~ In 0 l -> In c l ->
  (nx c = 0 /\ from c l = [c]) \/
  (nx c <> 0 /\ In (nx c) l /\ from c l = c :: from (nx c) l).
Proof.
  induction l as [|r rest IH]; intros Hnd Hl H0 Hin; [destruct Hin|].
  inversion Hnd as [|? ? Hr Hnd']; subst. destruct Hl as [Hnx Hl].
  cbn [from]. destruct (Nat.eqb_spec r c) as [->|Hne].
  - destruct rest as [|r2 rest2]; cbn in Hnx.
    + left; auto.
    + right. assert (r2 <> 0) by (intros ->; apply H0; cbn; auto).
      rewrite Hnx. split; auto. split; [cbn; auto|].
      destruct (Nat.eqb_spec c r2) as [->|_]; [exfalso; apply Hr; cbn; auto|].
      cbn. now rewrite Nat.eqb_refl.
  - assert (Hin' : In c rest) by (destruct Hin; congruence).
    destruct (IH Hnd' Hl ltac:(cbn in H0; tauto) Hin') as [[A B]|[A [B D]]]; [left; auto|right].
    split; auto. split; [cbn; auto|].
    destruct (Nat.eqb_spec r (nx c)) as [E|_]; [exfalso; apply Hr; congruence|exact D].
Qed.

Lemma linked_upd_notin nx l r v : ~ In r l -> linked nx l -> linked (upd nx r v) l.
Proof.
  induction l as [|a rest IH]; cbn; auto. intros H [A B]. split.
  - rewrite upd_other; auto.
  - apply IH; tauto.
Qed.

Lemma NoDup_from c l : NoDup l -> NoDup (from c l).
Proof.
  induction l as [|r rest IH]; cbn; auto. intros H. destruct (r =? c); auto.
  inversion H; auto.
Qed.


(* ================================================================== *)
(* C. starting calls                                                    *)
(* ================================================================== *)
Definition same_regs (T T2 : tst) : Prop :=
  joined T2 = joined T /\ rlist T2 = rlist T /\ held T2 = held T.

Definition start_ok (K C : nat) (T : tst) : Prop :=
  match pc T with
  | J1 => joined T = false
  | P1 => joined T = true /\ sl T < K /\ cj T < C
  | C1 => joined T = true /\ sl T < K
  | X0 => joined T = true /\ cj T < C
  | U1 => joined T = true /\ sl T < K /\ held T (sl T) <> 0
  | S1 => joined T = true
  | Fin => True
  | _ => False
  end.

Lemma enter_ok K C T o T' : enter K C T o = Some T' -> same_regs T T' /\ start_ok K C T'.
Proof.
  unfold enter, same_regs, start_ok. destruct o; intros H.
  - destruct (joined T) eqn:J; inversion H; subst; cbn; auto.
  - destruct (joined T) eqn:J; cbn [andb negb] in H; [|discriminate].
    destruct (Nat.ltb_spec s K); cbn [andb negb] in H; [|discriminate].
    destruct (Nat.ltb_spec j C); cbn [andb negb] in H; [|discriminate]. inversion H; subst; cbn; auto.
  - destruct (joined T) eqn:J; cbn [andb negb] in H; [|discriminate].
    destruct (Nat.ltb_spec s K); cbn [andb negb] in H; [|discriminate]. inversion H; subst; cbn; auto.
  - destruct (joined T) eqn:J; cbn [andb negb] in H; [|discriminate].
    destruct (Nat.ltb_spec j C); cbn [andb negb] in H; [|discriminate]. inversion H; subst; cbn; auto.
  - destruct (joined T) eqn:J; cbn [andb negb] in H; [|discriminate].
    destruct (Nat.ltb_spec s K); cbn [andb negb] in H; [|discriminate].
    destruct (Nat.eqb_spec (held T s) 0); cbn [andb negb] in H; [discriminate|]. inversion H; subst; cbn; auto.
  - destruct (joined T) eqn:J; inversion H; subst; cbn; auto.
  - discriminate.
Qed.

Lemma begin_ok K C t T p : forall k,
  same_regs T (fst (begin K C t T p k)) /\ start_ok K C (fst (begin K C t T p k)).
Proof.
  induction p as [|o r IH]; intros k; cbn [begin].
  - cbn. unfold same_regs, start_ok; cbn; auto.
  - destruct (enter K C T o) as [T'|] eqn:E.
    + apply enter_ok in E. destruct E as [A B]. cbn [fst]. split.
      * unfold same_regs in *; cbn; tauto.
      * unfold start_ok in *; cbn. exact B.
    + specialize (IH (S k)). destruct (begin K C t T r (S k)) as [T2 e]. exact IH.
Qed.

Lemma finish_ok K C t T v :
  same_regs T (fst (finish K C t T v)) /\ start_ok K C (fst (finish K C t T v)).
Proof.
  unfold finish. pose proof (begin_ok K C t T (prog T) (opi T)) as H.
  destruct (begin K C t T (prog T) (opi T)) as [T2 e]. exact H.
Qed.

(* ================================================================== *)
(* D. layer 1: the record list and the thresholds' lower bound          *)
(* ================================================================== *)
Definition okh (rc : list nat) (c : nat) : Prop := In c rc \/ c = 0.

Definition rlocalP (K C : nat) (rc : list nat) (nx th : nat -> nat) (t : nat) (T : tst) : Prop :=
  match pc T with
  | J1 => joined T = false
  | J2 => joined T = false /\ okh rc (chead T)
  | J3 => joined T = false /\ okh rc (chead T) /\ nx (S t) = chead T
  | J4 => joined T = false /\ okh rc (chead T) /\ nx (S t) = chead T /\ In (cur T) rc /\
          cnt T + length (from (cur T) rc) = 1 + length (from (chead T) rc)
  | J5 => joined T = false /\ okh rc (chead T) /\ nx (S t) = chead T /\
          cnt T = 1 + length (from (chead T) rc)
  | J6 => joined T = false /\ okh rc (chead T) /\ nx (S t) = chead T /\
          th (S t) = 2 * (1 + length (from (chead T) rc)) * K
  | J7 => joined T = true
  | J8 | J9 => joined T = true /\ In (cur T) (tl (from (S t) rc))
  | P1 | P2 | P3 => joined T = true /\ sl T < K /\ cj T < C
  | C1 => joined T = true /\ sl T < K
  | X0 | X1 => joined T = true /\ cj T < C
  | R1 | S1 => joined T = true
  | S2 => joined T = true /\ In (chead T) rc
  | S3 => joined T = true /\ In (cur T) rc /\ idx T < K
  | S4 => joined T = true /\ In (cur T) rc
  | U1 => joined T = true /\ sl T < K /\ held T (sl T) <> 0
  | Fin => True
  end.

Definition rlocal (s : st) := rlocalP (kslots s) (ncell s) (recs s) (rnext s) (rthr s).

Record RInv (s : st) : Prop := {
  r_K : 1 <= kslots s;
  r_head : head s = hd 0 (recs s);
  r_nodup : NoDup (recs s);
  r_nz : ~ In 0 (recs s);
  r_link : linked (rnext s) (recs s);
  r_join : forall t, joined (thr s t) = true <-> In (S t) (recs s);
  r_thr : forall r, In r (recs s) -> 2 * length (from r (recs s)) * kslots s <= rthr s r;
  r_loc : forall t, rlocal s t (thr s t)
}.

Lemma start_rlocal K C rc nx th t T : start_ok K C T -> rlocalP K C rc nx th t T.
Proof. unfold start_ok, rlocalP. destruct (pc T); auto; tauto. Qed.

Ltac thr_cases u t :=
  destruct (Nat.eq_dec u t) as [->|?];
  [ rewrite ?upd_same in * | rewrite ?(upd_other _ t _ u) in * by assumption ].

(* steps that leave head/recs/rnext/rthr alone *)
Lemma rinv_frame s s' t T' :
  RInv s -> head s' = head s -> recs s' = recs s -> rnext s' = rnext s -> rthr s' = rthr s ->
  kslots s' = kslots s -> ncell s' = ncell s -> thr s' = upd (thr s) t T' ->
  joined T' = joined (thr s t) -> rlocal s t T' -> RInv s'.
Proof.
  intros [IK Ih Ind Inz Il Ij It Iloc] Eh Er En Et EK EC Ethr Ej L.
  constructor; unfold rlocal in *; rewrite ?Eh, ?Er, ?En, ?Et, ?EK, ?EC, ?Ethr; auto.
  - intros u. thr_cases u t; [rewrite Ej|]; apply Ij.
  - intros u. thr_cases u t; auto.
Qed.

Lemma rlocal_other K C rc nx th nx' th' u T :
  nx' (S u) = nx (S u) -> (joined T = false -> th' (S u) = th (S u)) ->
  rlocalP K C rc nx th u T -> rlocalP K C rc nx' th' u T.
Proof.
  intros A B. unfold rlocalP. destruct (pc T); auto; rewrite ?A; auto.
  intros (J & H1 & H2 & H3). rewrite (B J). auto.
Qed.

Lemma rlocal_push K C rc nx th r u T :
  ~ In r rc -> r <> 0 -> r <> S u -> rlocalP K C rc nx th u T -> rlocalP K C (r :: rc) nx th u T.
Proof.
  intros Hn H0 Hu.
  assert (Fr : forall c, okh rc c -> from c (r :: rc) = from c rc).
  { intros c Hc. apply from_cons_ne. intros <-. destruct Hc; tauto. }
  assert (Ok : forall c, okh rc c -> okh (r :: rc) c).
  { intros c [X|X]; [left; right; auto | right; auto]. }
  unfold rlocalP. destruct (pc T); auto.
  - intros [A B]; auto.
  - intros (A & B & D); auto.
  - intros (A & B & D & E & F). rewrite (Fr (cur T)) by (left; auto). rewrite (Fr (chead T)) by auto.
    repeat split; auto. right; auto.
  - intros (A & B & D & E). rewrite Fr by auto. auto.
  - intros (A & B & D & E). rewrite Fr by auto. auto.
  - intros [A B]. rewrite from_cons_ne by auto. auto.
  - intros [A B]. rewrite from_cons_ne by auto. auto.
  - intros [A B]. split; auto. right; auto.
  - intros (A & B & D). repeat split; auto. right; auto.
  - intros (A & B). repeat split; auto. right; auto.
Qed.

Lemma rinv_frame2 s s' t T' :
  RInv s -> head s' = head s -> recs s' = recs s -> kslots s' = kslots s -> ncell s' = ncell s ->
  thr s' = upd (thr s) t T' -> joined T' = joined (thr s t) ->
  linked (rnext s') (recs s) -> (forall r, In r (recs s) -> rthr s r <= rthr s' r) ->
  (forall u, u <> t -> rlocal s u (thr s u) -> rlocal s' u (thr s u)) ->
  rlocal s' t T' -> RInv s'.
Proof.
  intros [IK Ih Ind Inz Il Ij It Iloc] Eh Er EK EC Ethr Ej Hl Hm Ho L.
  constructor; rewrite ?Eh, ?Er, ?EK, ?EC, ?Ethr; auto.
  - intros u. thr_cases u t; [rewrite Ej|]; apply Ij.
  - intros r Hr. specialize (It r Hr). specialize (Hm r Hr). lia.
  - intros u. thr_cases u t; auto.
Qed.

Lemma okh_hd rc : okh rc (hd 0 rc).
Proof. destruct rc; [right|left]; cbn; auto. Qed.

Lemma in_hd_in (x : nat) l : In x l -> In (hd 0 l) l.
Proof. destruct l; cbn; auto. Qed.

Lemma from_in_self c l : In c l -> In c (from c l).
Proof. intros H. destruct (from_in_hd c l H) as [tl0 E]. rewrite E. cbn; auto. Qed.

Lemma from_tl_incl a d l : NoDup l -> In d (tl (from a l)) -> incl (from d l) (tl (from a l)).
Proof.
  induction l as [|r rest IH]; cbn [from]; intros Hnd Hd; [destruct Hd|].
  inversion Hnd as [|? ? Hr Hnd']; subst.
  destruct (Nat.eqb_spec r a) as [->|Hne].
  - cbn [tl] in *. assert (a <> d) by (intros ->; tauto).
    destruct (Nat.eqb_spec a d); [tauto|]. apply from_incl.
  - assert (In d rest).
    { apply (from_incl a rest). destruct (from a rest); [destruct Hd|cbn in Hd; cbn; auto]. }
    destruct (Nat.eqb_spec r d) as [->|_]; [tauto|]. apply IH; auto.
Qed.

Lemma tl_from_incl a l : incl (tl (from a l)) l.
Proof.
  intros x Hx. apply (from_incl a l). destruct (from a l); [destruct Hx|cbn in Hx; cbn; auto].
Qed.

Ltac tsimp :=
  cbn [pc prog opi joined sl cj nd cur chead cnt idx maxp snap rlist held
       set_pc set_prog set_joined set_args set_nd set_cur set_chead set_cnt set_scan set_rlist set_held] in *.
Ltac ssimp :=
  cbn [head recs rnext rthr slot cell pool kslots ncell thr nthr set_thr] in *.

Ltac fin_tac :=
  match goal with
  | |- context [finish ?K ?C ?t ?T ?v] =>
    let H := fresh "Hfin" in
    let T2 := fresh "T2" in let e2 := fresh "e2" in
    pose proof (finish_ok K C t T v) as H; destruct (finish K C t T v) as [T2 e2]; cbn [fst snd] in H |- *
  end.

Section Proofs.
Variable sort : list nat -> list nat.
Hypothesis sort_perm : forall l, Permutation l (sort l).
Hypothesis sort_sorted : forall l, Sorted le (sort l).

Ltac frame_r s t I :=
  eapply (rinv_frame s _ t); [exact I | reflexivity | reflexivity | reflexivity | reflexivity
                              | reflexivity | reflexivity | reflexivity | | ].

Lemma rinv_fin s t T0 T2 :
  RInv s -> joined T0 = joined (thr s t) ->
  same_regs T0 T2 /\ start_ok (kslots s) (ncell s) T2 -> RInv (set_thr s t T2).
Proof.
  intros I J [[A _] B]. frame_r s t I.
  - congruence.
  - apply start_rlocal. exact B.
Qed.

Lemma rinv_step s t : RInv s -> RInv (fst (step sort s t)).
Proof.
  intros I. pose proof I as [IK Ih Ind Inz Il Ij It Iloc].
  unfold step. remember (thr s t) as T eqn:HT.
  assert (LT := Iloc t). rewrite <- HT in LT. unfold rlocal, rlocalP in LT.
  assert (JT : joined T = true <-> In (S t) (recs s)) by (rewrite HT; apply Ij).
  destruct (pc T) eqn:Hpc; cbn [fst].
  - (* J1 *) frame_r s t I; [subst T; reflexivity|]. unfold rlocal, rlocalP; tsimp.
    split; auto. rewrite Ih. apply okh_hd.
  - (* J2 *) destruct LT as [J O].
    assert (NI : ~ In (S t) (recs s)) by (intros X; apply JT in X; congruence).
    eapply (rinv_frame2 s _ t); try reflexivity; try exact I; ssimp.
    + subst T; reflexivity.
    + apply linked_upd_notin; auto.
    + intros u Hu. apply rlocal_other; auto. apply upd_other. congruence.
    + unfold rlocal, rlocalP; tsimp; ssimp. rewrite upd_same. auto.
  - (* J3 *) destruct LT as (J & O & N). frame_r s t I; [subst T; reflexivity|].
    unfold rlocal, rlocalP. rewrite N.
    destruct (Nat.eqb_spec (chead T) 0) as [E|E]; tsimp.
    + rewrite E, (from_notin 0 _ Inz). cbn. rewrite <- E. auto.
    + destruct O as [O|O]; [|contradiction]. repeat split; auto. left; auto.
  - (* J4 *) destruct LT as (J & O & N & Hc & Hn). frame_r s t I; [subst T; reflexivity|].
    unfold rlocal, rlocalP.
    destruct (from_next (rnext s) (recs s) (cur T) Ind Il Inz Hc) as [[A B]|[A [B D]]].
    + rewrite A. cbn [Nat.eqb]. tsimp. rewrite B in Hn. cbn in Hn. repeat split; auto. lia.
    + destruct (Nat.eqb_spec (rnext s (cur T)) 0) as [E|_]; [contradiction|]. tsimp.
      rewrite D in Hn. cbn in Hn. repeat split; auto. lia.
  - (* J5 *) destruct LT as (J & O & N & Hn).
    assert (NI : ~ In (S t) (recs s)) by (intros X; apply JT in X; congruence).
    eapply (rinv_frame2 s _ t); try reflexivity; try exact I; ssimp.
    + subst T; reflexivity.
    + exact Il.
    + intros r Hr. rewrite upd_other; auto. intros ->. tauto.
    + intros u Hu. apply rlocal_other; auto. intros _. apply upd_other. congruence.
    + unfold rlocal, rlocalP; tsimp; ssimp. rewrite upd_same. rewrite Hn. repeat split; auto.
  - (* J6 *) destruct LT as (J & O & N & Hth).
    assert (NI : ~ In (S t) (recs s)) by (intros X; apply JT in X; congruence).
    destruct (Nat.eqb_spec (head s) (chead T)) as [E|E]; cbn [fst].
    + (* the record is published *)
      assert (Efrom : from (chead T) (recs s) = recs s) by (rewrite <- E, Ih; apply from_hd; auto).
      assert (Fr : forall c, okh (recs s) c -> from c (S t :: recs s) = from c (recs s)).
      { intros c Hc. apply from_cons_ne. intros <-. destruct Hc; [tauto|discriminate]. }
      constructor; ssimp; auto.
      * constructor; auto.
      * intros [X|X]; [discriminate|tauto].
      * split; [rewrite N, <- E; exact Ih|exact Il].
      * intros u. thr_cases u t; tsimp.
        -- split; auto. intros _. left; reflexivity.
        -- rewrite Ij. cbn [In]. split; [auto|]. intros [X|X]; [congruence|auto].
      * cbn [In]. intros r [<-|Hr].
        -- cbn [from]. rewrite Nat.eqb_refl. cbn [length]. rewrite Hth, Efrom. lia.
        -- rewrite Fr by (left; auto). apply It; auto.
      * intros u. thr_cases u t.
        -- unfold rlocal, rlocalP; tsimp. auto.
        -- apply rlocal_push; [exact NI | discriminate | congruence | apply Iloc].
    + frame_r s t I; [subst T; reflexivity|]. unfold rlocal, rlocalP; tsimp. split; auto. rewrite Ih. apply okh_hd.
  - (* J7 *) assert (Hin : In (S t) (recs s)) by (apply JT; exact LT).
    destruct (from_next (rnext s) (recs s) (S t) Ind Il Inz Hin) as [[A B]|[A [B D]]].
    + rewrite A. cbn [Nat.eqb]. fin_tac. apply (rinv_fin s t T); auto. congruence.
    + destruct (Nat.eqb_spec (rnext s (S t)) 0) as [E|_]; [contradiction|]. cbn [fst].
      frame_r s t I; [subst T; reflexivity|]. unfold rlocal, rlocalP; tsimp. split; auto.
      rewrite D. cbn [tl]. apply from_in_self; auto.
  - (* J8 *) destruct LT as [J Hc]. assert (Hcr : In (cur T) (recs s)) by (eapply tl_from_incl; eauto).
    eapply (rinv_frame2 s _ t); try reflexivity; try exact I; ssimp.
    + subst T; reflexivity.
    + exact Il.
    + intros r Hr. unfold upd. destruct (r =? cur T) eqn:X; [apply Nat.eqb_eq in X; subst; lia|lia].
    + intros u Hu. apply rlocal_other; auto. intros Ju. apply upd_other. intros X.
      rewrite <- X in Hcr. apply Ij in Hcr. congruence.
    + unfold rlocal, rlocalP; tsimp. auto.
  - (* J9 *) destruct LT as [J Hc]. assert (Hcr : In (cur T) (recs s)) by (eapply tl_from_incl; eauto).
    destruct (from_next (rnext s) (recs s) (cur T) Ind Il Inz Hcr) as [[A B]|[A [B D]]].
    + rewrite A. cbn [Nat.eqb]. fin_tac. apply (rinv_fin s t T); auto. congruence.
    + destruct (Nat.eqb_spec (rnext s (cur T)) 0) as [E|_]; [contradiction|]. cbn [fst].
      frame_r s t I; [subst T; reflexivity|]. unfold rlocal, rlocalP; tsimp. split; auto.
      apply (from_tl_incl (S t) (cur T) (recs s) Ind Hc). rewrite D. right. apply from_in_self; auto.
  - (* P1 *) frame_r s t I; [subst T; reflexivity|]. unfold rlocal, rlocalP; tsimp. exact LT.
  - (* P2 *) frame_r s t I; [subst T; reflexivity|]. unfold rlocal, rlocalP; tsimp. exact LT.
  - (* P3 *) destruct (cell s (cj T) =? nd T); fin_tac.
    + apply (rinv_fin s t (set_held T (upd (held T) (sl T) (nd T)))); auto. tsimp. congruence.
    + apply (rinv_fin s t T); auto. congruence.
  - (* C1 *) fin_tac. destruct Hfin as [[A _] B]. frame_r s t I.
    + tsimp. congruence.
    + apply start_rlocal. exact B.
  - (* X0 *) destruct (pool s) as [|f p]; cbn [fst].
    + fin_tac. apply (rinv_fin s t T); auto. congruence.
    + frame_r s t I; [subst T; reflexivity|]. unfold rlocal, rlocalP; tsimp. exact LT.
  - (* X1 *) frame_r s t I; [subst T; reflexivity|]. unfold rlocal, rlocalP; tsimp. tauto.
  - (* R1 *) destruct (rthr s (S t) <=? length (rlist T)); cbn [fst].
    + frame_r s t I; [subst T; reflexivity|]. unfold rlocal, rlocalP; tsimp. exact LT.
    + fin_tac. apply (rinv_fin s t T); auto. congruence.
  - (* S1 *) frame_r s t I; [subst T; reflexivity|]. unfold rlocal, rlocalP; tsimp. split; auto.
    rewrite Ih. apply (in_hd_in (S t)). apply JT. exact LT.
  - (* S2 *) frame_r s t I; [subst T; reflexivity|]. unfold rlocal, rlocalP; tsimp.
    destruct LT. repeat split; auto.
  - (* S3 *) destruct LT as (J & Hc & Hi). frame_r s t I; [subst T; reflexivity|]. unfold rlocal, rlocalP.
    destruct (Nat.ltb_spec (S (idx T)) (kslots s)); tsimp; auto.
  - (* S4 *) destruct LT as (J & Hc).
    destruct (from_next (rnext s) (recs s) (cur T) Ind Il Inz Hc) as [[A B]|[A [B D]]].
    + rewrite A. cbn [Nat.eqb]. fin_tac. destruct Hfin as [[A' _] B']. frame_r s t I.
      * tsimp. congruence.
      * apply start_rlocal. exact B'.
    + destruct (Nat.eqb_spec (rnext s (cur T)) 0) as [E|_]; [contradiction|]. cbn [fst].
      frame_r s t I; [subst T; reflexivity|]. unfold rlocal, rlocalP; tsimp. repeat split; auto.
  - (* U1 *) fin_tac. apply (rinv_fin s t T); auto. congruence.
  - (* Fin *) exact I.
Qed.

Lemma down_in r p : In r (down p) <-> 1 <= r <= p.
Proof. induction p as [|p IH]; cbn; [lia|]. rewrite IH. lia. Qed.
Lemma down_nodup p : NoDup (down p).
Proof. induction p as [|p IH]; cbn; constructor; auto. rewrite down_in. lia. Qed.
Lemma down_hd p : hd 0 (down p) = p.
Proof. destruct p; reflexivity. Qed.
Lemma down_linked P p : p <= P -> linked (fun r => if r <=? P then r - 1 else 0) (down p).
Proof.
  induction p as [|p IH]; cbn [down linked]; auto. intros H. split; [|apply IH; lia].
  rewrite down_hd. destruct (Nat.leb_spec (S p) P); lia.
Qed.
Lemma down_from r p : 1 <= r <= p -> from r (down p) = down r.
Proof.
  induction p as [|p IH]; [lia|]. intros H. cbn [down from].
  destruct (Nat.eqb_spec (S p) r) as [<-|Hne]; [reflexivity|]. apply IH. lia.
Qed.
Lemma down_length p : length (down p) = p.
Proof. induction p; cbn; auto. Qed.

Lemma init_thr_ok K P C NN progs t :
  let T := thr (init K P C NN progs) t in
  joined T = (t <? P) /\ rlist T = [] /\ (forall i, held T i = 0) /\ start_ok K C T.
Proof.
  cbn [thr init]. destruct (begin_ok K C t (idle (t <? P)) (nth t progs []) 0) as [[A [B D]] E].
  rewrite A, B, D. cbn. auto.
Qed.

Lemma init_rinv K P C NN progs : 1 <= K -> RInv (init K P C NN progs).
Proof.
  intros HK. constructor; cbn [head recs rnext rthr kslots ncell init]; auto.
  - now rewrite down_hd.
  - apply down_nodup.
  - rewrite down_in. lia.
  - apply down_linked. lia.
  - intros t. destruct (init_thr_ok K P C NN progs t) as [A _]. rewrite A, down_in.
    destruct (Nat.ltb_spec t P); split; intros; try lia; auto; discriminate.
  - intros r Hr. apply down_in in Hr. rewrite down_from by lia. rewrite down_length.
    destruct (Nat.leb_spec 1 r); [|lia]. destruct (Nat.leb_spec r P); [|lia]. cbn [andb]. nia.
  - intros t. apply start_rlocal. apply (init_thr_ok K P C NN progs t).
Qed.

(* ================================================================== *)
(* E. layer 2: every node is in exactly one place                       *)
(* ================================================================== *)
Record NInv (s : st) : Prop := {
  n_cell_nz : forall j, j < ncell s -> cell s j <> 0;
  n_cell_inj : forall j j', cell s j = cell s j' -> cell s j <> 0 -> j = j';
  n_pool_nd : NoDup (pool s);
  n_pool_nz : ~ In 0 (pool s);
  n_rl_nd : forall t, NoDup (rlist (thr s t));
  n_rl_nz : forall t, ~ In 0 (rlist (thr s t));
  n_rl_disj : forall t u n, In n (rlist (thr s t)) -> In n (rlist (thr s u)) -> t = u;
  n_rl_cell : forall t n j, In n (rlist (thr s t)) -> cell s j <> n;
  n_pool_cell : forall n j, In n (pool s) -> cell s j <> n;
  n_pool_rl : forall n t, In n (pool s) -> ~ In n (rlist (thr s t));
  n_hand : forall t, pc (thr s t) = X1 ->
     nd (thr s t) <> 0 /\ ~ In (nd (thr s t)) (pool s) /\ (forall j, cell s j <> nd (thr s t)) /\
     (forall u, ~ In (nd (thr s t)) (rlist (thr s u))) /\
     (forall u, u <> t -> pc (thr s u) = X1 -> nd (thr s u) <> nd (thr s t))
}.

Lemma ninv_frame s s' t T' :
  NInv s -> cell s' = cell s -> pool s' = pool s -> ncell s' = ncell s ->
  thr s' = upd (thr s) t T' -> rlist T' = rlist (thr s t) -> pc T' <> X1 -> NInv s'.
Proof.
  intros [A1 A2 A3 A4 A5 A6 A7 A8 A9 A10 A11] Ec Ep EC Ethr Erl Hpc.
  constructor; rewrite ?Ec, ?Ep, ?EC, ?Ethr; auto.
  - intros u. thr_cases u t; [rewrite Erl|]; auto.
  - intros u. thr_cases u t; [rewrite Erl|]; auto.
  - intros u v n. thr_cases u t; thr_cases v t; rewrite ?Erl; eauto.
  - intros u n j. thr_cases u t; rewrite ?Erl; eauto.
  - intros n u. thr_cases u t; rewrite ?Erl; eauto.
  - intros u. thr_cases u t; [contradiction|]. intros Hu. destruct (A11 u Hu) as (B1 & B2 & B3 & B4 & B5).
    repeat split; auto.
    + intros v. thr_cases v t; rewrite ?Erl; auto.
    + intros v Hv. thr_cases v t; [contradiction|]. auto.
Qed.

Lemma nodup_app (l l' : list nat) :
  NoDup l -> NoDup l' -> (forall a, In a l -> ~ In a l') -> NoDup (l ++ l').
Proof.
  induction l as [|a l IH]; cbn; auto. intros H1 H2 H3. inversion H1; subst. constructor.
  - rewrite in_app_iff. intros [X|X]; [tauto|]. apply (H3 a); auto.
  - apply IH; auto.
Qed.

Lemma nodup_rev (l : list nat) : NoDup l -> NoDup (rev l).
Proof. intros H. apply (Permutation_NoDup (Permutation_rev l) H). Qed.

Lemma keep_in sn rl n : In n (scan_keep sort sn rl) <-> In n rl /\ bsearch (sort sn) n = true.
Proof. unfold scan_keep. rewrite <- in_rev, filter_In. tauto. Qed.
Lemma gc_in sn rl n : In n (scan_gc sort sn rl) <-> In n rl /\ bsearch (sort sn) n = false.
Proof. unfold scan_gc. rewrite filter_In, negb_true_iff. tauto. Qed.
Lemma keep_nodup sn rl : NoDup rl -> NoDup (scan_keep sort sn rl).
Proof. intros H. unfold scan_keep. apply nodup_rev, NoDup_filter, H. Qed.
Lemma gc_nodup sn rl : NoDup rl -> NoDup (scan_gc sort sn rl).
Proof. intros H. unfold scan_gc. apply NoDup_filter, H. Qed.

Ltac frame_n s t N :=
  eapply (ninv_frame s _ t); [exact N | reflexivity | reflexivity | reflexivity | reflexivity | | ].

Lemma start_not_X1 K C T : start_ok K C T -> pc T <> X1.
Proof. unfold start_ok. destruct (pc T); auto; discriminate. Qed.

Lemma ninv_fin s t T0 T2 :
  NInv s -> rlist T0 = rlist (thr s t) ->
  same_regs T0 T2 /\ start_ok (kslots s) (ncell s) T2 -> NInv (set_thr s t T2).
Proof.
  intros N J [[_ [A _]] B]. frame_n s t N.
  - congruence.
  - eapply start_not_X1; eauto.
Qed.

Lemma ninv_step s t : RInv s -> NInv s -> NInv (fst (step sort s t)).
Proof.
  intros I N. pose proof N as [A1 A2 A3 A4 A5 A6 A7 A8 A9 A10 A11].
  unfold step. remember (thr s t) as T eqn:HT.
  assert (LT := r_loc s I t). rewrite <- HT in LT. unfold rlocal, rlocalP in LT.
  destruct (pc T) eqn:Hpc; cbn [fst].
  - (* J1 *) frame_n s t N; [subst T; reflexivity|tsimp; discriminate].
  - (* J2 *) frame_n s t N; [subst T; reflexivity|tsimp; discriminate].
  - (* J3 *) frame_n s t N; [subst T; reflexivity|tsimp; destruct (_ =? 0); discriminate].
  - (* J4 *) frame_n s t N; [subst T; reflexivity|tsimp; destruct (_ =? 0); discriminate].
  - (* J5 *) frame_n s t N; [subst T; reflexivity|tsimp; discriminate].
  - (* J6 *) destruct (head s =? chead T); cbn [fst]; (frame_n s t N; [subst T; reflexivity|tsimp; discriminate]).
  - (* J7 *) destruct (rnext s (S t) =? 0); cbn [fst].
    + fin_tac. apply (ninv_fin s t T); auto. congruence.
    + frame_n s t N; [subst T; reflexivity|tsimp; discriminate].
  - (* J8 *) frame_n s t N; [subst T; reflexivity|tsimp; discriminate].
  - (* J9 *) destruct (rnext s (cur T) =? 0); cbn [fst].
    + fin_tac. apply (ninv_fin s t T); auto. congruence.
    + frame_n s t N; [subst T; reflexivity|tsimp; discriminate].
  - (* P1 *) frame_n s t N; [subst T; reflexivity|tsimp; discriminate].
  - (* P2 *) frame_n s t N; [subst T; reflexivity|tsimp; discriminate].
  - (* P3 *) destruct (cell s (cj T) =? nd T); fin_tac.
    + apply (ninv_fin s t (set_held T (upd (held T) (sl T) (nd T)))); auto. tsimp. congruence.
    + apply (ninv_fin s t T); auto. congruence.
  - (* C1 *) fin_tac. destruct Hfin as [[_ [A _]] B]. frame_n s t N.
    + tsimp. congruence.
    + eapply start_not_X1; eauto.
  - (* X0 *) clear A1 A2 A3 A4 A5 A6 A7 A8 A9 A10 A11.
    destruct (pool s) as [|f p] eqn:Hp; cbn [fst].
    + fin_tac. apply (ninv_fin s t T); auto. congruence.
    + pose proof N as [A1 A2 A3 A4 A5 A6 A7 A8 A9 A10 A11].
      assert (Hf : In f (pool s)) by (rewrite Hp; cbn; auto).
      rewrite Hp in A3. apply NoDup_cons_iff in A3. destruct A3 as [Hfp Hndp].
      assert (Sub : forall n, In n p -> In n (pool s)) by (intros; rewrite Hp; cbn; auto).
      constructor; ssimp; auto.
      * intros u. thr_cases u t; tsimp; auto. rewrite HT. apply A5.
      * intros u. thr_cases u t; tsimp; auto. rewrite HT. apply A6.
      * intros u v n. thr_cases u t; thr_cases v t; tsimp; rewrite ?HT; eauto.
      * intros u n j. thr_cases u t; tsimp; rewrite ?HT; eauto.
      * intros n u Hn. thr_cases u t; tsimp; rewrite ?HT; eauto.
      * intros u. thr_cases u t; tsimp.
        -- intros _. split; [intros ->; apply A4; auto|]. split; [auto|]. split; [intros j; apply A9; auto|].
           split.
           ++ intros v. thr_cases v t; tsimp; rewrite ?HT; apply A10; auto.
           ++ intros v Hv. thr_cases v t; [contradiction|]. intros Hx E.
              destruct (A11 v Hx) as (_ & B2 & _). apply B2. rewrite E. auto.
        -- intros Hu. destruct (A11 u Hu) as (B1 & B2 & B3 & B4 & B5). repeat split; auto.
           ++ intros v. thr_cases v t; tsimp; rewrite ?HT; auto.
           ++ intros v Hv. thr_cases v t; tsimp; auto. intros _ E. apply B2. rewrite <- E. auto.
  - (* X1 *) destruct LT as [J Hcj].
    assert (Hx : pc (thr s t) = X1) by (rewrite <- HT; auto).
    destruct (A11 t Hx) as (B1 & B2 & B3 & B4 & B5). rewrite <- HT in *.
    assert (Hold : cell s (cj T) <> 0) by (apply A1; auto).
    set (old := cell s (cj T)) in *.
    assert (RL : forall u, rlist (upd (thr s) t (set_pc (set_rlist T (old :: rlist T)) R1) u) =
                           if u =? t then old :: rlist T else rlist (thr s u)).
    { intros u. unfold upd. destruct (u =? t); reflexivity. }
    assert (CE : forall j, upd (cell s) (cj T) (nd T) j = if j =? cj T then nd T else cell s j) by reflexivity.
    assert (OldNot : forall u, ~ In old (rlist (thr s u))) by (intros u X; apply (A8 u old (cj T) X); reflexivity).
    constructor; ssimp.
    + intros j Hj. rewrite CE. destruct (j =? cj T); auto.
    + intros j j'. rewrite !CE. destruct (Nat.eqb_spec j (cj T)) as [->|Hj]; destruct (Nat.eqb_spec j' (cj T)) as [->|Hj']; auto.
      * intros E _. exfalso. apply (B3 j'). auto.
      * intros E _. exfalso. apply (B3 j). auto.
    + auto.
    + auto.
    + intros u. rewrite RL. destruct (Nat.eqb_spec u t) as [->|]; auto. constructor; [rewrite HT; apply OldNot|rewrite HT; apply A5].
    + intros u. rewrite RL. destruct (Nat.eqb_spec u t) as [->|]; auto. intros [X|X]; [congruence|]. apply (A6 t). rewrite <- HT. auto.
    + intros u v n. rewrite !RL.
      destruct (Nat.eqb_spec u t) as [->|Hu]; destruct (Nat.eqb_spec v t) as [->|Hv]; auto.
      * intros [<-|X] Y; [exfalso; apply (OldNot v); auto|]. apply (A7 t v n); auto. rewrite <- HT; auto.
      * intros Y [<-|X]; [exfalso; apply (OldNot u); auto|]. apply (A7 u t n); auto. rewrite <- HT; auto.
      * apply A7.
    + intros u n j. rewrite RL, CE. destruct (Nat.eqb_spec u t) as [->|Hu].
      * intros [<-|X].
        -- destruct (Nat.eqb_spec j (cj T)) as [->|Hj]; [intros E; apply (B3 (cj T)); auto|].
           intros E. apply Hj. apply A2; auto. rewrite E. auto.
        -- destruct (Nat.eqb_spec j (cj T)) as [->|Hj]; [intros E; apply (B4 t); rewrite <- HT, E; auto|].
           apply (A8 t). rewrite <- HT; auto.
      * intros X. destruct (Nat.eqb_spec j (cj T)) as [->|Hj]; [intros E; apply (B4 u); rewrite E; auto|].
        apply (A8 u); auto.
    + intros n j Hn. rewrite CE. destruct (Nat.eqb_spec j (cj T)) as [->|Hj]; [intros E; apply B2; rewrite E; auto|].
      apply A9; auto.
    + intros n u Hn. rewrite RL. destruct (Nat.eqb_spec u t) as [->|Hu]; [|apply A10; auto].
      intros [<-|X]; [apply (A9 old (cj T) Hn); reflexivity|]. apply (A10 n t Hn). rewrite <- HT; auto.
    + intros u. thr_cases u t; tsimp; [discriminate|]. intros Hu.
      destruct (A11 u Hu) as (D1 & D2 & D3 & D4 & D5). split; auto. split; auto. split.
      * intros j. rewrite CE. destruct (Nat.eqb_spec j (cj T)) as [->|Hj]; auto.
        intros E. apply (D5 t); rewrite <- ?HT; auto.
      * split.
        -- intros v. rewrite RL. destruct (Nat.eqb_spec v t) as [->|Hv]; auto.
           intros [E|X]; [apply (D3 (cj T)); auto|]. apply (D4 t). rewrite <- HT; auto.
        -- intros v Hv. thr_cases v t; tsimp; [discriminate|]. auto.
  - (* R1 *) destruct (rthr s (S t) <=? length (rlist T)); cbn [fst].
    + frame_n s t N; [subst T; reflexivity|tsimp; discriminate].
    + fin_tac. apply (ninv_fin s t T); auto. congruence.
  - (* S1 *) frame_n s t N; [subst T; reflexivity|tsimp; discriminate].
  - (* S2 *) frame_n s t N; [subst T; reflexivity|tsimp; discriminate].
  - (* S3 *) frame_n s t N; [subst T; reflexivity|tsimp; destruct (_ <? _); discriminate].
  - (* S4 *) destruct (rnext s (cur T) =? 0); cbn [fst].
    + fin_tac. destruct Hfin as [[_ [Erl _]] B]. tsimp.
      set (keep := scan_keep sort (snap T) (rlist T)) in *.
      set (gcl := scan_gc sort (snap T) (rlist T)) in *.
      assert (NX : pc T2 <> X1) by (eapply start_not_X1; eauto).
      assert (RL : forall u, rlist (upd (thr s) t T2 u) = if u =? t then keep else rlist (thr s u)).
      { intros u. unfold upd. destruct (u =? t); auto. }
      assert (Kin : forall n, In n keep -> In n (rlist (thr s t))).
      { intros n X. apply keep_in in X. rewrite <- HT. tauto. }
      assert (Gin : forall n, In n gcl -> In n (rlist (thr s t))).
      { intros n X. apply gc_in in X. rewrite <- HT. tauto. }
      assert (KG : forall n, In n keep -> In n gcl -> False).
      { intros n X Y. apply keep_in in X. apply gc_in in Y. destruct X, Y. congruence. }
      assert (Pin : forall n, In n (rev gcl ++ pool s) <-> In n gcl \/ In n (pool s)).
      { intros n. rewrite in_app_iff, <- in_rev. tauto. }
      constructor; ssimp; auto.
      * apply nodup_app; auto.
        -- apply nodup_rev, gc_nodup. rewrite HT. apply A5.
        -- intros a Ha Hb. apply in_rev in Ha. apply (A10 a t Hb). auto.
      * rewrite Pin. intros [X|X]; [apply (A6 t); auto|auto].
      * intros u. rewrite RL. destruct (Nat.eqb_spec u t) as [->|]; auto. apply keep_nodup. rewrite HT. apply A5.
      * intros u. rewrite RL. destruct (Nat.eqb_spec u t) as [->|]; auto. intros X. apply (A6 t). auto.
      * intros u v n. rewrite !RL.
        destruct (Nat.eqb_spec u t) as [->|Hu]; destruct (Nat.eqb_spec v t) as [->|Hv]; auto.
        -- intros X Y. apply (A7 t v n); auto.
        -- intros X Y. apply (A7 u t n); auto.
        -- apply A7.
      * intros u n j. rewrite RL. destruct (Nat.eqb_spec u t) as [->|Hu]; [|apply A8].
        intros X. apply (A8 t). auto.
      * intros n j. rewrite Pin. intros [X|X]; [apply (A8 t); auto|apply A9; auto].
      * intros n u. rewrite Pin, RL. destruct (Nat.eqb_spec u t) as [->|Hu].
        -- intros [X|X] Y; [eapply KG; eauto|]. apply (A10 n t X). auto.
        -- intros [X|X] Y; [apply Hu; symmetry; apply (A7 t u n); auto|]. apply (A10 n u X); auto.
      * intros u. thr_cases u t; [contradiction|]. intros Hu.
        destruct (A11 u Hu) as (D1 & D2 & D3 & D4 & D5). split; auto. split.
        { rewrite Pin. intros [X|X]; [apply (D4 t); auto|auto]. }
        split; auto. split.
        -- intros v. rewrite RL. destruct (Nat.eqb_spec v t) as [->|Hv]; auto. intros X. apply (D4 t). auto.
        -- intros v Hv. thr_cases v t; [contradiction|]. auto.
    + frame_n s t N; [subst T; reflexivity|tsimp; discriminate].
  - (* U1 *) fin_tac. apply (ninv_fin s t T); auto. congruence.
  - (* Fin *) exact N.
Qed.

Lemma init_ninv K P C NN progs : NInv (init K P C NN progs).
Proof.
  assert (RL : forall t, rlist (thr (init K P C NN progs) t) = []) by (intros t; apply init_thr_ok).
  assert (NX : forall t, pc (thr (init K P C NN progs) t) <> X1).
  { intros t. eapply start_not_X1. apply (init_thr_ok K P C NN progs t). }
  constructor; try (intros; rewrite RL in *; cbn in *; tauto); try (intros t; rewrite RL; constructor).
  - cbn [cell ncell init]. intros j Hj. destruct (Nat.ltb_spec j C); lia.
  - cbn [cell init]. intros j j'. destruct (Nat.ltb_spec j C); destruct (Nat.ltb_spec j' C); lia.
  - cbn [pool init]. apply seq_NoDup.
  - cbn [pool init]. rewrite in_seq. lia.
  - cbn [pool cell init]. intros n j Hn. apply in_seq in Hn. destruct (Nat.ltb_spec j C); lia.
  - intros t Ht. exfalso. eapply NX; eauto.
Qed.

(* ================================================================== *)
(* F. layer 3: validated protections                                    *)
(* ================================================================== *)
(* where the scan of thread T stands with respect to slot i of record r
   that holds node n *)
Definition vscan (rc : list nat) (T : tst) (r i n : nat) : Prop :=
  match pc T with
  | S2 => In r (from (chead T) rc)
  | S3 => (r = cur T /\ idx T <= i) \/ In r (tl (from (cur T) rc)) \/ In n (snap T)
  | S4 => In r (tl (from (cur T) rc)) \/ In n (snap T)
  | _ => True
  end.

Definition quiet (T : tst) : Prop :=
  match pc T with X1 | S2 | S3 | S4 | P3 => False | _ => True end.

Record VInv (s : st) : Prop := {
  v_held : forall u i, held (thr s u) i <> 0 ->
     slot s (S u) i = held (thr s u) i /\ joined (thr s u) = true /\ i < kslots s /\
     ~ In (held (thr s u) i) (pool s) /\
     (forall t, pc (thr s t) = X1 -> nd (thr s t) <> held (thr s u) i) /\
     (forall t, In (held (thr s u) i) (rlist (thr s t)) ->
                vscan (recs s) (thr s t) (S u) i (held (thr s u) i));
  v_p3 : forall u, pc (thr s u) = P3 -> slot s (S u) (sl (thr s u)) = nd (thr s u)
}.

Lemma quiet_vscan rc T r i n : quiet T -> vscan rc T r i n.
Proof. unfold quiet, vscan. destruct (pc T); tauto. Qed.

Lemma start_quiet K C T : start_ok K C T -> quiet T.
Proof. unfold start_ok, quiet. destruct (pc T); tauto. Qed.

(* thread t moves to a quiet T' with the same held/joined; slot and pool are
   untouched; the other threads' scan positions are preserved *)
Lemma vinv_frame s s' t T' :
  VInv s -> slot s' = slot s -> pool s' = pool s -> kslots s' = kslots s ->
  thr s' = upd (thr s) t T' -> held T' = held (thr s t) ->
  (joined (thr s t) = true -> joined T' = true) -> quiet T' ->
  (forall u r i n, u <> t -> vscan (recs s) (thr s u) r i n -> vscan (recs s') (thr s u) r i n) ->
  VInv s'.
Proof.
  intros [V1 V2] Es Ep EK Ethr Eh Ej Q Hv.
  assert (HH : forall u, held (upd (thr s) t T' u) = held (thr s u)).
  { intros u. thr_cases u t; auto. }
  constructor; rewrite ?Es, ?Ep, ?EK, ?Ethr.
  - intros u i. rewrite HH. intros Hn. destruct (V1 u i Hn) as (B1 & B2 & B3 & B4 & B5 & B6).
    split; auto. split; [thr_cases u t; auto|]. split; auto. split; auto. split.
    + intros v. thr_cases v t; [unfold quiet in Q; intros X; rewrite X in Q; tauto|]. auto.
    + intros v. thr_cases v t; [intros _; apply quiet_vscan; auto|]. intros X. apply Hv; auto.
  - intros u. thr_cases u t; [unfold quiet in Q; intros X; rewrite X in Q; tauto|]. auto.
Qed.

Lemma vscan_same_recs s s' : recs s' = recs s ->
  forall u r i n, vscan (recs s) (thr s u) r i n -> vscan (recs s') (thr s u) r i n.
Proof. intros E u r i n. rewrite E. auto. Qed.

Ltac ifs := repeat match goal with |- context [if ?b then _ else _] => destruct b end.

Ltac frame_v s t V :=
  eapply (vinv_frame s _ t); [exact V | reflexivity | reflexivity | reflexivity | reflexivity | | | |
                              intros ? ? ? ? _; apply vscan_same_recs; reflexivity ].

Lemma vinv_fin s t T0 T2 :
  VInv s -> held T0 = held (thr s t) -> joined T0 = joined (thr s t) ->
  same_regs T0 T2 /\ start_ok (kslots s) (ncell s) T2 -> VInv (set_thr s t T2).
Proof.
  intros V H J [[A [_ B]] D]. frame_v s t V.
  - congruence.
  - congruence.
  - eapply start_quiet; eauto.
Qed.

(* the heart of hp_safe: a node with a validated protection is never in the
   gc list of a scan that reaches the end of the record list *)
Lemma safe_gc s t u i :
  RInv s -> VInv s -> pc (thr s t) = S4 -> rnext s (cur (thr s t)) = 0 ->
  held (thr s u) i <> 0 ->
  ~ In (held (thr s u) i) (scan_gc sort (snap (thr s t)) (rlist (thr s t))).
Proof.
  intros I V Hpc Hnx Hn Hin. apply gc_in in Hin. destruct Hin as [Hrl Hb].
  destruct (v_held s V u i Hn) as (_ & _ & _ & _ & _ & B6). specialize (B6 t Hrl).
  unfold vscan in B6. rewrite Hpc in B6.
  assert (LT := r_loc s I t). unfold rlocal, rlocalP in LT. rewrite Hpc in LT. destruct LT as [_ Hc].
  destruct (from_next (rnext s) (recs s) _ (r_nodup s I) (r_link s I) (r_nz s I) Hc) as [[A B]|[A _]]; [|contradiction].
  rewrite B in B6. cbn [tl In] in B6. destruct B6 as [[]|Hs].
  assert (bsearch (sort (snap (thr s t))) (held (thr s u) i) = true).
  { apply bsearch_correct; auto. eapply Permutation_in; [apply sort_perm|exact Hs]. }
  congruence.
Qed.

Lemma vscan_push r0 rc T r i n :
  ~ In r0 rc -> (match pc T with S2 => In (chead T) rc | S3 | S4 => In (cur T) rc | _ => True end) ->
  vscan rc T r i n -> vscan (r0 :: rc) T r i n.
Proof.
  intros Hn Hc. unfold vscan. destruct (pc T); auto; rewrite from_cons_ne; auto; intros X; rewrite X in Hn; tauto.
Qed.

(* thread t writes v into its own slot k (hazard_pointer_using / done_using) *)
Lemma vinv_slot s s' t T' k v :
  VInv s -> slot s' = upd (slot s) (S t) (upd (slot s (S t)) k v) -> pool s' = pool s ->
  kslots s' = kslots s -> recs s' = recs s -> thr s' = upd (thr s) t T' ->
  held T' = upd (held (thr s t)) k 0 -> joined T' = joined (thr s t) ->
  (pc T' = P3 -> sl T' = k /\ nd T' = v) ->
  (match pc T' with X1 | S2 | S3 | S4 => False | _ => True end) -> VInv s'.
Proof.
  intros [V1 V2] Es Ep EK Er Ethr Eh Ej Hp3 Q.
  constructor; rewrite ?Es, ?Ep, ?EK, ?Er, ?Ethr.
  - intros u i. thr_cases u t.
    + rewrite Eh. destruct (Nat.eq_dec i k) as [->|Hik]; [rewrite upd_same; tauto|].
      rewrite !(upd_other _ k _ i) by auto. intros Hn.
      destruct (V1 t i Hn) as (B1 & B2 & B3 & B4 & B5 & B6).
      split; auto. split; [congruence|]. split; auto. split; auto. split.
      * intros w. thr_cases w t; [intros X; rewrite X in Q; tauto|auto].
      * intros w. thr_cases w t; [intros _; unfold vscan; destruct (pc T'); tauto|auto].
    + intros Hn. destruct (V1 u i Hn) as (B1 & B2 & B3 & B4 & B5 & B6).
      rewrite upd_other by congruence. split; auto. split; auto. split; auto. split; auto. split.
      * intros w. thr_cases w t; [intros X; rewrite X in Q; tauto|auto].
      * intros w. thr_cases w t; [intros _; unfold vscan; destruct (pc T'); tauto|auto].
  - intros u. thr_cases u t.
    + intros X. destruct (Hp3 X) as [-> ->]. now rewrite !upd_same.
    + intros X. rewrite upd_other by congruence. auto.
Qed.

(* thread t moves on inside a scan (or into it): same held/joined/rlist *)
Lemma vinv_scanstep s t T' :
  VInv s -> held T' = held (thr s t) -> joined T' = joined (thr s t) -> rlist T' = rlist (thr s t) ->
  pc T' <> X1 -> pc T' <> P3 ->
  (forall u i, held (thr s u) i <> 0 -> joined (thr s u) = true -> i < kslots s ->
               slot s (S u) i = held (thr s u) i ->
               In (held (thr s u) i) (rlist (thr s t)) ->
               vscan (recs s) (thr s t) (S u) i (held (thr s u) i) ->
               vscan (recs s) T' (S u) i (held (thr s u) i)) ->
  VInv (set_thr s t T').
Proof.
  intros [V1 V2] Eh Ej Erl NX NP Hv.
  assert (HH : forall u, held (upd (thr s) t T' u) = held (thr s u)).
  { intros u. thr_cases u t; auto. }
  constructor; ssimp.
  - intros u i. rewrite HH. intros Hn. destruct (V1 u i Hn) as (B1 & B2 & B3 & B4 & B5 & B6).
    split; auto. split; [thr_cases u t; congruence|]. split; auto. split; auto. split.
    + intros w. thr_cases w t; [tauto|auto].
    + intros w. thr_cases w t; [|auto]. rewrite Erl. intros X. apply Hv; auto.
  - intros u. thr_cases u t; [tauto|auto].
Qed.

Lemma vinv_step s t : RInv s -> NInv s -> VInv s -> VInv (fst (step sort s t)).
Proof.
  intros I N V. pose proof V as [V1 V2].
  pose proof I as [IK Ih Ind Inz Il Ij It Iloc].
  unfold step. remember (thr s t) as T eqn:HT.
  assert (LT := Iloc t). rewrite <- HT in LT. unfold rlocal, rlocalP in LT.
  assert (JT : joined T = true <-> In (S t) (recs s)) by (rewrite HT; apply Ij).
  destruct (pc T) eqn:Hpc; cbn [fst].
  - (* J1 *) frame_v s t V; subst T; try reflexivity; unfold quiet; tsimp; auto.
  - (* J2 *) frame_v s t V; subst T; try reflexivity; unfold quiet; tsimp; auto.
  - (* J3 *) frame_v s t V; subst T; try reflexivity; unfold quiet; tsimp; ifs; auto.
  - (* J4 *) frame_v s t V; subst T; try reflexivity; unfold quiet; tsimp; ifs; auto.
  - (* J5 *) frame_v s t V; subst T; try reflexivity; unfold quiet; tsimp; auto.
  - (* J6 *) destruct (Nat.eqb_spec (head s) (chead T)) as [E|E]; cbn [fst].
    + assert (NI : ~ In (S t) (recs s)) by (intros X; apply JT in X; destruct LT; congruence).
      eapply (vinv_frame s _ t); try reflexivity; try exact V; ssimp;
        try (subst T; reflexivity); try (unfold quiet; tsimp; tauto).
      intros u r i n Hu. apply vscan_push; auto.
      assert (Lu := Iloc u). unfold rlocal, rlocalP in Lu. destruct (pc (thr s u)); tauto.
    + frame_v s t V; subst T; try reflexivity; unfold quiet; tsimp; auto.
  - (* J7 *) destruct (rnext s (S t) =? 0); cbn [fst].
    + fin_tac. apply (vinv_fin s t T); auto; congruence.
    + frame_v s t V; subst T; try reflexivity; unfold quiet; tsimp; auto.
  - (* J8 *) frame_v s t V; subst T; try reflexivity; unfold quiet; tsimp; auto.
  - (* J9 *) destruct (rnext s (cur T) =? 0); cbn [fst].
    + fin_tac. apply (vinv_fin s t T); auto; congruence.
    + frame_v s t V; subst T; try reflexivity; unfold quiet; tsimp; auto.
  - (* P1 *) frame_v s t V; subst T; try reflexivity; unfold quiet; tsimp; auto.
  - (* P2 *) eapply (vinv_slot s _ t _ (sl T) (nd T)); try reflexivity; try exact V; ssimp; tsimp; subst T; auto.
  - (* P3 *) destruct (Nat.eqb_spec (cell s (cj T)) (nd T)) as [E|E]; fin_tac.
    2:{ apply (vinv_fin s t T); auto; congruence. }
    destruct Hfin as [[A1 [A2 A3]] A4]. tsimp.
    assert (Q : quiet T2) by (eapply start_quiet; eauto).
    destruct LT as (J & Hsl & Hcj).
    assert (HP3 : slot s (S t) (sl T) = nd T) by (rewrite HT; apply V2; rewrite <- HT; auto).
    constructor; ssimp.
    + intros u i. thr_cases u t.
      * rewrite A3. destruct (Nat.eq_dec i (sl T)) as [->|Hi]; [rewrite !upd_same | rewrite !(upd_other _ (sl T) _ i) by auto].
        -- intros Hn. split; auto. split; [congruence|]. split; auto. split.
           { intros X. apply (n_pool_cell s N _ (cj T) X). auto. }
           split.
           ++ intros w. thr_cases w t; [intros X; unfold quiet in Q; rewrite X in Q; tauto|].
              intros X. destruct (n_hand s N w X) as (_ & _ & B3 & _). intros Y. apply (B3 (cj T)). congruence.
           ++ intros w. thr_cases w t; [intros _; apply quiet_vscan; auto|].
              intros X. exfalso. apply (n_rl_cell s N w _ (cj T) X). auto.
        -- intros Hn. rewrite HT in Hn. destruct (V1 t i Hn) as (B1 & B2 & B3 & B4 & B5 & B6). rewrite <- HT in *.
           split; auto. split; [congruence|]. split; auto. split; auto. split.
           ++ intros w. thr_cases w t; [intros X; unfold quiet in Q; rewrite X in Q; tauto|auto].
           ++ intros w. thr_cases w t; [intros _; apply quiet_vscan; auto|auto].
      * intros Hn. destruct (V1 u i Hn) as (B1 & B2 & B3 & B4 & B5 & B6).
        split; auto. split; auto. split; auto. split; auto. split.
        -- intros w. thr_cases w t; [intros X; unfold quiet in Q; rewrite X in Q; tauto|auto].
        -- intros w. thr_cases w t; [intros _; apply quiet_vscan; auto|auto].
    + intros u. thr_cases u t; [intros X; unfold quiet in Q; rewrite X in Q; tauto|auto].
  - (* C1 *) fin_tac. destruct Hfin as [[A1 [A2 A3]] A4]. tsimp.
    assert (Q : quiet T2) by (eapply start_quiet; eauto).
    eapply (vinv_slot s _ t _ (sl T) 0); try reflexivity; try exact V; ssimp; try congruence.
    + intros X. unfold quiet in Q. rewrite X in Q. tauto.
    + unfold quiet in Q. destruct (pc T2); tauto.
  - (* X0 *) destruct (pool s) as [|f p] eqn:Hp; cbn [fst].
    + fin_tac. apply (vinv_fin s t T); auto; congruence.
    + assert (HH : forall u, held (upd (thr s) t (set_pc (set_nd T f) X1) u) = held (thr s u)).
      { intros u. thr_cases u t; tsimp; congruence. }
      constructor; ssimp.
      * intros u i. rewrite HH. intros Hn. destruct (v_held s V u i Hn) as (B1 & B2 & B3 & B4 & B5 & B6).
        rewrite Hp in B4. split; auto. split; [thr_cases u t; tsimp; congruence|]. split; auto.
        split; [cbn in B4; tauto|]. split.
        -- intros w. thr_cases w t; tsimp; auto. intros _ X. apply B4. rewrite X. cbn; auto.
        -- intros w. thr_cases w t; tsimp; auto. intros _. unfold vscan; tsimp; auto.
      * intros u. thr_cases u t; tsimp; [discriminate|apply (v_p3 s V)].
  - (* X1 *) frame_v s t V; subst T; try reflexivity; unfold quiet; tsimp; auto.
  - (* R1 *) destruct (rthr s (S t) <=? length (rlist T)); cbn [fst].
    + frame_v s t V; subst T; try reflexivity; unfold quiet; tsimp; auto.
    + fin_tac. apply (vinv_fin s t T); auto; congruence.
  - (* S1 *) apply vinv_scanstep; auto; tsimp; try congruence; try discriminate.
    intros u i Hn Hj Hi Hs Hr _. unfold vscan; tsimp. rewrite Ih, from_hd by auto. apply Ij. auto.
  - (* S2 *) destruct LT as [J Hc].
    apply vinv_scanstep; auto; tsimp; try congruence; try discriminate.
    intros u i Hn Hj Hi Hs Hr. rewrite <- HT. unfold vscan; rewrite Hpc; tsimp.
    destruct (from_in_hd _ _ Hc) as [tl0 E]. rewrite E. cbn [In tl]. intros [X|X]; [left; split; [auto|lia]|auto].
  - (* S3 *) destruct LT as (J & Hc & Hi).
    apply vinv_scanstep; auto; tsimp; try congruence; try (ifs; discriminate).
    intros u i Hn Hj Hik Hs Hr. rewrite <- HT. unfold vscan at 1; rewrite Hpc.
    intros [[X1 X2]|[X|X]].
    + destruct (Nat.eq_dec (idx T) i) as [Ei|Ei].
      * (* this is the slot being read *)
        rewrite <- X1, Ei, Hs.
        destruct (Nat.eqb_spec (held (thr s u) i) 0); [contradiction|].
        unfold vscan. ifs; tsimp; [right; right|right]; apply in_or_app; right; cbn; auto.
      * destruct (Nat.ltb_spec (S (idx T)) (kslots s)); [|lia].
        unfold vscan; tsimp. left. split; auto. lia.
    + unfold vscan. ifs; tsimp; auto.
    + assert (In (held (thr s u) i) (snap T ++ [slot s (cur T) (idx T)])) by (apply in_or_app; auto).
      unfold vscan. ifs; tsimp; auto.
  - (* S4 *) destruct LT as (J & Hc).
    destruct (from_next (rnext s) (recs s) (cur T) Ind Il Inz Hc) as [[A B]|[A [B D]]].
    + rewrite A. cbn [Nat.eqb]. fin_tac. destruct Hfin as [[A1 [A2 A3]] A4]. tsimp.
      assert (Q : quiet T2) by (eapply start_quiet; eauto).
      assert (HH : forall u, held (upd (thr s) t T2 u) = held (thr s u)).
      { intros u. thr_cases u t; congruence. }
      constructor; ssimp.
      * intros u i. rewrite HH. intros Hn. destruct (V1 u i Hn) as (B1 & B2 & B3 & B4 & B5 & B6).
        split; auto. split; [thr_cases u t; congruence|]. split; auto. split.
        -- rewrite in_app_iff, <- in_rev. intros [X|X]; [|auto].
           apply (safe_gc s t u i I V); rewrite <- ?HT; auto.
        -- split.
           ++ intros w. thr_cases w t; [intros X; unfold quiet in Q; rewrite X in Q; tauto|auto].
           ++ intros w. thr_cases w t; [intros _; apply quiet_vscan; auto|auto].
      * intros u. thr_cases u t; [intros X; unfold quiet in Q; rewrite X in Q; tauto|auto].
    + destruct (Nat.eqb_spec (rnext s (cur T)) 0) as [E|_]; [contradiction|]. cbn [fst].
      apply vinv_scanstep; auto; tsimp; try congruence; try discriminate.
      intros u i Hn Hj Hik Hs Hr. rewrite <- HT. unfold vscan; rewrite Hpc; tsimp.
      rewrite D. cbn [tl]. destruct (from_in_hd _ _ B) as [tl0 E]. rewrite E. cbn [In tl].
      intros [[X|X]|X]; auto. left. split; [auto|lia].
  - (* U1 *) fin_tac. apply (vinv_fin s t T); auto; congruence.
  - (* Fin *) exact V.
Qed.

Lemma init_vinv K P C NN progs : VInv (init K P C NN progs).
Proof.
  constructor.
  - intros u i Hn. exfalso. apply Hn. apply (init_thr_ok K P C NN progs u).
  - intros u Hu. exfalso. destruct (init_thr_ok K P C NN progs u) as (_ & _ & _ & X).
    unfold start_ok in X. rewrite Hu in X. exact X.
Qed.

(* ================================================================== *)
(* G. layer 4: sizes (snapshot, retired list)                           *)
(* ================================================================== *)
Definition in_retire (T : tst) : nat :=
  match pc T with R1 | S1 | S2 | S3 | S4 => 1 | _ => 0 end.

Definition blocal (K : nat) (rc : list nat) (T : tst) : Prop :=
  match pc T with
  | S3 => In (chead T) rc /\
          length (snap T) + length (from (cur T) rc) * K <= length (from (chead T) rc) * K + idx T /\
          length (from (chead T) rc) * K <= maxp T
  | S4 => In (chead T) rc /\
          length (snap T) + length (from (cur T) rc) * K <= length (from (chead T) rc) * K + K /\
          length (from (chead T) rc) * K <= maxp T
  | _ => True
  end.

Definition rbound (s : st) (t : nat) : nat := max (rthr s (S t) - 1) (length (recs s) * kslots s).

Record BInv (s : st) : Prop := {
  b_loc : forall t, blocal (kslots s) (recs s) (thr s t);
  b_nj : forall t, joined (thr s t) = false -> rlist (thr s t) = [];
  b_len : forall t, length (rlist (thr s t)) <= rbound s t + in_retire (thr s t)
}.

Lemma binv_frame s s' t T' :
  BInv s -> recs s' = recs s -> kslots s' = kslots s -> thr s' = upd (thr s) t T' ->
  (forall u, u <> t -> rthr s (S u) <= rthr s' (S u)) ->
  blocal (kslots s) (recs s) T' -> (joined T' = false -> rlist T' = []) ->
  length (rlist T') <= rbound s' t + in_retire T' -> BInv s'.
Proof.
  intros [B1 B2 B3] Er EK Ethr Hm L NJ Len.
  constructor; rewrite ?Er, ?EK, ?Ethr.
  - intros u. thr_cases u t; auto.
  - intros u. thr_cases u t; auto.
  - intros u. thr_cases u t; auto. specialize (B3 u). specialize (Hm u n).
    unfold rbound in *. rewrite Er, EK. lia.
Qed.

Lemma start_blocal K0 C K rc T : start_ok K0 C T -> blocal K rc T.
Proof. unfold start_ok, blocal. destruct (pc T); tauto. Qed.

(* a step of t that leaves recs/rthr/rlist alone and moves between pcs with
   the same in_retire (or leaves the retire) *)
Lemma binv_local s s' t T' :
  BInv s -> recs s' = recs s -> kslots s' = kslots s -> rthr s' = rthr s -> thr s' = upd (thr s) t T' ->
  rlist T' = rlist (thr s t) -> joined T' = joined (thr s t) ->
  in_retire (thr s t) <= in_retire T' -> blocal (kslots s) (recs s) T' -> BInv s'.
Proof.
  intros B Er EK Et Ethr Erl Ej Hr L. eapply (binv_frame s _ t); eauto.
  - intros u _. rewrite Et. auto.
  - rewrite Erl, Ej. apply (b_nj s B).
  - rewrite Erl. pose proof (b_len s B t). unfold rbound in *. rewrite Er, EK, Et. lia.
Qed.

Lemma binv_fin s t T0 T2 :
  BInv s -> rlist T0 = rlist (thr s t) -> joined T0 = joined (thr s t) ->
  length (rlist (thr s t)) <= rbound s t ->
  same_regs T0 T2 /\ start_ok (kslots s) (ncell s) T2 -> BInv (set_thr s t T2).
Proof.
  intros B Erl Ej Len [[A1 [A2 _]] A3]. eapply (binv_frame s _ t); try reflexivity; auto.
  - eapply start_blocal; eauto.
  - rewrite A1, A2, Erl, Ej. apply (b_nj s B).
  - rewrite A2, Erl. unfold rbound in *. ssimp. lia.
Qed.

Lemma keep_length s t :
  NInv s -> length (scan_keep sort (snap (thr s t)) (rlist (thr s t))) <= length (snap (thr s t)).
Proof.
  intros N. apply NoDup_incl_length.
  - apply keep_nodup. apply (n_rl_nd s N).
  - intros n Hn. apply keep_in in Hn. destruct Hn as [_ Hb].
    apply bsearch_correct in Hb; auto. eapply Permutation_in; [apply Permutation_sym, sort_perm|exact Hb].
Qed.

Lemma blocal_push K rc r0 T :
  ~ In r0 rc -> (match pc T with S3 | S4 => In (cur T) rc | _ => True end) ->
  blocal K rc T -> blocal K (r0 :: rc) T.
Proof.
  intros Hn Hc. unfold blocal. destruct (pc T); auto; intros (X1 & X2 & X3);
    (rewrite !from_cons_ne; [split; [right; auto|auto]| | ]; intros Z; rewrite Z in Hn; tauto).
Qed.

Lemma binv_step s t : RInv s -> NInv s -> BInv s -> BInv (fst (step sort s t)).
Proof.
  intros I N B. pose proof B as [B1 B2 B3].
  pose proof I as [IK Ih Ind Inz Il Ij It Iloc].
  unfold step. remember (thr s t) as T eqn:HT.
  assert (LT := Iloc t). rewrite <- HT in LT. unfold rlocal, rlocalP in LT.
  assert (BT := B1 t). rewrite <- HT in BT. unfold blocal in BT.
  assert (LenT := B3 t). rewrite <- HT in LenT. unfold in_retire in LenT.
  assert (NJT := B2 t). rewrite <- HT in NJT.
  assert (JT : joined T = true <-> In (S t) (recs s)) by (rewrite HT; apply Ij).
  assert (FromLe : forall c, length (from c (recs s)) * kslots s <= length (recs s) * kslots s).
  { intros c. apply Nat.mul_le_mono_r. apply from_length. }
  Ltac bloc s t T Hpc := eapply (binv_local s _ t); try reflexivity; eauto; subst T;
                     unfold in_retire, blocal; tsimp; ifs; auto; rewrite ?Hpc; auto.
  destruct (pc T) eqn:Hpc; cbn [fst].
  - (* J1 *) bloc s t T Hpc.
  - (* J2 *) bloc s t T Hpc.
  - (* J3 *) bloc s t T Hpc.
  - (* J4 *) bloc s t T Hpc.
  - (* J5 *) destruct LT as (J & _). eapply (binv_frame s _ t); try reflexivity; tsimp; ssimp; auto.
    + intros u Hu. rewrite upd_other; auto; congruence.
    + rewrite (NJT J). cbn. lia.
  - (* J6 *) destruct LT as (J & O & _). destruct (Nat.eqb_spec (head s) (chead T)) as [E|E]; cbn [fst].
    + assert (NI : ~ In (S t) (recs s)) by (intros X; apply JT in X; congruence).
      constructor; ssimp.
      * intros u. thr_cases u t; [unfold blocal; tsimp; auto|].
        apply blocal_push; auto. assert (Lu := Iloc u). unfold rlocal, rlocalP in Lu.
        destruct (pc (thr s u)); tauto.
      * intros u. thr_cases u t; tsimp; [discriminate|auto].
      * intros u. thr_cases u t; tsimp.
        -- rewrite (NJT J). cbn. lia.
        -- specialize (B3 u). unfold rbound in *; ssimp. cbn [length]. lia.
    + bloc s t T Hpc.
  - (* J7 *) destruct (rnext s (S t) =? 0); cbn [fst].
    + fin_tac. apply (binv_fin s t T); auto; try congruence. rewrite <- HT; lia.
    + bloc s t T Hpc.
  - (* J8 *) eapply (binv_frame s _ t); try reflexivity; tsimp; ssimp; auto.
    + intros u Hu. unfold upd. destruct (Nat.eqb_spec (S u) (cur T)) as [->|]; lia.
    + unfold rbound, in_retire; ssimp; tsimp. unfold rbound in LenT.
      assert (rthr s (S t) <= upd (rthr s) (cur T) (rthr s (cur T) + 2 * kslots s) (S t)).
      { unfold upd. destruct (Nat.eqb_spec (S t) (cur T)) as [<-|]; lia. }
      lia.
  - (* J9 *) destruct (rnext s (cur T) =? 0); cbn [fst].
    + fin_tac. apply (binv_fin s t T); auto; try congruence. rewrite <- HT; lia.
    + bloc s t T Hpc.
  - (* P1 *) bloc s t T Hpc.
  - (* P2 *) bloc s t T Hpc.
  - (* P3 *) destruct (cell s (cj T) =? nd T); fin_tac.
    + apply (binv_fin s t (set_held T (upd (held T) (sl T) (nd T)))); auto; tsimp; try congruence. rewrite <- HT. lia.
    + apply (binv_fin s t T); auto; try congruence. rewrite <- HT; lia.
  - (* C1 *) fin_tac. destruct Hfin as [[A1 [A2 _]] A3]. tsimp.
    eapply (binv_frame s _ t); try reflexivity; ssimp; auto.
    + eapply start_blocal; eauto.
    + rewrite A1, A2. auto.
    + rewrite A2. unfold rbound in *. ssimp. lia.
  - (* X0 *) destruct (pool s) as [|f p]; cbn [fst].
    + fin_tac. apply (binv_fin s t T); auto; try congruence. rewrite <- HT; lia.
    + bloc s t T Hpc.
  - (* X1 *) eapply (binv_frame s _ t); try reflexivity; tsimp; ssimp; auto.
    + destruct LT; congruence.
    + unfold rbound, in_retire in *; ssimp; tsimp. cbn [length]. lia.
  - (* R1 *) destruct (Nat.leb_spec (rthr s (S t)) (length (rlist T))); cbn [fst].
    + bloc s t T Hpc.
    + fin_tac. apply (binv_fin s t T); auto; try congruence. unfold rbound. rewrite <- HT. lia.
  - (* S1 *) bloc s t T Hpc.
  - (* S2 *) destruct LT as [J Hc]. eapply (binv_local s _ t); try reflexivity; eauto; try (subst T; reflexivity).
    + unfold in_retire; tsimp. rewrite <- HT, Hpc. auto.
    + unfold blocal; tsimp. split; auto. split; [cbn; lia|].
      apply Nat.div_le_lower_bound; [lia|]. specialize (It _ Hc). lia.
  - (* S3 *) destruct LT as (J & Hc & Hi). destruct BT as (X1 & X2 & X3).
    eapply (binv_local s _ t); try reflexivity; eauto; try (subst T; reflexivity).
    + unfold in_retire; tsimp. rewrite <- HT, Hpc. ifs; auto.
    + assert (length (if slot s (cur T) (idx T) =? 0 then snap T else snap T ++ [slot s (cur T) (idx T)]) <= S (length (snap T))).
      { destruct (_ =? 0); [lia|]. rewrite app_length. cbn. lia. }
      unfold blocal. destruct (Nat.ltb_spec (S (idx T)) (kslots s)); tsimp; (split; [auto|split; [lia|auto]]).
  - (* S4 *) destruct LT as (J & Hc). destruct BT as (X1 & X2 & X3).
    destruct (from_next (rnext s) (recs s) (cur T) Ind Il Inz Hc) as [[A B']|[A [B' D]]].
    + rewrite A. cbn [Nat.eqb]. fin_tac. destruct Hfin as [[A1 [A2 _]] A3]. tsimp.
      eapply (binv_frame s _ t); try reflexivity; ssimp; auto.
      * eapply start_blocal; eauto.
      * rewrite A1. intros X. congruence.
      * rewrite A2. rewrite B' in X2. cbn [length] in X2.
        pose proof (keep_length s t N) as KL. rewrite <- HT in KL.
        specialize (FromLe (chead T)). unfold rbound. ssimp. lia.
    + destruct (Nat.eqb_spec (rnext s (cur T)) 0) as [E|_]; [contradiction|]. cbn [fst].
      eapply (binv_local s _ t); try reflexivity; eauto; try (subst T; reflexivity).
      * unfold in_retire; tsimp. rewrite <- HT, Hpc. auto.
      * unfold blocal; tsimp. rewrite D in X2. cbn [length] in X2. split; auto. split; [lia|auto].
  - (* U1 *) fin_tac. apply (binv_fin s t T); auto; try congruence. rewrite <- HT; lia.
  - (* Fin *) exact B.
Qed.

Lemma init_binv K P C NN progs : BInv (init K P C NN progs).
Proof.
  constructor.
  - intros t. eapply start_blocal. apply (init_thr_ok K P C NN progs t).
  - intros t _. apply (init_thr_ok K P C NN progs t).
  - intros t. destruct (init_thr_ok K P C NN progs t) as (_ & E & _). rewrite E. cbn. lia.
Qed.

(* ================================================================== *)
(* H. layer 5: retire_threshold = 2*K*(records - joiners that still have
      to bump this record)                                              *)
(* ================================================================== *)
Definition inb (r : nat) (l : list nat) : bool := existsb (Nat.eqb r) l.

Lemma inb_In r l : inb r l = true <-> In r l.
Proof.
  unfold inb. rewrite existsb_exists. split.
  - intros [x [Hx E]]. apply Nat.eqb_eq in E. subst; auto.
  - intros H. exists r. split; auto. apply Nat.eqb_refl.
Qed.

Lemma inb_ext r l l' : (In r l <-> In r l') -> inb r l = inb r l'.
Proof.
  intros H. destruct (inb r l) eqn:A, (inb r l') eqn:B; auto.
  - apply inb_In in A. apply H in A. apply inb_In in A. congruence.
  - apply inb_In in B. apply H in B. apply inb_In in B. congruence.
Qed.

(* does the joiner with record r' (thread state T') still have to bump r ? *)
Definition pendb (rc : list nat) (T' : tst) (r' r : nat) : bool :=
  match pc T' with
  | J7 => inb r (tl (from r' rc))
  | J8 => inb r (from (cur T') rc)
  | J9 => inb r (tl (from (cur T') rc))
  | _ => false
  end.

Definition pendf (rc : list nat) (th : nat -> tst) (r : nat) : nat -> bool :=
  fun r' => pendb rc (th (pred r')) r' r.

Definition pend (s : st) (r : nat) : nat := length (filter (pendf (recs s) (thr s) r) (recs s)).

Record TInv (s : st) : Prop := {
  t_eq : forall r, In r (recs s) -> rthr s r + 2 * pend s r * kslots s = 2 * length (recs s) * kslots s
}.

Lemma filter_count_same (f g : nat -> bool) l :
  (forall x, In x l -> f x = g x) -> length (filter f l) = length (filter g l).
Proof. intros H. rewrite (filter_ext_in f g l H). reflexivity. Qed.

Lemma filter_count_one (f g : nat -> bool) l x :
  NoDup l -> In x l -> f x = true -> g x = false -> (forall y, In y l -> y <> x -> f y = g y) ->
  length (filter f l) = S (length (filter g l)).
Proof.
  induction l as [|a l IH]; intros Hnd Hin Hf Hg Ho; [destruct Hin|].
  inversion Hnd as [|? ? Ha Hnd']; subst. cbn [filter].
  destruct (Nat.eq_dec a x) as [->|Hne].
  - rewrite Hf, Hg. cbn [length]. f_equal. apply filter_count_same.
    intros y Hy. apply Ho; [right; auto|]. intros ->. tauto.
  - rewrite (Ho a); [|left; auto|auto]. destruct Hin as [|Hin]; [congruence|].
    assert (E := IH Hnd' Hin Hf Hg (fun y Hy => Ho y (or_intror Hy))).
    destruct (g a); cbn [length]; lia.
Qed.

Lemma pendf_other rc th t T' r r' :
  r' <> 0 -> r' <> S t -> pendf rc (upd th t T') r r' = pendf rc th r r'.
Proof.
  intros H0 Ht. unfold pendf. rewrite upd_other; auto. destruct r'; [tauto|]. cbn. congruence.
Qed.

Lemma pendf_self rc th t T' r : pendf rc (upd th t T') r (S t) = pendb rc T' (S t) r.
Proof. unfold pendf. cbn [pred]. now rewrite upd_same. Qed.

(* thread t's own contribution is unchanged, recs untouched, rthr untouched on
   published records *)
Lemma tinv_frame s s' t T' :
  RInv s -> TInv s -> recs s' = recs s -> (forall r, In r (recs s) -> rthr s' r = rthr s r) ->
  kslots s' = kslots s -> thr s' = upd (thr s) t T' ->
  (forall r, pendb (recs s) T' (S t) r = pendb (recs s) (thr s t) (S t) r) -> TInv s'.
Proof.
  intros I [Teq] Er Et EK Ethr Hp. constructor. rewrite Er, EK. intros r Hr. rewrite (Et r Hr).
  rewrite <- (Teq r Hr). unfold pend. rewrite Er, Ethr. do 3 f_equal.
  apply filter_count_same. intros r' Hr'.
  assert (r' <> 0) by (intros ->; apply (r_nz s I); auto).
  destruct (Nat.eq_dec r' (S t)) as [->|Hne].
  - rewrite pendf_self. unfold pendf. cbn [pred]. apply Hp.
  - apply pendf_other; auto.
Qed.

Definition bumping (T : tst) : Prop := pc T = J7 \/ pc T = J8 \/ pc T = J9.

Lemma pendb_idle rc T r' r : ~ bumping T -> pendb rc T r' r = false.
Proof. unfold bumping, pendb. destruct (pc T); auto; tauto. Qed.

Lemma start_idle K C T : start_ok K C T -> ~ bumping T.
Proof. unfold start_ok, bumping. destruct (pc T); intros H [X|[X|X]]; try discriminate; auto. Qed.

Lemma tinv_idle s s' t T' :
  RInv s -> TInv s -> recs s' = recs s -> rthr s' = rthr s -> kslots s' = kslots s ->
  thr s' = upd (thr s) t T' -> ~ bumping (thr s t) -> ~ bumping T' -> TInv s'.
Proof.
  intros I T Er Et EK Ethr B1 B2. eapply tinv_frame; eauto.
  - intros r _. now rewrite Et.
  - intros r. rewrite !pendb_idle; auto.
Qed.

Lemma tinv_fin s t T2 :
  RInv s -> TInv s -> (forall r, pendb (recs s) (thr s t) (S t) r = false) ->
  start_ok (kslots s) (ncell s) T2 -> TInv (set_thr s t T2).
Proof.
  intros I TI Hb Hs. eapply (tinv_frame s _ t); try reflexivity; auto.
  intros r. rewrite Hb. apply pendb_idle. eapply start_idle; eauto.
Qed.

Ltac not_bumping := unfold bumping; tsimp; ifs; intros [X|[X|X]]; try discriminate; try congruence.

Lemma tinv_step s t : RInv s -> TInv s -> TInv (fst (step sort s t)).
Proof.
  intros I TI. pose proof TI as [Teq].
  pose proof I as [IK Ih Ind Inz Il Ij It Iloc].
  unfold step. remember (thr s t) as T eqn:HT.
  assert (LT := Iloc t). rewrite <- HT in LT. unfold rlocal, rlocalP in LT.
  assert (JT : joined T = true <-> In (S t) (recs s)) by (rewrite HT; apply Ij).
  assert (IdleT : forall r, ~ bumping T -> pendb (recs s) (thr s t) (S t) r = false).
  { intros r X. apply pendb_idle. rewrite <- HT. exact X. }
  destruct (pc T) eqn:Hpc; cbn [fst].
  - (* J1 *) eapply (tinv_idle s _ t); try reflexivity; auto; try (rewrite <- HT); not_bumping.
  - (* J2 *) eapply (tinv_idle s _ t); try reflexivity; auto; try (rewrite <- HT); not_bumping.
  - (* J3 *) eapply (tinv_idle s _ t); try reflexivity; auto; try (rewrite <- HT); not_bumping.
  - (* J4 *) eapply (tinv_idle s _ t); try reflexivity; auto; try (rewrite <- HT); not_bumping.
  - (* J5 *) destruct LT as (J & _).
    assert (NI : ~ In (S t) (recs s)) by (intros X; apply JT in X; congruence).
    eapply (tinv_frame s _ t); try reflexivity; auto; ssimp.
    + intros r Hr. apply upd_other. intros ->. tauto.
    + intros r. rewrite !pendb_idle; auto; try (rewrite <- HT); not_bumping.
  - (* J6 *) destruct LT as (J & O & Nx & Hth).
    assert (NI : ~ In (S t) (recs s)) by (intros X; apply JT in X; congruence).
    destruct (Nat.eqb_spec (head s) (chead T)) as [E|E]; cbn [fst].
    2:{ eapply (tinv_idle s _ t); try reflexivity; auto; try (rewrite <- HT); not_bumping. }
    assert (Efrom : from (chead T) (recs s) = recs s) by (rewrite <- E, Ih; apply from_hd; auto).
    assert (Fr : forall c, In c (recs s) -> from c (S t :: recs s) = from c (recs s)).
    { intros c Hc. apply from_cons_ne. intros <-. tauto. }
    (* the contribution of an already published record is unchanged *)
    assert (Old : forall r r', In r' (recs s) ->
              pendf (S t :: recs s) (upd (thr s) t (set_pc (set_joined T true) J7)) r r' =
              pendf (recs s) (thr s) r r').
    { intros r r' Hr'. assert (r' <> 0) by (intros ->; tauto).
      assert (r' <> S t) by (intros ->; tauto).
      rewrite pendf_other by auto. unfold pendf, pendb.
      assert (Lu := Iloc (pred r')). unfold rlocal, rlocalP in Lu.
      destruct (pc (thr s (pred r'))); auto.
      - rewrite Fr; auto.
      - destruct Lu as [_ Lu]. rewrite Fr; auto. eapply tl_from_incl; eauto.
      - destruct Lu as [_ Lu]. rewrite Fr; auto. eapply tl_from_incl; eauto. }
    constructor; ssimp. cbn [In length]. intros r [<-|Hr].
    + (* the new head: exact threshold, nobody has to bump it *)
      unfold pend; ssimp. cbn [filter]. rewrite pendf_self. unfold pendb at 1; tsimp.
      cbn [from]. rewrite Nat.eqb_refl. cbn [tl].
      replace (inb (S t) (recs s)) with false
        by (symmetry; destruct (inb (S t) (recs s)) eqn:X; auto; apply inb_In in X; tauto).
      replace (length (filter _ (recs s))) with 0; [rewrite Hth, Efrom; lia|].
      symmetry. apply length_zero_iff_nil.
      assert (Z : forall l, (forall x, In x l -> In x (recs s)) ->
                filter (pendf (S t :: recs s) (upd (thr s) t (set_pc (set_joined T true) J7)) (S t)) l = []).
      { induction l as [|a l IHl]; intros Hl; cbn [filter]; auto.
        rewrite Old by (apply Hl; left; auto). rewrite IHl by (intros; apply Hl; right; auto).
        assert (Ha : In a (recs s)) by (apply Hl; left; auto).
        unfold pendf, pendb. destruct (pc (thr s (pred a))); auto;
          match goal with |- (if inb ?x ?l then _ else _) = _ =>
            destruct (inb x l) eqn:X; auto; apply inb_In in X; exfalso; apply NI end.
        - eapply tl_from_incl; eauto.
        - eapply from_incl; eauto.
        - eapply tl_from_incl; eauto. }
      apply Z. auto.
    + (* an older record: one more joiner has to bump it *)
      unfold pend; ssimp. cbn [filter]. rewrite pendf_self. unfold pendb at 1; tsimp.
      cbn [from]. rewrite Nat.eqb_refl. cbn [tl].
      replace (inb r (recs s)) with true by (symmetry; apply inb_In; auto). cbn [length].
      rewrite (filter_count_same _ (pendf (recs s) (thr s) r)) by (intros; apply Old; auto).
      specialize (Teq r Hr). unfold pend in Teq. lia.
  - (* J7 *) assert (Hin : In (S t) (recs s)) by (apply JT; exact LT).
    destruct (from_next (rnext s) (recs s) (S t) Ind Il Inz Hin) as [[A B]|[A [B D]]].
    + rewrite A. cbn [Nat.eqb]. fin_tac. apply tinv_fin; auto; [|apply Hfin].
      intros r. unfold pendb. rewrite <- HT, Hpc, B. reflexivity.
    + destruct (Nat.eqb_spec (rnext s (S t)) 0) as [E|_]; [contradiction|]. cbn [fst].
      eapply (tinv_frame s _ t); try reflexivity; auto.
      intros r. unfold pendb. rewrite <- HT, Hpc; tsimp. rewrite D. reflexivity.
  - (* J8 *) destruct LT as [J Hc]. assert (Hcr : In (cur T) (recs s)) by (eapply tl_from_incl; eauto).
    assert (Hin : In (S t) (recs s)) by (apply JT; auto).
    destruct (from_in_hd _ _ Hcr) as [tl0 Etl].
    assert (NDf : NoDup (cur T :: tl0)) by (rewrite <- Etl; apply NoDup_from; auto).
    apply NoDup_cons_iff in NDf. destruct NDf as [Hnt _].
    constructor; ssimp. intros r Hr. specialize (Teq r Hr). unfold pend in *; ssimp.
    destruct (Nat.eq_dec r (cur T)) as [->|Hne].
    + rewrite upd_same.
      rewrite (filter_count_one (pendf (recs s) (thr s) (cur T)) (pendf (recs s) (upd (thr s) t (set_pc T J9)) (cur T))
                 (recs s) (S t)) in Teq; auto.
      * lia.
      * unfold pendf, pendb. cbn [pred]. rewrite <- HT, Hpc. apply inb_In. rewrite Etl. left; auto.
      * rewrite pendf_self. unfold pendb; tsimp. rewrite Etl. cbn [tl].
        destruct (inb (cur T) tl0) eqn:X; auto. apply inb_In in X. tauto.
      * intros y Hy Hne. symmetry. apply pendf_other; auto. intros ->. tauto.
    + rewrite upd_other by auto. rewrite <- Teq. do 3 f_equal. apply filter_count_same.
      intros r' Hr'. assert (r' <> 0) by (intros ->; tauto).
      destruct (Nat.eq_dec r' (S t)) as [->|Hn2]; [|apply pendf_other; auto].
      rewrite pendf_self. unfold pendf, pendb. cbn [pred]. rewrite <- HT, Hpc; tsimp.
      apply inb_ext. rewrite Etl. cbn [tl In]. split; [auto|]. intros [X|X]; [congruence|auto].
  - (* J9 *) destruct LT as [J Hc]. assert (Hcr : In (cur T) (recs s)) by (eapply tl_from_incl; eauto).
    destruct (from_next (rnext s) (recs s) (cur T) Ind Il Inz Hcr) as [[A B]|[A [B D]]].
    + rewrite A. cbn [Nat.eqb]. fin_tac. apply tinv_fin; auto; [|apply Hfin].
      intros r. unfold pendb. rewrite <- HT, Hpc, B. reflexivity.
    + destruct (Nat.eqb_spec (rnext s (cur T)) 0) as [E|_]; [contradiction|]. cbn [fst].
      eapply (tinv_frame s _ t); try reflexivity; auto.
      intros r. unfold pendb. rewrite <- HT, Hpc; tsimp. rewrite D. reflexivity.
  - (* P1 *) eapply (tinv_idle s _ t); try reflexivity; auto; try (rewrite <- HT); not_bumping.
  - (* P2 *) eapply (tinv_idle s _ t); try reflexivity; auto; try (rewrite <- HT); not_bumping.
  - (* P3 *) destruct (cell s (cj T) =? nd T); fin_tac; (apply tinv_fin; auto; [|apply Hfin]);
      intros r; apply IdleT; not_bumping.
  - (* C1 *) fin_tac. eapply (tinv_idle s _ t); try reflexivity; auto.
    + rewrite <- HT. not_bumping.
    + eapply start_idle. apply Hfin.
  - (* X0 *) destruct (pool s) as [|f p]; cbn [fst].
    + fin_tac. apply tinv_fin; auto; [|apply Hfin]. intros r; apply IdleT; not_bumping.
    + eapply (tinv_idle s _ t); try reflexivity; auto; try (rewrite <- HT); not_bumping.
  - (* X1 *) eapply (tinv_idle s _ t); try reflexivity; auto; try (rewrite <- HT); not_bumping.
  - (* R1 *) destruct (rthr s (S t) <=? length (rlist T)); cbn [fst].
    + eapply (tinv_idle s _ t); try reflexivity; auto; try (rewrite <- HT); not_bumping.
    + fin_tac. apply tinv_fin; auto; [|apply Hfin]. intros r; apply IdleT; not_bumping.
  - (* S1 *) eapply (tinv_idle s _ t); try reflexivity; auto; try (rewrite <- HT); not_bumping.
  - (* S2 *) eapply (tinv_idle s _ t); try reflexivity; auto; try (rewrite <- HT); not_bumping.
  - (* S3 *) eapply (tinv_idle s _ t); try reflexivity; auto; try (rewrite <- HT); not_bumping.
  - (* S4 *) destruct (rnext s (cur T) =? 0); cbn [fst].
    + fin_tac. eapply (tinv_idle s _ t); try reflexivity; auto.
      * rewrite <- HT. not_bumping.
      * eapply start_idle. apply Hfin.
    + eapply (tinv_idle s _ t); try reflexivity; auto; try (rewrite <- HT); not_bumping.
  - (* U1 *) fin_tac. apply tinv_fin; auto; [|apply Hfin]. intros r; apply IdleT; not_bumping.
  - (* Fin *) exact TI.
Qed.

Lemma init_tinv K P C NN progs : TInv (init K P C NN progs).
Proof.
  constructor. cbn [recs rthr kslots init]. intros r Hr. apply down_in in Hr.
  destruct (Nat.leb_spec 1 r); [|lia]. destruct (Nat.leb_spec r P); [|lia]. cbn [andb].
  rewrite down_length. unfold pend. cbn [recs init].
  replace (length (filter _ (down P))) with 0; [lia|].
  symmetry. apply length_zero_iff_nil.
  assert (Z : forall rc l, filter (pendf rc (thr (init K P C NN progs)) r) l = []).
  { intros rc l. induction l as [|a l IH]; cbn [filter]; auto.
    unfold pendf at 1. rewrite pendb_idle; auto.
    eapply start_idle. apply (init_thr_ok K P C NN progs (pred a)). }
  apply Z.
Qed.

(* ================================================================== *)
(* I. the combined invariant over every reachable state                 *)
(* ================================================================== *)
Record Inv (s : st) : Prop := {
  i_r : RInv s; i_n : NInv s; i_v : VInv s; i_b : BInv s; i_t : TInv s
}.

Lemma init_inv K P C NN progs : 1 <= K -> Inv (init K P C NN progs).
Proof.
  intros HK. constructor; [apply init_rinv; auto|apply init_ninv|apply init_vinv|apply init_binv|apply init_tinv].
Qed.

Lemma step_inv s t : Inv s -> Inv (fst (step sort s t)).
Proof.
  intros [R N V B T]. constructor.
  - apply rinv_step; auto.
  - apply ninv_step; auto.
  - apply vinv_step; auto.
  - apply binv_step; auto.
  - apply tinv_step; auto.
Qed.

Theorem reachable_inv K P C NN progs s :
  1 <= K -> reachable (M sort) (init K P C NN progs) s -> Inv s.
Proof.
  intros HK. apply (invariant_ind (M sort) Inv (init K P C NN progs)).
  - apply init_inv; auto.
  - intros s0 t I _. apply step_inv; exact I.
Qed.

(* ================================================================== *)
(* J. the statements used by Properties_C14.v                           *)
(* ================================================================== *)
(* nodes passed to the gc callback if thread t is granted now, in call order *)
Definition gc_list (s : st) (t : nat) : list nat :=
  match pc (thr s t) with
  | S4 => if rnext s (cur (thr s t)) =? 0
          then scan_gc sort (snap (thr s t)) (rlist (thr s t)) else []
  | _ => []
  end.

(* the retired list the scan leaves behind *)
Definition keep_list (s : st) (t : nat) : list nat :=
  scan_keep sort (snap (thr s t)) (rlist (thr s t)).

Definition scan_ends (s : st) (t : nat) : Prop :=
  pc (thr s t) = S4 /\ rnext s (cur (thr s t)) = 0.

(* tie of gc_list/keep_list to the step function: the gc events of the step
   are exactly gc_list, the pool receives them, the retired list becomes keep_list *)
Lemma scan_end_step s t : scan_ends s t ->
  let s' := fst (step sort s t) in
  pool s' = rev (gc_list s t) ++ pool s /\
  rlist (thr s' t) = keep_list s t /\
  exists e1 e2, snd (step sort s t) = e1 ++ gc_events t (gc_list s t) ++ e2.
Proof.
  intros [Hpc Hnx]. unfold step, gc_list, keep_list. rewrite Hpc, Hnx. cbn [Nat.eqb].
  pose proof (finish_ok (kslots s) (ncell s) t
    (set_rlist (thr s t) (scan_keep sort (snap (thr s t)) (rlist (thr s t))))
    (Z.of_nat (length (scan_keep sort (snap (thr s t)) (rlist (thr s t)))))) as [[_ [A _]] _].
  destruct (finish _ _ _ _ _) as [T2 e2]. cbn [fst snd] in *. ssimp. rewrite upd_same.
  split; auto. split; auto. eexists. eexists. reflexivity.
Qed.

(* no step other than the end of a scan calls the gc callback *)
Lemma gc_only_at_scan_end s t : ~ scan_ends s t -> gc_list s t = [].
Proof.
  unfold scan_ends, gc_list. destruct (pc (thr s t)); auto.
  destruct (Nat.eqb_spec (rnext s (cur (thr s t))) 0); auto. tauto.
Qed.

Lemma safe_of_inv s t u i :
  Inv s -> held (thr s u) i <> 0 -> ~ In (held (thr s u) i) (gc_list s t).
Proof.
  intros I Hn. unfold gc_list. destruct (pc (thr s t)) eqn:Hpc; auto.
  destruct (Nat.eqb_spec (rnext s (cur (thr s t))) 0) as [E|E]; auto.
  apply safe_gc; auto; apply I.
Qed.

(* what "validated" means in the model: the only step that sets held[i] is
   the validating re-read of the source cell, after slot i was written *)
Lemma held_set_only_by_validation s t u i :
  Inv s -> held (thr (fst (step sort s t)) u) i <> 0 -> held (thr s u) i = 0 ->
  u = t /\ pc (thr s t) = P3 /\ i = sl (thr s t) /\
  cell s (cj (thr s t)) = nd (thr s t) /\ slot s (S t) i = nd (thr s t) /\
  held (thr (fst (step sort s t)) u) i = nd (thr s t).
Proof.
  intros I Hn H0.
  assert (HF : forall T v, held (fst (finish (kslots s) (ncell s) t T v)) = held T).
  { intros T v. apply (finish_ok (kslots s) (ncell s) t T v). }
  destruct (Nat.eq_dec u t) as [->|Hne].
  2:{ exfalso. apply Hn. rewrite <- H0. f_equal.
      unfold step. destruct (pc (thr s t)); cbn [fst]; ifs; try reflexivity;
        repeat match goal with |- context [finish ?K ?C ?t ?T ?v] => destruct (finish K C t T v) end;
        try (destruct (pool s)); cbn [fst]; ssimp; rewrite ?upd_other by auto; reflexivity. }
  unfold step in Hn |- *. remember (thr s t) as T eqn:HT.
  destruct (pc T) eqn:Hpc; cbn [fst] in Hn |- *;
    try (exfalso; apply Hn; ifs; cbn [fst]; ssimp; rewrite ?upd_same; tsimp; exact H0);
    try (exfalso; apply Hn; ifs;
         repeat match goal with |- context [finish ?K ?C ?t ?T ?v] =>
                  let E := fresh in pose proof (HF T v) as E; destruct (finish K C t T v) end;
         cbn [fst] in *; ssimp; rewrite ?upd_same; tsimp; congruence).
  - (* P2 *) exfalso. apply Hn. ssimp. rewrite upd_same. tsimp. unfold upd.
    destruct (i =? sl T); auto.
  - (* P3 *) destruct (Nat.eqb_spec (cell s (cj T)) (nd T)) as [E|E].
    + pose proof (HF (set_held T (upd (held T) (sl T) (nd T))) (nname (nd T))) as E2.
      destruct (finish _ _ _ _ _) as [T2 e2]. cbn [fst] in *. ssimp. rewrite upd_same in *. tsimp.
      rewrite E2 in *. destruct (Nat.eq_dec i (sl T)) as [->|Hi].
      * rewrite upd_same in *. repeat split; auto.
        rewrite HT. apply (v_p3 s (i_v s I)). rewrite <- HT; auto.
      * rewrite upd_other in Hn by auto. tauto.
    + exfalso. apply Hn. pose proof (HF T 0%Z) as E2. destruct (finish _ _ _ _ _) as [T2 e2].
      cbn [fst] in *. ssimp. rewrite upd_same. congruence.
  - (* C1 *) exfalso. apply Hn.
    pose proof (HF (set_held T (upd (held T) (sl T) 0)) 1%Z) as E2. destruct (finish _ _ _ _ _) as [T2 e2].
    cbn [fst] in *. ssimp. rewrite upd_same. rewrite E2. tsimp. unfold upd. destruct (i =? sl T); auto.
  - (* X0 *) exfalso. apply Hn. destruct (pool s).
    + pose proof (HF T (-1)%Z) as E2. destruct (finish _ _ _ _ _) as [T2 e2].
      cbn [fst] in *. ssimp. rewrite upd_same. congruence.
    + cbn [fst]. ssimp. rewrite upd_same. tsimp. auto.
Qed.

Lemma use_live_of_inv s t :
  Inv s -> pc (thr s t) = U1 -> in_pool s (held (thr s t) (sl (thr s t))) = false.
Proof.
  intros I Hpc. assert (LT := r_loc s (i_r s I) t). unfold rlocal, rlocalP in LT. rewrite Hpc in LT.
  destruct LT as (_ & _ & Hn). destruct (v_held s (i_v s I) t _ Hn) as (_ & _ & _ & Hp & _).
  unfold in_pool. destruct (existsb _ _) eqn:X; auto. exfalso. apply Hp.
  apply existsb_exists in X. destruct X as [x [Hx E]]. apply Nat.eqb_eq in E. subst; auto.
Qed.

(* the partition computed by a scan, for any snapshot and retired list *)
Lemma filter_partition_perm (f : nat -> bool) l :
  Permutation l (filter f l ++ filter (fun n => negb (f n)) l).
Proof.
  induction l as [|a l IH]; cbn [filter]; auto. destruct (f a); cbn [negb app].
  - constructor; auto.
  - apply Permutation_cons_app; auto.
Qed.

Lemma scan_partition_gen sn rl : NoDup rl ->
  Permutation rl (scan_keep sort sn rl ++ scan_gc sort sn rl) /\
  (forall n, In n (scan_gc sort sn rl) <-> In n rl /\ ~ In n sn) /\
  (forall n, In n (scan_keep sort sn rl) <-> In n rl /\ In n sn) /\
  NoDup (scan_keep sort sn rl) /\ NoDup (scan_gc sort sn rl).
Proof.
  intros Hnd.
  assert (BS : forall n, bsearch (sort sn) n = true <-> In n sn).
  { intros n. rewrite bsearch_correct by auto. split; intros H.
    - eapply Permutation_in; [apply Permutation_sym, sort_perm|exact H].
    - eapply Permutation_in; [apply sort_perm|exact H]. }
  split; [|split; [|split; [|split]]].
  - unfold scan_keep, scan_gc. eapply Permutation_trans; [apply (filter_partition_perm (bsearch (sort sn)))|].
    apply Permutation_app_tail. apply Permutation_rev.
  - intros n. rewrite gc_in, <- BS. destruct (bsearch (sort sn) n); split; intros [A B]; split; auto; congruence.
  - intros n. rewrite keep_in, BS. tauto.
  - apply keep_nodup; auto.
  - apply gc_nodup; auto.
Qed.

Lemma reclaim_once_of_inv s t n :
  Inv s -> In n (gc_list s t) ->
  In n (rlist (thr s t)) /\ ~ In n (pool s) /\ (forall u, u <> t -> ~ In n (rlist (thr s u))) /\
  (forall j, cell s j <> n) /\ NoDup (gc_list s t) /\
  ~ In n (keep_list s t).
Proof.
  intros I Hin. pose proof (i_n s I) as N. unfold gc_list in *.
  destruct (pc (thr s t)); try (destruct Hin; fail).
  destruct (rnext s (cur (thr s t)) =? 0); [|destruct Hin].
  pose proof Hin as Hin'. apply gc_in in Hin. destruct Hin as [Hr Hb].
  split; auto. split; [intros X; apply (n_pool_rl s N n t X Hr)|].
  split; [intros u Hu X; apply Hu; symmetry; apply (n_rl_disj s N t u n); auto|].
  split; [intros j; apply (n_rl_cell s N t n j Hr)|].
  split; [apply gc_nodup, (n_rl_nd s N)|].
  unfold keep_list. rewrite keep_in. intros [_ X]. congruence.
Qed.

Definition nrec (s : st) : nat := length (recs s).

Lemma thr_le_of_inv s r : Inv s -> In r (recs s) ->
  2 * length (from r (recs s)) * kslots s <= rthr s r <= 2 * nrec s * kslots s.
Proof.
  intros I Hr. split; [apply (r_thr s (i_r s I) r Hr)|].
  pose proof (t_eq s (i_t s I) r Hr). unfold nrec. lia.
Qed.

Lemma bounded_of_inv s t : Inv s ->
  length (rlist (thr s t)) <= max (rthr s (S t) - 1) (nrec s * kslots s) + in_retire (thr s t) /\
  length (rlist (thr s t)) <= 2 * nrec s * kslots s.
Proof.
  intros I. pose proof (b_len s (i_b s I) t) as L. unfold rbound in L. split; [exact L|].
  destruct (joined (thr s t)) eqn:J.
  - assert (Hin : In (S t) (recs s)) by (apply (r_join s (i_r s I)); auto).
    destruct (thr_le_of_inv s (S t) I Hin) as [_ U].
    assert (1 <= nrec s) by (unfold nrec; destruct (recs s); [destruct Hin|cbn; lia]).
    pose proof (r_K s (i_r s I)). unfold in_retire in L. fold (nrec s) in L.
    assert (in_retire (thr s t) <= 1) by (unfold in_retire; destruct (pc (thr s t)); lia).
    unfold in_retire in *. nia.
  - rewrite (b_nj s (i_b s I) t J). cbn. lia.
Qed.

Lemma after_scan_of_inv s t : Inv s -> scan_ends s t ->
  length (keep_list s t) <= length (from (chead (thr s t)) (recs s)) * kslots s /\
  length (keep_list s t) <= nrec s * kslots s.
Proof.
  intros I [Hpc Hnx]. pose proof (i_r s I) as R.
  assert (BT := b_loc s (i_b s I) t). unfold blocal in BT. rewrite Hpc in BT. destruct BT as (X1 & X2 & X3).
  assert (LT := r_loc s R t). unfold rlocal, rlocalP in LT. rewrite Hpc in LT. destruct LT as [_ Hc].
  destruct (from_next (rnext s) (recs s) _ (r_nodup s R) (r_link s R) (r_nz s R) Hc) as [[A B]|[A _]]; [|contradiction].
  rewrite B in X2. cbn [length] in X2. pose proof (keep_length s t (i_n s I)) as KL. unfold keep_list.
  assert (length (from (chead (thr s t)) (recs s)) * kslots s <= nrec s * kslots s).
  { apply Nat.mul_le_mono_r. apply from_length. }
  lia.
Qed.

(* an unprotected retired node does not survive the scan *)
Lemma unprotected_reclaimed s t n : Inv s -> scan_ends s t ->
  In n (rlist (thr s t)) -> ~ In n (snap (thr s t)) -> In n (gc_list s t).
Proof.
  intros I [Hpc Hnx] Hr Hs. unfold gc_list. rewrite Hpc, Hnx. cbn [Nat.eqb].
  apply (scan_partition_gen (snap (thr s t)) (rlist (thr s t)) (n_rl_nd s (i_n s I) t)). auto.
Qed.

(* the retire test: a scan starts iff retired_count >= retire_threshold *)
Lemma retire_triggers s t : pc (thr s t) = R1 ->
  (rthr s (S t) <= length (rlist (thr s t)) -> pc (thr (fst (step sort s t)) t) = S1) /\
  (length (rlist (thr s t)) < rthr s (S t) ->
     start_ok (kslots s) (ncell s) (thr (fst (step sort s t)) t) /\ rlist (thr (fst (step sort s t)) t) = rlist (thr s t)).
Proof.
  intros Hpc. unfold step. rewrite Hpc. split; intros H.
  - destruct (Nat.leb_spec (rthr s (S t)) (length (rlist (thr s t)))); [|lia]. cbn [fst]. ssimp.
    rewrite upd_same. reflexivity.
  - destruct (Nat.leb_spec (rthr s (S t)) (length (rlist (thr s t)))); [lia|].
    pose proof (finish_ok (kslots s) (ncell s) t (thr s t) (Z.of_nat (length (rlist (thr s t))))) as [[_ [A _]] B].
    destruct (finish _ _ _ _ _) as [T2 e2]. cbn [fst] in *. ssimp. rewrite upd_same. auto.
Qed.

Lemma from_suffix c l : exists pre, l = pre ++ from c l.
Proof.
  induction l as [|r rest [pre IH]]; cbn [from]; [exists []; reflexivity|].
  destruct (r =? c); [exists []; reflexivity|]. exists (r :: pre). cbn. now rewrite <- IH.
Qed.

Lemma hd_not_in_tl_from c l : NoDup l -> ~ In (hd 0 l) (tl (from c l)).
Proof.
  intros Hnd. destruct (from_suffix c l) as [pre E].
  destruct (from c l) as [|c' tl0] eqn:F; [cbn; tauto|]. cbn [tl].
  rewrite E in Hnd |- *. destruct pre as [|p pre]; cbn [app hd] in *.
  - inversion Hnd; auto.
  - inversion Hnd as [|? ? Hp _]; subst. intros X. apply Hp. apply in_or_app. right. right. exact X.
Qed.

Lemma filter_nil_all (f : nat -> bool) l : (forall x, In x l -> f x = false) -> filter f l = [].
Proof.
  induction l as [|a l IH]; cbn [filter]; auto. intros H. rewrite (H a) by (left; auto).
  apply IH. intros x Hx. apply H. right; auto.
Qed.

Lemma inb_false r l : ~ In r l -> inb r l = false.
Proof. intros H. destruct (inb r l) eqn:X; auto. apply inb_In in X. tauto. Qed.

Lemma threshold_of_inv s r : Inv s -> In r (recs s) ->
  (2 * length (from r (recs s)) * kslots s <= rthr s r <= 2 * nrec s * kslots s) /\
  (r = head s -> rthr s r = 2 * nrec s * kslots s) /\
  ((forall t, ~ bumping (thr s t)) -> rthr s r = 2 * nrec s * kslots s).
Proof.
  intros I Hr. split; [apply thr_le_of_inv; auto|].
  pose proof (t_eq s (i_t s I) r Hr) as E. pose proof (i_r s I) as R. unfold nrec. split.
  - intros Eh. replace (pend s r) with 0 in E; [lia|]. symmetry. unfold pend.
    apply length_zero_iff_nil. apply filter_nil_all. intros r' Hr'.
    unfold pendf, pendb. assert (Lu := r_loc s R (pred r')). unfold rlocal, rlocalP in Lu.
    assert (Er' : S (pred r') = r').
    { destruct r'; [exfalso; apply (r_nz s R); auto|reflexivity]. }
    rewrite Er' in Lu. rewrite Eh, (r_head s R).
    destruct (pc (thr s (pred r'))); auto; apply inb_false.
    + apply hd_not_in_tl_from. apply (r_nodup s R).
    + destruct Lu as [_ Lu]. intros X. apply (hd_not_in_tl_from r' (recs s) (r_nodup s R)).
      apply (from_tl_incl r' _ (recs s) (r_nodup s R) Lu). exact X.
    + destruct Lu as [_ Lu]. intros X. apply (hd_not_in_tl_from r' (recs s) (r_nodup s R)).
      apply (from_tl_incl r' _ (recs s) (r_nodup s R) Lu).
      destruct (from (cur (thr s (pred r'))) (recs s)); [destruct X|right; exact X].
  - intros Q. replace (pend s r) with 0 in E; [lia|]. symmetry. unfold pend.
    apply length_zero_iff_nil. apply filter_nil_all. intros r' _. unfold pendf. apply pendb_idle. apply Q.
Qed.

Lemma plist_of_inv s t : Inv s ->
  (pc (thr s t) = S3 -> length (snap (thr s t)) < maxp (thr s t)) /\
  (pc (thr s t) = S4 -> length (snap (thr s t)) <= maxp (thr s t)).
Proof.
  intros I. pose proof (i_r s I) as R.
  assert (BT := b_loc s (i_b s I) t). unfold blocal in BT.
  assert (LT := r_loc s R t). unfold rlocal, rlocalP in LT.
  split; intros Hpc; rewrite Hpc in *.
  - destruct BT as (X1 & X2 & X3). destruct LT as (_ & Hc & Hi).
    destruct (from_in_hd _ _ Hc) as [tl0 E]. rewrite E in X2. cbn [length] in X2. nia.
  - destruct BT as (X1 & X2 & X3). destruct LT as (_ & Hc).
    destruct (from_in_hd _ _ Hc) as [tl0 E]. rewrite E in X2. cbn [length] in X2. nia.
Qed.

End Proofs.

(* ================================================================== *)
(* K. the executable instance: insertion sort is a sorted permutation   *)
(* ================================================================== *)
Lemma insert_perm x l : Permutation (x :: l) (insert x l).
Proof.
  induction l as [|y r IH]; cbn [insert]; auto. destruct (x <=? y); auto.
  eapply Permutation_trans; [apply perm_swap|]. constructor. exact IH.
Qed.

Lemma isort_perm l : Permutation l (isort l).
Proof.
  induction l as [|x r IH]; cbn [isort]; auto.
  eapply Permutation_trans; [|apply insert_perm]. constructor. exact IH.
Qed.

Lemma insert_sorted x l : Sorted le l -> Sorted le (insert x l).
Proof.
  induction l as [|y r IH]; intros H; cbn [insert]; [repeat constructor|].
  destruct (Nat.leb_spec x y).
  - constructor; auto.
  - inversion H as [|? ? Hs Hh]; subst. constructor; [apply IH; auto|].
    destruct r as [|z r']; cbn [insert]; [constructor; lia|].
    destruct (Nat.leb_spec x z); constructor; try lia. inversion Hh; auto.
Qed.

Lemma isort_sorted l : Sorted le (isort l).
Proof. induction l as [|x r IH]; cbn [isort]; [constructor|]. apply insert_sorted; auto. Qed.

(* what the theorems assume about the external qsort *)
Definition good_sort (sort : list nat -> list nat) : Prop :=
  (forall l, Permutation l (sort l)) /\ (forall l, Sorted le (sort l)).

Lemma isort_good : good_sort isort.
Proof. split; [exact isort_perm | exact isort_sorted]. Qed.

(* ================================================================== *)
(* L. the qsort comparator                                              *)
(* ================================================================== *)
(* what hazard_pointer_scan needs from hazard_pointer_compare: the SIGN of
   cmp a b is the order of a and b as unsigned 64-bit values.  (The C function
   is checked against Hazard.cmp64 by the differential mode K = -1 of
   rt/h_hazard.c on boundary and random address pairs, and end to end by the
   far-apart node layout.) *)
Definition cmp_total_order (cmp : Z -> Z -> Z) : Prop :=
  forall a b, (0 <= a < 2 ^ 64)%Z -> (0 <= b < 2 ^ 64)%Z -> Z.sgn (cmp a b) = cmp64 a b.

Lemma cmp64_ok : cmp_total_order cmp64.
Proof. intros a b _ _. unfold cmp64. destruct (a ?= b)%Z; reflexivity. Qed.

(* it is then a total order on addresses: reflexive/antisymmetric, transitive, total *)
Lemma cmp_order_props cmp : cmp_total_order cmp ->
  forall a b c, (0 <= a < 2 ^ 64)%Z -> (0 <= b < 2 ^ 64)%Z -> (0 <= c < 2 ^ 64)%Z ->
  (Z.sgn (cmp a b) = 0%Z <-> a = b) /\
  Z.sgn (cmp a b) = (- Z.sgn (cmp b a))%Z /\
  ((cmp a b <= 0)%Z -> (cmp b c <= 0)%Z -> (cmp a c <= 0)%Z) /\
  ((cmp a b <= 0)%Z \/ (cmp b a <= 0)%Z).
Proof.
  intros H a b c Ha Hb Hc.
  assert (S : forall x y, (0 <= x < 2 ^ 64)%Z -> (0 <= y < 2 ^ 64)%Z -> ((cmp x y <= 0)%Z <-> (x <= y)%Z)).
  { intros x y Hx Hy. specialize (H x y Hx Hy). unfold cmp64 in H.
    destruct (Z.compare_spec x y); destruct (cmp x y) eqn:E; cbn in H; try discriminate; lia. }
  split; [|split; [|split]].
  - rewrite (H a b Ha Hb). unfold cmp64. destruct (Z.compare_spec a b); split; intros; try discriminate; lia.
  - rewrite (H a b Ha Hb), (H b a Hb Ha). unfold cmp64. rewrite (Z.compare_antisym a b).
    destruct (a ?= b)%Z; reflexivity.
  - rewrite !S by auto. lia.
  - rewrite !S by auto. lia.
Qed.

(* an insertion sort driven by any such comparator on the nodes' addresses
   (address order = node order) is a good_sort: it IS isort *)
Section CmpSort.
Variable cmp : Z -> Z -> Z.
Hypothesis Hcmp : cmp_total_order cmp.
Variable addr : nat -> Z.
Hypothesis addr_range : forall x, (0 <= addr x < 2 ^ 64)%Z.
Hypothesis addr_mono : forall x y, x < y -> (addr x < addr y)%Z.

Definition cle (x y : nat) : bool := (cmp (addr x) (addr y) <=? 0)%Z.

Fixpoint cinsert (x : nat) (l : list nat) : list nat :=
  match l with
  | [] => [x]
  | y :: r => if cle x y then x :: l else y :: cinsert x r
  end.
Fixpoint csort (l : list nat) : list nat :=
  match l with [] => [] | x :: r => cinsert x (csort r) end.

Lemma cle_leb x y : cle x y = (x <=? y).
Proof.
  unfold cle. pose proof (Hcmp (addr x) (addr y) (addr_range x) (addr_range y)) as H. unfold cmp64 in H.
  destruct (Nat.leb_spec x y) as [L|L].
  - apply Z.leb_le. destruct (Nat.eq_dec x y) as [->|Hne].
    + rewrite Z.compare_refl in H. destruct (cmp (addr y) (addr y)); cbn in H; try discriminate; lia.
    + assert (A := addr_mono x y ltac:(lia)). apply Z.compare_lt_iff in A. rewrite A in H.
      destruct (cmp (addr x) (addr y)); cbn in H; try discriminate; lia.
  - apply Z.leb_gt. assert (A := addr_mono y x L). apply Z.compare_gt_iff in A. rewrite A in H.
    destruct (cmp (addr x) (addr y)); cbn in H; try discriminate; lia.
Qed.

Lemma cinsert_insert x l : cinsert x l = insert x l.
Proof. induction l as [|y r IH]; cbn [cinsert insert]; auto. rewrite cle_leb, IH. reflexivity. Qed.

Lemma csort_isort l : csort l = isort l.
Proof. induction l as [|x r IH]; cbn [csort isort]; auto. rewrite IH. apply cinsert_insert. Qed.

Theorem csort_good : good_sort csort.
Proof.
  split; intros l; rewrite csort_isort; [apply isort_perm|apply isort_sorted].
Qed.
End CmpSort.

(* "return one - two" on intptr_t, truncated to int: not a total order *)
Definition trunc_cmp (a b : Z) : Z :=
  let d := ((a - b) mod 2 ^ 32)%Z in if (d <? 2 ^ 31)%Z then d else (d - 2 ^ 32)%Z.

Lemma trunc_cmp_not_ok : ~ cmp_total_order trunc_cmp.
Proof.
  intros H. specialize (H (2 ^ 31)%Z 0%Z ltac:(cbn; lia) ltac:(cbn; lia)). vm_compute in H. discriminate.
Qed.
