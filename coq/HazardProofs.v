(* Proofs about the hazard-pointer model (coq/Hazard.v): binary search, the
   scan partition, and layered inductive invariants over every reachable state
   (any number of threads/records joining at any time, any K, any programs,
   any schedule).  qsort is a Section variable with Permutation + Sorted
   hypotheses. *)
From Coq Require Import List ZArith Lia Bool Arith Permutation Sorted.
From LF Require Import Conc Hazard.
Import ListNotations.

(* ================================================================== *)
(* A. binary search                                                    *)
(* ================================================================== *)
Definition nth_sorted (h : list nat) : Prop :=
  forall i j, i <= j -> j < length h -> nth i h 0 <= nth j h 0.

Lemma sorted_nth_sorted h : Sorted le h -> nth_sorted h.
Proof.
  intros Hs. apply Sorted_StronglySorted in Hs; [|intros a b c; lia].
  induction Hs as [|a l Hs IH Hall]; intros i j Hij Hj; cbn in *; [lia|].
  destruct i as [|i], j as [|j]; try lia.
  - rewrite Forall_forall in Hall. apply Hall. apply nth_In. lia.
  - apply IH; lia.
Qed.

Lemma bs_loop_spec fuel h x : nth_sorted h -> forall st en,
  (0 <= st)%Z -> (en < Z.of_nat (length h))%Z -> (en - st + 1 <= Z.of_nat fuel)%Z ->
  (fst (bs_loop fuel h x st en) = true <->
     exists i, (st <= i <= en)%Z /\ nth (Z.to_nat i) h 0 = x) /\
  Forall (fun m => (st <= m <= en)%Z) (snd (bs_loop fuel h x st en)).
Proof.
  intros Hs. induction fuel as [|f IH]; intros st en H0 H1 H2; cbn [bs_loop].
  - cbn. split; [|constructor]. split; [discriminate|]. intros [i [Hi _]]. lia.
  - destruct (Z.leb_spec st en) as [Hle|Hgt].
    2:{ cbn. split; [|constructor]. split; [discriminate|]. intros [i [Hi _]]. lia. }
    set (mid := ((st + en) / 2)%Z).
    assert (Hm : (st <= mid <= en)%Z).
    { unfold mid. pose proof (Z.div_mod (st + en) 2 ltac:(lia)). pose proof (Z.mod_pos_bound (st + en) 2 ltac:(lia)). lia. }
    set (mv := nth (Z.to_nat mid) h 0).
    destruct (Nat.ltb_spec x mv) as [Hlt|Hge].
    + specialize (IH st (mid - 1)%Z ltac:(lia) ltac:(lia) ltac:(lia)).
      destruct (bs_loop f h x st (mid - 1)) as [r p]. cbn [fst snd] in *. destruct IH as [IH1 IH2]. split.
      * rewrite IH1. split; intros [i [Hi Hx]]; exists i; split; auto; try lia.
        assert (i <= mid - 1)%Z; [|lia].
        destruct (Z.le_gt_cases i (mid - 1)); auto. exfalso.
        assert (mv <= nth (Z.to_nat i) h 0) by (apply Hs; lia). lia.
      * constructor; [lia|]. eapply Forall_impl; [|exact IH2]. cbn; intros; lia.
    + destruct (Nat.ltb_spec mv x) as [Hlt2|Hge2].
      * specialize (IH (mid + 1)%Z en ltac:(lia) ltac:(lia) ltac:(lia)).
        destruct (bs_loop f h x (mid + 1) en) as [r p]. cbn [fst snd] in *. destruct IH as [IH1 IH2]. split.
        -- rewrite IH1. split; intros [i [Hi Hx]]; exists i; split; auto; try lia.
           assert (mid + 1 <= i)%Z; [|lia].
           destruct (Z.le_gt_cases (mid + 1) i); auto. exfalso.
           assert (nth (Z.to_nat i) h 0 <= mv) by (apply Hs; lia). lia.
        -- constructor; [lia|]. eapply Forall_impl; [|exact IH2]. cbn; intros; lia.
      * cbn [fst snd]. split; [|constructor; [lia|constructor]].
        split; auto. intros _. exists mid. split; auto. fold mv. lia.
Qed.

(* found <-> member; every probed index is inside the haystack *)
Lemma bsearch_tr_correct h x : nth_sorted h ->
  (fst (bsearch_tr h x) = true <-> In x h) /\
  Forall (fun m => (0 <= m < Z.of_nat (length h))%Z) (snd (bsearch_tr h x)).
Proof.
  intros Hs. unfold bsearch_tr. destruct h as [|a l] eqn:E.
  - cbn. split; [|constructor]. split; [discriminate|tauto].
  - rewrite <- E in *. assert (L : 0 < length h) by (subst h; cbn; lia).
    destruct (bs_loop_spec (length h) h x Hs 0%Z (Z.of_nat (length h) - 1)%Z ltac:(lia) ltac:(lia) ltac:(lia)) as [A B].
    split.
    + rewrite A. split.
      * intros [i [Hi Hx]]. rewrite <- Hx. apply nth_In. lia.
      * intros Hin. destruct (In_nth h x 0 Hin) as [k [Hk Hx]]. exists (Z.of_nat k). rewrite Nat2Z.id. split; auto. lia.
    + eapply Forall_impl; [|exact B]. cbn; intros; lia.
Qed.

Lemma bsearch_correct h x : Sorted le h -> (bsearch h x = true <-> In x h).
Proof. intros Hs. apply (bsearch_tr_correct h x (sorted_nth_sorted h Hs)). Qed.

(* ================================================================== *)
(* B. list helpers: suffix of the record list starting at a record      *)
(* ================================================================== *)
Fixpoint from (c : nat) (l : list nat) : list nat :=
  match l with
  | [] => []
  | r :: rest => if r =? c then l else from c rest
  end.

Fixpoint linked (nx : nat -> nat) (l : list nat) : Prop :=
  match l with
  | [] => True
  | r :: rest => nx r = hd 0 rest /\ linked nx rest
  end.

Lemma from_notin c l : ~ In c l -> from c l = [].
Proof.
  induction l as [|r rest IH]; cbn; auto. intros H.
  destruct (Nat.eqb_spec r c); [tauto|]. apply IH. tauto.
Qed.

Lemma from_cons_ne c r l : r <> c -> from c (r :: l) = from c l.
Proof. intros H. cbn. destruct (Nat.eqb_spec r c); congruence. Qed.

Lemma from_hd l : ~ In 0 l -> from (hd 0 l) l = l.
Proof. destruct l as [|r rest]; cbn; auto. now rewrite Nat.eqb_refl. Qed.

Lemma from_incl c l : incl (from c l) l.
Proof.
  induction l as [|r rest IH]; cbn; [apply incl_refl|].
  destruct (r =? c); [apply incl_refl|]. now apply incl_tl.
Qed.

Lemma from_length c l : length (from c l) <= length l.
Proof.
  induction l as [|r rest IH]; cbn; auto. destruct (r =? c); cbn; lia.
Qed.

Lemma from_in_hd c l : In c l -> exists tl0, from c l = c :: tl0.
Proof.
  induction l as [|r rest IH]; cbn; [tauto|]. intros H.
  destruct (Nat.eqb_spec r c) as [->|Hne]; [eexists; reflexivity|].
  apply IH. destruct H; congruence.
Qed.

Lemma from_next nx l c : NoDup l -> linked nx l -> ~ In 0 l -> In c l ->
  (nx c = 0 /\ from c l = [c]) \/
  (nx c <> 0 /\ In (nx c) l /\ from c l = c :: from (nx c) l).
Proof.
  induction l as [|r rest IH]; intros Hnd Hl H0 Hin; [destruct Hin|].
  inversion Hnd as [|? ? Hr Hnd']; subst. destruct Hl as [Hnx Hl].
  cbn [from]. destruct (Nat.eqb_spec r c) as [->|Hne].
  - destruct rest as [|r2 rest2]; cbn in Hnx.
    + left; auto.
    + right. assert (r2 <> 0) by (intros ->; apply H0; cbn; auto).
      rewrite Hnx. split; auto. split; [cbn; auto|].
      destruct (Nat.eqb_spec c r2) as [->|_]; [exfalso; apply Hr; cbn; auto|].
      cbn. now rewrite Nat.eqb_refl.
  - assert (Hin' : In c rest) by (destruct Hin; congruence).
    destruct (IH Hnd' Hl ltac:(cbn in H0; tauto) Hin') as [[A B]|[A [B D]]]; [left; auto|right].
    split; auto. split; [cbn; auto|].
    destruct (Nat.eqb_spec r (nx c)) as [E|_]; [exfalso; apply Hr; congruence|exact D].
Qed.

Lemma linked_upd_notin nx l r v : ~ In r l -> linked nx l -> linked (upd nx r v) l.
Proof.
  induction l as [|a rest IH]; cbn; auto. intros H [A B]. split.
  - rewrite upd_other; auto.
  - apply IH; tauto.
Qed.

Lemma NoDup_from c l : NoDup l -> NoDup (from c l).
Proof.
  induction l as [|r rest IH]; cbn; auto. intros H. destruct (r =? c); auto.
  inversion H; auto.
Qed.


(* ================================================================== *)
(* C. starting calls                                                    *)
(* ================================================================== *)
Definition same_regs (T T2 : tst) : Prop :=
  joined T2 = joined T /\ rlist T2 = rlist T /\ held T2 = held T.

Definition start_ok (K C : nat) (T : tst) : Prop :=
  match pc T with
  | J1 => joined T = false
  | P1 => joined T = true /\ sl T < K /\ cj T < C
  | C1 => joined T = true /\ sl T < K
  | X0 => joined T = true /\ cj T < C
  | U1 => joined T = true /\ sl T < K /\ held T (sl T) <> 0
  | S1 => joined T = true
  | Fin => True
  | _ => False
  end.

Lemma enter_ok K C T o T' : enter K C T o = Some T' -> same_regs T T' /\ start_ok K C T'.
Proof.
  unfold enter, same_regs, start_ok. destruct o; intros H.
  - destruct (joined T) eqn:J; inversion H; subst; cbn; auto.
  - destruct (joined T) eqn:J; cbn [andb negb] in H; [|discriminate].
    destruct (Nat.ltb_spec s K); cbn [andb negb] in H; [|discriminate].
    destruct (Nat.ltb_spec j C); cbn [andb negb] in H; [|discriminate]. inversion H; subst; cbn; auto.
  - destruct (joined T) eqn:J; cbn [andb negb] in H; [|discriminate].
    destruct (Nat.ltb_spec s K); cbn [andb negb] in H; [|discriminate]. inversion H; subst; cbn; auto.
  - destruct (joined T) eqn:J; cbn [andb negb] in H; [|discriminate].
    destruct (Nat.ltb_spec j C); cbn [andb negb] in H; [|discriminate]. inversion H; subst; cbn; auto.
  - destruct (joined T) eqn:J; cbn [andb negb] in H; [|discriminate].
    destruct (Nat.ltb_spec s K); cbn [andb negb] in H; [|discriminate].
    destruct (Nat.eqb_spec (held T s) 0); cbn [andb negb] in H; [discriminate|]. inversion H; subst; cbn; auto.
  - destruct (joined T) eqn:J; inversion H; subst; cbn; auto.
  - discriminate.
Qed.

Lemma begin_ok K C t T p : forall k,
  same_regs T (fst (begin K C t T p k)) /\ start_ok K C (fst (begin K C t T p k)).
Proof.
  induction p as [|o r IH]; intros k; cbn [begin].
  - cbn. unfold same_regs, start_ok; cbn; auto.
  - destruct (enter K C T o) as [T'|] eqn:E.
    + apply enter_ok in E. destruct E as [A B]. cbn [fst]. split.
      * unfold same_regs in *; cbn; tauto.
      * unfold start_ok in *; cbn. exact B.
    + specialize (IH (S k)). destruct (begin K C t T r (S k)) as [T2 e]. exact IH.
Qed.

Lemma finish_ok K C t T v :
  same_regs T (fst (finish K C t T v)) /\ start_ok K C (fst (finish K C t T v)).
Proof.
  unfold finish. pose proof (begin_ok K C t T (prog T) (opi T)) as H.
  destruct (begin K C t T (prog T) (opi T)) as [T2 e]. exact H.
Qed.

(* ================================================================== *)
(* D. layer 1: the record list and the thresholds' lower bound          *)
(* ================================================================== *)
Definition okh (rc : list nat) (c : nat) : Prop := In c rc \/ c = 0.

Definition rlocalP (K C : nat) (rc : list nat) (nx th : nat -> nat) (t : nat) (T : tst) : Prop :=
  match pc T with
  | J1 => joined T = false
  | J2 => joined T = false /\ okh rc (chead T)
  | J3 => joined T = false /\ okh rc (chead T) /\ nx (S t) = chead T
  | J4 => joined T = false /\ okh rc (chead T) /\ nx (S t) = chead T /\ In (cur T) rc /\
          cnt T + length (from (cur T) rc) = 1 + length (from (chead T) rc)
  | J5 => joined T = false /\ okh rc (chead T) /\ nx (S t) = chead T /\
          cnt T = 1 + length (from (chead T) rc)
  | J6 => joined T = false /\ okh rc (chead T) /\ nx (S t) = chead T /\
          th (S t) = 2 * (1 + length (from (chead T) rc)) * K
  | J7 => joined T = true
  | J8 | J9 => joined T = true /\ In (cur T) (tl (from (S t) rc))
  | P1 | P2 | P3 => joined T = true /\ sl T < K /\ cj T < C
  | C1 => joined T = true /\ sl T < K
  | X0 | X1 => joined T = true /\ cj T < C
  | R1 | S1 => joined T = true
  | S2 => joined T = true /\ In (chead T) rc
  | S3 => joined T = true /\ In (cur T) rc /\ idx T < K
  | S4 => joined T = true /\ In (cur T) rc
  | U1 => joined T = true /\ sl T < K /\ held T (sl T) <> 0
  | Fin => True
  end.

Definition rlocal (s : st) := rlocalP (kslots s) (ncell s) (recs s) (rnext s) (rthr s).

Record RInv (s : st) : Prop := {
  r_K : 1 <= kslots s;
  r_head : head s = hd 0 (recs s);
  r_nodup : NoDup (recs s);
  r_nz : ~ In 0 (recs s);
  r_link : linked (rnext s) (recs s);
  r_join : forall t, joined (thr s t) = true <-> In (S t) (recs s);
  r_thr : forall r, In r (recs s) -> 2 * length (from r (recs s)) * kslots s <= rthr s r;
  r_loc : forall t, rlocal s t (thr s t)
}.

Lemma start_rlocal K C rc nx th t T : start_ok K C T -> rlocalP K C rc nx th t T.
Proof. unfold start_ok, rlocalP. destruct (pc T); auto; tauto. Qed.

Ltac thr_cases u t :=
  destruct (Nat.eq_dec u t) as [->|?];
  [ rewrite ?upd_same in * | rewrite ?(upd_other _ t _ u) in * by assumption ].

(* steps that leave head/recs/rnext/rthr alone *)
Lemma rinv_frame s s' t T' :
  RInv s -> head s' = head s -> recs s' = recs s -> rnext s' = rnext s -> rthr s' = rthr s ->
  kslots s' = kslots s -> ncell s' = ncell s -> thr s' = upd (thr s) t T' ->
  joined T' = joined (thr s t) -> rlocal s t T' -> RInv s'.
Proof.
  intros [IK Ih Ind Inz Il Ij It Iloc] Eh Er En Et EK EC Ethr Ej L.
  constructor; unfold rlocal in *; rewrite ?Eh, ?Er, ?En, ?Et, ?EK, ?EC, ?Ethr; auto.
  - intros u. thr_cases u t; [rewrite Ej|]; apply Ij.
  - intros u. thr_cases u t; auto.
Qed.

Lemma rlocal_other K C rc nx th nx' th' u T :
  nx' (S u) = nx (S u) -> (joined T = false -> th' (S u) = th (S u)) ->
  rlocalP K C rc nx th u T -> rlocalP K C rc nx' th' u T.
Proof.
  intros A B. unfold rlocalP. destruct (pc T); auto; rewrite ?A; auto.
  intros (J & H1 & H2 & H3). rewrite (B J). auto.
Qed.

Lemma rlocal_push K C rc nx th r u T :
  ~ In r rc -> r <> 0 -> r <> S u -> rlocalP K C rc nx th u T -> rlocalP K C (r :: rc) nx th u T.
Proof.
  intros Hn H0 Hu.
  assert (Fr : forall c, okh rc c -> from c (r :: rc) = from c rc).
  { intros c Hc. apply from_cons_ne. intros <-. destruct Hc; tauto. }
  assert (Ok : forall c, okh rc c -> okh (r :: rc) c).
  { intros c [X|X]; [left; right; auto | right; auto]. }
  unfold rlocalP. destruct (pc T); auto.
  - intros [A B]; auto.
  - intros (A & B & D); auto.
  - intros (A & B & D & E & F). rewrite (Fr (cur T)) by (left; auto). rewrite (Fr (chead T)) by auto.
    repeat split; auto. right; auto.
  - intros (A & B & D & E). rewrite Fr by auto. auto.
  - intros (A & B & D & E). rewrite Fr by auto. auto.
  - intros [A B]. rewrite from_cons_ne by auto. auto.
  - intros [A B]. rewrite from_cons_ne by auto. auto.
  - intros [A B]. split; auto. right; auto.
  - intros (A & B & D). repeat split; auto. right; auto.
  - intros (A & B). repeat split; auto. right; auto.
Qed.

Lemma rinv_frame2 s s' t T' :
  RInv s -> head s' = head s -> recs s' = recs s -> kslots s' = kslots s -> ncell s' = ncell s ->
  thr s' = upd (thr s) t T' -> joined T' = joined (thr s t) ->
  linked (rnext s') (recs s) -> (forall r, In r (recs s) -> rthr s r <= rthr s' r) ->
  (forall u, u <> t -> rlocal s u (thr s u) -> rlocal s' u (thr s u)) ->
  rlocal s' t T' -> RInv s'.
Proof.
  intros [IK Ih Ind Inz Il Ij It Iloc] Eh Er EK EC Ethr Ej Hl Hm Ho L.
  constructor; rewrite ?Eh, ?Er, ?EK, ?EC, ?Ethr; auto.
  - intros u. thr_cases u t; [rewrite Ej|]; apply Ij.
  - intros r Hr. specialize (It r Hr). specialize (Hm r Hr). lia.
  - intros u. thr_cases u t; auto.
Qed.

Lemma okh_hd rc : okh rc (hd 0 rc).
Proof. destruct rc; [right|left]; cbn; auto. Qed.

Lemma in_hd_in (x : nat) l : In x l -> In (hd 0 l) l.
Proof. destruct l; cbn; auto. Qed.

Lemma from_in_self c l : In c l -> In c (from c l).
Proof. intros H. destruct (from_in_hd c l H) as [tl0 E]. rewrite E. cbn; auto. Qed.

Lemma from_tl_incl a d l : NoDup l -> In d (tl (from a l)) -> incl (from d l) (tl (from a l)).
Proof.
  induction l as [|r rest IH]; cbn [from]; intros Hnd Hd; [destruct Hd|].
  inversion Hnd as [|? ? Hr Hnd']; subst.
  destruct (Nat.eqb_spec r a) as [->|Hne].
  - cbn [tl] in *. assert (a <> d) by (intros ->; tauto).
    destruct (Nat.eqb_spec a d); [tauto|]. apply from_incl.
  - assert (In d rest).
    { apply (from_incl a rest). destruct (from a rest); [destruct Hd|cbn in Hd; cbn; auto]. }
    destruct (Nat.eqb_spec r d) as [->|_]; [tauto|]. apply IH; auto.
Qed.

Lemma tl_from_incl a l : incl (tl (from a l)) l.
Proof.
  intros x Hx. apply (from_incl a l). destruct (from a l); [destruct Hx|cbn in Hx; cbn; auto].
Qed.

Ltac tsimp :=
  cbn [pc prog opi joined sl cj nd cur chead cnt idx maxp snap rlist held
       set_pc set_prog set_joined set_args set_nd set_cur set_chead set_cnt set_scan set_rlist set_held] in *.
Ltac ssimp :=
  cbn [head recs rnext rthr slot cell pool kslots ncell thr nthr set_thr] in *.

Ltac fin_tac :=
  match goal with
  | |- context [finish ?K ?C ?t ?T ?v] =>
    let H := fresh "Hfin" in
    let T2 := fresh "T2" in let e2 := fresh "e2" in
    pose proof (finish_ok K C t T v) as H; destruct (finish K C t T v) as [T2 e2]; cbn [fst snd] in H |- *
  end.

Section Proofs.
Variable sort : list nat -> list nat.
Hypothesis sort_perm : forall l, Permutation l (sort l).
Hypothesis sort_sorted : forall l, Sorted le (sort l).

Ltac frame_r s t I :=
  eapply (rinv_frame s _ t); [exact I | reflexivity | reflexivity | reflexivity | reflexivity
                              | reflexivity | reflexivity | reflexivity | | ].

Lemma rinv_fin s t T0 T2 :
  RInv s -> joined T0 = joined (thr s t) ->
  same_regs T0 T2 /\ start_ok (kslots s) (ncell s) T2 -> RInv (set_thr s t T2).
Proof.
  intros I J [[A _] B]. frame_r s t I.
  - congruence.
  - apply start_rlocal. exact B.
Qed.

Lemma rinv_step s t : RInv s -> RInv (fst (step sort s t)).
Proof.
  intros I. pose proof I as [IK Ih Ind Inz Il Ij It Iloc].
  unfold step. remember (thr s t) as T eqn:HT.
  assert (LT := Iloc t). rewrite <- HT in LT. unfold rlocal, rlocalP in LT.
  assert (JT : joined T = true <-> In (S t) (recs s)) by (rewrite HT; apply Ij).
  destruct (pc T) eqn:Hpc; cbn [fst].
  - (* J1 *) frame_r s t I; [subst T; reflexivity|]. unfold rlocal, rlocalP; tsimp.
    split; auto. rewrite Ih. apply okh_hd.
  - (* J2 *) destruct LT as [J O].
    assert (NI : ~ In (S t) (recs s)) by (intros X; apply JT in X; congruence).
    eapply (rinv_frame2 s _ t); try reflexivity; try exact I; ssimp.
    + subst T; reflexivity.
    + apply linked_upd_notin; auto.
    + intros u Hu. apply rlocal_other; auto. apply upd_other. congruence.
    + unfold rlocal, rlocalP; tsimp; ssimp. rewrite upd_same. auto.
  - (* J3 *) destruct LT as (J & O & N). frame_r s t I; [subst T; reflexivity|].
    unfold rlocal, rlocalP. rewrite N.
    destruct (Nat.eqb_spec (chead T) 0) as [E|E]; tsimp.
    + rewrite E, (from_notin 0 _ Inz). cbn. rewrite <- E. auto.
    + destruct O as [O|O]; [|contradiction]. repeat split; auto. left; auto.
  - (* J4 *) destruct LT as (J & O & N & Hc & Hn). frame_r s t I; [subst T; reflexivity|].
    unfold rlocal, rlocalP.
    destruct (from_next (rnext s) (recs s) (cur T) Ind Il Inz Hc) as [[A B]|[A [B D]]].
    + rewrite A. cbn [Nat.eqb]. tsimp. rewrite B in Hn. cbn in Hn. repeat split; auto. lia.
    + destruct (Nat.eqb_spec (rnext s (cur T)) 0) as [E|_]; [contradiction|]. tsimp.
      rewrite D in Hn. cbn in Hn. repeat split; auto. lia.
  - (* J5 *) destruct LT as (J & O & N & Hn).
    assert (NI : ~ In (S t) (recs s)) by (intros X; apply JT in X; congruence).
    eapply (rinv_frame2 s _ t); try reflexivity; try exact I; ssimp.
    + subst T; reflexivity.
    + exact Il.
    + intros r Hr. rewrite upd_other; auto. intros ->. tauto.
    + intros u Hu. apply rlocal_other; auto. intros _. apply upd_other. congruence.
    + unfold rlocal, rlocalP; tsimp; ssimp. rewrite upd_same. rewrite Hn. repeat split; auto.
  - (* J6 *) destruct LT as (J & O & N & Hth).
    assert (NI : ~ In (S t) (recs s)) by (intros X; apply JT in X; congruence).
    destruct (Nat.eqb_spec (head s) (chead T)) as [E|E]; cbn [fst].
    + (* the record is published *)
      assert (Efrom : from (chead T) (recs s) = recs s) by (rewrite <- E, Ih; apply from_hd; auto).
      assert (Fr : forall c, okh (recs s) c -> from c (S t :: recs s) = from c (recs s)).
      { intros c Hc. apply from_cons_ne. intros <-. destruct Hc; [tauto|discriminate]. }
      constructor; ssimp; auto.
      * constructor; auto.
      * intros [X|X]; [discriminate|tauto].
      * split; [rewrite N, <- E; exact Ih|exact Il].
      * intros u. thr_cases u t; tsimp.
        -- split; auto. intros _. left; reflexivity.
        -- rewrite Ij. cbn [In]. split; [auto|]. intros [X|X]; [congruence|auto].
      * cbn [In]. intros r [<-|Hr].
        -- cbn [from]. rewrite Nat.eqb_refl. cbn [length]. rewrite Hth, Efrom. lia.
        -- rewrite Fr by (left; auto). apply It; auto.
      * intros u. thr_cases u t.
        -- unfold rlocal, rlocalP; tsimp. auto.
        -- apply rlocal_push; [exact NI | discriminate | congruence | apply Iloc].
    + frame_r s t I; [subst T; reflexivity|]. unfold rlocal, rlocalP; tsimp. split; auto. rewrite Ih. apply okh_hd.
  - (* J7 *) assert (Hin : In (S t) (recs s)) by (apply JT; exact LT).
    destruct (from_next (rnext s) (recs s) (S t) Ind Il Inz Hin) as [[A B]|[A [B D]]].
    + rewrite A. cbn [Nat.eqb]. fin_tac. apply (rinv_fin s t T); auto. congruence.
    + destruct (Nat.eqb_spec (rnext s (S t)) 0) as [E|_]; [contradiction|]. cbn [fst].
      frame_r s t I; [subst T; reflexivity|]. unfold rlocal, rlocalP; tsimp. split; auto.
      rewrite D. cbn [tl]. apply from_in_self; auto.
  - (* J8 *) destruct LT as [J Hc]. assert (Hcr : In (cur T) (recs s)) by (eapply tl_from_incl; eauto).
    eapply (rinv_frame2 s _ t); try reflexivity; try exact I; ssimp.
    + subst T; reflexivity.
    + exact Il.
    + intros r Hr. unfold upd. destruct (r =? cur T) eqn:X; [apply Nat.eqb_eq in X; subst; lia|lia].
    + intros u Hu. apply rlocal_other; auto. intros Ju. apply upd_other. intros X.
      rewrite <- X in Hcr. apply Ij in Hcr. congruence.
    + unfold rlocal, rlocalP; tsimp. auto.
  - (* J9 *) destruct LT as [J Hc]. assert (Hcr : In (cur T) (recs s)) by (eapply tl_from_incl; eauto).
    destruct (from_next (rnext s) (recs s) (cur T) Ind Il Inz Hcr) as [[A B]|[A [B D]]].
    + rewrite A. cbn [Nat.eqb]. fin_tac. apply (rinv_fin s t T); auto. congruence.
    + destruct (Nat.eqb_spec (rnext s (cur T)) 0) as [E|_]; [contradiction|]. cbn [fst].
      frame_r s t I; [subst T; reflexivity|]. unfold rlocal, rlocalP; tsimp. split; auto.
      apply (from_tl_incl (S t) (cur T) (recs s) Ind Hc). rewrite D. right. apply from_in_self; auto.
  - (* P1 *) frame_r s t I; [subst T; reflexivity|]. unfold rlocal, rlocalP; tsimp. exact LT.
  - (* P2 *) frame_r s t I; [subst T; reflexivity|]. unfold rlocal, rlocalP; tsimp. exact LT.
  - (* P3 *) destruct (cell s (cj T) =? nd T); fin_tac.
    + apply (rinv_fin s t (set_held T (upd (held T) (sl T) (nd T)))); auto. tsimp. congruence.
    + apply (rinv_fin s t T); auto. congruence.
  - (* C1 *) fin_tac. destruct Hfin as [[A _] B]. frame_r s t I.
    + tsimp. congruence.
    + apply start_rlocal. exact B.
  - (* X0 *) destruct (pool s) as [|f p]; cbn [fst].
    + fin_tac. apply (rinv_fin s t T); auto. congruence.
    + frame_r s t I; [subst T; reflexivity|]. unfold rlocal, rlocalP; tsimp. exact LT.
  - (* X1 *) frame_r s t I; [subst T; reflexivity|]. unfold rlocal, rlocalP; tsimp. tauto.
  - (* R1 *) destruct (rthr s (S t) <=? length (rlist T)); cbn [fst].
    + frame_r s t I; [subst T; reflexivity|]. unfold rlocal, rlocalP; tsimp. exact LT.
    + fin_tac. apply (rinv_fin s t T); auto. congruence.
  - (* S1 *) frame_r s t I; [subst T; reflexivity|]. unfold rlocal, rlocalP; tsimp. split; auto.
    rewrite Ih. apply (in_hd_in (S t)). apply JT. exact LT.
  - (* S2 *) frame_r s t I; [subst T; reflexivity|]. unfold rlocal, rlocalP; tsimp.
    destruct LT. repeat split; auto.
  - (* S3 *) destruct LT as (J & Hc & Hi). frame_r s t I; [subst T; reflexivity|]. unfold rlocal, rlocalP.
    destruct (Nat.ltb_spec (S (idx T)) (kslots s)); tsimp; auto.
  - (* S4 *) destruct LT as (J & Hc).
    destruct (from_next (rnext s) (recs s) (cur T) Ind Il Inz Hc) as [[A B]|[A [B D]]].
    + rewrite A. cbn [Nat.eqb]. fin_tac. destruct Hfin as [[A' _] B']. frame_r s t I.
      * tsimp. congruence.
      * apply start_rlocal. exact B'.
    + destruct (Nat.eqb_spec (rnext s (cur T)) 0) as [E|_]; [contradiction|]. cbn [fst].
      frame_r s t I; [subst T; reflexivity|]. unfold rlocal, rlocalP; tsimp. repeat split; auto.
  - (* U1 *) fin_tac. apply (rinv_fin s t T); auto. congruence.
  - (* Fin *) exact I.
Qed.

Lemma down_in r p : In r (down p) <-> 1 <= r <= p.
Proof. induction p as [|p IH]; cbn; [lia|]. rewrite IH. lia. Qed.
Lemma down_nodup p : NoDup (down p).
Proof. induction p as [|p IH]; cbn; constructor; auto. rewrite down_in. lia. Qed.
Lemma down_hd p : hd 0 (down p) = p.
Proof. destruct p; reflexivity. Qed.
Lemma down_linked P p : p <= P -> linked (fun r => if r <=? P then r - 1 else 0) (down p).
Proof.
  induction p as [|p IH]; cbn [down linked]; auto. intros H. split; [|apply IH; lia].
  rewrite down_hd. destruct (Nat.leb_spec (S p) P); lia.
Qed.
Lemma down_from r p : 1 <= r <= p -> from r (down p) = down r.
Proof.
  induction p as [|p IH]; [lia|]. intros H. cbn [down from].
  destruct (Nat.eqb_spec (S p) r) as [<-|Hne]; [reflexivity|]. apply IH. lia.
Qed.
Lemma down_length p : length (down p) = p.
Proof. induction p; cbn; auto. Qed.

Lemma init_thr_ok K P C NN progs t :
  let T := thr (init K P C NN progs) t in
  joined T = (t <? P) /\ rlist T = [] /\ (forall i, held T i = 0) /\ start_ok K C T.
Proof.
  cbn [thr init]. destruct (begin_ok K C t (idle (t <? P)) (nth t progs []) 0) as [[A [B D]] E].
  rewrite A, B, D. cbn. auto.
Qed.

Lemma init_rinv K P C NN progs : 1 <= K -> RInv (init K P C NN progs).
Proof.
  intros HK. constructor; cbn [head recs rnext rthr kslots ncell init]; auto.
  - now rewrite down_hd.
  - apply down_nodup.
  - rewrite down_in. lia.
  - apply down_linked. lia.
  - intros t. destruct (init_thr_ok K P C NN progs t) as [A _]. rewrite A, down_in.
    destruct (Nat.ltb_spec t P); split; intros; try lia; auto; discriminate.
  - intros r Hr. apply down_in in Hr. rewrite down_from by lia. rewrite down_length.
    destruct (Nat.leb_spec 1 r); [|lia]. destruct (Nat.leb_spec r P); [|lia]. cbn [andb]. nia.
  - intros t. apply start_rlocal. apply (init_thr_ok K P C NN progs t).
Qed.
