(* C14, first mechanism, on x86-TSO — "publish the hazard slot, full fence, then
   re-read the shared pointer" (include/hazard_pointer.h:72-81 with the caller's
   validating re-read; src/hazard_pointer.c hazard_pointer_scan on the other side).

   Machine: coq/HazardTSO.v — memory + one FIFO store buffer per thread; stores
   are buffered, loads read the own buffer first, [Flush t] commits the oldest
   entry of t's buffer at any time, the fence (A3) and the locked CAS (B1) are
   enabled only when the own buffer is empty.  Any number NT of threads, each
   both reader and reclaimer, K slots per thread, unboundedly many nodes, every
   interleaving of thread steps and flushes ([reachable fenced NT K]).
   [fenced = true] is the code as written; [fenced = false] is the code with
   store_load_barrier() removed (or weakened to a compiler barrier).
   [at_A5 s r i p]: r validated p <> NULL in its slot i and has not overwritten
   the slot since: it may dereference p.

   The sequentially consistent model (Hazard.v, Properties_C14.v) cannot tell
   the two variants apart (hp_tso_sc_refines, hp_tso_fence_invisible_under_sc);
   this file is where the barrier is load-bearing.
   Out of scope here (Hazard.v's business): the record list and joining threads,
   the sort + binary search of the scan, retire_threshold. *)
From Coq Require Import List Arith Bool.
From LF Require Import HazardTSO HazardTSOProofs.
Import ListNotations.

(* 1. With the fence: in every reachable state of the TSO machine a node that a
   reader has validated and is using has not been freed; no dereference ever
   hits a freed node. *)
Theorem hp_tso_safe : forall NT K s r i p,
  reachable true NT K s -> at_A5 s r i p -> ~ In p (freed s).
Proof. exact tso_safe. Qed.
Print Assumptions hp_tso_safe.

Theorem hp_tso_no_use_after_free : forall NT K s,
  reachable true NT K s -> uaf s = false.
Proof. exact tso_no_uaf. Qed.
Print Assumptions hp_tso_no_use_after_free.

(* the three facts the argument rests on *)
(* (a) a validated slot is globally visible: in memory, no store to it pending *)
Theorem hp_tso_validated_visible : forall NT K s r i p,
  reachable true NT K s -> at_A5 s r i p ->
  r < NT /\ i < K /\ mem s (LH r i) = p /\ lookup (buf s r) (LH r i) = None.
Proof. exact tso_validated_visible. Qed.
Print Assumptions hp_tso_validated_visible.

(* (b) retired and freed nodes are unlinked in MEMORY (the unlink is a locked
   CAS, so LX is never in a store buffer): a validation, which reads LX, can
   never succeed for them *)
Theorem hp_tso_retired_unlinked : forall NT K s w n,
  reachable true NT K s -> In n (rl (thr s w)) \/ In n (freed s) ->
  n < mem s LX /\ mem s LX < nxt s.
Proof. exact tso_retired_unlinked. Qed.
Print Assumptions hp_tso_retired_unlinked.

Theorem hp_tso_shared_pointer_never_buffered : forall NT K s t,
  reachable true NT K s -> rd s t LX = mem s LX.
Proof. exact tso_X_never_buffered. Qed.
Print Assumptions hp_tso_shared_pointer_never_buffered.

(* (c) a scanner that has read a slot validated for one of its retired nodes
   has that node in its plist *)
Theorem hp_tso_scan_sees : forall NT K s w r i p,
  reachable true NT K s -> at_A5 s r i p -> pc (thr s w) = B3 ->
  In p (rl (thr s w)) -> In (r, i) (sc (thr s w)) -> In p (seen (thr s w)).
Proof. exact tso_scan_sees. Qed.
Print Assumptions hp_tso_scan_sees.

(* 2. Without the fence: thread 0 validates node 1 while its slot store is still
   in its store buffer; thread 1 unlinks node 1, retires it, scans both slots
   (reads NULL from memory) and frees it; thread 0 dereferences it.
   bad_sched = [Protect 0 0; Step 0; Step 0; Step 0; Step 0;
                Unlink 1; Step 1; Scan 1 0 0; Scan 1 1 0; Free 1; Use 0 0] *)
Theorem hp_tso_unfenced_refuted :
  exists NT K s r i p,
    reachable false NT K s /\ at_A5 s r i p /\ In p (freed s) /\ uaf s = true /\
    run false NT K init bad_sched = Some s.
Proof. exact unfenced_refuted. Qed.
Print Assumptions hp_tso_unfenced_refuted.

(* 3. If every store is flushed immediately ([estep] = thread step, then a flush
   of that thread's buffer; [erun] over a schedule) the TSO machine, with or
   without the fence, is the SC machine [sc_step] (which has no fence at all);
   every such run is a run of the TSO machine. *)
Theorem hp_tso_sc_refines_step : forall fenced NT K s l,
  drained s ->
  option_map erase (estep fenced NT K s l) = sc_step NT K (erase s) l /\
  (forall s', estep fenced NT K s l = Some s' -> drained s').
Proof. exact estep_sc. Qed.
Print Assumptions hp_tso_sc_refines_step.

Theorem hp_tso_sc_refines : forall fenced NT K sch,
  option_map erase (erun fenced NT K init sch) = sc_run NT K (erase init) sch /\
  (forall s', erun fenced NT K init sch = Some s' -> drained s' /\ reachable fenced NT K s').
Proof. exact erun_sc_init. Qed.
Print Assumptions hp_tso_sc_refines.

Theorem hp_tso_fence_invisible_under_sc : forall NT K sch,
  option_map erase (erun true NT K init sch) = option_map erase (erun false NT K init sch).
Proof. exact erun_fence_irrelevant. Qed.
Print Assumptions hp_tso_fence_invisible_under_sc.

(* so the SC machine is safe whatever A3 does: Hazard.v could not see the fence *)
Theorem hp_tso_sc_safe : forall NT K sch ss r i,
  sc_run NT K (erase init) sch = Some ss ->
  held (sthr ss r) i <> 0 -> ~ In (held (sthr ss r) i) (sfreed ss) /\ suaf ss = false.
Proof. exact sc_safe. Qed.
Print Assumptions hp_tso_sc_safe.

(* ---- non-vacuity: concrete reachable states (schedules run by [run]) ---- *)
(* with the fence the refuting schedule is not a run: the fence is not enabled
   while the slot store is in the buffer *)
Example ex_fenced_blocks : run true 2 1 init bad_sched = None.
Proof. vm_compute. reflexivity. Qed.

(* the fenced reader validates after the flush (at_A5 is reachable); the
   reclaimer's scan then sees the slot: node 1 stays retired, nothing is freed *)
Definition ex_sched1 : list label :=
  [Protect 0 0; Step 0; Step 0; Flush 0; Step 0; Step 0;
   Unlink 1; Step 1; Scan 1 1 0; Scan 1 0 0; Free 1; Use 0 0].
Example ex_fenced_protected :
  exists s, run true 2 1 init ex_sched1 = Some s /\ reachable true 2 1 s /\
    at_A5 s 0 0 1 /\ mem s (LH 0 0) = 1 /\ mem s LX = 2 /\
    rl (thr s 1) = [1] /\ seen (thr s 1) = [1] /\ freed s = [] /\ uaf s = false.
Proof. apply run_witness. vm_compute. repeat split; auto; discriminate. Qed.

(* ... and once the reader has cleared its slot and the clearing store has
   reached memory, the next scan frees node 1 together with node 2 *)
Example ex_fenced_freed_later :
  exists s, run true 2 1 init
      (ex_sched1 ++ [Clear 0 0; Flush 0; Unlink 1; Step 1; Scan 1 0 0; Scan 1 1 0; Free 1]) = Some s /\
    reachable true 2 1 s /\ held (thr s 0) 0 = 0 /\ rl (thr s 1) = [] /\ freed s = [2; 1] /\ mem s LX = 3.
Proof. apply run_witness. vm_compute. repeat split; auto. Qed.

(* the clearing store still in the buffer: the scan conservatively keeps node 1 *)
Example ex_fenced_clear_pending :
  exists s, run true 2 1 init
      (ex_sched1 ++ [Clear 0 0; Unlink 1; Step 1; Scan 1 0 0; Scan 1 1 0; Free 1]) = Some s /\
    reachable true 2 1 s /\ buf s 0 = [(LH 0 0, 0)] /\ rl (thr s 1) = [1] /\ freed s = [2].
Proof. apply run_witness. vm_compute. repeat split; auto. Qed.

(* the unlink falls between the two reads of the shared pointer: the validation
   fails and the reader retries from A1 *)
Example ex_fenced_retry :
  exists s, run true 2 1 init [Protect 0 0; Step 0; Unlink 1; Step 0; Flush 0; Step 0; Step 0] = Some s /\
    reachable true 2 1 s /\ pc (thr s 0) = A1 /\ cp (thr s 0) = 1 /\ mem s LX = 2 /\ held (thr s 0) 0 = 0.
Proof. apply run_witness. vm_compute. repeat split; auto. Qed.

(* two slots held at once by a thread that is also the reclaimer (as in the
   MPMC queue): thread 0 holds node 1 in slot 0 and node 2 in slot 1, unlinks
   node 1 and node 2 itself, and its own scan keeps both *)
Example ex_two_slots_own_scan :
  exists s, run true 1 2 init
      [Protect 0 0; Step 0; Step 0; Flush 0; Step 0; Step 0; Unlink 0; Step 0; Scan 0 0 0; Scan 0 0 1; Free 0;
       Protect 0 1; Step 0; Step 0; Flush 0; Step 0; Step 0; Unlink 0; Step 0; Scan 0 0 1; Scan 0 0 0; Free 0] = Some s /\
    reachable true 1 2 s /\ at_A5 s 0 0 1 /\ at_A5 s 0 1 2 /\ rl (thr s 0) = [2; 1] /\ freed s = [] /\ mem s LX = 3.
Proof. apply run_witness. vm_compute. repeat split; auto; discriminate. Qed.

(* the refuting schedule on the SC machine: the scan reads the slot, nothing is freed *)
Example ex_sc_same_schedule :
  option_map (fun ss => (held (sthr ss 0) 0, sfreed ss, rl (sthr ss 1), suaf ss))
             (sc_run 2 1 (erase init) bad_sched) = Some (1, [], [1], false).
Proof. vm_compute. reflexivity. Qed.

(* ... which is also what the unfenced TSO machine does when stores are flushed at once *)
Example ex_unfenced_eager_same_schedule :
  option_map (fun s => (held (thr s 0) 0, freed s, rl (thr s 1), uaf s))
             (erun false 2 1 init bad_sched) = Some (1, [], [1], false).
Proof. vm_compute. reflexivity. Qed.
