(* C11, multi channel: mutual exclusion of the channel lock -- part 4: the
   steps of the lock holder inside the critical section, including the
   operations on the channel's waiter lists (push in internal_wait, pop and
   wake-up in internal_wake) and the hand-over to the deferred unlock. *)
From Coq Require Import List ZArith Lia Bool Arith.
From LF Require Import Conc T1K MChan MChanExclBase MChanExclSteps.
Import ListNotations.
Local Open Scope Z_scope.

Arguments fname : simpl never.
Arguments Zn : simpl never.
Arguments tid_of_name : simpl never.
Arguments c_scr : simpl never.
Arguments c_buf : simpl never.
Arguments bidx : simpl never.
Arguments wait_list : simpl never.
Arguments wake_list : simpl never.
Arguments Z.add : simpl nomatch.
Arguments Z.sub : simpl nomatch.
Arguments Z.ltb : simpl nomatch.
Arguments Z.eqb : simpl nomatch.

Section Cs.
Variable x : gst.
Variable t : nat.
Hypothesis HI : Inv x.
Notation m := (mem (gb x)).

Ltac loc_tac := unfold loc_eq; cbn; repeat split; try reflexivity; intros;
                rewrite ?upd_other by assumption; auto.

Lemma owner_no_debt : role x t = Owner -> debt x = None.
Proof.
  intros Hr. destruct (debt x) as [d|] eqn:Hd; [|reflexivity].
  exfalso. apply (I_debt_own x (I_C x HI) d t Hd Hr).
Qed.

(* a step of the lock holder: cells, its own state / unlock slot, the channel ghosts,
   and the sleep state of a fiber it wakes *)
Lemma cs_gen (m' : kmem) p' ch' cl' :
  role x t = Owner ->
  ndata m' = ndata m -> nnext m' = nnext m -> word m' = word m -> qhead m' = qhead m ->
  qtail m' = qtail m -> fnode m' = fnode m ->
  slot_sched m' = slot_sched m -> slot_wait m' = slot_wait m -> slot_mpmc m' = slot_mpmc m ->
  (forall u w, hand x u = HNode w -> fstate m' u = fstate m u) ->
  extra (stk (gb x) t) = [] -> extra (stk_of p') = [] ->
  let x' := mk x t m' (stk_of p') (role x) (hand x) (gq x) (debt x) ch' cl' in
  L (view_of x' t) p' -> X x' t p' ->
  (forall u q, u <> t -> stk (gb x) u = stk_of q -> L (view_of x u) q -> L (view_of x' u) q) ->
  InvQ x' -> Inv x'.
Proof.
  intros Hr Ed En Ew Eh Et Ef S2 S3 S4 Hfs Hex Hex' x' HL HX HLo HQ.
  pose proof (owner_no_debt Hr) as Hnd.
  assert (Hst : forall u, u <> t -> stk (gb x') u = stk (gb x) u) by (intros u Hu; cbn; apply upd_other; exact Hu).
  constructor.
  - intros u. destruct (Nat.eq_dec u t) as [->|Nu].
    + exists p'. split; [cbn; apply upd_same|]. split; assumption.
    + destruct (I_thr x HI u) as (q & Q1 & Q2 & Q3). exists q. rewrite (Hst u Nu).
      split; [exact Q1|]. split; [apply (HLo u q Nu Q1 Q2)|].
      destruct q as [| | |f0 c0| |[] ? ? ?|[] ?| | |? ? ? ?]; try exact I; revert Q3; unfold X, Xk, popping;
        cbn [x' mk gb mem gq debt hand role]; rewrite ?Ed, ?En, ?Eh; auto.
      * (* another fiber in the critical section: impossible *)
        intros _. exfalso. apply Nu. apply (I_own1 x (I_C x HI)); [apply Q2|exact Hr].
      * intros ((A & B) & C). split; [auto|]. rewrite (Hfs _ _ A). exact C.
  - intros u. cbn. rewrite S2, S3, S4. apply (I_slots x HI).
  - intros d Hd. cbn in Hd. congruence.
  - apply (invC_frame x); cbn [x' mk gb mem role debt gq nthr]; auto; [now rewrite Ew|apply (I_C x HI)].
  - apply (invN_frame x); cbn [x' mk gb mem gq stk]; auto; [|apply (I_N x HI)].
    intros u. destruct (Nat.eq_dec u t) as [->|N]; [rewrite upd_same; congruence|now rewrite upd_other].
  - exact HQ.
Qed.

(* a write of a cell that is neither a list head nor the link of a queued fiber *)
Lemma cs_cell c' v p' :
  role x t = Owner -> extra (stk (gb x) t) = [] -> extra (stk_of p') = [] ->
  (forall c0, lhd c0 -> c0 <> c') -> (forall g, chand x g = CQueued -> c_scr g <> c') ->
  let x' := mk x t (set_cell m c' v) (stk_of p') (role x) (hand x) (gq x) (debt x) (chand x) (cq x) in
  L (view_of x' t) p' -> X x' t p' -> Inv x'.
Proof.
  intros Hr Hex Hex' Hh Hs x' HL HX.
  apply cs_gen; try reflexivity; try assumption.
  - intros u q Hu _ HLq. exact HLq.
  - pose proof (I_Q x HI) as [Q1 Q2 Q3]. constructor; cbn [x' mk gb mem cq chand set_cell cell].
    + intros c Hc. apply clist_ok_upd; [apply Hh; exact Hc| |apply Q1; exact Hc].
      intros f Hf. apply Hs. apply (Q3 c f Hc Hf).
    + exact Q2.
    + exact Q3.
Qed.

(* a step that changes no memory: reads *)
Lemma cs_read f c p' :
  stk (gb x) t = stk_of (PCs f c) -> role x t = Owner -> extra (stk_of p') = [] ->
  let x' := mk x t m (stk_of p') (role x) (hand x) (gq x) (debt x) (chand x) (cq x) in
  L (view_of x' t) p' -> X x' t p' -> extra (stk (gb x) t) = [] -> Inv x'.
Proof.
  intros Hs Hr Hex' x' HL HX Hex.
  apply (inv_local x t m (stk_of p') p' HI); [loc_tac|reflexivity|congruence|exact HL|exact HX|auto|].
  intros Hd. rewrite (owner_no_debt Hr) in Hd. discriminate.
Qed.

Ltac rd P Hs Hr Hob Hch Hex :=
  apply (cs_read _ _ P Hs Hr eq_refl); [split; [exact Hob|exact Hch]| |exact Hex].

(* ---- reads ---- *)
Lemma step_cs_read ff cc :
  stk (gb x) t = stk_of (PCs ff cc) -> L (view_of x t) (PCs ff cc) -> X x t (PCs ff cc) ->
  match cc with
  | MHigh _ _ _ | MLow _ _ _ _ | MSIdx _ _ _ | MSHigh2 _ _ | MRIdx _ _ | MRBuf _ _ _ | MRLow2 _ _ _
  | MWk1 _ _ _ _ | MWk2 _ _ _ _ | MWk3 _ _ _ _ _ | MWt1 _ _ _ => True
  | _ => False
  end -> Inv (gstep x t).
Proof.
  intros Hs HL HX Hc. destruct HL as [Hob Hch]. assert (Hr : role x t = Owner) by apply Hob.
  pose proof (I_Q x HI) as [Q1 Q2 Q3].
  cbn [X] in HX. destruct cc; try contradiction; clear Hc; cbn [csx is_wt4] in HX, Hch.
  - (* MHigh *) subst ff. assert (Hex : extra (stk (gb x) t) = []) by (rewrite Hs; reflexivity).
    gred Hs. cbn. rd (PCs (CRead c_low) (MLow a (cell m c_high) p k)) Hs Hr Hob Hch Hex. reflexivity.
  - (* MLow *) subst ff. assert (Hex : extra (stk (gb x) t) = []) by (rewrite Hs; reflexivity).
    gred Hs. cbn. destruct a as [v|].
    + destruct (hi - cell m c_low <? csize (gb x)); cbn.
      * rd (PCs (CRead c_high) (MSIdx v p k)) Hs Hr Hob Hch Hex. reflexivity.
      * rd (PCs (CRead (wait_list (onelist (gb x)) (ASend v))) (MWt1 (ASend v) p k)) Hs Hr Hob Hch Hex. reflexivity.
    + destruct (cell m c_low <? hi); cbn.
      * rd (PCs (CRead c_low) (MRIdx p k)) Hs Hr Hob Hch Hex. reflexivity.
      * rd (PCs (CRead (wait_list (onelist (gb x)) ARecv)) (MWt1 ARecv p k)) Hs Hr Hob Hch Hex. reflexivity.
  - (* MSIdx *) subst ff. assert (Hex : extra (stk (gb x) t) = []) by (rewrite Hs; reflexivity).
    gred Hs. cbn.
    rd (PCs (CWrite (c_buf (bidx (csize (gb x)) (cell m c_high))) v) (MSBuf p k)) Hs Hr Hob Hch Hex.
    cbn. eauto.
  - (* MSHigh2 *) subst ff. assert (Hex : extra (stk (gb x) t) = []) by (rewrite Hs; reflexivity).
    gred Hs. cbn.
    rd (PCs (CWrite c_high (cell m c_high + 1)) (MWk0 (wake_list (onelist (gb x)) (ASend 0)) 0 p k)) Hs Hr Hob Hch Hex.
    cbn. split; [apply lhd_wake|eauto].
  - (* MRIdx *) subst ff. assert (Hex : extra (stk (gb x) t) = []) by (rewrite Hs; reflexivity).
    gred Hs. cbn.
    rd (PCs (CRead (c_buf (bidx (csize (gb x)) (cell m c_low)))) (MRBuf (bidx (csize (gb x)) (cell m c_low)) p k)) Hs Hr Hob Hch Hex.
    reflexivity.
  - (* MRBuf *) subst ff. assert (Hex : extra (stk (gb x) t) = []) by (rewrite Hs; reflexivity).
    gred Hs. cbn.
    rd (PCs (CWrite (c_buf i) 0) (MRClr (cell m (c_buf i)) p k)) Hs Hr Hob Hch Hex. cbn. eauto.
  - (* MRLow2 *) subst ff. match goal with mm : Z |- _ => rename mm into m0 end. assert (Hex : extra (stk (gb x) t) = []) by (rewrite Hs; reflexivity).
    gred Hs. cbn.
    rd (PCs (CWrite c_low (cell m c_low + 1)) (MWk0 (wake_list (onelist (gb x)) ARecv) m0 p k)) Hs Hr Hob Hch Hex.
    cbn. split; [apply lhd_wake|eauto].
  - (* MWk1 *) destruct HX as [Hl ->]. assert (Hex : extra (stk (gb x) t) = []) by (rewrite Hs; reflexivity).
    gred Hs. cbn. destruct (cell m c =? 0) eqn:E; cbn.
    + apply (cs_read _ _ (PUAdd r p k) Hs Hr eq_refl); [split; [exact Hob|exact Hch]|exact I|exact Hex].
    + rd (PCs (CRead c) (MWk2 c r p k)) Hs Hr Hob Hch Hex.
      cbn. split; [exact Hl|]. split; [reflexivity|]. intros Eq. specialize (Q1 c Hl). rewrite Eq in Q1.
      cbn in Q1. rewrite Q1 in E. discriminate.
  - (* MWk2 *) destruct HX as (Hl & -> & Hne). assert (Hex : extra (stk (gb x) t) = []) by (rewrite Hs; reflexivity).
    destruct (cq x c) as [|g rest] eqn:Eq; [congruence|].
    pose proof (Q1 c Hl) as Hok. rewrite Eq in Hok. destruct Hok as [Hv _].
    gred Hs. cbn. rewrite Hv, tid_of_fname.
    rd (PCs (CRead (c_scr g)) (MWk3 c r g p k)) Hs Hr Hob Hch Hex.
    cbn. split; [exact Hl|]. split; [reflexivity|]. eauto.
  - (* MWk3 *) destruct HX as (Hl & -> & rest & Eq). assert (Hex : extra (stk (gb x) t) = []) by (rewrite Hs; reflexivity).
    gred Hs. cbn.
    rd (PCs (CWrite c (cell m (c_scr f))) (MWk4 r f p k)) Hs Hr Hob Hch Hex.
    cbn. exists c, rest. auto.
  - (* MWt1 *) subst ff. assert (Hex : extra (stk (gb x) t) = []) by (rewrite Hs; reflexivity).
    gred Hs. cbn.
    rd (PCs (CWrite (c_scr t) (cell m (wait_list (onelist (gb x)) a))) (MWt2 a p k)) Hs Hr Hob Hch Hex.
    reflexivity.
Qed.

(* ---- writes of ring cells, counters and links of fibers that are not queued ---- *)
Lemma step_cs_cell ff cc :
  stk (gb x) t = stk_of (PCs ff cc) -> L (view_of x t) (PCs ff cc) -> X x t (PCs ff cc) ->
  match cc with
  | MSBuf _ _ | MRClr _ _ _ | MWk0 _ _ _ _ | MWt2 _ _ _ | MWk5 _ _ _ _ => True
  | _ => False
  end -> Inv (gstep x t).
Proof.
  intros Hs HL HX Hc. destruct HL as [Hob Hch]. assert (Hr : role x t = Owner) by apply Hob.
  cbn [X] in HX. destruct cc; try contradiction; clear Hc; cbn [csx is_wt4] in HX, Hch.
  - (* MSBuf *) destruct HX as (i & v & ->). assert (Hex : extra (stk (gb x) t) = []) by (rewrite Hs; reflexivity).
    gred Hs. cbn.
    apply (cs_cell (c_buf i) v (PCs (CRead c_high) (MSHigh2 p k)) Hr Hex eq_refl).
    + intros c0 [-> | ->]; cells.
    + intros g _. cells.
    + split; [exact Hob|exact Hch].
    + reflexivity.
  - (* MRClr *) destruct HX as (i & ->). assert (Hex : extra (stk (gb x) t) = []) by (rewrite Hs; reflexivity).
    match goal with mm : Z |- _ => rename mm into m0 end.
    gred Hs. cbn.
    apply (cs_cell (c_buf i) 0 (PCs (CRead c_low) (MRLow2 m0 p k)) Hr Hex eq_refl).
    + intros c0 [-> | ->]; cells.
    + intros g _. cells.
    + split; [exact Hob|exact Hch].
    + reflexivity.
  - (* MWk0 *) destruct HX as (Hl & v & [-> | ->]);
    assert (Hex : extra (stk (gb x) t) = []) by (rewrite Hs; reflexivity); gred Hs; cbn.
    + apply (cs_cell c_high v (PCs (CRead c) (MWk1 c r p k)) Hr Hex eq_refl).
      * intros c0 [-> | ->]; cells.
      * intros g _. cells.
      * split; [exact Hob|exact Hch].
      * cbn. auto.
    + apply (cs_cell c_low v (PCs (CRead c) (MWk1 c r p k)) Hr Hex eq_refl).
      * intros c0 [-> | ->]; cells.
      * intros g _. cells.
      * split; [exact Hob|exact Hch].
      * cbn. auto.
  - (* MWk5 *) destruct HX as (-> & Hg). assert (Hex : extra (stk (gb x) t) = []) by (rewrite Hs; reflexivity).
    gred Hs. cbn.
    apply (cs_cell (c_scr f) 0 (PCs (FStWrite f ST_READY) (MWk6 r f p k)) Hr Hex eq_refl).
    + intros c0 Hc0. apply lhd_scr. exact Hc0.
    + intros g Hq E. apply scr_inj in E. subst g. congruence.
    + split; [exact Hob|exact Hch].
    + cbn. auto.
  - (* MWt2 *) subst ff. assert (Hex : extra (stk (gb x) t) = []) by (rewrite Hs; reflexivity).
    gred Hs. cbn.
    apply (cs_cell (c_scr t) _ (PCs (CWrite (wait_list (onelist (gb x)) a) (fname t)) (MWt3 a p k)) Hr Hex eq_refl).
    + intros c0 Hc0. apply lhd_scr. exact Hc0.
    + intros g Hq E. apply scr_inj in E. subst g. cbn in Hch. destruct Hch; congruence.
    + split; [exact Hob|exact Hch].
    + cbn. exists (wait_list (onelist (gb x)) a). split; [apply lhd_wait|]. split; [reflexivity|].
      rewrite upd_same. rewrite upd_other; [reflexivity|]. apply lhd_scr. apply lhd_wait.
Qed.

(* ---- the channel's waiter lists ---- *)
Lemma NoDup_insert {A} (l1 l2 : list A) a : NoDup (l1 ++ l2) -> ~ In a (l1 ++ l2) -> NoDup (l1 ++ a :: l2).
Proof.
  induction l1 as [|b l1 IH]; cbn; intros H Hn; [constructor; assumption|].
  inversion H; subst. constructor.
  - rewrite in_app_iff in *. cbn. intuition.
  - apply IH; auto.
Qed.

(* a fiber waiting on the channel (not the lock holder) is popped from the list by w *)
Lemma L_cpop v p w :
  L v p -> vch v = CQueued -> vro v <> Owner ->
  L (mkV (vfs v) (vfn v) (vpd v) (vbl v) (vro v) (vha v) (CPopped w) (vsm v) (vinq v)) p.
Proof.
  destruct v as [fs fn pd bl ro ha ch sm inq]. cbn [vfs vfn vpd vbl vch vsm vinq vha vro].
  intros HL -> Hro.
  destruct p as [| | |? c| |[] ? ? ?|[] []| | |[] ? ? ?];
  revert HL; Lunf; try solve [intros HL; exfalso; intuition (try discriminate; try congruence)];
  intros HL; intuition (try discriminate; try congruence; eauto).
Qed.

(* ... and woken: state READY, then rt_wake *)
Lemma L_cwake v p w :
  L v p -> vch v = CPopped w ->
  settled (vha v) /\
  L (mkV ST_READY (vfn v) (if vbl v then vpd v else S (vpd v)) false (vro v) (vha v) CWoken (vsm v) (vinq v)) p.
Proof.
  destruct v as [fs fn pd bl ro ha ch sm inq]. cbn [vfs vfn vpd vbl vch vsm vinq vha vro].
  intros HL ->.
  destruct p as [| | |? c| |[] ? ? ?|[] []| | |[] ? ? ?];
  revert HL; Lunf; try solve [intros HL; exfalso; intuition (try discriminate; try congruence)];
  try (destruct (is_wt4 c)); intros HL; destruct bl;
  intuition (try discriminate; try congruence; eauto).
Qed.

Ltac view_same Hu := unfold view_eqv, view_of; cbn; rewrite ?upd_other by exact Hu; tauto.

(* internal_wait: the fiber links itself at the top of its list *)
Lemma step_cs_push ff a p k :
  stk (gb x) t = stk_of (PCs ff (MWt3 a p k)) -> L (view_of x t) (PCs ff (MWt3 a p k)) ->
  X x t (PCs ff (MWt3 a p k)) -> Inv (gstep x t).
Proof.
  intros Hs HL HX. destruct HL as [Hob Hch]. assert (Hr : role x t = Owner) by apply Hob.
  cbn [X csx is_wt4] in HX, Hch. destruct HX as (c0 & Hl & -> & Hlink).
  assert (Hex : extra (stk (gb x) t) = []) by (rewrite Hs; reflexivity).
  pose proof (I_Q x HI) as [Q1 Q2 Q3].
  assert (Hnt : forall c, lhd c -> ~ In t (cq x c)).
  { intros c Hc Hin. pose proof (Q3 c t Hc Hin) as E. cbn in Hch. destruct Hch; congruence. }
  gred Hs. cbn.
  apply (cs_gen (set_cell m c0 (fname t)) (PCs (FStWrite t ST_WAITING) (MWt4 a p k))); try reflexivity; try assumption.
  - split; [exact Hob|]. cbn. apply upd_same.
  - intros u q Hu _ HLq. eapply L_eqv; [|exact HLq]. view_same Hu.
  - constructor; cbn [mk gb mem cq chand set_cell cell].
    + intros c Hc. destruct (Nat.eq_dec c c0) as [->|Nc].
      * rewrite upd_same. cbn. rewrite upd_same. split; [reflexivity|].
        apply clist_ok_upd; [apply not_eq_sym; apply lhd_scr; exact Hl| |].
        -- intros f _. apply not_eq_sym. apply lhd_scr. exact Hl.
        -- apply (clist_ok_head _ c0); [symmetry; exact Hlink|apply Q1; exact Hl].
      * rewrite upd_other by exact Nc. apply clist_ok_upd; [exact Nc| |apply Q1; exact Hc].
        intros f _. apply not_eq_sym. apply lhd_scr. exact Hl.
    + assert (Hn : ~ In t (cq x c_waiters ++ cq x c_rwaiters)).
      { rewrite in_app_iff. intros [H|H]; [apply (Hnt c_waiters)|apply (Hnt c_rwaiters)]; unfold lhd; auto. }
      destruct Hl as [-> | ->].
      * rewrite upd_same, upd_other by (unfold c_waiters, c_rwaiters; lia). cbn. constructor; assumption.
      * rewrite upd_same, upd_other by (unfold c_waiters, c_rwaiters; lia). apply NoDup_insert; assumption.
    + intros c f Hc Hin. destruct (Nat.eq_dec f t) as [->|Nf]; [apply upd_same|].
      rewrite upd_other by exact Nf. apply (Q3 c f Hc).
      destruct (Nat.eq_dec c c0) as [->|Nc]; [|rewrite upd_other in Hin by exact Nc; exact Hin].
      rewrite upd_same in Hin. destruct Hin as [E|Hin]; [congruence|exact Hin].
Qed.

(* internal_wake: the top of the list is unlinked *)
Lemma step_cs_pop ff r g p k :
  stk (gb x) t = stk_of (PCs ff (MWk4 r g p k)) -> L (view_of x t) (PCs ff (MWk4 r g p k)) ->
  X x t (PCs ff (MWk4 r g p k)) -> Inv (gstep x t).
Proof.
  intros Hs HL HX. destruct HL as [Hob Hch]. assert (Hr : role x t = Owner) by apply Hob.
  cbn [X csx is_wt4] in HX, Hch. destruct HX as (c0 & rest & Hl & -> & Eq).
  assert (Hex : extra (stk (gb x) t) = []) by (rewrite Hs; reflexivity).
  pose proof (I_Q x HI) as [Q1 Q2 Q3].
  assert (Hgq : chand x g = CQueued) by (apply (Q3 c0 g Hl); rewrite Eq; cbn; auto).
  assert (Hgt : g <> t) by (intros ->; cbn in Hch; destruct Hch; congruence).
  assert (Hgo : role x g <> Owner) by (intros E; apply Hgt; apply (I_own1 x (I_C x HI)); assumption).
  pose proof (Q1 c0 Hl) as Hok. rewrite Eq in Hok. destruct Hok as [Hv Hok].
  assert (Hnd : ~ In g rest /\ forall c, lhd c -> c <> c0 -> ~ In g (cq x c)).
  { destruct Hl as [-> | ->]; rewrite Eq in Q2.
    - cbn in Q2. apply NoDup_cons_iff in Q2 as [Hn _]. rewrite in_app_iff in Hn. split; [tauto|].
      intros c [-> | ->] Nc; [congruence|tauto].
    - apply NoDup_remove_2 in Q2. rewrite in_app_iff in Q2. split; [tauto|].
      intros c [-> | ->] Nc; [tauto|congruence]. }
  destruct Hnd as [Hnr Hno].
  gred Hs. cbn. rewrite Eq. cbn [List.tl].
  apply (cs_gen (set_cell m c0 (cell m (c_scr g))) (PCs (CWrite (c_scr g) 0) (MWk5 r g p k))); try reflexivity; try assumption.
  - split; [exact Hob|]. cbn. rewrite upd_other by auto. exact Hch.
  - cbn. split; [reflexivity|apply upd_same].
  - intros u q Hu Hq HLq. destruct (Nat.eq_dec u g) as [->|Ng].
    + eapply L_eqv; [|apply (L_cpop _ q t HLq Hgq Hgo)]. unfold view_eqv, view_of. cbn. rewrite upd_same. tauto.
    + eapply L_eqv; [|exact HLq]. view_same Ng.
  - constructor; cbn [mk gb mem cq chand set_cell cell].
    + intros c Hc. destruct (Nat.eq_dec c c0) as [->|Nc].
      * rewrite upd_same. apply (clist_ok_head _ (c_scr g)).
        -- rewrite upd_same. apply upd_other. apply not_eq_sym. apply lhd_scr. exact Hl.
        -- apply clist_ok_upd; [apply not_eq_sym; apply lhd_scr; exact Hl| |exact Hok].
           intros f _. apply not_eq_sym. apply lhd_scr. exact Hl.
      * rewrite upd_other by exact Nc. apply clist_ok_upd; [exact Nc| |apply Q1; exact Hc].
        intros f _. apply not_eq_sym. apply lhd_scr. exact Hl.
    + destruct Hl as [-> | ->]; rewrite Eq in Q2.
      * rewrite upd_same, upd_other by (unfold c_waiters, c_rwaiters; lia).
        cbn in Q2. apply NoDup_cons_iff in Q2. tauto.
      * rewrite upd_same, upd_other by (unfold c_waiters, c_rwaiters; lia).
        apply NoDup_remove_1 in Q2. exact Q2.
    + intros c f Hc Hin. destruct (Nat.eq_dec c c0) as [->|Nc].
      * rewrite upd_same in Hin. rewrite upd_other by (intros ->; tauto).
        apply (Q3 c0 f Hc). rewrite Eq. cbn. auto.
      * rewrite upd_other in Hin by exact Nc. rewrite upd_other by (intros ->; apply (Hno c Hc Nc Hin)).
        apply (Q3 c f Hc Hin).
Qed.

(* internal_wake: the popped fiber is made READY and scheduled; then fiber_mutex_unlock *)
Lemma step_cs_wake ff r g p k :
  stk (gb x) t = stk_of (PCs ff (MWk6 r g p k)) -> L (view_of x t) (PCs ff (MWk6 r g p k)) ->
  X x t (PCs ff (MWk6 r g p k)) -> Inv (gstep x t).
Proof.
  intros Hs HL HX. destruct HL as [Hob Hch]. assert (Hr : role x t = Owner) by apply Hob.
  cbn [X csx is_wt4] in HX, Hch. destruct HX as (-> & Hg).
  assert (Hex : extra (stk (gb x) t) = []) by (rewrite Hs; reflexivity).
  assert (Hgt : g <> t) by (intros ->; cbn in Hch; destruct Hch; congruence).
  destruct (I_thr x HI g) as (qg & G1 & G2 & G3).
  destruct (L_cwake _ qg t G2 Hg) as [Hgs Gw].
  set (m1 := wake (set_fstate m g ST_READY) g).
  assert (Hm1 : ndata m1 = ndata m /\ nnext m1 = nnext m /\ word m1 = word m /\ qhead m1 = qhead m /\
                qtail m1 = qtail m /\ fnode m1 = fnode m /\ cell m1 = cell m /\
                slot_sched m1 = slot_sched m /\ slot_wait m1 = slot_wait m /\ slot_mpmc m1 = slot_mpmc m /\
                slot_mutex m1 = slot_mutex m /\
                (forall u, u <> g -> fstate m1 u = fstate m u /\ blocked m1 u = blocked m u /\ pend m1 u = pend m u) /\
                fstate m1 g = ST_READY /\ blocked m1 g = false /\
                pend m1 g = (if blocked m g then pend m g else S (pend m g))).
  { unfold m1, wake. cbn [set_fstate blocked]. destruct (blocked m g) eqn:Eb; cbn;
    repeat split; try reflexivity; intros; rewrite ?upd_same, ?upd_other by assumption; auto. }
  destruct Hm1 as (Ed & En & Ew & Eh & Et & Ef & Ec & S2 & S3 & S4 & S1 & Eo & Gf & Gb & Gp).
  unfold gstep, step. rewrite Hs. cbn [stk_of]. cbn -[wake]. fold m1.
  apply (cs_gen m1 (PUAdd r p k)); try assumption; try reflexivity.
  - intros u w Hu. apply Eo. intros ->. apply (settled_not_node _ w Hgs). exact Hu.
  - destruct (Eo t (not_eq_sym Hgt)) as (F1 & F2 & F3).
    revert Hob Hch. Lunf. unfold view_of. cbn [mk gb mem role hand gq chand vfs vfn vpd vbl vro vha vch vsm vinq].
    rewrite F1, F2, F3, Ef, S1, upd_other by auto. tauto.
  - intros u q Hu Hq HLq. destruct (Nat.eq_dec u g) as [->|Ng].
    + assert (q = qg \/ True) as _ by auto.
      assert (HLg : L (view_of x g) q) by exact HLq.
      destruct (L_cwake _ q t HLg Hg) as [_ Gw'].
      eapply L_eqv; [|exact Gw']. unfold view_eqv, view_of.
      cbn [mk gb mem role hand gq chand vfs vfn vpd vbl vro vha vch vsm vinq].
      rewrite Gf, Gb, Gp, Ef, S1, upd_same. tauto.
    + destruct (Eo u Ng) as (F1 & F2 & F3). eapply L_eqv; [|exact HLq]. unfold view_eqv, view_of.
      cbn [mk gb mem role hand gq chand vfs vfn vpd vbl vro vha vch vsm vinq].
      rewrite F1, F2, F3, Ef, S1, upd_other by auto. tauto.
  - pose proof (I_Q x HI) as [Q1 Q2 Q3]. constructor; cbn [mk gb mem cq chand]; rewrite ?Ec.
    + exact Q1.
    + exact Q2.
    + intros c f Hc Hin. pose proof (Q3 c f Hc Hin) as E. rewrite upd_other; [exact E|].
      intros ->. congruence.
Qed.

(* internal_wait: state WAITING, the unlock is deferred to the maintenance of the yield *)
Lemma step_cs_defer ff a p k :
  stk (gb x) t = stk_of (PCs ff (MWt4 a p k)) -> L (view_of x t) (PCs ff (MWt4 a p k)) ->
  X x t (PCs ff (MWt4 a p k)) -> Inv (gstep x t).
Proof.
  intros Hs HL HX. destruct HL as [Hob Hch]. assert (Hr : role x t = Owner) by apply Hob.
  cbn [X csx is_wt4] in HX, Hch. subst ff.
  assert (Hex : extra (stk (gb x) t) = []) by (rewrite Hs; reflexivity).
  assert (Hset : settled (hand x t)) by apply Hob.
  gred Hs. cbn.
  apply (cs_gen (set_slot_mutex (set_fstate m t ST_WAITING) t (Some 0%nat)) (PY YfY a p k)); try reflexivity; try assumption.
  - intros u w Hu. cbn. apply upd_other. intros ->. apply (settled_not_node _ w Hset). exact Hu.
  - left. revert Hob Hch. Lunf. unfold view_of. cbn. rewrite !upd_same. tauto.
  - intros u q Hu _ HLq. eapply L_eqv; [|exact HLq]. view_same Hu.
  - apply (invQ_frame x); try reflexivity. apply (I_Q x HI).
Qed.

Lemma step_PCs ff cc :
  stk (gb x) t = stk_of (PCs ff cc) -> L (view_of x t) (PCs ff cc) -> X x t (PCs ff cc) -> Inv (gstep x t).
Proof.
  intros Hs HL HX. destruct cc;
    try (apply (step_cs_read _ _ Hs HL HX I));
    try (apply (step_cs_cell _ _ Hs HL HX I)).
  - destruct HX.
  - destruct HX.
  - apply (step_cs_pop _ _ _ _ _ Hs HL HX).
  - apply (step_cs_wake _ _ _ _ _ Hs HL HX).
  - destruct HX.
  - apply (step_cs_push _ _ _ _ Hs HL HX).
  - apply (step_cs_defer _ _ _ _ Hs HL HX).
  - destruct HX.
Qed.
End Cs.
