(* C04 - fiber_join / fiber_tryjoin / fiber_detach vs. completion of the target
   fiber.  Statements over every reachable state of the faithful model
   coq/Join.v (client of coq/T1K.v; lock-step with src/fiber.c +
   src/fiber_manager.c on the T1 machine): one target fiber (fiber 0), any
   number of client fibers, any programs over {join, tryjoin, detach, yield},
   any schedule, guarded or unguarded issue of the calls.

   The theorems speak about the instrumented machine of coq/JoinInv.v: the
   model step plus ghost summaries of the history (record [ghost]; each field
   is documented there; [istep]/[gnext] show exactly when each is updated;
   [istep_erase]: the ghosts do not influence the model).  In particular
     gfin     Some R once the target executed its `result` store (R its value)
     gsucc    one entry (fiber, reported result, gfin at that instant) per
              join/tryjoin that returned FIBER_SUCCESS - including joins woken
              by a detach
     dwr      a DETACH exchanged detach_state while a joiner was registered
              (the joiner's exchange had returned NONE and it had not yet been
              taken out of join_info)
     jwr      a JOIN/TRYJOIN exchange returned WAIT_FOR_JOINER while a joiner
              was registered (i.e. a second joiner arrived between the finishing
              target's exchange and its pick-up of the first joiner)
     gdet     a detach has returned FIBER_SUCCESS
     late t   fiber t's join/tryjoin in progress began (first access) after that
     bad_late such a call returned FIBER_SUCCESS
     released a detach exchanged detach_state, or a join/tryjoin exchange
              returned NONE or WAIT_FOR_JOINER
     touched  a field of the target (state, detach_state, join_info, result)
              was accessed after fiber_destroy() handed the target to free()
     jod      a join exchanged WAIT_TO_JOIN over DETACHED

   The model has a boolean parameter (first argument of [iinit]/[ireach], field
   [fxd]): true = the current code, with the repair 4ff1f32 of F-C04a
   (fiber_detach marks the joiner it wakes with FIBER_JOIN_DETACHED and the
   woken fiber_join returns FIBER_ERROR); false = the code before it.  Every
   theorem is about the current code ([ireach true]) except
   join_success_before_finish_prefix_refuted, the regression witness of F-C04a.

   Statements of the property that are FALSE of the current code (findings
   F-C04b..e, each replayed on the real code: corpus/C04.txt) are proved as
   `_refuted` with vm_compute witnesses, next to the theorems whose hypotheses
   exclude exactly those histories.                                          *)
From Coq Require Import List ZArith Bool.
From LF Require Import Conc T1K Join JoinInv JoinProofs.
Import ListNotations.
Local Open Scope Z_scope.

(* ---- join_success_after_finish_with_value --------------------------------
   REGRESSION (F-C04a, repaired by 4ff1f32): on the model of the code BEFORE the
   repair a joiner blocked in fiber_join, woken by another fiber's detach,
   returns SUCCESS with NULL while the target has not called mark_completed
   (its program has not even started). *)
Theorem join_success_before_finish_prefix_refuted :
  exists g progs sch,
    let x := irun (iinit false g progs) sch in
    ireach false g progs x /\
    In (1%nat, 0, None) (gsucc (gh x)) /\        (* fiber 1's join returned SUCCESS / NULL ... *)
    gfin (gh x) = None /\                        (* ... the target has not stored its result *)
    stk (base x) 0%nat = [Start; FC (JNext [JFinish 7] 1)] /\   (* (it has not run at all) *)
    dwr (gh x) = true /\ jwr (gh x) = false.     (* cause: a detach while the joiner was registered *)
Proof.
  exists true, wa_progs, wa_sched. split; [apply ireach_irun; constructor|].
  pose proof witness_a as W. cbv zeta in W. destruct W as [A [B [C [D E]]]].
  rewrite A. repeat split; auto. now left.
Qed.
Print Assumptions join_success_before_finish_prefix_refuted.

(* CURRENT CODE (proved).  Hypothesis: jwr = false, i.e. no join/tryjoin exchange
   returned WAIT_FOR_JOINER while a joiner was registered - this excludes exactly
   F-C04c (join_two_successes_refuted below shows the statement is false without
   it).  Detaches are unrestricted: a joiner woken by a detach now returns ERROR.
   Conclusion: every join/tryjoin that returned SUCCESS returned after the
   target's result store and reported exactly the stored value. *)
Theorem join_success_after_finish_with_value :
  forall g progs x, ireach true g progs x ->
    jwr (gh x) = false ->
    forall t v f, In (t, v, f) (gsucc (gh x)) -> f = Some v.
Proof. intros g progs x R. exact (success_value_of_inv x (ireach_inv g progs x R)). Qed.
Print Assumptions join_success_after_finish_with_value.

(* ---- join_at_most_one_success ---------------------------------------------
   FULL STATEMENT (false): at most one join/tryjoin returns SUCCESS
     forall g progs x, ireach true g progs x -> length (gsucc (gh x)) <= 1.
   F-C04c (no detach anywhere): fiber 1 sleeps in fiber_join; the target
   finishes and exchanges WAIT_TO_JOIN -> WAIT_FOR_JOINER; fiber 2's tryjoin
   sees WAIT_FOR_JOINER, takes FIBER 1 out of join_info and returns SUCCESS / 7;
   fiber 1 wakes and returns SUCCESS / NULL; the target spins forever in
   clear_or_wait and is never reclaimed. *)
Theorem join_two_successes_refuted :
  exists g progs sch,
    let x := irun (iinit true g progs) sch in
    ireach true g progs x /\
    gsucc (gh x) = [(1%nat, 0, Some 7); (2%nat, 7, Some 7)] /\
    dwr (gh x) = false /\ jwr (gh x) = true /\
    spinning_cw x 0 = true /\ reclaims (base x) = 0.
Proof.
  exists true, wc_progs, wc_sched. split; [apply ireach_irun; constructor|]. exact witness_c.
Qed.
Print Assumptions join_two_successes_refuted.

(* PARTIAL (proved).  At most one join/tryjoin returns SUCCESS in every run in
   which no join/tryjoin exchange returned WAIT_FOR_JOINER while a joiner was
   registered (F-C04c excluded; nothing else).  Since 4ff1f32 a join woken by a
   detach returns ERROR and is not a success at all (ex_detach_woken_join_fails),
   so together with join_success_after_finish_with_value: the unique success
   carries the target's value. *)
Theorem join_at_most_one_success_partial :
  forall g progs x, ireach true g progs x ->
    jwr (gh x) = false -> (length (gsucc (gh x)) <= 1)%nat.
Proof. intros g progs x R. exact (one_success_of_inv x (ireach_inv g progs x R)). Qed.
Print Assumptions join_at_most_one_success_partial.

(* ---- join_detached_fails (holds) --------------------------------------------
   A join/tryjoin whose first access comes after a detach returned SUCCESS never
   returns SUCCESS (it returns ERROR, or - F-C04b/d - does not return); and after
   such a detach the rendezvous slot is dead: join_info is NULL and nothing will
   ever be published in it. *)
Theorem join_detached_fails :
  forall g progs x, ireach true g progs x ->
    bad_late (gh x) = false /\
    (gdet (gh x) = true ->
       ji_of (base x) = 0 /\ (mb (gh x) = MBNever \/ exists s u, mb (gh x) = MBTaken s u)).
Proof.
  intros g progs x R. pose proof (ireach_inv g progs x R) as I. split.
  - exact (detached_fails_of_inv x I).
  - exact (detached_slot_dead x I).
Qed.
Print Assumptions join_detached_fails.

(* ---- reclaim_once_after_finish_and_release (holds) ---------------------------
   The target is handed to free() at most once; when it has been, the target's
   thread of control is gone (its last action was the switch away: the reclaim
   happens in the same step as the last state read after the yield point, and
   its stack is empty afterwards), its state is DONE, it had executed its result
   store, and it had been joined or detached. *)
Theorem reclaim_once_after_finish_and_release :
  forall g progs x, ireach true g progs x ->
    reclaims (base x) = 0 \/
    (reclaims (base x) = 1 /\ stk (base x) tgt = [] /\ fstate (mem (base x)) tgt = ST_DONE /\
     gfin (gh x) <> None /\ released (gh x) = true).
Proof. intros g progs x R. exact (reclaim_of_inv x (ireach_inv g progs x R)). Qed.
Print Assumptions reclaim_once_after_finish_and_release.

(* ---- no_touch_after_reclaim ---------------------------------------------------
   FULL STATEMENT (false, also in guarded mode, where every call on the handle
   STARTS while no join/tryjoin/detach has returned SUCCESS):
     forall g progs x, ireach true g progs x -> touched (gh x) = false.
   F-C04b, first witness (guarded): the target finished first and sleeps; fiber
   2's tryjoin has read WAIT_FOR_JOINER twice; fiber 1's join completes
   (SUCCESS / 7); the target wakes, becomes DONE and is freed; fiber 2's exchange
   on detach_state then hits the freed fiber.  Second witness (guarded): fiber
   1 sleeps in join; the target hands over its result and is freed, leaving
   detach_state = WAIT_FOR_JOINER; fiber 2's tryjoin (begun before fiber 1
   returned) "wins" the exchange and spins forever in clear_or_wait on the empty
   join_info of the freed fiber.  No detach, no second-joiner theft (dwr = jwr =
   false) in either. *)
Theorem no_touch_after_reclaim_refuted :
  (exists progs sch,
     let x := irun (iinit true true progs) sch in
     ireach true true progs x /\ touched (gh x) = true /\ reclaims (base x) = 1 /\
     gsucc (gh x) = [(1%nat, 7, Some 7)] /\ dwr (gh x) = false /\ jwr (gh x) = false) /\
  (exists progs sch,
     let x := irun (iinit true true progs) sch in
     ireach true true progs x /\ touched (gh x) = true /\ reclaims (base x) = 1 /\
     spinning_cw x 2 = true /\ dwr (gh x) = false /\ jwr (gh x) = false).
Proof.
  split.
  - exists wb_progs, wb_sched. split; [apply ireach_irun; constructor|].
    pose proof witness_b as W. cbv zeta in W. tauto.
  - exists wb_progs, wb2_sched. split; [apply ireach_irun; constructor|].
    pose proof witness_b2 as W. cbv zeta in W. tauto.
Qed.
Print Assumptions no_touch_after_reclaim_refuted.

(* PARTIAL (proved): what does hold for every number of fibers and every usage.
   Once the target has been handed to free(), (1) the target itself never runs
   again, and (2) no fiber is still in the middle of the waker's accesses to it
   (`to_schedule->state = READY; schedule(to_schedule)` with to_schedule = the
   target): the operation that released the fiber, and the fiber itself, are
   done with it before it is freed.  (With reclaim_once...: the only accesses
   after the free come from OTHER calls on the handle that overlap the release
   or begin after it - F-C04b.)
   NOT PROVED (what is missing): the intended positive statement "guarded mode,
   ONE client fiber => touched = false".  It needs a product invariant over
   (phase of the target, phase of the client, detach_state, slot) that was not
   built; it is validated only by the lock-step monitor (tools/vf/props/C04.py,
   case family `single_client_long`: no touch after reclaim in any such run). *)
Theorem no_touch_after_reclaim_partial :
  forall g progs x, ireach true g progs x -> reclaims (base x) <> 0 ->
    stk (base x) tgt = [] /\
    forall u X, stk (base x) u <> [FStWrite tgt ST_READY; FC X].
Proof. intros g progs x R. exact (reclaimed_quiet x (ireach_inv g progs x R)). Qed.
Print Assumptions no_touch_after_reclaim_partial.

(* ---- an additional falsehood found on the way (F-C04d) -------------------------
   "a detached fiber that finishes is reclaimed" is false: a join racing with the
   detach overwrites DETACHED with WAIT_TO_JOIN; the detach returned SUCCESS, the
   join returned ERROR, both callers are gone, and the finishing target waits
   forever in clear_or_wait for a joiner that does not exist. *)
Theorem join_detach_race_strands_target_refuted :
  exists g progs sch,
    let x := irun (iinit true g progs) sch in
    ireach true g progs x /\
    jod (gh x) = true /\ gdet (gh x) = true /\ gsucc (gh x) = [] /\
    stack_empty x 1 = true /\ stack_empty x 2 = true /\       (* both callers have returned *)
    spinning_cw x 0 = true /\ mb (gh x) = MBNever /\          (* the target spins; the slot is dead *)
    reclaims (base x) = 0.
Proof.
  exists true, wd_progs, wd_sched. split; [apply ireach_irun; constructor|].
  vm_compute. repeat split.
Qed.
Print Assumptions join_detach_race_strands_target_refuted.

(* ---- what is left of F-C04a after the repair (F-C04e) --------------------------
   "a detached fiber that finishes is reclaimed" is false also when the detach
   races with the finishing target for a sleeping joiner: fiber 1 sleeps in join;
   the target finishes and exchanges WAIT_TO_JOIN -> WAIT_FOR_JOINER; fiber 2's
   detach takes fiber 1 out of join_info (fiber 1's join returns ERROR) and
   returns SUCCESS; the target spins forever in clear_or_wait. *)
Theorem detach_steals_from_finishing_target_refuted :
  exists g progs sch,
    let x := irun (iinit true g progs) sch in
    ireach true g progs x /\
    gsucc (gh x) = [] /\ gdet (gh x) = true /\ stolen_d (gh x) = true /\ gfin (gh x) = Some 7 /\
    stack_empty x 1 = true /\ stack_empty x 2 = true /\ spinning_cw x 0 = true /\ reclaims (base x) = 0.
Proof.
  exists true, wa_progs, we_sched. split; [apply ireach_irun; constructor|]. exact witness_e.
Qed.
Print Assumptions detach_steals_from_finishing_target_refuted.

(* ---- non-vacuity ------------------------------------------------------------- *)
(* a join that succeeds with the value, no detach, no second joiner *)
Example ex_success_with_value :
  let x := irun (iinit true true [[JFinish 7]; [JJoin]]) (repeat 1%nat 10 ++ repeat 0%nat 30 ++ repeat 1%nat 12) in
  ireach true true [[JFinish 7]; [JJoin]] x /\ gsucc (gh x) = [(1%nat, 7, Some 7)] /\
  dwr (gh x) = false /\ jwr (gh x) = false /\ reclaims (base x) = 1 /\ touched (gh x) = false.
Proof. split; [apply ireach_irun; constructor | vm_compute; repeat split]. Qed.

(* a tryjoin polling until the target has finished *)
Example ex_tryjoin_value :
  let progs := [[JFinish 9]; [JTry; JTry; JTry]] in
  let x := irun (iinit true true progs) (repeat 1%nat 5 ++ repeat 0%nat 12 ++ repeat 1%nat 20 ++ repeat 0%nat 12) in
  ireach true true progs x /\ gsucc (gh x) = [(1%nat, 9, Some 9)] /\ reclaims (base x) = 1.
Proof. split; [apply ireach_irun; constructor | vm_compute; repeat split]. Qed.

(* a join begun after a completed detach: the hypothesis [late] is met, the call returns ERROR *)
Example ex_late_join :
  let progs := [[JFinish 7]; [JJoin]; [JDetach]] in
  let x := irun (iinit true true progs) [1; 2; 2; 1]%nat in
  ireach true true progs x /\ gdet (gh x) = true /\ late (gh x) 1%nat = true /\
  stack_empty x 1 = true /\ gsucc (gh x) = [].
Proof. split; [apply ireach_irun; constructor | vm_compute; repeat split]. Qed.

(* a detached target that finishes is reclaimed *)
Example ex_detached_reclaimed :
  let progs := [[JFinish 7]; [JDetach]] in
  let x := irun (iinit true true progs) (repeat 1%nat 3 ++ repeat 0%nat 12) in
  ireach true true progs x /\ reclaims (base x) = 1 /\ released (gh x) = true /\ touched (gh x) = false.
Proof. split; [apply ireach_irun; constructor | vm_compute; repeat split]. Qed.

(* F-C04a's schedule on the current code: the join woken by the detach returns ERROR *)
Example ex_detach_woken_join_fails :
  let x := irun (iinit true true wa_progs) (repeat 1%nat 10 ++ repeat 2%nat 5 ++ repeat 1%nat 6) in
  ireach true true wa_progs x /\ gsucc (gh x) = [] /\ stack_empty x 1 = true /\ gdet (gh x) = true /\
  dwr (gh x) = true.
Proof. split; [apply ireach_irun; constructor | vm_compute; repeat split]. Qed.
