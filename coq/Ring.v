(* Model of include/lockfree_ring_buffer.h (C16): one step per shared access.
   locs: 0 = high, 1 = low, 10+i = buffer[i].  Values are nat, 0 = NULL; the
   program pushes [S v] so that a pushed value is never NULL (the C code
   asserts this).  Counters are unbounded nat: the 2^64 wrap of high/low is
   outside the model (stated guard, see DESIGN.md C16). *)
From Coq Require Import List ZArith Lia Bool Arith.
From LF Require Import Conc.
Import ListNotations.

Inductive op := OPush (v : nat) | OPop.

Inductive pcT := PLow | PHigh | PSlot | PCas | PWrite
               | QHigh | QLow | QSlot | QCas | QClear | Fin.

Record tst := { pc : pcT; lo : nat; hi : nat; arg : nat; rd : nat;
                prog : list op; opi : nat }.

(* ghost: vals i = the value claimed for absolute index i *)
Record st := { high : nat; low : nat; size : nat; buf : nat -> nat;
               vals : nat -> nat; thr : nat -> tst; nthr : nat }.

(* begin the next operation of the program (the C thread runs on to the first
   access of its next call inside the same grant) *)
Definition next_op (T : tst) : tst :=
  match prog T with
  | [] => {| pc := Fin; lo := lo T; hi := hi T; arg := arg T; rd := rd T; prog := []; opi := opi T |}
  | OPush v :: r => {| pc := PLow; lo := 0; hi := 0; arg := S v; rd := 0; prog := r; opi := S (opi T) |}
  | OPop :: r => {| pc := QHigh; lo := 0; hi := 0; arg := 0; rd := 0; prog := r; opi := S (opi T) |}
  end.

Definition with_pc (T : tst) (p : pcT) : tst :=
  {| pc := p; lo := lo T; hi := hi T; arg := arg T; rd := rd T; prog := prog T; opi := opi T |}.

Definition set_thr (s : st) (t : nat) (x : tst) : st :=
  {| high := high s; low := low s; size := size s; buf := buf s; vals := vals s;
     thr := upd (thr s) t x; nthr := nthr s |}.

Local Open Scope Z_scope.
Definition ev (t : nat) (loc kind : Z) (v : nat) : list Z := [Z.of_nat t; loc; kind; Z.of_nat v].
(* return event of the current call: loc = index of the call in the program *)
Definition ret (t : nat) (T : tst) (v : nat) : list Z := [Z.of_nat t; Z.of_nat (opi T); 909; Z.of_nat v].
Local Close Scope Z_scope.

Definition bufloc (i : nat) : Z := (10 + Z.of_nat i)%Z.

Definition step (s : st) (t : nat) : st * list Z :=
  let T := thr s t in
  match pc T with
  | Fin => (s, [])
  | PLow => (set_thr s t {| pc := PHigh; lo := low s; hi := hi T; arg := arg T; rd := rd T; prog := prog T; opi := opi T |},
             ev t 1 22 (low s))
  | PHigh => (set_thr s t {| pc := PSlot; lo := lo T; hi := high s; arg := arg T; rd := rd T; prog := prog T; opi := opi T |},
              ev t 0 22 (high s))
  | PSlot =>
      let i := hi T mod size s in
      let e := ev t (bufloc i) 9 (buf s i) in
      match buf s i with
      | O => if hi T - lo T <? size s
             then (set_thr s t (with_pc T PCas), e)
             else (set_thr s t (next_op T), e ++ ret t T 0)
      | S _ => (set_thr s t (next_op T), e ++ ret t T 0)
      end
  | PCas =>
      if high s =? hi T
      then ({| high := S (high s); low := low s; size := size s; buf := buf s;
               vals := upd (vals s) (hi T) (arg T);
               thr := upd (thr s) t (with_pc T PWrite); nthr := nthr s |},
            ev t 0 73 (S (hi T)))
      else (set_thr s t (next_op T), ev t 0 83 (high s) ++ ret t T 0)
  | PWrite =>
      ({| high := high s; low := low s; size := size s;
          buf := upd (buf s) (hi T mod size s) (arg T);
          vals := vals s; thr := upd (thr s) t (next_op T); nthr := nthr s |},
       ev t (bufloc (hi T mod size s)) 19 (arg T) ++ ret t T 1)
  | QHigh => (set_thr s t {| pc := QLow; lo := lo T; hi := high s; arg := arg T; rd := rd T; prog := prog T; opi := opi T |},
              ev t 0 22 (high s))
  | QLow => (set_thr s t {| pc := QSlot; lo := low s; hi := hi T; arg := arg T; rd := rd T; prog := prog T; opi := opi T |},
             ev t 1 22 (low s))
  | QSlot =>
      let i := lo T mod size s in
      let e := ev t (bufloc i) 9 (buf s i) in
      match buf s i with
      | O => (set_thr s t (next_op T), e ++ ret t T 0)
      | S _ => if lo T <? hi T
               then (set_thr s t {| pc := QCas; lo := lo T; hi := hi T; arg := arg T; rd := buf s i; prog := prog T; opi := opi T |}, e)
               else (set_thr s t (next_op T), e ++ ret t T 0)
      end
  | QCas =>
      if low s =? lo T
      then ({| high := high s; low := S (low s); size := size s; buf := buf s; vals := vals s;
               thr := upd (thr s) t (with_pc T QClear); nthr := nthr s |},
            ev t 1 72 (S (lo T)))
      else (set_thr s t (next_op T), ev t 1 82 (low s) ++ ret t T 0)
  | QClear =>
      ({| high := high s; low := low s; size := size s;
          buf := upd (buf s) (lo T mod size s) 0;
          vals := vals s; thr := upd (thr s) t (next_op T); nthr := nthr s |},
       ev t (bufloc (lo T mod size s)) 19 0 ++ ret t T (rd T))
  end.

Definition status_of (s : st) (t : nat) : status :=
  if t <? nthr s then match pc (thr s t) with Fin => SDone | _ => SReady end else SDone.

Definition idle_thread (p : list op) : tst :=
  next_op {| pc := Fin; lo := 0; hi := 0; arg := 0; rd := 0; prog := p; opi := 0 |}.

(* size = 2^k slots, [start] = initial value of both counters *)
Definition init (k start : nat) (progs : list (list op)) : st :=
  {| high := start; low := start; size := 2 ^ k; buf := fun _ => 0; vals := fun _ => 0;
     thr := fun t => idle_thread (nth t progs []); nthr := length progs |}.

Definition M : machine :=
  {| mstate := st; mstep := step; mstatus := status_of; mthreads := nthr |}.

(* ---------- executable entry point for the correspondence run ---------- *)
Definition dec_op (p : Z * Z) : op :=
  match fst p with
  | 1%Z => OPush (Z.to_nat (snd p))
  | _ => OPop
  end.

Definition run_case (l : list Z) : list Z :=
  match decode_case l with
  | Some c =>
      let k := Z.to_nat (nthZ (c_params c) 0) in
      let start := Z.to_nat (nthZ (c_params c) 1) in
      let dmax := Z.to_nat (nthZ (c_params c) 2) in
      run_all M (init k start (map (map dec_op) (c_progs c))) [] (c_sched c) dmax
  | None => [(-1)%Z]
  end.
