(* C12: client of T1K for src/fiber_barrier.c — any number of fibers performing
   consecutive fiber_barrier_wait calls on one barrier (object 0: word =
   counter, list = waiters[0]; object 1: list = waiters[1]; [count] is the
   immutable barrier->count).  Harness: rt/h_barrier.c.

   fiber_barrier_wait (repaired code, /repo 20d3952):
     new = atomic_fetch_add(&counter, 1) + 1          (seq_cst, 64 bit)
     waiters = &barrier->waiters[((new - 1) / count) & 1]
     if (new % count == 0) { wake_from_mpsc_queue(waiters, count-1); return 1; }
     else                  { wait_in_mpsc_queue(waiters);            return 0; }
   The boolean [two] selects that behaviour; [two = false] is the ORIGINAL
   protocol (one list for all rounds, finding F-C12), kept only for the
   regression theorem barrier_round_safety_one_list_refuted.

   Harness events: before its k-th call a fiber emits (t, k, 919, 1) ("entered
   round k"), after it (t, k, 909, r). *)
From Coq Require Import List ZArith Lia Bool Arith.
From LF Require Import Conc T1K.
Import ListNotations.
Local Open Scope Z_scope.

(* client continuation frames: n = calls still to start after this one,
   k = index (from 1) of the call *)
Inductive bc :=
| BNext (n k : nat)             (* start call k if n > 0 *)
| BArrived (n k : nat)          (* the fetch_add of call k returned *)
| BRet (n k : nat) (r : Z).     (* wake / wait of call k returned: report r *)

Definition retev (t k : nat) (v : Z) : list Z := [Zn t; Zn k; 909; v].
Definition entev (t k : nat) : list Z := [Zn t; Zn k; 919; 1].

(* begin call k when n calls remain *)
Definition start (t n k : nat) : list Z * stack bc :=
  match n with
  | O => ([], [])
  | S n' => (entev t k, [WFAdd 0 1 5; FC (BArrived n' k)])
  end.

(* the waiter list used by the call that fetched v *)
Definition lsel (two : bool) (count v : Z) : nat :=
  if two then Z.to_nat ((v / count) mod 2) else O.

Definition cret (two : bool) (count : Z) (m : kmem) (t : nat) (c : bc) (v : Z) : kmem * list Z * stack bc :=
  match c with
  | BNext n k => let '(e, s) := start t n k in (m, e, s)
  | BArrived n k =>
      (* v = old counter value *)
      if (v + 1) mod count =? 0
      then (m, [], [KHead (lsel two count v) (count - 1) 0; FC (BRet n k 1)])
      else (m, [], [WSaving (lsel two count v); FC (BRet n k 0)])
  | BRet n k r => let '(e, s) := start t n (S k) in (m, retev t k r ++ e, s)
  end.

Record st := { mem : kmem; stk : nat -> stack bc; nthr : nat; cnt : Z; two : bool }.

Definition step (s : st) (t : nat) : st * list Z :=
  let '(m1, e1, s1) := kstep bc (cret (two s) (cnt s)) (mem s) t (stk s t) in
  ({| mem := m1; stk := upd (stk s) t s1; nthr := nthr s; cnt := cnt s; two := two s |}, e1).

Definition status_of (s : st) (t : nat) : status :=
  if (t <? nthr s)%nat then kstatus bc (mem s) t (stk s t) else SDone.

(* rounds t = number of consecutive waits fiber t performs *)
(* [start] = initial value of barrier->counter: 0 after fiber_barrier_init; the lock-step
   cases also start from a whole number of completed rounds (a multiple of count) near
   2^32, the state a long-lived barrier reaches after that many waits.  The model's
   counter is an unbounded Z (the C counter is uint64: fewer than 2^64 arrivals). *)
Definition init_at (tw : bool) (count start : Z) (rounds : list nat) : st :=
  {| mem := kinit 2 (fun _ => start);
     stk := fun t => [Start; FC (BNext (nth t rounds O) 1)];
     nthr := length rounds; cnt := count; two := tw |}.
Definition init (tw : bool) (count : Z) (rounds : list nat) : st := init_at tw count 0 rounds.

Definition M : machine :=
  {| mstate := st; mstep := step; mstatus := status_of; mthreads := nthr |}.

(* params: dmax, count [, lists [, start]]; lists = 1 selects the original one-list
   protocol (default: two lists, the current code); start = initial counter value
   (default 0); a fiber's program = one op per round *)
Definition run_case (l : list Z) : list Z :=
  match decode_case l with
  | Some c => run_all M (init_at (negb (nthZ (c_params c) 2 =? 1)) (nthZ (c_params c) 1) (nthZ (c_params c) 3)
                                 (map (@length _) (c_progs c))) [] (c_sched c)
                      (Z.to_nat (nthZ (c_params c) 0))
  | None => [(-1)%Z]
  end.
