(* Proofs about the work-queue model (C17): an inductive invariant over every
   reachable state of the machine instrumented with ghost logs, for any number
   of threads, any push lists (distinct items), any schedule. *)
From Coq Require Import List ZArith Lia Bool Arith.
From LF Require Import Conc WorkQueue.
Import ListNotations.

(* ------------------------------------------------------------------ *)
(* Instrumented machine.
   alog = items in the order of the add_and_fetch on in_count ("announced"),
   plog = items in the order of the exchanges on fifo.tail,
   hlog = values returned by get_work with MORE_WORK, in order,
   pend = announced items whose tail exchange has not happened yet,
   wk   = the thread designated as worker (its add saw 0) and not yet told EMPTY. *)
Record ist := { base : st; alog : list nat; plog : list nat; hlog : list nat;
                pend : list nat; wk : option nat }.

Definition lstep (x : ist) (t : nat) : ist :=
  let s := base x in
  let T := thr s t in
  let s' := fst (step s t) in
  match pc T with
  | PAdd => {| base := s'; alog := alog x ++ [arg T]; plog := plog x; hlog := hlog x;
               pend := arg T :: pend x; wk := if (inc s =? 0)%Z then Some t else wk x |}
  | PXchg => {| base := s'; alog := alog x; plog := plog x ++ [arg T]; hlog := hlog x;
                pend := remove Nat.eq_dec (arg T) (pend x); wk := wk x |}
  | GOutW => {| base := s'; alog := alog x; plog := plog x; hlog := hlog x ++ [rd T];
                pend := pend x; wk := wk x |}
  | GSub => {| base := s'; alog := alog x; plog := plog x; hlog := hlog x;
               pend := pend x; wk := if (inc s - oc T =? 0)%Z then None else wk x |}
  | _ => {| base := s'; alog := alog x; plog := plog x; hlog := hlog x; pend := pend x; wk := wk x |}
  end.

Lemma lstep_erase x t : base (lstep x t) = fst (step (base x) t).
Proof. unfold lstep. destruct (pc (thr (base x) t)); reflexivity. Qed.

Definition iinit (progs : list (list op)) : ist :=
  {| base := init progs; alog := []; plog := []; hlog := []; pend := []; wk := None |}.

Inductive ireach (progs : list (list op)) : ist -> Prop :=
| ir_init : ireach progs (iinit progs)
| ir_step x t : ireach progs x -> ireach progs (lstep x t).

Lemma reach_ireach progs s : reachable M (init progs) s -> exists x, ireach progs x /\ base x = s.
Proof.
  induction 1 as [|s t R [x [Rx E]] _].
  - exists (iinit progs). split; [constructor|reflexivity].
  - exists (lstep x t). split; [constructor; exact Rx|]. rewrite lstep_erase, E. reflexivity.
Qed.

Definition irun (x : ist) (sch : list nat) : ist := fold_left lstep sch x.
Lemma ireach_irun progs sch : forall x, ireach progs x -> ireach progs (irun x sch).
Proof. induction sch as [|t r IH]; intros x R; cbn; auto. apply IH. constructor. exact R. Qed.

(* ------------------------------------------------------------------ *)
(* Well-formed programs: the pushed items are distinct nodes, none of them
   NULL (0) or the fifo's initial stub (1).  "The work queue owns item after
   pushing": an item is not pushed a second time. *)
Definition wf_items (progs : list (list nat)) : Prop :=
  (forall t, NoDup (nth t progs [])) /\
  (forall t u a, t <> u -> In a (nth t progs []) -> ~ In a (nth u progs [])) /\
  (forall t a, In a (nth t progs []) -> 2 <= a).

(* the items of the pushes, marked or not *)
Definition items_of (progs : list (list op)) : list (list nat) := map (map item) progs.
Definition wf_progs (progs : list (list op)) : Prop := wf_items (items_of progs).

Lemma items_of_nth progs t : nth t (items_of progs) [] = map item (nth t progs []).
Proof. unfold items_of. change (@nil nat) with (map item []). apply map_nth. Qed.

Lemma nodup_app_inv {A} (l1 l2 : list A) :
  NoDup (l1 ++ l2) -> NoDup l1 /\ NoDup l2 /\ (forall a, In a l1 -> In a l2 -> False).
Proof.
  induction l1 as [|b l1 IH]; cbn; intros ND.
  - repeat split; auto. constructor.
  - inversion ND as [|? ? Hn ND']; subst. destruct (IH ND') as (N1 & N2 & D).
    repeat split; auto.
    + constructor; auto. intros Hb. apply Hn. apply in_or_app. auto.
    + intros a [->|Ha] Ha2; [apply Hn; apply in_or_app; auto | eapply D; eauto].
Qed.

Lemma in_nth_concat (r : list (list nat)) k b : In b (nth k r []) -> In b (concat r).
Proof.
  intros Hb. destruct (Nat.lt_ge_cases k (length r)) as [Hk|Hk].
  - apply in_concat. exists (nth k r []). split; [apply nth_In; exact Hk|exact Hb].
  - rewrite nth_overflow in Hb by exact Hk. contradiction.
Qed.

Lemma wf_of_nodup_concat progs :
  NoDup (concat progs) -> (forall a, In a (concat progs) -> 2 <= a) -> wf_items progs.
Proof.
  intros ND GE. repeat split.
  - clear GE. revert ND. induction progs as [|p r IH]; intros ND t.
    + destruct t; constructor.
    + cbn in ND. apply nodup_app_inv in ND. destruct ND as (N1 & N2 & _).
      destruct t; cbn; auto.
  - clear GE. revert ND. induction progs as [|p r IH]; intros ND t u a Hne Ht Hu.
    + destruct t; cbn in Ht; contradiction.
    + cbn in ND. apply nodup_app_inv in ND. destruct ND as (N1 & N2 & D).
      destruct t, u; cbn in *; try congruence.
      * eapply D; eauto using in_nth_concat.
      * eapply D; eauto using in_nth_concat.
      * eapply (IH N2 t u a); auto.
  - intros t a Ha. apply GE. eapply in_nth_concat; eauto.
Qed.

(* ------------------------------------------------------------------ *)
(* The invariant *)

(* i-th node of the fifo's chain: the stub, then the items in exchange order *)
Definition cn (pl : list nat) (i : nat) : nat := nth i (stub :: pl) 0.

(* items this thread has still to announce *)
Definition todo (T : tst) : list nat :=
  match pc T with PAdd => arg T :: map item (prog T) | _ => map item (prog T) end.

(* between its add_and_fetch and the completion of its mpsc push *)
Definition holdsb (T : tst) : bool :=
  match pc T with PNext | PXchg | PLink => true | _ => false end.

Definition in_get (p : pcT) : bool :=
  match p with
  | GFfwd | GHead | GNext | GSetH | GData | GCopy | GOutR | GOutW
  | GCmpO | GCmpI | GOldR | GZero | GSub => true
  | _ => false
  end.

Definition in_trypop (p : pcT) : bool :=
  match p with GHead | GNext | GSetH | GData | GCopy => true | _ => false end.

Definition wnorm (hd : nat) (ic ov : Z) (al pl hl : list nat) : Prop :=
  hd = cn pl (length hl) /\ (ic - ov = Z.of_nat (length al) - Z.of_nat (length hl))%Z.

Definition wmid (hd : nat) (ic ov : Z) (al pl hl : list nat) : Prop :=
  hd = cn pl (S (length hl)) /\ length hl < length pl /\
  (ic - ov = Z.of_nat (length al) - Z.of_nat (length hl))%Z.

(* what the designated worker knows, by pc *)
Definition wpart (hd : nat) (ic ov : Z) (al pl hl : list nat) (T : tst) : Prop :=
  match pc T with
  | PNext | PXchg | PLink | GFfwd | GHead | GCmpO | GCmpI | GOldR => wnorm hd ic ov al pl hl
  | GNext => wnorm hd ic ov al pl hl /\ ph T = hd
  | GSetH => wnorm hd ic ov al pl hl /\ ph T = hd /\ pn T = cn pl (S (length hl)) /\ length hl < length pl
  | GData => wmid hd ic ov al pl hl /\ ph T = cn pl (length hl) /\ pn T = cn pl (S (length hl))
  | GCopy => wmid hd ic ov al pl hl /\ ph T = cn pl (length hl) /\ rd T = cn pl (S (length hl))
  | GOutR => wmid hd ic ov al pl hl /\ rd T = cn pl (S (length hl))
  | GOutW => wmid hd ic ov al pl hl /\ rd T = cn pl (S (length hl)) /\ oc T = ov
  | GZero => wnorm hd ic ov al pl hl /\ oc T = ov
  | GSub => hd = cn pl (length hl) /\ ov = 0%Z /\
            (ic - oc T = Z.of_nat (length al) - Z.of_nat (length hl))%Z
  | PAdd | Fin => True
  end.

(* what a thread inside push knows, and the pc/flag consistency *)
Definition ppart (nx : nat -> nat) (pl pe : list nat) (T : tst) : Prop :=
  match pc T with
  | Fin | PAdd => flag T = false
  | PNext => In (arg T) pe
  | PXchg => In (arg T) pe /\ nx (arg T) = 0
  | PLink => (exists i, i < length pl /\ cn pl i = prev T /\ cn pl (S i) = arg T) /\ nx (prev T) = 0
  | _ => flag T = true
  end.

Record Inv (s : st) (al pl hl pe : list nat) (w : option nat) : Prop := {
  i_flag : forall t, flag (thr s t) = true <-> w = Some t;
  i_pp : forall t, ppart (next s) pl pe (thr s t);
  i_wp : forall t, flag (thr s t) = true -> wpart (head s) (inc s) (outc s) al pl hl (thr s t);
  i_wk : match w with
         | None => inc s = 0%Z /\ outc s = 0%Z /\ length al = length hl /\ head s = cn pl (length hl)
         | Some _ => (1 <= inc s)%Z
         end;
  i_uni : forall t u, holdsb (thr s t) = true -> holdsb (thr s u) = true ->
                      arg (thr s t) = arg (thr s u) -> t = u;
  i_pre : exists rest, pl = hl ++ rest;
  i_len : length al = length pl + length pe;
  i_alog : forall a, In a al -> In a pl \/ In a pe;
  i_tail : tail s = cn pl (length pl);
  i_tnext : next s (cn pl (length pl)) = 0;
  i_link : forall i, i < length pl ->
             next s (cn pl i) = cn pl (S i) \/
             exists t, pc (thr s t) = PLink /\ prev (thr s t) = cn pl i /\ arg (thr s t) = cn pl (S i);
  i_nd : NoDup (stub :: pl);
  i_nz : ~ In 0 (stub :: pl);
  i_data : forall n, data s n = n \/ exists i, i <= length hl /\ cn pl i = n;
  i_pend_nd : NoDup pe;
  i_pend : forall a, In a pe -> a <> 0 /\ ~ In a (stub :: pl);
  i_td_nd : forall t, NoDup (todo (thr s t));
  i_td_dis : forall t u a, t <> u -> In a (todo (thr s t)) -> ~ In a (todo (thr s u));
  i_td : forall t a, In a (todo (thr s t)) -> a <> 0 /\ ~ In a pe /\ ~ In a (stub :: pl)
}.

Definition LInv (x : ist) : Prop := Inv (base x) (alog x) (plog x) (hlog x) (pend x) (wk x).

(* ---------- list facts ---------- *)
Lemma cn_app_le pl a i : i <= length pl -> cn (pl ++ [a]) i = cn pl i.
Proof.
  intros H. unfold cn. change (stub :: pl ++ [a]) with ((stub :: pl) ++ [a]).
  apply app_nth1. cbn. lia.
Qed.

Lemma cn_app_last pl a : cn (pl ++ [a]) (S (length pl)) = a.
Proof.
  unfold cn. change (stub :: pl ++ [a]) with ((stub :: pl) ++ [a]).
  rewrite app_nth2 by (cbn; lia). cbn [length]. rewrite Nat.sub_diag. reflexivity.
Qed.

Lemma cn_in pl i : i <= length pl -> In (cn pl i) (stub :: pl).
Proof. intros H. unfold cn. apply nth_In. cbn. lia. Qed.

Lemma cn_inj pl i j : NoDup (stub :: pl) -> i <= length pl -> j <= length pl ->
  cn pl i = cn pl j -> i = j.
Proof.
  intros ND Hi Hj E. unfold cn in E.
  eapply (proj1 (NoDup_nth (stub :: pl) 0)); eauto; cbn; lia.
Qed.

Lemma cn_S pl i : cn pl (S i) = nth i pl 0.
Proof. reflexivity. Qed.

Lemma remove_nodup (a : nat) l : NoDup l -> NoDup (remove Nat.eq_dec a l).
Proof.
  induction 1 as [|b l Hn ND IH]; cbn; [constructor|].
  destruct (Nat.eq_dec a b); auto. constructor; auto.
  intros Hb. apply in_remove in Hb. tauto.
Qed.

Lemma remove_notin (a : nat) l : ~ In a l -> remove Nat.eq_dec a l = l.
Proof.
  induction l as [|b l IH]; cbn; auto. intros H.
  destruct (Nat.eq_dec a b); [exfalso; apply H; auto|]. f_equal. apply IH. tauto.
Qed.

Lemma remove_length (a : nat) l : NoDup l -> In a l -> length l = S (length (remove Nat.eq_dec a l)).
Proof.
  induction 1 as [|b l Hn ND IH]; cbn; [tauto|]. intros [->|Ha].
  - destruct (Nat.eq_dec a a); [|congruence]. rewrite remove_notin by exact Hn. reflexivity.
  - destruct (Nat.eq_dec a b) as [->|]; [contradiction|]. cbn. f_equal. auto.
Qed.

Lemma nodup_snoc (a : nat) l : NoDup l -> ~ In a l -> NoDup (l ++ [a]).
Proof.
  induction 1 as [|b l Hn ND IH]; cbn; intros H.
  - constructor; auto. constructor.
  - constructor.
    + intros Hb. apply in_app_or in Hb. destruct Hb as [Hb|[Hb|[]]]; [contradiction|]. apply H. auto.
    + apply IH. tauto.
Qed.

(* ---------- thread-state facts ---------- *)
Lemma next_op_pc T : pc (next_op T) = PAdd \/ pc (next_op T) = Fin.
Proof. unfold next_op. destruct (prog T); cbn; auto. Qed.

Lemma next_op_flag T : flag (next_op T) = false.
Proof. unfold next_op. destruct (prog T); reflexivity. Qed.

Lemma next_op_holdsb T : holdsb (next_op T) = false.
Proof. unfold holdsb. destruct (next_op_pc T) as [E|E]; rewrite E; reflexivity. Qed.

Lemma next_op_todo T : pc T <> PAdd -> todo (next_op T) = todo T.
Proof.
  intros H. unfold todo at 2. destruct (pc T) eqn:E; try congruence;
    unfold next_op, todo; destruct (prog T); reflexivity.
Qed.

Lemma next_op_pp nx pl pe T : ppart nx pl pe (next_op T).
Proof.
  unfold ppart. pose proof (next_op_flag T) as F.
  destruct (next_op_pc T) as [E|E]; rewrite E; exact F.
Qed.

Lemma init_inv progs : wf_progs progs -> Inv (init progs) [] [] [] [] None.
Proof.
  intros (W1 & W2 & W3).
  assert (Hf : forall t, flag (thr (init progs) t) = false) by (intros t; apply next_op_flag).
  assert (Hh : forall t, holdsb (thr (init progs) t) = false) by (intros t; apply next_op_holdsb).
  assert (Ht : forall t, todo (thr (init progs) t) = nth t (items_of progs) []).
  { intros t. cbn [init thr]. unfold idle_thread. rewrite next_op_todo by (cbn; discriminate).
    rewrite items_of_nth. reflexivity. }
  constructor; cbn [length app]; auto.
  - intros t. rewrite Hf. split; discriminate.
  - intros t. apply next_op_pp.
  - intros t. rewrite Hf. discriminate.
  - intros t u H. rewrite Hh in H. discriminate.
  - exists []. reflexivity.
  - intros i H. inversion H.
  - constructor; [intros []|constructor].
  - cbn. unfold stub. intros [H|[]]. discriminate.
  - constructor.
  - intros t. rewrite Ht. apply W1.
  - intros t u a. rewrite !Ht. apply W2.
  - intros t a. rewrite Ht. intros H. apply W3 in H. cbn. unfold stub. repeat split; try lia; tauto.
Qed.

Ltac thr_cases u t :=
  destruct (Nat.eq_dec u t) as [->|?];
  [ rewrite ?upd_same in * | rewrite ?(upd_other _ t _ u) in * by assumption ].

Ltac inv_split I :=
  destruct I as [If Ipp Iwp Iwk Iuni Ipre Ilen Ialog Itail Itnext Ilink Ind Inz Idata Ipnd Ipend Itdnd Itddis Itd].

(* a step that only changes thread t's private state, outside push *)
Lemma local_step s al pl hl pe w t T' :
  Inv s al pl hl pe w ->
  holdsb (thr s t) = false -> holdsb T' = false ->
  flag T' = flag (thr s t) -> todo T' = todo (thr s t) ->
  ppart (next s) pl pe T' ->
  (flag T' = true -> wpart (head s) (inc s) (outc s) al pl hl T') ->
  Inv (set_thr s t T') al pl hl pe w.
Proof.
  intros I H1 H2 Hf Ht Hp Hw. inv_split I.
  constructor; cbn [set_thr head tail inc outc next data thr]; try assumption.
  - intros u. thr_cases u t; auto. rewrite Hf; auto.
  - intros u. thr_cases u t; auto.
  - intros u. thr_cases u t; auto.
  - intros u v. thr_cases u t; thr_cases v t; auto; congruence.
  - intros i Hi. destruct (Ilink i Hi) as [L|[u (A & B & C)]]; [left; exact L|right].
    exists u. assert (u <> t). { intros ->. unfold holdsb in H1. rewrite A in H1. discriminate. }
    rewrite upd_other by assumption. auto.
  - intros u. thr_cases u t; auto. rewrite Ht; auto.
  - intros u v a. thr_cases u t; thr_cases v t; rewrite ?Ht; try apply Itddis.
  - intros u a. thr_cases u t; rewrite ?Ht; apply Itd.
Qed.

Lemma holds_in s al pl hl pe w u :
  Inv s al pl hl pe w -> holdsb (thr s u) = true ->
  In (arg (thr s u)) pe \/ In (arg (thr s u)) (stub :: pl).
Proof.
  intros I H. assert (P := i_pp _ _ _ _ _ _ I u). unfold ppart in P. unfold holdsb in H.
  destruct (pc (thr s u)); try discriminate.
  - auto.
  - left. tauto.
  - right. destruct P as [[i (Hi & _ & E)] _]. rewrite <- E. apply cn_in. lia.
Qed.

Lemma worker_unique s al pl hl pe w t u :
  Inv s al pl hl pe w -> flag (thr s t) = true -> flag (thr s u) = true -> t = u.
Proof.
  intros I A B. apply (i_flag _ _ _ _ _ _ I) in A. apply (i_flag _ _ _ _ _ _ I) in B. congruence.
Qed.

Ltac open_step Hpc := unfold step; cbv zeta; rewrite Hpc; cbn [fst].

(* (1) add_and_fetch on in_count: the item is announced; from 0 the caller
   becomes the designated worker *)
Lemma padd_inv s al pl hl pe w t :
  Inv s al pl hl pe w -> pc (thr s t) = PAdd ->
  Inv (fst (step s t)) (al ++ [arg (thr s t)]) pl hl (arg (thr s t) :: pe)
      (if (inc s =? 0)%Z then Some t else w).
Proof.
  intros I Hpc. open_step Hpc. assert (HI := I). inv_split I.
  assert (Fl : flag (thr s t) = false).
  { assert (P := Ipp t). unfold ppart in P. rewrite Hpc in P. exact P. }
  assert (Hw : w <> Some t). { intros E. apply (If t) in E. congruence. }
  assert (Htd : todo (thr s t) = arg (thr s t) :: map item (prog (thr s t))).
  { unfold todo. rewrite Hpc. reflexivity. }
  assert (Ha : arg (thr s t) <> 0 /\ ~ In (arg (thr s t)) pe /\ ~ In (arg (thr s t)) (stub :: pl)).
  { apply (Itd t). rewrite Htd. left; reflexivity. }
  destruct Ha as (Ha0 & Hape & Hach).
  assert (Hnd : NoDup (arg (thr s t) :: map item (prog (thr s t)))). { rewrite <- Htd. apply Itdnd. }
  constructor; cbn [head tail inc outc next data thr]; try assumption.
  - intros u. thr_cases u t.
    + cbn [flag]. destruct (inc s =? 0)%Z; split; auto; try discriminate.
    + destruct (Z.eqb_spec (inc s) 0) as [E|E].
      * split.
        -- intros F. apply If in F. subst w. lia.
        -- intros F. congruence.
      * apply If.
  - intros u. thr_cases u t.
    + unfold ppart; cbn [pc arg]. left; reflexivity.
    + assert (P := Ipp u). unfold ppart in *. destruct (pc (thr s u)); cbn [In]; intuition.
  - intros u. thr_cases u t.
    + cbn [flag]. intros Hb. apply Z.eqb_eq in Hb. unfold wpart; cbn [pc]. unfold wnorm.
      destruct w; [lia|]. destruct Iwk as (A1 & A2 & A3 & A4). split; [exact A4|].
      rewrite app_length; cbn [length]; lia.
    + intros Fu. assert (W := Iwp u Fu). unfold wpart in *.
      destruct (pc (thr s u)); unfold wnorm, wmid in *; rewrite ?app_length; cbn [length]; intuition lia.
  - destruct (Z.eqb_spec (inc s) 0); [lia|]. destruct w; [lia|]. destruct Iwk; contradiction.
  - intros u v. thr_cases u t; thr_cases v t; auto.
    + intros _ Hv E. exfalso. destruct (holds_in _ _ _ _ _ _ v HI Hv) as [X|X];
        rewrite <- E in X; cbn [arg] in X; contradiction.
    + intros Hu _ E. exfalso. destruct (holds_in _ _ _ _ _ _ u HI Hu) as [X|X];
        rewrite E in X; cbn [arg] in X; contradiction.
  - rewrite app_length; cbn [length]; lia.
  - intros a Ha. apply in_app_or in Ha. destruct Ha as [Ha|[<-|[]]].
    + destruct (Ialog a Ha); [left|right;right]; auto.
    + right; left; reflexivity.
  - intros i Hi. destruct (Ilink i Hi) as [L|[u (A & B & C)]]; [left; exact L|right].
    exists u. assert (u <> t) by (intros ->; congruence).
    rewrite upd_other by assumption. auto.
  - constructor; auto.
  - intros a [<-|Ha]; auto.
  - intros u. thr_cases u t.
    + unfold todo; cbn [pc prog]. inversion Hnd; auto.
    + apply Itdnd.
  - intros u v a. thr_cases u t; thr_cases v t.
    + intros; congruence.
    + unfold todo at 1; cbn [pc prog]. intros _ Ha. apply (Itddis t v a); auto. rewrite Htd. right; exact Ha.
    + unfold todo at 2; cbn [pc prog]. intros _ Ha Hb. apply (Itddis u t a); auto. rewrite Htd. right; exact Hb.
    + apply Itddis.
  - intros u a. thr_cases u t.
    + unfold todo; cbn [pc prog]. intros Ha.
      assert (D := Itd t a). rewrite Htd in D. specialize (D (or_intror Ha)).
      assert (a <> arg (thr s t)). { intros ->. inversion Hnd; contradiction. }
      destruct D as (D1 & D2 & D3). repeat split; auto. intros [X|X]; [congruence|auto].
    + intros Ha. assert (D := Itd u a Ha).
      assert (a <> arg (thr s t)).
      { intros ->. apply (Itddis u t _ n Ha). rewrite Htd. left; reflexivity. }
      destruct D as (D1 & D2 & D3). repeat split; auto. intros [X|X]; [congruence|auto].
Qed.

(* ---------- frame lemmas for the per-thread clauses ---------- *)
Lemma todo_with_pc T p : p <> PAdd -> pc T <> PAdd -> todo (with_pc T p) = todo T.
Proof. intros A B. unfold todo. cbn [pc prog with_pc]. destruct p, (pc T); congruence. Qed.

Lemma todo_frame (th : nat -> tst) t T' (pe ch : list nat) :
  todo T' = todo (th t) ->
  (forall u, NoDup (todo (th u))) ->
  (forall u v a, u <> v -> In a (todo (th u)) -> ~ In a (todo (th v))) ->
  (forall u a, In a (todo (th u)) -> a <> 0 /\ ~ In a pe /\ ~ In a ch) ->
  (forall u, NoDup (todo (upd th t T' u))) /\
  (forall u v a, u <> v -> In a (todo (upd th t T' u)) -> ~ In a (todo (upd th t T' v))) /\
  (forall u a, In a (todo (upd th t T' u)) -> a <> 0 /\ ~ In a pe /\ ~ In a ch).
Proof.
  intros Ht A B C. split; [|split].
  - intros u. thr_cases u t; rewrite ?Ht; auto.
  - intros u v a. thr_cases u t; thr_cases v t; rewrite ?Ht; apply B.
  - intros u a. thr_cases u t; rewrite ?Ht; apply C.
Qed.

Lemma flag_frame (th : nat -> tst) t T' (w : option nat) :
  flag T' = flag (th t) ->
  (forall u, flag (th u) = true <-> w = Some u) ->
  forall u, flag (upd th t T' u) = true <-> w = Some u.
Proof. intros Hf A u. thr_cases u t; rewrite ?Hf; apply A. Qed.

Lemma uni_frame (th : nat -> tst) t T' :
  (holdsb T' = true -> holdsb (th t) = true) -> arg T' = arg (th t) ->
  (forall u v, holdsb (th u) = true -> holdsb (th v) = true -> arg (th u) = arg (th v) -> u = v) ->
  forall u v, holdsb (upd th t T' u) = true -> holdsb (upd th t T' v) = true ->
              arg (upd th t T' u) = arg (upd th t T' v) -> u = v.
Proof.
  intros Hh Ha A u v. thr_cases u t; thr_cases v t; auto; rewrite ?Ha; intros; apply A; auto.
Qed.

Lemma link_frame (th : nat -> tst) t T' (pl : list nat) (nx nx' : nat -> nat) i :
  pc (th t) <> PLink -> nx' (cn pl i) = nx (cn pl i) ->
  (nx (cn pl i) = cn pl (S i) \/
   exists u, pc (th u) = PLink /\ prev (th u) = cn pl i /\ arg (th u) = cn pl (S i)) ->
  nx' (cn pl i) = cn pl (S i) \/
  exists u, pc (upd th t T' u) = PLink /\ prev (upd th t T' u) = cn pl i /\ arg (upd th t T' u) = cn pl (S i).
Proof.
  intros Hn E [L|[u (A & B & C)]]; [left; congruence|right].
  exists u. assert (u <> t) by (intros ->; congruence). rewrite upd_other by assumption. auto.
Qed.

Ltac simp_st := cbn [head tail inc outc next data thr].

(* (2) mpsc push: new_node->next = NULL (the node is not in the chain yet) *)
Lemma pnext_inv s al pl hl pe w t :
  Inv s al pl hl pe w -> pc (thr s t) = PNext -> Inv (fst (step s t)) al pl hl pe w.
Proof.
  intros I Hpc. open_step Hpc. assert (HI := I). inv_split I.
  assert (P := Ipp t). unfold ppart in P. rewrite Hpc in P.
  assert (Hach : ~ In (arg (thr s t)) (stub :: pl)) by (apply Ipend; exact P).
  assert (Hcn : forall i, i <= length pl -> cn pl i <> arg (thr s t)).
  { intros i Hi E. apply Hach. rewrite <- E. apply cn_in; exact Hi. }
  assert (Htd : todo (with_pc (thr s t) PXchg) = todo (thr s t)) by (apply todo_with_pc; congruence).
  destruct (todo_frame (thr s) t _ _ _ Htd Itdnd Itddis Itd) as (X1 & X2 & X3).
  constructor; simp_st; try assumption.
  - apply flag_frame; auto.
  - intros u. thr_cases u t.
    + unfold ppart; cbn [pc arg with_pc]. split; [exact P|apply upd_same].
    + assert (Q := Ipp u). unfold ppart in *. destruct (pc (thr s u)); auto.
      * destruct Q as [Q1 Q2]. split; auto. unfold upd. destruct (Nat.eqb _ _); auto.
      * destruct Q as [Q1 Q2]. split; auto. unfold upd. destruct (Nat.eqb _ _); auto.
  - intros u. thr_cases u t; [|apply Iwp].
    cbn [flag with_pc]. intros F. assert (W := Iwp t F). unfold wpart in *. rewrite Hpc in W.
    cbn [pc with_pc]. exact W.
  - apply uni_frame; auto. intros _. unfold holdsb. rewrite Hpc. reflexivity.
  - unfold upd. destruct (Nat.eqb _ _); auto.
  - intros i Hi. apply link_frame with (nx := next s); [congruence| |apply Ilink; exact Hi].
    apply upd_other. apply Hcn. lia.
Qed.

(* (3) mpsc push: exchange on tail: the item enters the chain *)
Lemma pxchg_inv s al pl hl pe w t :
  Inv s al pl hl pe w -> pc (thr s t) = PXchg ->
  Inv (fst (step s t)) al (pl ++ [arg (thr s t)]) hl (remove Nat.eq_dec (arg (thr s t)) pe) w.
Proof.
  intros I Hpc. open_step Hpc. assert (HI := I). inv_split I.
  assert (P := Ipp t). unfold ppart in P. rewrite Hpc in P. destruct P as [Pin Pnx].
  destruct (Ipend _ Pin) as [Ha0 Hach].
  assert (Hle : forall i, i <= length pl -> cn (pl ++ [arg (thr s t)]) i = cn pl i)
    by (intros; apply cn_app_le; auto).
  destruct Ipre as [rest Hrest].
  assert (HKE : length hl <= length pl) by (rewrite Hrest, app_length; lia).
  assert (Hlen : length (pl ++ [arg (thr s t)]) = S (length pl)) by (rewrite app_length; cbn; lia).
  match goal with |- context [upd (thr s) t ?X] => set (T' := X) end.
  assert (Htd : todo T' = todo (thr s t)). { unfold todo. cbn [pc prog T']. rewrite Hpc. reflexivity. }
  assert (Itd' : forall u b, In b (todo (thr s u)) -> b <> 0 /\
             ~ In b (remove Nat.eq_dec (arg (thr s t)) pe) /\ ~ In b (stub :: pl ++ [arg (thr s t)])).
  { intros u b Hb. destruct (Itd u b Hb) as (B0 & Bpe & Bch). split; [auto|split].
    - intros H. apply in_remove in H. tauto.
    - change (stub :: pl ++ [arg (thr s t)]) with ((stub :: pl) ++ [arg (thr s t)]).
      intros H. apply in_app_or in H. destruct H as [H|[H|[]]]; auto. subst b. auto. }
  destruct (todo_frame (thr s) t T' _ _ Htd Itdnd Itddis Itd') as (X1 & X2 & X3).
  constructor; simp_st; rewrite ?Hlen; try assumption.
  - apply flag_frame; auto.
  - intros u. thr_cases u t.
    + unfold ppart; cbn [pc prev arg T']. split.
      * exists (length pl). rewrite Hlen. split; [lia|]. split.
        -- rewrite Hle by lia. symmetry; exact Itail.
        -- apply cn_app_last.
      * rewrite Itail. exact Itnext.
    + assert (Q := Ipp u). unfold ppart in *. destruct (pc (thr s u)) eqn:Hu; auto.
      * apply in_in_remove; auto. intros E. apply n.
        apply (Iuni u t); unfold holdsb; rewrite ?Hu, ?Hpc; auto.
      * destruct Q as [Q1 Q2]. split; auto. apply in_in_remove; auto. intros E. apply n.
        apply (Iuni u t); unfold holdsb; rewrite ?Hu, ?Hpc; auto.
      * destruct Q as [[i (Hi & B & C)] Q2]. split; auto. exists i. rewrite Hlen.
        rewrite !Hle by lia. split; [lia|auto].
  - intros u. thr_cases u t.
    + cbn [flag T']. intros F. assert (W := Iwp t F). unfold wpart in *. rewrite Hpc in W.
      cbn [pc T']. unfold wnorm in *. rewrite Hle by lia. exact W.
    + intros F. assert (W := Iwp u F). unfold wpart in *.
      destruct (pc (thr s u)); unfold wnorm, wmid in *; rewrite ?Hlen;
        repeat match goal with H : _ /\ _ |- _ => destruct H end;
        rewrite ?Hle by lia; repeat split; auto; lia.
  - destruct w; auto. destruct Iwk as (A1 & A2 & A3 & A4). repeat split; auto.
    rewrite Hle by lia. exact A4.
  - apply uni_frame; auto. intros _. unfold holdsb. rewrite Hpc. reflexivity.
  - exists (rest ++ [arg (thr s t)]). rewrite Hrest, app_assoc. reflexivity.
  - assert (L := remove_length _ _ Ipnd Pin). lia.
  - intros b Hb. destruct (Ialog b Hb) as [X|X].
    + left. apply in_or_app; auto.
    + destruct (Nat.eq_dec b (arg (thr s t))) as [->|Hne].
      * left. apply in_or_app. right. left. reflexivity.
      * right. apply in_in_remove; auto.
  - symmetry. apply cn_app_last.
  - rewrite cn_app_last. exact Pnx.
  - intros i Hi. destruct (Nat.eq_dec i (length pl)) as [->|Hne].
    + right. exists t. rewrite upd_same. cbn [pc prev arg T']. rewrite Hle by lia.
      rewrite cn_app_last. auto.
    + rewrite !Hle by lia. apply link_frame with (nx := next s); [congruence|reflexivity|apply Ilink; lia].
  - change (stub :: pl ++ [arg (thr s t)]) with ((stub :: pl) ++ [arg (thr s t)]).
    apply nodup_snoc; auto.
  - change (stub :: pl ++ [arg (thr s t)]) with ((stub :: pl) ++ [arg (thr s t)]).
    intros H. apply in_app_or in H. destruct H as [H|[H|[]]]; auto.
  - intros n. destruct (Idata n) as [D|[i (Hi & D)]]; [left; auto|right].
    exists i. rewrite Hle by lia. auto.
  - apply remove_nodup; auto.
  - intros b Hb. apply in_remove in Hb. destruct Hb as [Hb Hne].
    destruct (Ipend b Hb) as [B0 Bch]. split; auto.
    change (stub :: pl ++ [arg (thr s t)]) with ((stub :: pl) ++ [arg (thr s t)]).
    intros H. apply in_app_or in H. destruct H as [H|[H|[]]]; auto.
Qed.

(* (4) mpsc push: prev->next = new_node; push returns *)
Lemma plink_inv s al pl hl pe w t :
  Inv s al pl hl pe w -> pc (thr s t) = PLink -> Inv (fst (step s t)) al pl hl pe w.
Proof.
  intros I Hpc. open_step Hpc. assert (HI := I). inv_split I.
  assert (P := Ipp t). unfold ppart in P. rewrite Hpc in P.
  destruct P as [[i (Hi & Pp & Pa)] Pnx].
  set (T' := if flag (thr s t) then with_pc (thr s t) (if mk (thr s t) then GFfwd else GHead)
             else next_op (thr s t)).
  assert (Hfl : flag T' = flag (thr s t)).
  { unfold T'. destruct (flag (thr s t)) eqn:F; [exact F|apply next_op_flag]. }
  assert (Hho : holdsb T' = false).
  { unfold T'. destruct (flag (thr s t)); [destruct (mk (thr s t)); reflexivity|apply next_op_holdsb]. }
  assert (Htd : todo T' = todo (thr s t)).
  { unfold T'. destruct (flag _); [|apply next_op_todo; congruence].
    destruct (mk (thr s t)); apply todo_with_pc; congruence. }
  assert (Hother : forall j, j <= length pl -> j <> i -> cn pl j <> prev (thr s t)).
  { intros j Hj Hne E. apply Hne. apply (cn_inj pl); auto; try lia; congruence. }
  destruct (todo_frame (thr s) t T' _ _ Htd Itdnd Itddis Itd) as (X1 & X2 & X3).
  constructor; simp_st; try assumption.
  - apply flag_frame; auto.
  - intros u. thr_cases u t.
    + unfold T'. destruct (flag (thr s t)) eqn:F; [|apply next_op_pp].
      unfold ppart; cbn [pc with_pc flag]. destruct (mk (thr s t)); exact F.
    + assert (Q := Ipp u). unfold ppart in *. destruct (pc (thr s u)) eqn:Hu; auto.
      * destruct Q as [Q1 Q2]. split; auto. rewrite upd_other; auto. intros E.
        destruct (Ipend _ Q1) as [_ X]. apply X. rewrite E, <- Pp. apply cn_in; lia.
      * destruct Q as [[j (Hj & Qp & Qa)] Q2]. split; [exists j; auto|].
        rewrite upd_other; auto. intros E.
        assert (j = i) by (apply (cn_inj pl); auto; try lia; congruence). subst j.
        apply n. apply (Iuni u t); unfold holdsb; rewrite ?Hu, ?Hpc; auto. congruence.
  - intros u. thr_cases u t; [|apply Iwp].
    rewrite Hfl. intros F. assert (W := Iwp t F). unfold T'; rewrite F.
    unfold wpart in *. rewrite Hpc in W. cbn [pc with_pc]. destruct (mk (thr s t)); exact W.
  - intros u v. thr_cases u t; thr_cases v t; auto; rewrite ?Hho; discriminate.
  - rewrite upd_other; auto. apply Hother; lia.
  - intros j Hj. destruct (Nat.eq_dec j i) as [->|Hne].
    + left. rewrite Pp, upd_same. symmetry; exact Pa.
    + destruct (Ilink j Hj) as [L|[u (A & B & C)]].
      * left. rewrite upd_other by (apply Hother; lia). exact L.
      * right. exists u. assert (u <> t).
        { intros ->. apply Hne. apply (cn_inj pl); auto; try lia; congruence. }
        rewrite upd_other by assumption. auto.
Qed.

(* ---------- steps of the designated worker ---------- *)
Lemma worker_facts s al pl hl pe w t :
  Inv s al pl hl pe w -> in_get (pc (thr s t)) = true ->
  flag (thr s t) = true /\ w = Some t /\ holdsb (thr s t) = false /\ todo (thr s t) = map item (prog (thr s t)) /\
  (1 <= inc s)%Z /\ wpart (head s) (inc s) (outc s) al pl hl (thr s t).
Proof.
  intros I G. assert (P := i_pp _ _ _ _ _ _ I t). unfold ppart in P.
  assert (F : flag (thr s t) = true) by (destruct (pc (thr s t)); try discriminate; exact P).
  assert (Hw : w = Some t) by (apply (i_flag _ _ _ _ _ _ I); exact F).
  assert (K := i_wk _ _ _ _ _ _ I). rewrite Hw in K.
  repeat split; auto.
  - unfold holdsb. destruct (pc (thr s t)); try discriminate; reflexivity.
  - unfold todo. destruct (pc (thr s t)); try discriminate; reflexivity.
  - apply (i_wp _ _ _ _ _ _ I). exact F.
Qed.

(* a step of the worker that may change head, the counters, the data fields,
   the hand-out log and its own designation, but not the push side *)
Lemma worker_step s al pl hl pe w t T' hd' ic' ov' hl' dt' w' :
  Inv s al pl hl pe w ->
  flag (thr s t) = true -> holdsb (thr s t) = false -> holdsb T' = false ->
  todo T' = todo (thr s t) ->
  ppart (next s) pl pe T' ->
  (flag T' = true -> w' = w /\ (1 <= ic')%Z /\ wpart hd' ic' ov' al pl hl' T') ->
  (flag T' = false -> w' = None /\ ic' = 0%Z /\ ov' = 0%Z /\ length al = length hl' /\
                      hd' = cn pl (length hl')) ->
  (exists rest, pl = hl' ++ rest) ->
  (forall n, dt' n = n \/ exists i, i <= length hl' /\ cn pl i = n) ->
  Inv {| head := hd'; tail := tail s; inc := ic'; outc := ov'; next := next s; data := dt';
         thr := upd (thr s) t T'; nthr := nthr s |} al pl hl' pe w'.
Proof.
  intros I F H1 H2 Htd Hp Ht Hf Hpre Hdata. assert (HI := I). inv_split I.
  assert (Hw : w = Some t) by (apply If; exact F).
  assert (Hoth : forall u, u <> t -> flag (thr s u) = false).
  { intros u Hne. destruct (flag (thr s u)) eqn:Fu; auto. exfalso. apply Hne.
    apply (worker_unique _ _ _ _ _ _ u t HI); auto. }
  destruct (todo_frame (thr s) t T' _ _ Htd Itdnd Itddis Itd) as (X1 & X2 & X3).
  constructor; simp_st; try assumption.
  - intros u. thr_cases u t.
    + destruct (flag T') eqn:F'.
      * destruct (Ht eq_refl) as [-> _]. split; auto.
      * destruct (Hf eq_refl) as [-> _]. split; discriminate.
    + rewrite (Hoth u) by assumption. split; [discriminate|].
      intros E. exfalso. destruct (flag T') eqn:F'.
      * destruct (Ht eq_refl) as [E' _]. congruence.
      * destruct (Hf eq_refl) as [E' _]. congruence.
  - intros u. thr_cases u t; auto.
  - intros u. thr_cases u t.
    + intros F'. apply Ht. exact F'.
    + rewrite (Hoth u) by assumption. discriminate.
  - destruct (flag T') eqn:F'.
    + destruct (Ht eq_refl) as (-> & A & _). rewrite Hw. exact A.
    + destruct (Hf eq_refl) as (-> & A). exact A.
  - intros u v. thr_cases u t; thr_cases v t; auto; rewrite ?H2; discriminate.
  - intros i Hi. apply link_frame with (nx := next s); auto.
    intros E. unfold holdsb in H1. rewrite E in H1. discriminate.
Qed.

Ltac wfacts I t Hpc :=
  let G := fresh "G" in
  assert (G : in_get (pc (thr _ t)) = true) by (rewrite Hpc; reflexivity);
  destruct (worker_facts _ _ _ _ _ _ t I G) as (F & Hw & Hh & Htd & H1i & W);
  unfold wpart in W; rewrite Hpc in W; clear G.

(* steps that only read: GHead, GNext, GData, GOutR, GCmpO, GCmpI, GOldR *)
Lemma ghead_inv s al pl hl pe w t :
  Inv s al pl hl pe w -> pc (thr s t) = GHead -> Inv (fst (step s t)) al pl hl pe w.
Proof.
  intros I Hpc. open_step Hpc. wfacts I t Hpc.
  apply local_step; [exact I|exact Hh|reflexivity|reflexivity| | |].
  - rewrite Htd. reflexivity.
  - unfold ppart; cbn [pc flag]. exact F.
  - intros _. unfold wpart; cbn [pc ph]. auto.
Qed.

Lemma gnext_inv s al pl hl pe w t :
  Inv s al pl hl pe w -> pc (thr s t) = GNext -> Inv (fst (step s t)) al pl hl pe w.
Proof.
  intros I Hpc. open_step Hpc. wfacts I t Hpc. destruct W as [[Wh Wc] Wp].
  apply local_step; [exact I|exact Hh| |reflexivity| | |].
  - unfold holdsb; cbn [pc]. destruct (next s (ph (thr s t))); reflexivity.
  - rewrite Htd. unfold todo; cbn [pc prog]. destruct (next s (ph (thr s t))); reflexivity.
  - unfold ppart; cbn [pc flag]. destruct (next s (ph (thr s t))); exact F.
  - intros _. unfold wpart; cbn [pc ph pn]. destruct (next s (ph (thr s t))) eqn:En.
    + split; auto.
    + inv_split I. destruct Ipre as [rest Hrest].
      assert (HKE : length hl <= length pl) by (rewrite Hrest, app_length; lia).
      rewrite Wp, Wh in En.
      assert (HK : length hl < length pl).
      { destruct (Nat.eq_dec (length hl) (length pl)) as [E|]; [|lia].
        rewrite E, Itnext in En. discriminate. }
      split; [split; assumption|]. split; [assumption|]. split; [|assumption].
      destruct (Ilink _ HK) as [L|[u (A & B & C)]]; [congruence|].
      assert (Q := Ipp u). unfold ppart in Q. rewrite A in Q. destruct Q as [_ Q].
      rewrite B, En in Q. discriminate.
Qed.

Lemma gdata_inv s al pl hl pe w t :
  Inv s al pl hl pe w -> pc (thr s t) = GData -> Inv (fst (step s t)) al pl hl pe w.
Proof.
  intros I Hpc. open_step Hpc. wfacts I t Hpc. destruct W as [Wm [Wh Wn]].
  apply local_step; [exact I|exact Hh|reflexivity|reflexivity| | |].
  - rewrite Htd. reflexivity.
  - unfold ppart; cbn [pc flag]. exact F.
  - intros _. unfold wpart; cbn [pc ph rd]. split; [exact Wm|]. split; [exact Wh|].
    rewrite Wn. destruct (i_data _ _ _ _ _ _ I (cn pl (S (length hl)))) as [D|[i [Hi D]]]; [exact D|].
    destruct Wm as (_ & HK & _). exfalso.
    apply (cn_inj pl) in D; try lia. apply (i_nd _ _ _ _ _ _ I).
Qed.

Lemma goutr_inv s al pl hl pe w t :
  Inv s al pl hl pe w -> pc (thr s t) = GOutR -> Inv (fst (step s t)) al pl hl pe w.
Proof.
  intros I Hpc. open_step Hpc. wfacts I t Hpc.
  apply local_step; [exact I|exact Hh|reflexivity|reflexivity| | |].
  - rewrite Htd. reflexivity.
  - unfold ppart; cbn [pc flag]. exact F.
  - intros _. unfold wpart; cbn [pc rd oc]. tauto.
Qed.

Lemma gcmpo_inv s al pl hl pe w t :
  Inv s al pl hl pe w -> pc (thr s t) = GCmpO -> Inv (fst (step s t)) al pl hl pe w.
Proof.
  intros I Hpc. open_step Hpc. wfacts I t Hpc.
  apply local_step; [exact I|exact Hh|reflexivity|reflexivity| | |].
  - rewrite Htd. reflexivity.
  - unfold ppart; cbn [pc flag]. exact F.
  - intros _. unfold wpart; cbn [pc]. exact W.
Qed.

Lemma gcmpi_inv s al pl hl pe w t :
  Inv s al pl hl pe w -> pc (thr s t) = GCmpI -> Inv (fst (step s t)) al pl hl pe w.
Proof.
  intros I Hpc. open_step Hpc. wfacts I t Hpc.
  apply local_step; [exact I|exact Hh| |reflexivity| | |].
  - unfold holdsb; cbn [pc with_pc]. destruct (oc (thr s t) =? inc s)%Z; reflexivity.
  - rewrite Htd. unfold todo; cbn [pc prog with_pc]. destruct (oc (thr s t) =? inc s)%Z; reflexivity.
  - unfold ppart; cbn [pc flag with_pc]. destruct (oc (thr s t) =? inc s)%Z; exact F.
  - intros _. unfold wpart; cbn [pc with_pc]. destruct (oc (thr s t) =? inc s)%Z; exact W.
Qed.

Lemma goldr_inv s al pl hl pe w t :
  Inv s al pl hl pe w -> pc (thr s t) = GOldR -> Inv (fst (step s t)) al pl hl pe w.
Proof.
  intros I Hpc. open_step Hpc. wfacts I t Hpc.
  apply local_step; [exact I|exact Hh|reflexivity|reflexivity| | |].
  - rewrite Htd. reflexivity.
  - unfold ppart; cbn [pc flag]. exact F.
  - intros _. unfold wpart; cbn [pc oc]. auto.
Qed.

(* (5) trypop: head := next; the item is taken *)
Lemma gseth_inv s al pl hl pe w t :
  Inv s al pl hl pe w -> pc (thr s t) = GSetH -> Inv (fst (step s t)) al pl hl pe w.
Proof.
  intros I Hpc. open_step Hpc. wfacts I t Hpc. destruct W as ([Wh Wc] & Wp & Wn & HK).
  apply worker_step with (w := w) (hl := hl); [exact I|exact F|exact Hh|reflexivity| | | | | |].
  - rewrite Htd. reflexivity.
  - unfold ppart; cbn [pc flag with_pc]. exact F.
  - intros _. split; [reflexivity|]. split; [exact H1i|].
    unfold wpart; cbn [pc ph pn with_pc]. unfold wmid.
    split; [split; [exact Wn|split; [exact HK|exact Wc]]|]. split; [congruence|exact Wn].
  - cbn [flag with_pc]. rewrite F. discriminate.
  - exact (i_pre _ _ _ _ _ _ I).
  - exact (i_data _ _ _ _ _ _ I).
Qed.

(* (6) trypop: prev_head->data = prev_head_next->data *)
Lemma gcopy_inv s al pl hl pe w t :
  Inv s al pl hl pe w -> pc (thr s t) = GCopy -> Inv (fst (step s t)) al pl hl pe w.
Proof.
  intros I Hpc. open_step Hpc. wfacts I t Hpc. destruct W as (Wm & Wh & Wr).
  apply worker_step with (w := w) (hl := hl); [exact I|exact F|exact Hh|reflexivity| | | | | |].
  - rewrite Htd. reflexivity.
  - unfold ppart; cbn [pc flag with_pc]. exact F.
  - intros _. split; [reflexivity|]. split; [exact H1i|].
    unfold wpart; cbn [pc rd with_pc]. split; assumption.
  - cbn [flag with_pc]. rewrite F. discriminate.
  - exact (i_pre _ _ _ _ _ _ I).
  - intros n. destruct (Nat.eq_dec n (ph (thr s t))) as [->|Hne].
    + right. exists (length hl). split; [lia|symmetry; exact Wh].
    + rewrite upd_other by assumption. apply (i_data _ _ _ _ _ _ I).
Qed.

(* (7) out_count += 1 (the write); get_work returns MORE_WORK with rd *)
Lemma goutw_inv s al pl hl pe w t :
  Inv s al pl hl pe w -> pc (thr s t) = GOutW ->
  Inv (fst (step s t)) al pl (hl ++ [rd (thr s t)]) pe w.
Proof.
  intros I Hpc. open_step Hpc. wfacts I t Hpc. destruct W as ((Wh & HK & Wc) & Wr & Wo).
  assert (Hlen : length (hl ++ [rd (thr s t)]) = S (length hl)) by (rewrite app_length; cbn; lia).
  apply worker_step with (w := w) (hl := hl); [exact I|exact F|exact Hh|reflexivity| | | | | |].
  - rewrite Htd. reflexivity.
  - unfold ppart; cbn [pc flag with_pc]. exact F.
  - intros _. split; [reflexivity|]. split; [exact H1i|].
    unfold wpart; cbn [pc with_pc]. unfold wnorm. rewrite Hlen. split; [exact Wh|lia].
  - cbn [flag with_pc]. rewrite F. discriminate.
  - destruct (i_pre _ _ _ _ _ _ I) as [rest Hrest]. destruct rest as [|r rest'].
    { rewrite app_nil_r in Hrest. subst pl. lia. }
    exists rest'. rewrite Wr, cn_S. subst pl.
    rewrite app_nth2 by lia. rewrite Nat.sub_diag. cbn [nth]. rewrite <- app_assoc. reflexivity.
  - intros n. destruct (i_data _ _ _ _ _ _ I n) as [D|[i [Hi D]]]; [left; exact D|right].
    exists i. rewrite Hlen. split; [lia|exact D].
Qed.

(* (8) out_count = 0 *)
Lemma gzero_inv s al pl hl pe w t :
  Inv s al pl hl pe w -> pc (thr s t) = GZero -> Inv (fst (step s t)) al pl hl pe w.
Proof.
  intros I Hpc. open_step Hpc. wfacts I t Hpc. destruct W as ([Wh Wc] & Wo).
  apply worker_step with (w := w) (hl := hl); [exact I|exact F|exact Hh|reflexivity| | | | | |].
  - rewrite Htd. reflexivity.
  - unfold ppart; cbn [pc flag with_pc]. exact F.
  - intros _. split; [reflexivity|]. split; [exact H1i|].
    unfold wpart; cbn [pc oc with_pc]. split; [exact Wh|]. split; [reflexivity|]. rewrite Wo. exact Wc.
  - cbn [flag with_pc]. rewrite F. discriminate.
  - exact (i_pre _ _ _ _ _ _ I).
  - exact (i_data _ _ _ _ _ _ I).
Qed.

(* (9) sub_and_fetch on in_count: 0 -> EMPTY, the worker retires *)
Lemma gsub_inv s al pl hl pe w t :
  Inv s al pl hl pe w -> pc (thr s t) = GSub ->
  Inv (fst (step s t)) al pl hl pe (if (inc s - oc (thr s t) =? 0)%Z then None else w).
Proof.
  intros I Hpc. open_step Hpc. wfacts I t Hpc. destruct W as (Wh & Wo & Wc).
  assert (Hge : length hl <= length al).
  { destruct (i_pre _ _ _ _ _ _ I) as [rest Hrest]. rewrite (i_len _ _ _ _ _ _ I), Hrest, app_length. lia. }
  destruct (Z.eqb_spec (inc s - oc (thr s t)) 0) as [E|E].
  - apply worker_step with (w := w) (hl := hl); [exact I|exact F|exact Hh|apply next_op_holdsb| | | | | |].
    + apply next_op_todo. congruence.
    + apply next_op_pp.
    + rewrite next_op_flag. discriminate.
    + intros _. split; [reflexivity|]. split; [exact E|]. split; [exact Wo|]. split; [lia|exact Wh].
    + exact (i_pre _ _ _ _ _ _ I).
    + exact (i_data _ _ _ _ _ _ I).
  - apply worker_step with (w := w) (hl := hl); [exact I|exact F|exact Hh|reflexivity| | | | | |].
    + rewrite Htd. reflexivity.
    + unfold ppart; cbn [pc flag with_pc]. exact F.
    + intros _. split; [reflexivity|]. split; [lia|].
      unfold wpart; cbn [pc with_pc]. split; [exact Wh|lia].
    + cbn [flag with_pc]. rewrite F. discriminate.
    + exact (i_pre _ _ _ _ _ _ I).
    + exact (i_data _ _ _ _ _ _ I).
Qed.

(* (10) fast-forward of the fresh worker: the same amount is added to both
   counters, so in_count - out_count is unchanged and in_count stays >= 1;
   out_count is written by the worker only, and the worker holds no stale
   copy of it here (oc T is not constrained at GFfwd / GHead) *)
Lemma ffamt_nonneg j : (0 <= ffamt j)%Z.
Proof.
  unfold ffamt, FFAMT. do 8 (destruct j as [|j]; [cbn [nth]; lia|]). destruct j; cbn [nth]; lia.
Qed.

Lemma ffof_nonneg T : (0 <= ffof T)%Z.
Proof. unfold ffof. destruct (mk T); [apply ffamt_nonneg|lia]. Qed.

Lemma gffwd_inv s al pl hl pe w t :
  Inv s al pl hl pe w -> pc (thr s t) = GFfwd -> Inv (fst (step s t)) al pl hl pe w.
Proof.
  intros I Hpc. open_step Hpc. wfacts I t Hpc. destruct W as [Wh Wc].
  assert (P := ffof_nonneg (thr s t)).
  apply worker_step with (w := w) (hl := hl); [exact I|exact F|exact Hh|reflexivity| | | | | |].
  - rewrite Htd. reflexivity.
  - unfold ppart; cbn [pc flag with_pc]. exact F.
  - intros _. split; [reflexivity|]. split; [lia|].
    unfold wpart; cbn [pc with_pc]. split; [exact Wh|lia].
  - cbn [flag with_pc]. rewrite F. discriminate.
  - exact (i_pre _ _ _ _ _ _ I).
  - exact (i_data _ _ _ _ _ _ I).
Qed.

(* ------------------------------------------------------------------ *)
Theorem linv_step x t : LInv x -> LInv (lstep x t).
Proof.
  unfold LInv, lstep. intros I.
  destruct (pc (thr (base x) t)) eqn:Hpc; cbn [base alog plog hlog pend wk].
  - apply padd_inv; assumption.
  - apply pnext_inv; assumption.
  - apply pxchg_inv; assumption.
  - apply plink_inv; assumption.
  - apply gffwd_inv; assumption.
  - apply ghead_inv; assumption.
  - apply gnext_inv; assumption.
  - apply gseth_inv; assumption.
  - apply gdata_inv; assumption.
  - apply gcopy_inv; assumption.
  - apply goutr_inv; assumption.
  - apply goutw_inv; assumption.
  - apply gcmpo_inv; assumption.
  - apply gcmpi_inv; assumption.
  - apply goldr_inv; assumption.
  - apply gzero_inv; assumption.
  - apply gsub_inv; assumption.
  - unfold step. cbv zeta. rewrite Hpc. exact I.
Qed.

Theorem ireach_linv progs x : wf_progs progs -> ireach progs x -> LInv x.
Proof.
  intros WF. induction 1 as [|x t R IH].
  - apply init_inv. exact WF.
  - apply linv_step. exact IH.
Qed.

Theorem reachable_linv progs s :
  wf_progs progs -> reachable M (init progs) s -> exists x, ireach progs x /\ LInv x /\ base x = s.
Proof.
  intros WF R. destruct (reach_ireach progs s R) as [x [Rx E]].
  exists x. split; [exact Rx|]. split; [apply (ireach_linv progs); assumption|exact E].
Qed.

(* ---------------- the statements used by Properties_C17.v ---------------- *)

(* designated worker: told (or about to be told) START_WORKING, not yet told EMPTY *)
Definition designated (T : tst) : Prop :=
  flag T = true /\ (in_get (pc T) = true \/ holdsb T = true).

Lemma flag_designated s al pl hl pe w t :
  Inv s al pl hl pe w -> flag (thr s t) = true -> designated (thr s t).
Proof.
  intros I F. split; [exact F|]. assert (P := i_pp _ _ _ _ _ _ I t). unfold ppart in P.
  unfold holdsb. destruct (pc (thr s t)); cbn; auto; congruence.
Qed.

Lemma one_worker_of_inv s al pl hl pe w t u :
  Inv s al pl hl pe w ->
  (flag (thr s t) = true -> flag (thr s u) = true -> t = u) /\
  (in_get (pc (thr s t)) = true -> in_get (pc (thr s u)) = true -> t = u) /\
  (in_get (pc (thr s t)) = true -> flag (thr s t) = true).
Proof.
  intros I. split; [|split].
  - apply (worker_unique _ _ _ _ _ _ t u I).
  - intros A B. destruct (worker_facts _ _ _ _ _ _ t I A) as (Ft & _).
    destruct (worker_facts _ _ _ _ _ _ u I B) as (Fu & _).
    apply (worker_unique _ _ _ _ _ _ t u I); assumption.
  - intros A. destruct (worker_facts _ _ _ _ _ _ t I A) as (Ft & _). exact Ft.
Qed.

Lemma each_once_of_inv s al pl hl pe w :
  Inv s al pl hl pe w -> (exists rest, pl = hl ++ rest) /\ NoDup pl /\ NoDup hl.
Proof.
  intros I. assert (N := i_nd _ _ _ _ _ _ I). inversion N as [|? ? _ Npl]; subst.
  destruct (i_pre _ _ _ _ _ _ I) as [rest Hrest]. split; [exists rest; exact Hrest|].
  split; [exact Npl|]. rewrite Hrest in Npl. apply nodup_app_inv in Npl. tauto.
Qed.

Lemma drained_of_counts s al pl hl pe w :
  Inv s al pl hl pe w -> length al = length hl ->
  (forall a, In a al -> In a hl) /\ hl = pl /\ pe = [].
Proof.
  intros I E. destruct (i_pre _ _ _ _ _ _ I) as [rest Hrest].
  assert (L := i_len _ _ _ _ _ _ I). rewrite Hrest, app_length in L.
  assert (rest = []) by (destruct rest; [reflexivity|cbn in L; lia]).
  assert (pe = []) by (destruct pe; [reflexivity|cbn in L; lia]).
  subst rest pe. rewrite app_nil_r in Hrest. subst pl.
  split; [|split; reflexivity].
  intros a Ha. destruct (i_alog _ _ _ _ _ _ I a Ha) as [X|[]]. exact X.
Qed.

Lemma empty_drained_of_inv s al pl hl pe w t :
  Inv s al pl hl pe w -> pc (thr s t) = GSub -> (inc s - oc (thr s t) = 0)%Z ->
  (forall a, In a al -> In a hl) /\ hl = pl /\ pe = [].
Proof.
  intros I Hpc E. wfacts I t Hpc. destruct W as (_ & _ & Wc).
  apply (drained_of_counts _ _ _ _ _ _ I). lia.
Qed.

Lemma no_stranded_of_inv s al pl hl pe w :
  Inv s al pl hl pe w ->
  ((exists a, In a al /\ ~ In a hl) \/ (0 < inc s)%Z) ->
  exists t, designated (thr s t).
Proof.
  intros I H. destruct w as [t|] eqn:Ew.
  - exists t. apply (flag_designated _ _ _ _ _ _ t I). apply (i_flag _ _ _ _ _ _ I). reflexivity.
  - exfalso. destruct (i_wk _ _ _ _ _ _ I) as (A1 & A2 & A3 & A4).
    destruct H as [[a [Ha Hn]]|H]; [|lia].
    apply Hn. apply (drained_of_counts _ _ _ _ _ _ I A3). exact Ha.
Qed.

Lemma single_consumer_of_inv s al pl hl pe w t :
  Inv s al pl hl pe w -> in_trypop (pc (thr s t)) = true ->
  designated (thr s t) /\
  (forall u, in_trypop (pc (thr s u)) = true -> u = t) /\
  (pc (thr s t) = GNext \/ pc (thr s t) = GSetH -> ph (thr s t) = head s).
Proof.
  intros I Hp.
  assert (Sub : forall p, in_trypop p = true -> in_get p = true) by (intros []; cbn; congruence).
  destruct (worker_facts _ _ _ _ _ _ t I (Sub _ Hp)) as (F & _ & _ & _ & _ & W).
  split; [apply (flag_designated _ _ _ _ _ _ t I F)|]. split.
  - intros u Hu. apply (one_worker_of_inv _ _ _ _ _ _ u t I); apply Sub; assumption.
  - unfold wpart in W. intros [E|E]; rewrite E in W; tauto.
Qed.
