(* T1K: executable model of the waiting/waking protocol of src/fiber_manager.c
   and of src/fiber_mutex.c as they run on the T1 machine (rt/t1.c: real
   fiber_manager.c + fiber.c, one pthread per fiber, a suspending fiber performs
   its successor's maintenance and then sleeps until scheduled).
   One step = one registered shared access (or one yield point), exactly in
   the order of the -O0 code; checked by lock-step against the real code.

   Trace locations (rt/t1_locs.h):
     200+t        fiber t's state   (1 RUNNING 2 READY 3 WAITING 4 DONE 5 SAVING)
     98+2n, 99+2n mpsc node n's data / next   (node ids start at 1; 0 = NULL)
     300+10q      word of object q (mutex counter / cond waiter_count / barrier counter)
     301+10q, 302+10q  head / tail of object q's mpsc waiter list
     500+c        client cell c (harness data, join mailboxes, ...)
     900          yield point (fiber_scheduler_next), 901 schedule(f) event
   Fiber t is named 1000+t in node data.                                     *)
From Coq Require Import List ZArith Lia Bool Arith.
From LF Require Import Conc.
Import ListNotations.
Local Open Scope Z_scope.

Definition ST_RUNNING := 1. Definition ST_READY := 2. Definition ST_WAITING := 3.
Definition ST_DONE := 4. Definition ST_SAVING := 5.

Record kmem := {
  fstate : nat -> Z;            (* fiber state by thread id *)
  ndata : nat -> Z;             (* node fields *)
  nnext : nat -> nat;
  word : nat -> Z;              (* object q's counter word *)
  qhead : nat -> nat;
  qtail : nat -> nat;
  fnode : nat -> nat;           (* the mpsc node fiber t currently owns *)
  blocked : nat -> bool;        (* asleep in rt_block_self *)
  pend : nat -> nat;            (* wake-ups that arrived before the sleep *)
  slot_mutex : nat -> option nat;   (* manager->mutex_to_unlock of thread t's manager *)
  slot_sched : nat -> bool;         (* manager->to_schedule = self *)
  slot_wait : nat -> option (nat * Z); (* manager->set_wait_location / value *)
  slot_mpmc : nat -> option nat;    (* manager->mpmc_to_push.fifo (abstract queue id) *)
  mq : nat -> list nat;             (* MPMC waiter queues, atomic by C13: fiber ids, oldest first *)
  cell : nat -> Z               (* client-owned plain cells (harness data) *)
}.

Definition Zn (n : nat) : Z := Z.of_nat n.
Definition fname (t : nat) : Z := 1000 + Zn t.
Definition tid_of_name (d : Z) : nat := Z.to_nat (d - 1000).

Definition l_state (t : nat) : Z := 200 + Zn t.
Definition l_data (n : nat) : Z := 98 + 2 * Zn n.
Definition l_next (n : nat) : Z := 99 + 2 * Zn n.
Definition l_word (q : nat) : Z := 300 + 10 * Zn q.
Definition l_head (q : nat) : Z := 301 + 10 * Zn q.
Definition l_tail (q : nat) : Z := 302 + 10 * Zn q.
Definition l_cell (c : nat) : Z := 500 + Zn c.

Definition ev (t : nat) (loc kind v : Z) : list Z := [Zn t; loc; kind; v].

(* record updates *)
Definition set_fstate m k v := {| fstate := upd (fstate m) k v; ndata := ndata m; nnext := nnext m; word := word m; qhead := qhead m; qtail := qtail m; fnode := fnode m; blocked := blocked m; pend := pend m; slot_mutex := slot_mutex m; slot_sched := slot_sched m; slot_wait := slot_wait m; slot_mpmc := slot_mpmc m; mq := mq m; cell := cell m |}.
Definition set_ndata m k v := {| fstate := fstate m; ndata := upd (ndata m) k v; nnext := nnext m; word := word m; qhead := qhead m; qtail := qtail m; fnode := fnode m; blocked := blocked m; pend := pend m; slot_mutex := slot_mutex m; slot_sched := slot_sched m; slot_wait := slot_wait m; slot_mpmc := slot_mpmc m; mq := mq m; cell := cell m |}.
Definition set_nnext m k v := {| fstate := fstate m; ndata := ndata m; nnext := upd (nnext m) k v; word := word m; qhead := qhead m; qtail := qtail m; fnode := fnode m; blocked := blocked m; pend := pend m; slot_mutex := slot_mutex m; slot_sched := slot_sched m; slot_wait := slot_wait m; slot_mpmc := slot_mpmc m; mq := mq m; cell := cell m |}.
Definition set_word m k v := {| fstate := fstate m; ndata := ndata m; nnext := nnext m; word := upd (word m) k v; qhead := qhead m; qtail := qtail m; fnode := fnode m; blocked := blocked m; pend := pend m; slot_mutex := slot_mutex m; slot_sched := slot_sched m; slot_wait := slot_wait m; slot_mpmc := slot_mpmc m; mq := mq m; cell := cell m |}.
Definition set_qhead m k v := {| fstate := fstate m; ndata := ndata m; nnext := nnext m; word := word m; qhead := upd (qhead m) k v; qtail := qtail m; fnode := fnode m; blocked := blocked m; pend := pend m; slot_mutex := slot_mutex m; slot_sched := slot_sched m; slot_wait := slot_wait m; slot_mpmc := slot_mpmc m; mq := mq m; cell := cell m |}.
Definition set_qtail m k v := {| fstate := fstate m; ndata := ndata m; nnext := nnext m; word := word m; qhead := qhead m; qtail := upd (qtail m) k v; fnode := fnode m; blocked := blocked m; pend := pend m; slot_mutex := slot_mutex m; slot_sched := slot_sched m; slot_wait := slot_wait m; slot_mpmc := slot_mpmc m; mq := mq m; cell := cell m |}.
Definition set_fnode m k v := {| fstate := fstate m; ndata := ndata m; nnext := nnext m; word := word m; qhead := qhead m; qtail := qtail m; fnode := upd (fnode m) k v; blocked := blocked m; pend := pend m; slot_mutex := slot_mutex m; slot_sched := slot_sched m; slot_wait := slot_wait m; slot_mpmc := slot_mpmc m; mq := mq m; cell := cell m |}.
Definition set_blocked m k v := {| fstate := fstate m; ndata := ndata m; nnext := nnext m; word := word m; qhead := qhead m; qtail := qtail m; fnode := fnode m; blocked := upd (blocked m) k v; pend := pend m; slot_mutex := slot_mutex m; slot_sched := slot_sched m; slot_wait := slot_wait m; slot_mpmc := slot_mpmc m; mq := mq m; cell := cell m |}.
Definition set_pend m k v := {| fstate := fstate m; ndata := ndata m; nnext := nnext m; word := word m; qhead := qhead m; qtail := qtail m; fnode := fnode m; blocked := blocked m; pend := upd (pend m) k v; slot_mutex := slot_mutex m; slot_sched := slot_sched m; slot_wait := slot_wait m; slot_mpmc := slot_mpmc m; mq := mq m; cell := cell m |}.
Definition set_slot_mutex m k v := {| fstate := fstate m; ndata := ndata m; nnext := nnext m; word := word m; qhead := qhead m; qtail := qtail m; fnode := fnode m; blocked := blocked m; pend := pend m; slot_mutex := upd (slot_mutex m) k v; slot_sched := slot_sched m; slot_wait := slot_wait m; slot_mpmc := slot_mpmc m; mq := mq m; cell := cell m |}.
Definition set_slot_sched m k v := {| fstate := fstate m; ndata := ndata m; nnext := nnext m; word := word m; qhead := qhead m; qtail := qtail m; fnode := fnode m; blocked := blocked m; pend := pend m; slot_mutex := slot_mutex m; slot_sched := upd (slot_sched m) k v; slot_wait := slot_wait m; slot_mpmc := slot_mpmc m; mq := mq m; cell := cell m |}.
Definition set_slot_wait m k v := {| fstate := fstate m; ndata := ndata m; nnext := nnext m; word := word m; qhead := qhead m; qtail := qtail m; fnode := fnode m; blocked := blocked m; pend := pend m; slot_mutex := slot_mutex m; slot_sched := slot_sched m; slot_wait := upd (slot_wait m) k v; slot_mpmc := slot_mpmc m; mq := mq m; cell := cell m |}.
Definition set_slot_mpmc m k v := {| fstate := fstate m; ndata := ndata m; nnext := nnext m; word := word m; qhead := qhead m; qtail := qtail m; fnode := fnode m; blocked := blocked m; pend := pend m; slot_mutex := slot_mutex m; slot_sched := slot_sched m; slot_wait := slot_wait m; slot_mpmc := upd (slot_mpmc m) k v; mq := mq m; cell := cell m |}.
Definition set_mq m k v := {| fstate := fstate m; ndata := ndata m; nnext := nnext m; word := word m; qhead := qhead m; qtail := qtail m; fnode := fnode m; blocked := blocked m; pend := pend m; slot_mutex := slot_mutex m; slot_sched := slot_sched m; slot_wait := slot_wait m; slot_mpmc := slot_mpmc m; mq := upd (mq m) k v; cell := cell m |}.
Definition set_cell m k v := {| fstate := fstate m; ndata := ndata m; nnext := nnext m; word := word m; qhead := qhead m; qtail := qtail m; fnode := fnode m; blocked := blocked m; pend := pend m; slot_mutex := slot_mutex m; slot_sched := slot_sched m; slot_wait := slot_wait m; slot_mpmc := slot_mpmc m; mq := mq m; cell := upd (cell m) k v |}.

(* rt_wake: a sleeping thread becomes runnable; otherwise the wake-up is remembered *)
Definition wake (m : kmem) (f : nat) : kmem :=
  if blocked m f then set_blocked m f false else set_pend m f (S (pend m f)).

(* a 64-bit word as rt_canon prints it: small magnitudes as they are, anything else -777777 *)
Definition pc64 (v : Z) : Z := if (- 2 ^ 40 <? v) && (v <? 2 ^ 40) then v else -777777.

(* 32-bit int as the runtime prints it *)
Definition sx32 (v : Z) : Z := let w := v mod 2 ^ 32 in if w <? 2 ^ 31 then w else w - 2 ^ 32.

Section Kernel.
  (* client continuation frames are supplied by each primitive *)
  Variable C : Type.

  Inductive frame :=
  | FC (c : C)                          (* client continuation: receives return values *)
  | Start                               (* t1_enter: self->state = RUNNING *)
  (* generic accesses a client may ask for *)
  | CWrite (c : nat) (v : Z)            (* plain write of a client cell *)
  | CRead (c : nat)                     (* plain read of a client cell, returns the value *)
  | WFAdd (q : nat) (d : Z) (mo : Z)    (* atomic fetch_add on word q, returns OLD value *)
  | WFSub (q : nat) (d : Z) (mo : Z)
  | WXchgW (q : nat) (v : Z) (mo : Z)
  | WLoadW (q : nat) (mo : Z)
  | WCasW (q : nat) (e n : Z) (mo : Z)  (* returns 1 / 0; on failure the observed value is in the trace only *)
  | WStoreW (q : nat) (v : Z) (mo : Z)  (* atomic store on word q *)
  | WReadW (q : nat)                    (* plain read of word q, returns it *)
  | WWriteW (q : nat) (v : Z)           (* plain write of word q *)
  | CXchgC (c : nat) (v : Z) (mo : Z)   (* atomic exchange on a client cell, returns OLD value *)
  | CCasC (c : nat) (e n : Z) (mo : Z)  (* strong CAS on a client cell, returns 1 / 0 *)
  | CStoreC (c : nat) (v : Z) (mo : Z)  (* atomic store on a client cell *)
  | CLoadC (c : nat) (mo : Z)           (* atomic load of a client cell *)
  | CFAddC (c : nat) (d : Z) (mo : Z)   (* atomic fetch_add on a client cell, returns OLD value *)
  | FStWrite (f : nat) (v : Z)          (* plain write of fiber f's state *)
  | FStRead (f : nat)                   (* plain read of fiber f's state, returns it *)
  | QWait (q : nat)                     (* wait_in_mpmc_queue: this_fiber->state = WAITING; slot; yield *)
  | QReady (f : nat)                    (* wake_from_mpmc_queue after a successful pop: f->state = READY; schedule *)
  (* fiber_manager_yield *)
  | YRead                               (* read own state *)
  | YNext (st : Z)                      (* the fiber_scheduler_next point *)
  | SwRead                              (* switch_to: old_fiber->state == RUNNING ? *)
  | SwReady                             (* old_fiber->state = READY (to_schedule) *)
  | SwDone                              (* t1 adapter: self->state == DONE ? *)
  | MRead                               (* do_maintenance: old state == SAVING ? *)
  | MFlip                               (* old_fiber->state = WAITING *)
  | MSlots                              (* continuation: remaining deferred slots, then sleep *)
  | MSetWait (c : nat) (v : Z)          (* *set_wait_location = set_wait_value *)
  | Asleep                              (* in rt_block_self *)
  | Resume                              (* adapter: self->state = RUNNING *)
  | YLoop                               (* continuation: yield's while(1) after resuming *)
  (* fiber_manager_wait_in_mpsc_queue(q) *)
  | WSaving (q : nat) | WData (q : nat) | WNext (q : nat) (n : nat) | WXchg (q : nat) (n : nat)
  | WLink (q : nat) (p n : nat)
  (* fiber_manager_wake_from_mpsc_queue(q, count) *)
  | KHead (q : nat) (cnt wc : Z) | KNext (q : nat) (cnt wc : Z) (h : nat)
  | KSetHead (q : nat) (cnt wc : Z) (h nx : nat) | KData (q : nat) (cnt wc : Z) (h nx : nat)
  | KCopy (q : nat) (cnt wc : Z) (h : nat) (d : Z) | KOut (q : nat) (cnt wc : Z) (h : nat)
  | KState (q : nat) (cnt wc : Z) (f : nat) | KReady (q : nat) (cnt wc : Z) (f : nat)
  | KSpin (q : nat) (cnt wc : Z)        (* continuation after the yield of a failed pop *)
  (* fiber_manager_set_and_wait / clear_or_wait *)
  | SWState (c : nat) (v : Z)           (* this_fiber->state = WAITING *)
  | CWXchg (c : nat)                    (* atomic_exchange(location, NULL) *)
  | CWSpin (c : nat)                    (* continuation after the yield of an empty exchange *)
  (* fiber_mutex *)
  | LSub (q : nat)                      (* lock: fetch_sub *)
  | LWaited                             (* continuation: wait returned -> lock returns 1 *)
  | TCas (q : nat)                      (* trylock *)
  | UAdd (q : nat)                      (* unlock_internal: fetch_add *)
  | UWoke                               (* continuation: wake returned -> unlock_internal returns 1 *)
  | UYield                              (* continuation in fiber_mutex_unlock: contended -> fiber_yield *)
  | UDone.                              (* continuation: fiber_mutex_unlock returns 1 *)

  Definition stack := list frame.

  (* control returns to client frame c with value v: silent; yields the frames that replace it *)
  Variable cret : kmem -> nat -> C -> Z -> kmem * list Z * stack.

  (* go to sleep, or continue at once if a wake-up is pending *)
  Definition sleep (m : kmem) (t : nat) (rest : stack) : kmem * list Z * stack :=
    match pend m t with
    | S k => (set_pend m t k, [], Resume :: rest)
    | O => (set_blocked m t true, [], Asleep :: rest)
    end.

  (* do_maintenance after the state flip: to_schedule, mutex_to_unlock,
     set_wait_location (in the order of the C code), then sleep *)
  Definition run_slots (m : kmem) (t : nat) (rest : stack) : kmem * list Z * stack :=
    let '(m1, e1) := if slot_sched m t
                     then (wake (set_slot_sched m t false) t, ev t 901 919 (Zn t))
                     else (m, []) in
    let m1 := match slot_mpmc m1 t with
              | Some q => set_mq (set_slot_mpmc m1 t None) q (mq m1 q ++ [t])
              | None => m1
              end in
    match slot_mutex m1 t with
    | Some q => (set_slot_mutex m1 t None, e1, UAdd q :: MSlots :: rest)
    | None =>
      match slot_wait m1 t with
      | Some (c, v) => (set_slot_wait m1 t None, e1, MSetWait c v :: rest)
      | None => let '(m2, e2, s2) := sleep m1 t rest in (m2, e1 ++ e2, s2)
      end
    end.

  (* wake_from_mpsc_queue: while (wake_count < count) *)
  Definition kloop (q : nat) (cnt wc : Z) : option frame :=
    if wc <? cnt then Some (KHead q cnt wc) else None.

  (* [ret m t v rest]: the callee returned v to the frame on top of rest (silent) *)
  Fixpoint ret (m : kmem) (t : nat) (v : Z) (rest : stack) : kmem * list Z * stack :=
    match rest with
    | [] => (m, [], [])
    | f :: r =>
      match f with
      | FC c => let '(m1, e1, s1) := cret m t c v in (m1, e1, s1 ++ r)
      | LWaited => ret m t 1 r
      | UWoke => ret m t 1 r
      | UYield => if v =? 1 then (m, [], YRead :: UDone :: r) else ret m t 1 r
      | UDone => ret m t 1 r
      | MSlots => run_slots m t r
      | YLoop => (m, [], YRead :: r)
      | KSpin q cnt wc => match kloop q cnt wc with
                          | Some k => (m, [], k :: r)
                          | None => ret m t wc r
                          end
      | CWSpin c => (m, [], CWXchg c :: r)
      | _ => (m, [], rest)
      end
    end.

  (* schedule(f) at the end of a successful pop in wake_from_mpsc_queue *)
  Definition ksched (m : kmem) (t : nat) (q : nat) (cnt wc : Z) (f : nat) (e : list Z) (r : stack)
    : kmem * list Z * stack :=
    let m1 := wake m f in
    let e1 := e ++ ev t 901 919 (Zn f) in
    match kloop q cnt (wc + 1) with
    | Some k => (m1, e1, k :: r)
    | None => let '(m2, e2, s2) := ret m1 t (wc + 1) r in (m2, e1 ++ e2, s2)
    end.

  (* ---- one registered access (or yield point) of thread t ---- *)
  Definition kstep (m : kmem) (t : nat) (stk : stack) : kmem * list Z * stack :=
    match stk with
    | [] => (m, [], [])
    | f :: r =>
      match f with
      | Start =>
          let '(m1, e1, s1) := ret (set_fstate m t ST_RUNNING) t 0 r in
          (m1, ev t (l_state t) 19 ST_RUNNING ++ e1, s1)
      | CWrite c v =>
          let '(m1, e1, s1) := ret (set_cell m c v) t 0 r in (m1, ev t (l_cell c) 19 v ++ e1, s1)
      | CRead c =>
          let '(m1, e1, s1) := ret m t (cell m c) r in (m1, ev t (l_cell c) 9 (cell m c) ++ e1, s1)
      | WFAdd q d mo =>
          let o := word m q in
          let '(m1, e1, s1) := ret (set_word m q (o + d)) t o r in (m1, ev t (l_word q) (50 + mo) (pc64 o) ++ e1, s1)
      | WFSub q d mo =>
          let o := word m q in
          let '(m1, e1, s1) := ret (set_word m q (o - d)) t o r in (m1, ev t (l_word q) (60 + mo) (pc64 o) ++ e1, s1)
      | WXchgW q v mo =>
          let o := word m q in
          let '(m1, e1, s1) := ret (set_word m q v) t o r in (m1, ev t (l_word q) (40 + mo) (pc64 o) ++ e1, s1)
      | WLoadW q mo =>
          let o := word m q in
          let '(m1, e1, s1) := ret m t o r in (m1, ev t (l_word q) (20 + mo) (pc64 o) ++ e1, s1)
      | WCasW q e n mo =>
          let o := word m q in
          if o =? e
          then let '(m1, e1, s1) := ret (set_word m q n) t 1 r in (m1, ev t (l_word q) (70 + mo) (pc64 n) ++ e1, s1)
          else let '(m1, e1, s1) := ret m t 0 r in (m1, ev t (l_word q) (80 + mo) (pc64 o) ++ e1, s1)
      | WReadW q =>
          let o := word m q in
          let '(m1, e1, s1) := ret m t o r in (m1, ev t (l_word q) 9 (pc64 o) ++ e1, s1)
      | WWriteW q v =>
          let '(m1, e1, s1) := ret (set_word m q v) t 0 r in (m1, ev t (l_word q) 19 (pc64 v) ++ e1, s1)
      | WStoreW q v mo =>
          let '(m1, e1, s1) := ret (set_word m q v) t 0 r in (m1, ev t (l_word q) (30 + mo) (pc64 v) ++ e1, s1)
      | CXchgC c v mo =>
          let o := cell m c in
          let '(m1, e1, s1) := ret (set_cell m c v) t o r in (m1, ev t (l_cell c) (40 + mo) o ++ e1, s1)
      | CCasC c e n mo =>
          let o := cell m c in
          if o =? e
          then let '(m1, e1, s1) := ret (set_cell m c n) t 1 r in (m1, ev t (l_cell c) (70 + mo) n ++ e1, s1)
          else let '(m1, e1, s1) := ret m t 0 r in (m1, ev t (l_cell c) (80 + mo) o ++ e1, s1)
      | CStoreC c v mo =>
          let '(m1, e1, s1) := ret (set_cell m c v) t 0 r in (m1, ev t (l_cell c) (30 + mo) v ++ e1, s1)
      | CLoadC c mo =>
          let o := cell m c in
          let '(m1, e1, s1) := ret m t o r in (m1, ev t (l_cell c) (20 + mo) o ++ e1, s1)
      | CFAddC c d mo =>
          let o := cell m c in
          let '(m1, e1, s1) := ret (set_cell m c (o + d)) t o r in (m1, ev t (l_cell c) (50 + mo) o ++ e1, s1)
      | FStWrite f v =>
          let '(m1, e1, s1) := ret (set_fstate m f v) t 0 r in (m1, ev t (l_state f) 19 v ++ e1, s1)
      | FStRead f =>
          let '(m1, e1, s1) := ret m t (fstate m f) r in (m1, ev t (l_state f) 9 (fstate m f) ++ e1, s1)
      | QWait q => (set_slot_mpmc (set_fstate m t ST_WAITING) t (Some q),
                    ev t (l_state t) 19 ST_WAITING, YRead :: r)
      | QReady f =>
          let m0 := wake (set_fstate m f ST_READY) f in
          let '(m1, e1, s1) := ret m0 t 1 r in
          (m1, ev t (l_state f) 19 ST_READY ++ ev t 901 919 (Zn f) ++ e1, s1)
      (* ---- yield ---- *)
      | YRead => (m, ev t (l_state t) 9 (fstate m t), YNext (fstate m t) :: r)
      | YNext st =>
          if (st =? ST_WAITING) || (st =? ST_DONE) || (st =? ST_SAVING)
          then (m, ev t 900 99 0, SwRead :: YLoop :: r)
          else let '(m1, e1, s1) := ret m t 0 r in (m1, ev t 900 99 0 ++ e1, s1)
      | SwRead =>
          let e := ev t (l_state t) 9 (fstate m t) in
          if fstate m t =? ST_RUNNING then (m, e, SwReady :: r) else (m, e, SwDone :: r)
      | SwReady => (set_slot_sched (set_fstate m t ST_READY) t true, ev t (l_state t) 19 ST_READY, SwDone :: r)
      | SwDone => (m, ev t (l_state t) 9 (fstate m t), MRead :: r)
      | MRead =>
          let e := ev t (l_state t) 9 (fstate m t) in
          if fstate m t =? ST_SAVING then (m, e, MFlip :: r)
          else let '(m1, e1, s1) := run_slots m t r in (m1, e ++ e1, s1)
      | MFlip =>
          let '(m1, e1, s1) := run_slots (set_fstate m t ST_WAITING) t r in
          (m1, ev t (l_state t) 19 ST_WAITING ++ e1, s1)
      | MSetWait c v =>
          let '(m1, e1, s1) := sleep (set_cell m c v) t r in (m1, ev t (l_cell c) 19 v ++ e1, s1)
      | Asleep => (m, ev t 0 919 1, Resume :: r)
      | Resume =>
          let '(m1, e1, s1) := ret (set_fstate m t ST_RUNNING) t 0 r in
          (m1, ev t (l_state t) 19 ST_RUNNING ++ e1, s1)
      (* ---- wait_in_mpsc_queue(q) ---- *)
      | WSaving q => (set_fstate m t ST_SAVING, ev t (l_state t) 19 ST_SAVING, WData q :: r)
      | WData q => let n := fnode m t in
                   (set_fnode (set_ndata m n (fname t)) t O, ev t (l_data n) 19 (fname t), WNext q n :: r)
      | WNext q n => (set_nnext m n O, ev t (l_next n) 19 0, WXchg q n :: r)
      | WXchg q n => let p := qtail m q in
                     (set_qtail m q n, ev t (l_tail q) 43 (Zn p), WLink q p n :: r)
      | WLink q p n => (set_nnext m p n, ev t (l_next p) 19 (Zn n), YRead :: r)
      (* ---- wake_from_mpsc_queue(q, cnt) ---- *)
      | KHead q cnt wc => let h := qhead m q in (m, ev t (l_head q) 9 (Zn h), KNext q cnt wc h :: r)
      | KNext q cnt wc h =>
          let nx := nnext m h in
          let e := ev t (l_next h) 9 (Zn nx) in
          match nx with
          | S _ => (m, e, KSetHead q cnt wc h nx :: r)
          | O => if 0 <? cnt then (m, e, YRead :: KSpin q cnt wc :: r)
                 else match kloop q cnt wc with
                      | Some k => (m, e, k :: r)
                      | None => let '(m1, e1, s1) := ret m t wc r in (m1, e ++ e1, s1)
                      end
          end
      | KSetHead q cnt wc h nx => (set_qhead m q nx, ev t (l_head q) 19 (Zn nx), KData q cnt wc h nx :: r)
      | KData q cnt wc h nx => let d := ndata m nx in (m, ev t (l_data nx) 9 d, KCopy q cnt wc h d :: r)
      | KCopy q cnt wc h d => (set_ndata m h d, ev t (l_data h) 19 d, KOut q cnt wc h :: r)
      | KOut q cnt wc h =>
          let d := ndata m h in
          let f := tid_of_name d in
          (set_fnode m f h, ev t (l_data h) 9 d, KState q cnt wc f :: r)
      | KState q cnt wc f =>
          let e := ev t (l_state f) 9 (fstate m f) in
          if fstate m f =? ST_WAITING then (m, e, KReady q cnt wc f :: r)
          else ksched m t q cnt wc f e r
      | KReady q cnt wc f => ksched (set_fstate m f ST_READY) t q cnt wc f (ev t (l_state f) 19 ST_READY) r
      (* ---- set_and_wait / clear_or_wait ---- *)
      | SWState c v => (set_slot_wait (set_fstate m t ST_WAITING) t (Some (c, v)),
                        ev t (l_state t) 19 ST_WAITING, YRead :: r)
      | CWXchg c =>
          let o := cell m c in
          let e := ev t (l_cell c) 45 o in
          if o =? 0 then (m, e, YRead :: CWSpin c :: r)
          else let '(m1, e1, s1) := ret (set_cell m c 0) t o r in (m1, e ++ e1, s1)
      (* ---- mutex ---- *)
      | LSub q =>
          let o := word m q in
          let m0 := set_word m q (o - 1) in
          let e := ev t (l_word q) 65 (sx32 o) in
          if o - 1 =? 0 then let '(m1, e1, s1) := ret m0 t 1 r in (m1, e ++ e1, s1)
          else (m0, e, WSaving q :: LWaited :: r)
      | TCas q =>
          let o := word m q in
          if o =? 1 then let '(m1, e1, s1) := ret (set_word m q 0) t 1 r in (m1, ev t (l_word q) 72 0 ++ e1, s1)
          else let '(m1, e1, s1) := ret m t 0 r in (m1, ev t (l_word q) 82 (sx32 o) ++ e1, s1)
      | UAdd q =>
          let o := word m q in
          let m0 := set_word m q (o + 1) in
          let e := ev t (l_word q) 55 (sx32 o) in
          if o + 1 =? 1 then let '(m1, e1, s1) := ret m0 t 0 r in (m1, e ++ e1, s1)
          else (m0, e, KHead q 1 0 :: UWoke :: r)
      (* continuation-only frames are never on top when a thread is granted *)
      | _ => (m, [], stk)
      end
    end.

  (* thread status for the controller *)
  Definition kstatus (m : kmem) (t : nat) (stk : stack) : status :=
    match stk with
    | [] => SDone
    | Asleep :: _ => if blocked m t then SBlocked else SReady
    | _ => SReady
    end.
End Kernel.

Arguments FC {C}. Arguments Start {C}. Arguments CWrite {C}. Arguments CRead {C}.
Arguments WStoreW {C}. Arguments WReadW {C}. Arguments WWriteW {C}. Arguments CXchgC {C}. Arguments CCasC {C}. Arguments CStoreC {C}. Arguments CLoadC {C}.
Arguments CFAddC {C}. Arguments FStWrite {C}. Arguments FStRead {C}. Arguments QWait {C}. Arguments QReady {C}.
Arguments WFAdd {C}. Arguments WFSub {C}. Arguments WXchgW {C}. Arguments WLoadW {C}. Arguments WCasW {C}.
Arguments YRead {C}. Arguments YNext {C}. Arguments SwRead {C}. Arguments SwReady {C}. Arguments SwDone {C}.
Arguments MRead {C}. Arguments MFlip {C}. Arguments MSlots {C}. Arguments MSetWait {C}. Arguments Asleep {C}.
Arguments Resume {C}. Arguments YLoop {C}. Arguments WSaving {C}. Arguments WData {C}. Arguments WNext {C}.
Arguments WXchg {C}. Arguments WLink {C}. Arguments KHead {C}. Arguments KNext {C}. Arguments KSetHead {C}.
Arguments KData {C}. Arguments KCopy {C}. Arguments KOut {C}. Arguments KState {C}. Arguments KReady {C}.
Arguments KSpin {C}. Arguments SWState {C}. Arguments CWXchg {C}. Arguments CWSpin {C}.
Arguments LSub {C}. Arguments LWaited {C}. Arguments TCas {C}. Arguments UAdd {C}. Arguments UWoke {C}.
Arguments UYield {C}. Arguments UDone {C}.

(* initial memory: nobj objects (object q's list has stub node q+1), thread t owns node nobj+1+t *)
Definition kinit (nobj : nat) (words : nat -> Z) : kmem :=
  {| fstate := fun _ => ST_READY; ndata := fun _ => 0; nnext := fun _ => O; word := words;
     qhead := fun q => S q; qtail := fun q => S q; fnode := fun t => (nobj + 1 + t)%nat;
     blocked := fun _ => false; pend := fun _ => O; slot_mutex := fun _ => None;
     slot_sched := fun _ => false; slot_wait := fun _ => None; slot_mpmc := fun _ => None;
     mq := fun _ => []; cell := fun _ => 0 |}.

(* silent MPMC trypop (atomic by C13): the client calls it inside [cret] *)
Definition mq_pop (m : kmem) (q : nat) : option (nat * kmem) :=
  match mq m q with
  | [] => None
  | f :: r => Some (f, set_mq m q r)
  end.
