(* C05: client of T1K for src/fiber_cond.c — wait / signal / broadcast by any
   number of fibers on one condition variable.
   Objects: 0 = user mutex, 1 = cond.internal_mutex, 2 = the cond itself
   (word = waiter_count, list = cond->waiters).
   Cells: 0 = cond.caller_mutex (loc 500), 1 = predicate flag protected by the
   user mutex (501), 2 = critical-section owner cell (502).
   Harness: rt/h_cond.c. *)
From Coq Require Import List ZArith Lia Bool Arith.
From LF Require Import Conc T1K.
Import ListNotations.
Local Open Scope Z_scope.

Inductive cop :=
| OWait        (* lock(user); cond_wait; unlock(user) *)
| OWaitIf      (* lock(user); if (!flag) cond_wait; unlock(user) *)
| OSignal      (* signal without the user mutex *)
| OSignalM     (* lock(user); signal; unlock(user) *)
| OBcast
| OBcastM
| OSetFlag     (* lock(user); flag = 1; unlock(user) *)
| ORead.       (* atomic load of waiter_count *)

Definition UMUTEX : nat := 0%nat.
Definition IMUTEX : nat := 1%nat.
Definition COND : nat := 2%nat.
Definition C_CALLER : nat := 0%nat.
Definition C_FLAG : nat := 1%nat.
Definition C_OWNER : nat := 2%nat.
Definition umutex_name : Z := 2000.

(* client continuation frames; p = rest of the program, k = index (from 1) of the current call *)
Inductive cc :=
| CNext (p : list cop) (k : nat)                  (* start the next call *)
| CLocked (o : cop) (p : list cop) (k : nat)      (* fiber_mutex_lock(user) returned: write the owner cell *)
| CIn (o : cop) (p : list cop) (k : nat)          (* owner cell written: body of the op *)
| CFlag (p : list cop) (k : nat)                  (* flag read *)
| CW1 (p : list cop) (k : nat)                    (* caller_mutex written: fetch_add waiter_count *)
| CW2 (p : list cop) (k : nat)                    (* registered: wait_in_mpsc_queue_and_unlock *)
| CW3 (p : list cop) (k : nat)                    (* woken: fiber_mutex_lock(user) *)
| CW4 (p : list cop) (k : nat)                    (* cond_wait returned: report 11, write the owner cell *)
| CS1 (um : bool) (p : list cop) (k : nat)        (* signal: internal mutex held: fetch_sub *)
| CS2 (um : bool) (p : list cop) (k : nat)        (* signal: fetch_sub returned *)
| CB1 (um : bool) (p : list cop) (k : nat)        (* broadcast: internal mutex held: exchange *)
| CB2 (um : bool) (p : list cop) (k : nat)        (* broadcast: exchange returned *)
| CS3 (um : bool) (p : list cop) (k : nat)        (* wake / fetch_add returned: unlock internal *)
| CS4 (um : bool) (p : list cop) (k : nat)        (* internal mutex released *)
| CUnl (p : list cop) (k : nat) (r0 : Z)          (* read the owner cell back, then unlock(user) *)
| CRb (p : list cop) (k : nat) (r0 : Z)           (* owner cell read back *)
| CDone (p : list cop) (k : nat) (r : Z)          (* unlock(user) returned: report r *)
| CRd (p : list cop) (k : nat).                   (* waiter_count loaded: report it *)

Definition retev (t k : nat) (v : Z) : list Z := [Zn t; Zn k; 909; v].

Definition needs_user (o : cop) : bool :=
  match o with
  | OWait | OWaitIf | OSignalM | OBcastM | OSetFlag => true
  | _ => false
  end.

Definition signal_stack (um : bool) (p : list cop) (k : nat) : stack cc :=
  [LSub IMUTEX; FC (CS1 um p k)].
Definition bcast_stack (um : bool) (p : list cop) (k : nat) : stack cc :=
  [LSub IMUTEX; FC (CB1 um p k)].

(* first access of the next call *)
Definition start (p : list cop) (k : nat) : stack cc :=
  match p with
  | [] => []
  | o :: p' =>
    if needs_user o then [LSub UMUTEX; FC (CLocked o p' k)]
    else match o with
         | OSignal => signal_stack false p' k
         | OBcast => bcast_stack false p' k
         | _ => [WLoadW COND 5; FC (CRd p' k)]
         end
  end.

Definition cret (m : kmem) (t : nat) (c : cc) (v : Z) : kmem * list Z * stack cc :=
  match c with
  | CNext p k => (m, [], start p k)
  | CLocked o p k => (m, [], [CWrite C_OWNER (Zn t + 1); FC (CIn o p k)])
  | CIn o p k =>
      match o with
      | OWait => (m, [], [CWrite C_CALLER umutex_name; FC (CW1 p k)])
      | OWaitIf => (m, [], [CRead C_FLAG; FC (CFlag p k)])
      | OSignalM => (m, [], signal_stack true p k)
      | OBcastM => (m, [], bcast_stack true p k)
      | OSetFlag => (m, [], [CWrite C_FLAG 1; FC (CUnl p k 1)])
      | _ => (m, [], [CRead C_OWNER; FC (CRb p k 1)])   (* not reached *)
      end
  | CFlag p k =>
      if v =? 0 then (m, [], [CWrite C_CALLER umutex_name; FC (CW1 p k)])
      else (m, [], [CRead C_OWNER; FC (CRb p k 3)])
  | CW1 p k => (m, [], [WFAdd COND 1 3; FC (CW2 p k)])
  | CW2 p k =>
      (* fiber_manager_wait_in_mpsc_queue_and_unlock: manager->mutex_to_unlock = mutex (not registered) *)
      (set_slot_mutex m t (Some UMUTEX), [], [WSaving COND; FC (CW3 p k)])
  | CW3 p k => (m, [], [LSub UMUTEX; FC (CW4 p k)])
  | CW4 p k => (m, retev t k 11, [CWrite C_OWNER (Zn t + 1); FC (CUnl p k 1)])
  | CS1 um p k => (m, [], [WFSub COND 1 5; FC (CS2 um p k)])
  | CS2 um p k =>
      if 0 <=? v - 1 then (m, [], [KHead COND 1 0; FC (CS3 um p k)])
      else (m, [], [WFAdd COND 1 5; FC (CS3 um p k)])
  | CB1 um p k => (m, [], [WXchgW COND 0 2; FC (CB2 um p k)])
  | CB2 um p k =>
      if v =? 0 then (m, [], [UAdd IMUTEX; UYield; FC (CS4 um p k)])
      else (m, [], [KHead COND v 0; FC (CS3 um p k)])
  | CS3 um p k => (m, [], [UAdd IMUTEX; UYield; FC (CS4 um p k)])
  | CS4 um p k =>
      if um then (m, [], [CRead C_OWNER; FC (CRb p k 1)])
      else (m, retev t k 1, start p (S k))
  | CUnl p k r0 => (m, [], [CRead C_OWNER; FC (CRb p k r0)])
  | CRb p k r0 =>
      let r := if v =? Zn t + 1 then r0 else 7 in
      (m, [], [UAdd UMUTEX; UYield; FC (CDone p k r)])
  | CDone p k r => (m, retev t k r, start p (S k))
  | CRd p k => (m, retev t k v, start p (S k))
  end.

(* A failed pop inside do_maintenance (the deferred unlock of the user mutex finds
   its waiter announced but not yet linked) calls fiber_manager_yield with
   manager->current_fiber = the maintenance fiber (state RUNNING, not registered):
   that yield returns at once (cpu_relax, no scheduling point on T1, repo commit
   9f9cf90) and the wake loop retries the pop.  T1K.kstep models the yield of a
   failed pop as a yield of fiber t itself (right outside maintenance, the only
   case its other clients reach); the difference is overridden here.
   We are inside do_maintenance iff an MSlots continuation is on the stack. *)
Definition is_mslots (f : frame cc) : bool := match f with MSlots => true | _ => false end.
Definition in_maint (r : stack cc) : bool := existsb is_mslots r.

Definition kstepC (m : kmem) (t : nat) (s : stack cc) : kmem * list Z * stack cc :=
  match s with
  | KNext q cnt wc h :: r =>
      match nnext m h with
      | O => if (0 <? cnt) && in_maint r
             then match kloop cc q cnt wc with
                  | Some k => (m, ev t (l_next h) 9 0, k :: r)
                  | None => let '(m1, e1, s1) := ret cc cret m t wc r in (m1, ev t (l_next h) 9 0 ++ e1, s1)
                  end
             else kstep cc cret m t s
      | S _ => kstep cc cret m t s
      end
  | _ => kstep cc cret m t s
  end.

Record st := { mem : kmem; stk : nat -> stack cc; nthr : nat }.

Definition step (s : st) (t : nat) : st * list Z :=
  let '(m1, e1, s1) := kstepC (mem s) t (stk s t) in
  ({| mem := m1; stk := upd (stk s) t s1; nthr := nthr s |}, e1).

Definition status_of (s : st) (t : nat) : status :=
  if (t <? nthr s)%nat then kstatus cc (mem s) t (stk s t) else SDone.

Definition init_words (q : nat) : Z :=
  match q with 0%nat => 1 | 1%nat => 1 | _ => 0 end.

Definition init (progs : list (list cop)) : st :=
  {| mem := kinit 3 init_words;
     stk := fun t => [Start; FC (CNext (nth t progs []) 1)];
     nthr := length progs |}.

Definition M : machine :=
  {| mstate := st; mstep := step; mstatus := status_of; mthreads := nthr |}.

Definition dec_op (p : Z * Z) : cop :=
  match fst p with
  | 1 => OWait | 2 => OWaitIf | 3 => OSignal | 4 => OSignalM
  | 5 => OBcast | 6 => OBcastM | 7 => OSetFlag | _ => ORead
  end.

Definition run_case (l : list Z) : list Z :=
  match decode_case l with
  | Some c => run_all M (init (map (map dec_op) (c_progs c))) [] (c_sched c)
                      (Z.to_nat (nthZ (c_params c) 0))
  | None => [(-1)%Z]
  end.
