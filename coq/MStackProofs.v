(* Proofs about the flushable-stack model (coq/MStack.v).  Instrumented machine:
     stk    = abstract content (top first),
     hist   = pushes (at their successful CAS) and flushes (at the exchange,
              with the list they took), in the order they took effect,
     pa t   = the part of the list thread t flushed that it still has to visit
              (reachable from its [cur]), pb t = the part already reversed
              (reachable from its [fifo]),
     fl t   = the list taken by thread t's current flush, got t = the nodes
              its walk has returned so far,
     done   = for every completed flush: (fifo?, list taken, list returned).
   Any number of threads, any programs, any schedule, immediate node reuse. *)
From Coq Require Import List ZArith Lia Bool Arith Permutation.
From LF Require Import Conc DcasLib MStack.
Import ListNotations.

Inductive hev := HPush (t n : nat) | HFlush (t : nat) (L : list nat).

Record ist := { base : st; stk : list nat; hist : list hev;
                pa : nat -> list nat; pb : nat -> list nat;
                fl : nat -> list nat; got : nat -> list nat;
                done : list (bool * list nat * list nat) }.

Definition lstep (x : ist) (t : nat) : ist :=
  let s := base x in
  let T := thr s t in
  let s' := fst (step s t) in
  match pc T with
  | PCas => if head s =? sh T
            then {| base := s'; stk := node T :: stk x; hist := hist x ++ [HPush t (node T)];
                    pa := pa x; pb := pb x; fl := fl x; got := got x; done := done x |}
            else {| base := s'; stk := stk x; hist := hist x;
                    pa := pa x; pb := pb x; fl := fl x; got := got x; done := done x |}
  | FXchg => match head s with
             | O => {| base := s'; stk := stk x; hist := hist x ++ [HFlush t []];
                       pa := pa x; pb := pb x; fl := upd (fl x) t []; got := upd (got x) t [];
                       done := done x ++ [(rev T, [], [])] |}
             | S _ => {| base := s'; stk := []; hist := hist x ++ [HFlush t (stk x)];
                         pa := upd (pa x) t (stk x); pb := upd (pb x) t [];
                         fl := upd (fl x) t (stk x); got := upd (got x) t []; done := done x |}
             end
  | RWrite => match nxt T with
              | O => {| base := s'; stk := stk x; hist := hist x;
                        pa := upd (pa x) t (cur T :: pb x t); pb := upd (pb x) t [];
                        fl := fl x; got := got x; done := done x |}
              | S _ => {| base := s'; stk := stk x; hist := hist x;
                          pa := upd (pa x) t (tl (pa x t)); pb := upd (pb x) t (cur T :: pb x t);
                          fl := fl x; got := got x; done := done x |}
              end
  | WRead => match next s (cur T) with
             | O => {| base := s'; stk := stk x; hist := hist x;
                       pa := upd (pa x) t (tl (pa x t)); pb := pb x;
                       fl := fl x; got := upd (got x) t (got x t ++ [cur T]);
                       done := done x ++ [(rev T, fl x t, got x t ++ [cur T])] |}
             | S _ => {| base := s'; stk := stk x; hist := hist x;
                         pa := upd (pa x) t (tl (pa x t)); pb := pb x;
                         fl := fl x; got := upd (got x) t (got x t ++ [cur T]); done := done x |}
             end
  | _ => {| base := s'; stk := stk x; hist := hist x;
            pa := pa x; pb := pb x; fl := fl x; got := got x; done := done x |}
  end.

Lemma lstep_erase x t : base (lstep x t) = fst (step (base x) t).
Proof.
  unfold lstep. destruct (pc (thr (base x) t)); try reflexivity.
  - destruct (_ =? _); reflexivity.
  - destruct (head (base x)); reflexivity.
  - destruct (nxt _); reflexivity.
  - destruct (next _ _); reflexivity.
Qed.

Definition iinit k progs : ist :=
  {| base := init k progs; stk := []; hist := []; pa := fun _ => []; pb := fun _ => [];
     fl := fun _ => []; got := fun _ => []; done := [] |}.

Inductive ireach k progs : ist -> Prop :=
| ir_init : ireach k progs (iinit k progs)
| ir_step x t : ireach k progs x -> ireach k progs (lstep x t).

Lemma reachable_ireach k progs s :
  reachable M (init k progs) s -> exists x, ireach k progs x /\ base x = s.
Proof.
  induction 1 as [|s t R IH St].
  - exists (iinit k progs). split; [constructor|reflexivity].
  - destruct IH as (x & Rx & <-). exists (lstep x t). split; [constructor; auto|apply lstep_erase].
Qed.

Definition irun (x : ist) (sch : list nat) : ist := fold_left lstep sch x.
Lemma ireach_irun k progs sch : forall x, ireach k progs x -> ireach k progs (irun x sch).
Proof. induction sch as [|t r IH]; intros x R; cbn; auto. apply IH. constructor. exact R. Qed.

(* sequential specification: push conses, flush takes everything *)
Fixpoint replay (h : list hev) (s : list nat) : option (list nat) :=
  match h with
  | [] => Some s
  | HPush _ n :: r => replay r (n :: s)
  | HFlush _ L :: r => if list_eq_dec Nat.eq_dec L s then replay r [] else None
  end.

Lemma replay_app h1 h2 : forall s,
  replay (h1 ++ h2) s = match replay h1 s with Some s1 => replay h2 s1 | None => None end.
Proof.
  induction h1 as [|e r IH]; intros s; cbn; auto.
  destruct e; auto. destruct (list_eq_dec Nat.eq_dec L s); auto.
Qed.

Definition done_ok (d : bool * list nat * list nat) : Prop :=
  let '(rv, L, R) := d in R = if rv then List.rev L else L.

(* ---------- invariant ---------- *)
Definition held (x : ist) (t : nat) : list nat := own (thr (base x) t) ++ pa x t ++ pb x t.

Definition lok (nx : nat -> nat) (A B F G : list nat) (T : tst) : Prop :=
  match pc T with
  | PLoad | PWrite => In (node T) (own T) /\ A = [] /\ B = []
  | PCas => In (node T) (own T) /\ A = [] /\ B = [] /\ nx (node T) = sh T
  | FXchg | Fin => A = [] /\ B = []
  | RRead => rev T = true /\ G = [] /\ F = List.rev B ++ A /\ cur T <> 0 /\
             chain nx (cur T) A /\ chain nx (fifo T) B
  | RWrite => rev T = true /\ G = [] /\ F = List.rev B ++ A /\ cur T <> 0 /\
              chain nx (fifo T) B /\ exists r, A = cur T :: r /\ chain nx (nxt T) r
  | WRead => B = [] /\ (if rev T then List.rev F else F) = G ++ A /\ cur T <> 0 /\ chain nx (cur T) A
  end.

Record LInv (U : nat -> Prop) (x : ist) : Prop := {
  g_chain : chain (next (base x)) (head (base x)) (stk x);
  g_own : OwnInv U (stk x) (held x);
  g_loc : forall t, lok (next (base x)) (pa x t) (pb x t) (fl x t) (got x t) (thr (base x) t);
  g_hist : replay (hist x) [] = Some (stk x);
  g_done : Forall done_ok (done x)
}.

Lemma lok_frame nx nx' A B F G T :
  (forall n, In n (own T ++ A ++ B) -> nx' n = nx n) -> lok nx A B F G T -> lok nx' A B F G T.
Proof.
  intros E. unfold lok.
  assert (EA : forall h, chain nx h A -> chain nx' h A).
  { intros h. apply chain_ext. intros n Hn. apply E. rewrite !in_app_iff; auto. }
  assert (EB : forall h, chain nx h B -> chain nx' h B).
  { intros h. apply chain_ext. intros n Hn. apply E. rewrite !in_app_iff; auto. }
  destruct (pc T); auto.
  - intros (H1 & H2 & H3 & H4). repeat split; auto. rewrite E; auto. rewrite in_app_iff; auto.
  - intros (H1 & H2 & H3 & H4 & H5 & H6). repeat split; auto.
  - intros (H1 & H2 & H3 & H4 & H5 & r & H6 & H7). repeat split; auto. exists r. split; auto.
    revert H7. apply chain_ext. intros n Hn. apply E. rewrite H6, !in_app_iff. right. left. right. exact Hn.
  - intros (H1 & H2 & H3 & H4). repeat split; auto.
Qed.

Definition fresh_pc (T : tst) : Prop :=
  pc T = Fin \/ pc T = FXchg \/ (pc T = PLoad /\ In (node T) (own T)).

Lemma begin_spec t p : forall ow i, own (fst (begin t ow p i)) = ow /\ fresh_pc (fst (begin t ow p i)).
Proof.
  induction p as [|o r IH]; intros ow i; cbn.
  - split; auto. left; auto.
  - destruct o.
    + destruct ow as [|b ow'].
      * specialize (IH [] (S i)). destruct (begin t [] r (S i)) as [T e]. exact IH.
      * cbn [fst own mk]. split; auto. right; right. cbn [pc node own mk]. split; auto.
        apply nth_In. apply Nat.mod_upper_bound. cbn; lia.
    + destruct ow as [|b ow'].
      * specialize (IH [] (S i)). destruct (begin t [] r (S i)) as [T e]. exact IH.
      * cbn [fst own mk]. split; auto. right; right. cbn [pc node own mk]. split; auto.
        apply nth_In. apply Nat.mod_upper_bound. cbn; lia.
    + cbn. split; auto. right; left; auto.
    + cbn. split; auto. right; left; auto.
Qed.

Lemma fresh_lok nx F G T : fresh_pc T -> lok nx [] [] F G T.
Proof. unfold fresh_pc, lok. intros [E|[E|[E H]]]; rewrite E; auto. Qed.

Ltac thr_cases u t :=
  destruct (Nat.eq_dec u t) as [->|?];
  [ rewrite ?upd_same in * | rewrite ?(upd_other _ t _ u) in * by assumption ].

(* a step of thread t that leaves the abstract content alone, only permutes
   what t holds, and writes only to nodes t holds *)
Lemma frame_step U x x' t :
  LInv U x ->
  stk x' = stk x -> head (base x') = head (base x) ->
  (forall u, u <> t -> thr (base x') u = thr (base x) u /\ pa x' u = pa x u /\ pb x' u = pb x u /\
                       fl x' u = fl x u /\ got x' u = got x u) ->
  Permutation (held x t) (held x' t) ->
  (forall n, ~ In n (held x t) -> next (base x') n = next (base x) n) ->
  lok (next (base x')) (pa x' t) (pb x' t) (fl x' t) (got x' t) (thr (base x') t) ->
  replay (hist x') [] = Some (stk x') ->
  Forall done_ok (done x') ->
  LInv U x'.
Proof.
  intros [Ic Io Il Ih Id] Es Eh Eo P En Lt Hh Hd.
  assert (Ho : forall u, u <> t -> held x' u = held x u).
  { intros u Hu. unfold held. destruct (Eo u Hu) as (-> & -> & -> & _). reflexivity. }
  constructor; auto.
  - rewrite Es, Eh. revert Ic. apply chain_ext. intros n Hn. apply En.
    intros Hi. apply (o_hs _ _ _ Io t n Hi Hn).
  - rewrite Es. eapply own_perm; eauto.
  - intros u. destruct (Nat.eq_dec u t) as [->|Hu]; auto.
    destruct (Eo u Hu) as (-> & -> & -> & -> & ->).
    eapply lok_frame; [|apply Il]. intros n Hn. apply En. intros Hi.
    apply Hu. apply (o_disj _ _ _ Io u t n); auto.
Qed.

Lemma held_upd_thr x s' t T' A B :
  thr s' = upd (thr (base x)) t T' ->
  forall F G D st hi,
  held {| base := s'; stk := st; hist := hi; pa := upd (pa x) t A; pb := upd (pb x) t B; fl := F; got := G; done := D |} t
  = own T' ++ A ++ B.
Proof. intros E F G D st hi. unfold held. cbn. rewrite E, !upd_same. reflexivity. Qed.

(* ---------- one lemma per kind of step ---------- *)
Ltac others := intros ? ?; cbn; rewrite ?upd_other by assumption; auto.
Ltac lt_of I t T HT Hpc LT :=
  assert (LT := g_loc _ _ I t); rewrite <- HT in LT; unfold lok in LT; rewrite Hpc in LT.

Theorem linv_step U x t : LInv U x -> LInv U (lstep x t).
Proof.
  intros I. unfold lstep, step. remember (thr (base x) t) as T eqn:HT.
  assert (LT := g_loc _ _ I t). rewrite <- HT in LT. unfold lok in LT.
  assert (Hheld : held x t = own T ++ pa x t ++ pb x t) by (unfold held; rewrite <- HT; reflexivity).
  destruct (pc T) eqn:Hpc; cbn [fst].
  - (* PLoad *)
    destruct LT as (L1 & L2 & L3).
    eapply frame_step with (t := t); eauto; cbn [base stk hist pa pb fl got done set_thr head next thr].
    + others.
    + unfold held; cbn. rewrite upd_same, <- HT. cbn. apply Permutation_refl.
    + rewrite upd_same. unfold lok; cbn. auto.
    + apply (g_hist _ _ I).
    + apply (g_done _ _ I).
  - (* PWrite *)
    destruct LT as (L1 & L2 & L3).
    eapply frame_step with (t := t); eauto; cbn [base stk hist pa pb fl got done head next thr].
    + others.
    + unfold held; cbn. rewrite upd_same, <- HT. cbn. apply Permutation_refl.
    + intros n Hn. apply upd_other. intros ->. apply Hn. rewrite Hheld. apply in_or_app; auto.
    + rewrite upd_same. unfold lok; cbn. rewrite upd_same. auto.
    + apply (g_hist _ _ I).
    + apply (g_done _ _ I).
  - (* PCas *)
    destruct LT as (L1 & L2 & L3 & L4).
    destruct (Nat.eqb_spec (head (base x)) (sh T)) as [Eh|Eh].
    + destruct (next_op t T (remove Nat.eq_dec (node T) (own T))) as [T' e] eqn:En. cbn [fst].
      pose proof (begin_spec t (prog T) (remove Nat.eq_dec (node T) (own T)) (opi T)) as [B1 B2].
      unfold next_op in En. rewrite En in B1, B2. cbn [fst] in B1, B2.
      destruct I as [Ic Io Il Ih Id].
      assert (Hh' : forall u, u <> t -> held {| base := {| head := node T; next := next (base x); thr := upd (thr (base x)) t T'; nthr := nthr (base x) |};
                        stk := node T :: stk x; hist := hist x ++ [HPush t (node T)]; pa := pa x; pb := pb x; fl := fl x; got := got x; done := done x |} u = held x u).
      { intros u Hu. unfold held; cbn. rewrite upd_other by assumption. reflexivity. }
      constructor; cbn [base stk hist pa pb fl got done head next thr]; auto.
      * cbn. split; auto. split.
        -- apply (o_hnz _ _ _ Io t). rewrite Hheld. apply in_or_app; auto.
        -- rewrite L4, <- Eh. exact Ic.
      * eapply own_give with (t := t); [exact Hh'| |exact Io].
        unfold held at 2; cbn. rewrite upd_same, Hheld, B1, L2, L3, !app_nil_r.
        apply remove_perm; auto.
        pose proof (o_hnodup _ _ _ Io t) as D. rewrite Hheld, L2, L3, !app_nil_r in D. exact D.
      * intros u. thr_cases u t; [rewrite L2, L3; apply fresh_lok; auto|apply Il].
      * rewrite replay_app, Ih. reflexivity.
    + destruct (tries T) as [|[|n]] eqn:Et.
      * cbn [fst].
        eapply frame_step with (t := t); eauto; cbn [base stk hist pa pb fl got done set_thr head next thr].
        -- others.
        -- unfold held; cbn. rewrite upd_same, <- HT. cbn. apply Permutation_refl.
        -- rewrite upd_same. unfold lok; cbn. auto.
        -- apply (g_hist _ _ I).
        -- apply (g_done _ _ I).
      * destruct (next_op t T (own T)) as [T' e] eqn:En. cbn [fst].
        pose proof (begin_spec t (prog T) (own T) (opi T)) as [B1 B2].
        unfold next_op in En. rewrite En in B1, B2. cbn [fst] in B1, B2.
        eapply frame_step with (t := t); eauto; cbn [base stk hist pa pb fl got done set_thr head next thr].
        -- others.
        -- unfold held; cbn. rewrite upd_same, <- HT, B1. apply Permutation_refl.
        -- rewrite upd_same, L2, L3. apply fresh_lok; auto.
        -- apply (g_hist _ _ I).
        -- apply (g_done _ _ I).
      * cbn [fst].
        eapply frame_step with (t := t); eauto; cbn [base stk hist pa pb fl got done set_thr head next thr].
        -- others.
        -- unfold held; cbn. rewrite upd_same, <- HT. cbn. apply Permutation_refl.
        -- rewrite upd_same. unfold lok; cbn. auto.
        -- apply (g_hist _ _ I).
        -- apply (g_done _ _ I).
  - (* FXchg *)
    destruct LT as (L2 & L3).
    destruct (head (base x)) eqn:Eh.
    + destruct (next_op t T (own T)) as [T' e] eqn:En. cbn [fst].
      pose proof (begin_spec t (prog T) (own T) (opi T)) as [B1 B2].
      unfold next_op in En. rewrite En in B1, B2. cbn [fst] in B1, B2.
      pose proof (g_chain _ _ I) as C. rewrite Eh in C. apply chain_zero in C.
      eapply frame_step with (t := t); eauto; cbn [base stk hist pa pb fl got done set_thr head next thr]; auto.
      * others.
      * unfold held; cbn. rewrite upd_same, <- HT, B1. apply Permutation_refl.
      * rewrite !upd_same, L2, L3. apply fresh_lok; auto.
      * rewrite replay_app, (g_hist _ _ I), C. cbn. reflexivity.
      * apply Forall_app. split; [apply (g_done _ _ I)|]. constructor; [|constructor].
        cbn. destruct (rev T); reflexivity.
    + cbn [fst]. destruct I as [Ic Io Il Ih Id].
      rewrite Eh in Ic.
      constructor; cbn [base stk hist pa pb fl got done head next thr]; auto.
      * cbn. reflexivity.
      * eapply own_take with (t := t) (L := stk x) (H := held x).
        -- intros u Hu. unfold held; cbn. rewrite !upd_other by assumption. reflexivity.
        -- unfold held at 1; cbn. rewrite !upd_same. cbn [own]. rewrite Hheld, L2, L3, !app_nil_r.
           apply Permutation_app_comm.
        -- rewrite app_nil_r. exact Io.
      * intros u. thr_cases u t; [|apply Il].
        unfold lok. destruct (rev T) eqn:Er; cbn [pc rev cur fifo].
        -- repeat split; auto.
        -- repeat split; auto.
      * rewrite replay_app, Ih. cbn. destruct (list_eq_dec Nat.eq_dec (stk x) (stk x)); congruence.
  - (* RRead *)
    destruct LT as (L1 & L2 & L3 & L4 & L5 & L6).
    eapply frame_step with (t := t); eauto; cbn [base stk hist pa pb fl got done set_thr head next thr].
    + others.
    + unfold held; cbn. rewrite upd_same, <- HT. cbn. apply Permutation_refl.
    + rewrite upd_same. unfold lok; cbn. repeat split; auto.
      destruct (chain_cons_inv _ _ _ L5 L4) as (r & Er & Cr). exists r. auto.
    + apply (g_hist _ _ I).
    + apply (g_done _ _ I).
  - (* RWrite *)
    destruct LT as (L1 & L2 & L3 & L4 & L5 & r & L6 & L7).
    pose proof (o_hnodup _ _ _ (g_own _ _ I) t) as D. rewrite Hheld, L6 in D.
    assert (Dr : ~ In (cur T) r /\ ~ In (cur T) (pb x t)).
    { apply nodup_app_r in D. inversion D as [|? ? D1 D2]; subst. rewrite in_app_iff in D1. tauto. }
    destruct (nxt T) eqn:En.
    + apply chain_zero in L7. subst r.
      eapply frame_step with (t := t); eauto; cbn [base stk hist pa pb fl got done head next thr].
      * others.
      * unfold held; cbn. rewrite !upd_same, <- HT. cbn [own]. rewrite L6. cbn.
        rewrite app_nil_r. apply Permutation_refl.
      * intros n Hn. apply upd_other. intros ->. apply Hn. rewrite Hheld, L6, !in_app_iff. right. left. left. auto.
      * rewrite !upd_same. unfold lok; cbn [pc rev cur]. rewrite L1. repeat split; auto.
        -- rewrite L2, L3, L6. cbn. rewrite rev_app_distr, rev_involutive. reflexivity.
        -- rewrite upd_same. apply chain_upd; tauto.
      * apply (g_hist _ _ I).
      * apply (g_done _ _ I).
    + eapply frame_step with (t := t); eauto; cbn [base stk hist pa pb fl got done head next thr].
      * others.
      * unfold held; cbn. rewrite !upd_same, <- HT. cbn [own]. rewrite L6. cbn [tl].
        apply Permutation_app_head. apply (Permutation_middle r (pb x t) (cur T)).
      * intros m Hm. apply upd_other. intros ->. apply Hm. rewrite Hheld, L6, !in_app_iff. right. left. left. auto.
      * rewrite !upd_same. unfold lok; cbn [pc rev cur fifo]. rewrite L6. cbn [tl]. repeat split; auto.
        -- rewrite L3, L6. cbn. rewrite <- app_assoc. reflexivity.
        -- apply chain_upd; tauto.
        -- rewrite upd_same. apply chain_upd; tauto.
      * apply (g_hist _ _ I).
      * apply (g_done _ _ I).
  - (* WRead *)
    destruct LT as (L1 & L2 & L3 & L4).
    destruct (chain_cons_inv _ _ _ L4 L3) as (r & Er & Cr).
    destruct (next (base x) (cur T)) eqn:En.
    + apply chain_zero in Cr. subst r.
      destruct (next_op t T (cur T :: own T)) as [T' e] eqn:Eo. cbn [fst].
      pose proof (begin_spec t (prog T) (cur T :: own T) (opi T)) as [B1 B2].
      unfold next_op in Eo. rewrite Eo in B1, B2. cbn [fst] in B1, B2.
      eapply frame_step with (t := t); eauto; cbn [base stk hist pa pb fl got done set_thr head next thr].
      * others.
      * unfold held; cbn. rewrite !upd_same, <- HT, B1, Er, L1. cbn. rewrite !app_nil_r.
        apply Permutation_sym. apply Permutation_cons_append.
      * rewrite !upd_same, Er, L1. cbn [tl]. apply fresh_lok; auto.
      * apply (g_hist _ _ I).
      * apply Forall_app. split; [apply (g_done _ _ I)|]. constructor; [|constructor].
        cbn. rewrite Er in L2. destruct (rev T); auto.
    + cbn [fst].
      eapply frame_step with (t := t); eauto; cbn [base stk hist pa pb fl got done set_thr head next thr].
      * others.
      * unfold held; cbn. rewrite !upd_same, <- HT, Er, L1. cbn. rewrite !app_nil_r.
        apply Permutation_sym. apply Permutation_middle.
      * rewrite !upd_same, Er. cbn [tl]. unfold lok; cbn [pc rev cur]. repeat split; auto.
        rewrite L2, Er, <- app_assoc. reflexivity.
      * apply (g_hist _ _ I).
      * apply (g_done _ _ I).
  - (* Fin *)
    destruct x; cbn in *; exact I.
Qed.

(* ---------- initial state ---------- *)
Definition univ (k nt n : nat) : Prop := exists t, In n (init_own k nt t).

Lemma init_own_in k nt t n : In n (init_own k nt t) <-> t < nt /\ t * k + 1 <= n < t * k + 1 + k.
Proof.
  unfold init_own. destruct (Nat.ltb_spec t nt).
  - rewrite in_seq. tauto.
  - cbn. split; [tauto|lia].
Qed.

Lemma univ_range k nt n : 1 <= n <= k * nt -> univ k nt n.
Proof.
  intros H. destruct k as [|k']; [lia|]. set (k := S k') in *.
  exists ((n - 1) / k). apply init_own_in.
  pose proof (Nat.div_mod (n - 1) k ltac:(lia)) as D.
  pose proof (Nat.mod_upper_bound (n - 1) k ltac:(lia)) as B.
  split.
  - apply Nat.div_lt_upper_bound; lia.
  - nia.
Qed.

Lemma init_linv k progs : LInv (univ k (length progs)) (iinit k progs).
Proof.
  assert (Ow : forall t, held (iinit k progs) t = init_own k (length progs) t).
  { intros t. unfold held. cbn. rewrite app_nil_r. apply begin_spec. }
  constructor; cbn [base stk hist pa pb fl got done iinit]; auto.
  - cbn. reflexivity.
  - constructor.
    + constructor.
    + intros n [].
    + intros t. rewrite Ow. unfold init_own. destruct (t <? length progs); [apply seq_NoDup|constructor].
    + intros t n. rewrite Ow, init_own_in. lia.
    + intros t u n. rewrite !Ow, !init_own_in. intros (A1 & A2) (B1 & B2).
      destruct (Nat.lt_trichotomy t u) as [L|[E|L]]; auto; exfalso; nia.
    + intros t n _ [].
    + intros n [t Ht]. right. exists t. rewrite Ow. exact Ht.
  - intros t. apply fresh_lok. cbn. apply begin_spec.
Qed.

Theorem ireach_linv k progs x : ireach k progs x -> LInv (univ k (length progs)) x.
Proof. induction 1; [apply init_linv|apply linv_step; auto]. Qed.

(* ---------- the statements used by Properties_C20.v ---------- *)
Fixpoint pushes (n : nat) (h : list hev) : nat :=
  match h with
  | [] => 0
  | HPush _ m :: r => (if Nat.eqb m n then 1 else 0) + pushes n r
  | _ :: r => pushes n r
  end.
Fixpoint flushed (n : nat) (h : list hev) : nat :=
  match h with
  | [] => 0
  | HFlush _ L :: r => count_occ Nat.eq_dec L n + flushed n r
  | _ :: r => flushed n r
  end.

Lemma replay_count n h : forall s s', replay h s = Some s' ->
  count_occ Nat.eq_dec s n + pushes n h = flushed n h + count_occ Nat.eq_dec s' n.
Proof.
  induction h as [|e r IH]; intros s s' H; cbn in H.
  - inversion H; subst. cbn. lia.
  - destruct e as [u m|u L].
    + apply IH in H. cbn [pushes flushed]. cbn [count_occ] in H.
      destruct (Nat.eq_dec m n); destruct (Nat.eqb_spec m n); try congruence; lia.
    + destruct (list_eq_dec Nat.eq_dec L s); [|discriminate]. subst L.
      apply IH in H. cbn [pushes flushed count_occ] in *. lia.
Qed.

Lemma flush_exact_of_linv U x :
  LInv U x ->
  replay (hist x) [] = Some (stk x) /\
  chain (next (base x)) (head (base x)) (stk x) /\
  Forall done_ok (done x) /\
  forall n, pushes n (hist x) = flushed n (hist x) + (if in_dec Nat.eq_dec n (stk x) then 1 else 0).
Proof.
  intros I. split; [apply (g_hist _ _ I)|]. split; [apply (g_chain _ _ I)|]. split; [apply (g_done _ _ I)|].
  intros n. pose proof (replay_count n _ _ _ (g_hist _ _ I)) as C. cbn in C.
  pose proof (o_nodup _ _ _ (g_own _ _ I)) as D. rewrite (NoDup_count_occ Nat.eq_dec) in D. specialize (D n).
  destruct (in_dec Nat.eq_dec n (stk x)) as [Hi|Hi].
  - apply (count_occ_In Nat.eq_dec) in Hi. lia.
  - apply (count_occ_not_In Nat.eq_dec) in Hi. lia.
Qed.

(* a flush in progress: what the walk has returned so far followed by what is
   still linked behind [cur] is the flushed list (LIFO) or its reversal (FIFO);
   during the reversal the two partial lists recompose the flushed list *)
Lemma flush_progress_of_linv U x t :
  LInv U x ->
  (pc (thr (base x) t) = WRead ->
     (if rev (thr (base x) t) then List.rev (fl x t) else fl x t) = got x t ++ pa x t /\
     chain (next (base x)) (cur (thr (base x) t)) (pa x t)) /\
  (pc (thr (base x) t) = RRead ->
     fl x t = List.rev (pb x t) ++ pa x t /\
     chain (next (base x)) (cur (thr (base x) t)) (pa x t) /\
     chain (next (base x)) (fifo (thr (base x) t)) (pb x t)).
Proof.
  intros I. assert (LT := g_loc _ _ I t). unfold lok in LT.
  split; intros Hpc; rewrite Hpc in LT; tauto.
Qed.

Lemma no_lost_no_dup_of_linv U x : LInv U x -> OwnInv U (stk x) (held x).
Proof. intros I. apply (g_own _ _ I). Qed.

(* a push only publishes a node whose next field already holds the head value
   the CAS compares against *)
Lemma push_next_of_linv U x t :
  LInv U x -> pc (thr (base x) t) = PCas ->
  next (base x) (node (thr (base x) t)) = sh (thr (base x) t) /\
  In (node (thr (base x) t)) (own (thr (base x) t)).
Proof.
  intros I Hpc. assert (LT := g_loc _ _ I t). unfold lok in LT. rewrite Hpc in LT. tauto.
Qed.
