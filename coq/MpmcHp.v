(* Model of include/mpmc_fifo.h on top of include/hazard_pointer.h +
   src/hazard_pointer.c (C13), driven by the op language of rt/h_mpmc.c: one
   step per registered shared access.  The hazard-pointer part (join, slot
   writes, retire, scan) is the same step-for-access sequence as coq/Hazard.v,
   with K = MPMC_HAZARD_COUNT = 2.

   Records: the record of thread t has id r = S t (0 = NULL).  Nodes: node k of
   the harness array is the nat [S k] (0 = NULL), prints as 1000+k.
   locs: 0 record-list head; 1 fifo.head; 2 fifo.tail; 5 the push scheduling
         point; 100r+0 / +1 / +10+i = record r's next / retire_threshold / slot i;
         2000+3k+0 / +1 / +2 = node k's value / prev / next.
   [recs] (published records, head first), [qs] (the nodes from the current
   dummy to the tail, in tail-CAS order) and [held] (validated protections)
   are ghosts: no step reads them to decide anything or to produce the trace.
   The node field [next] is only ever written (new_node->next = tail): the
   model emits the write and keeps no state for it.
   store_load_barrier() is not a scheduling point (no-op under SC).
   qsort is external: [sort] is a Section variable; the executable model uses
   Hazard.isort. *)
From Coq Require Import List ZArith Lia Bool Arith.
From LF Require Import Conc Hazard.
Import ListNotations.

Definition KS : nat := 2.   (* MPMC_HAZARD_COUNT *)

Inductive op := OJoin | OPush (v : nat) | OPop | OScan | ONop.

Inductive pcT := J1 | J2 | J3 | J4 | J5 | J6 | J7 | J8 | J9
               | PA | P0 | P1 | P2 | P3 | P4 | P5 | P6 | P7
               | Q1 | Q2 | Q3 | Q4 | Q4e | Q5 | Q6 | Q7 | Q8 | Q9 | Q10
               | R1 | S1 | S2 | S3 | S4 | Fin.

Record tst := {
  pc : pcT; prog : list op; opi : nat;
  joined : bool;          (* this thread's record is in the list *)
  isq : bool;             (* inside trypop (a scan reached from it returns rv) *)
  arg : nat;              (* push: the value (non-NULL) *)
  nn : nat;               (* push: new_node *)
  hh : nat;               (* push: tail as read; trypop: head as read *)
  pv : nat;               (* trypop: prev *)
  rv : nat;               (* trypop: ret *)
  cur : nat; chead : nat; cnt : nat; idx : nat; maxp : nat; snap : list nat;  (* as in Hazard.v *)
  rlist : list nat;       (* private retired list, most recently retired first *)
  held : nat -> nat       (* ghost: node validated in slot i (0 = none) *)
}.

Definition set_pc (T : tst) (p : pcT) : tst :=
  {| pc := p; prog := prog T; opi := opi T; joined := joined T; isq := isq T; arg := arg T; nn := nn T; hh := hh T; pv := pv T; rv := rv T; cur := cur T; chead := chead T; cnt := cnt T; idx := idx T; maxp := maxp T; snap := snap T; rlist := rlist T; held := held T |}.

Definition set_prog (T : tst) (p : list op) (k : nat) : tst :=
  {| pc := pc T; prog := p; opi := k; joined := joined T; isq := isq T; arg := arg T; nn := nn T; hh := hh T; pv := pv T; rv := rv T; cur := cur T; chead := chead T; cnt := cnt T; idx := idx T; maxp := maxp T; snap := snap T; rlist := rlist T; held := held T |}.

Definition set_joined (T : tst) (b : bool) : tst :=
  {| pc := pc T; prog := prog T; opi := opi T; joined := b; isq := isq T; arg := arg T; nn := nn T; hh := hh T; pv := pv T; rv := rv T; cur := cur T; chead := chead T; cnt := cnt T; idx := idx T; maxp := maxp T; snap := snap T; rlist := rlist T; held := held T |}.

Definition set_call (T : tst) (q : bool) (a : nat) : tst :=
  {| pc := pc T; prog := prog T; opi := opi T; joined := joined T; isq := q; arg := a; nn := nn T; hh := hh T; pv := pv T; rv := rv T; cur := cur T; chead := chead T; cnt := cnt T; idx := idx T; maxp := maxp T; snap := snap T; rlist := rlist T; held := held T |}.

Definition set_nn (T : tst) (n : nat) : tst :=
  {| pc := pc T; prog := prog T; opi := opi T; joined := joined T; isq := isq T; arg := arg T; nn := n; hh := hh T; pv := pv T; rv := rv T; cur := cur T; chead := chead T; cnt := cnt T; idx := idx T; maxp := maxp T; snap := snap T; rlist := rlist T; held := held T |}.

Definition set_hh (T : tst) (n : nat) : tst :=
  {| pc := pc T; prog := prog T; opi := opi T; joined := joined T; isq := isq T; arg := arg T; nn := nn T; hh := n; pv := pv T; rv := rv T; cur := cur T; chead := chead T; cnt := cnt T; idx := idx T; maxp := maxp T; snap := snap T; rlist := rlist T; held := held T |}.

Definition set_pv (T : tst) (n : nat) : tst :=
  {| pc := pc T; prog := prog T; opi := opi T; joined := joined T; isq := isq T; arg := arg T; nn := nn T; hh := hh T; pv := n; rv := rv T; cur := cur T; chead := chead T; cnt := cnt T; idx := idx T; maxp := maxp T; snap := snap T; rlist := rlist T; held := held T |}.

Definition set_rv (T : tst) (n : nat) : tst :=
  {| pc := pc T; prog := prog T; opi := opi T; joined := joined T; isq := isq T; arg := arg T; nn := nn T; hh := hh T; pv := pv T; rv := n; cur := cur T; chead := chead T; cnt := cnt T; idx := idx T; maxp := maxp T; snap := snap T; rlist := rlist T; held := held T |}.

Definition set_cur (T : tst) (c : nat) : tst :=
  {| pc := pc T; prog := prog T; opi := opi T; joined := joined T; isq := isq T; arg := arg T; nn := nn T; hh := hh T; pv := pv T; rv := rv T; cur := c; chead := chead T; cnt := cnt T; idx := idx T; maxp := maxp T; snap := snap T; rlist := rlist T; held := held T |}.

Definition set_chead (T : tst) (c : nat) : tst :=
  {| pc := pc T; prog := prog T; opi := opi T; joined := joined T; isq := isq T; arg := arg T; nn := nn T; hh := hh T; pv := pv T; rv := rv T; cur := cur T; chead := c; cnt := cnt T; idx := idx T; maxp := maxp T; snap := snap T; rlist := rlist T; held := held T |}.

Definition set_cnt (T : tst) (c : nat) : tst :=
  {| pc := pc T; prog := prog T; opi := opi T; joined := joined T; isq := isq T; arg := arg T; nn := nn T; hh := hh T; pv := pv T; rv := rv T; cur := cur T; chead := chead T; cnt := c; idx := idx T; maxp := maxp T; snap := snap T; rlist := rlist T; held := held T |}.

Definition set_scan (T : tst) (i : nat) (m : nat) (sn : list nat) : tst :=
  {| pc := pc T; prog := prog T; opi := opi T; joined := joined T; isq := isq T; arg := arg T; nn := nn T; hh := hh T; pv := pv T; rv := rv T; cur := cur T; chead := chead T; cnt := cnt T; idx := i; maxp := m; snap := sn; rlist := rlist T; held := held T |}.

Definition set_rlist (T : tst) (l : list nat) : tst :=
  {| pc := pc T; prog := prog T; opi := opi T; joined := joined T; isq := isq T; arg := arg T; nn := nn T; hh := hh T; pv := pv T; rv := rv T; cur := cur T; chead := chead T; cnt := cnt T; idx := idx T; maxp := maxp T; snap := snap T; rlist := l; held := held T |}.

Definition set_held (T : tst) (h : nat -> nat) : tst :=
  {| pc := pc T; prog := prog T; opi := opi T; joined := joined T; isq := isq T; arg := arg T; nn := nn T; hh := hh T; pv := pv T; rv := rv T; cur := cur T; chead := chead T; cnt := cnt T; idx := idx T; maxp := maxp T; snap := snap T; rlist := rlist T; held := h |}.

Record st := {
  hhead : nat; recs : list nat; rnext : nat -> nat; rthr : nat -> nat;
  slot : nat -> nat -> nat;
  qhead : nat; qtail : nat; qs : list nat;
  nval : nat -> nat; nprev : nat -> nat;
  pool : list nat;
  thr : nat -> tst; nthr : nat
}.

Definition set_thr (s : st) (t : nat) (x : tst) : st :=
  {| hhead := hhead s; recs := recs s; rnext := rnext s; rthr := rthr s; slot := slot s;
     qhead := qhead s; qtail := qtail s; qs := qs s; nval := nval s; nprev := nprev s; pool := pool s;
     thr := upd (thr s) t x; nthr := nthr s |}.
Definition set_rnext (s : st) (f : nat -> nat) : st :=
  {| hhead := hhead s; recs := recs s; rnext := f; rthr := rthr s; slot := slot s;
     qhead := qhead s; qtail := qtail s; qs := qs s; nval := nval s; nprev := nprev s; pool := pool s;
     thr := thr s; nthr := nthr s |}.
Definition set_rthr (s : st) (f : nat -> nat) : st :=
  {| hhead := hhead s; recs := recs s; rnext := rnext s; rthr := f; slot := slot s;
     qhead := qhead s; qtail := qtail s; qs := qs s; nval := nval s; nprev := nprev s; pool := pool s;
     thr := thr s; nthr := nthr s |}.
Definition set_recs (s : st) (h : nat) (l : list nat) : st :=
  {| hhead := h; recs := l; rnext := rnext s; rthr := rthr s; slot := slot s;
     qhead := qhead s; qtail := qtail s; qs := qs s; nval := nval s; nprev := nprev s; pool := pool s;
     thr := thr s; nthr := nthr s |}.
Definition set_slot (s : st) (r i v : nat) : st :=
  {| hhead := hhead s; recs := recs s; rnext := rnext s; rthr := rthr s;
     slot := upd (slot s) r (upd (slot s r) i v);
     qhead := qhead s; qtail := qtail s; qs := qs s; nval := nval s; nprev := nprev s; pool := pool s;
     thr := thr s; nthr := nthr s |}.
Definition set_q (s : st) (h tl : nat) (l : list nat) : st :=
  {| hhead := hhead s; recs := recs s; rnext := rnext s; rthr := rthr s; slot := slot s;
     qhead := h; qtail := tl; qs := l; nval := nval s; nprev := nprev s; pool := pool s;
     thr := thr s; nthr := nthr s |}.
Definition set_nprev (s : st) (n v : nat) : st :=
  {| hhead := hhead s; recs := recs s; rnext := rnext s; rthr := rthr s; slot := slot s;
     qhead := qhead s; qtail := qtail s; qs := qs s; nval := nval s; nprev := upd (nprev s) n v; pool := pool s;
     thr := thr s; nthr := nthr s |}.
Definition set_alloc (s : st) (p : list nat) (n v : nat) : st :=
  {| hhead := hhead s; recs := recs s; rnext := rnext s; rthr := rthr s; slot := slot s;
     qhead := qhead s; qtail := qtail s; qs := qs s; nval := upd (nval s) n v; nprev := nprev s; pool := p;
     thr := thr s; nthr := nthr s |}.
Definition set_pool (s : st) (p : list nat) : st :=
  {| hhead := hhead s; recs := recs s; rnext := rnext s; rthr := rthr s; slot := slot s;
     qhead := qhead s; qtail := qtail s; qs := qs s; nval := nval s; nprev := nprev s; pool := p;
     thr := thr s; nthr := nthr s |}.

(* ---------- trace ---------- *)
Local Open Scope Z_scope.
Definition nloc (n : nat) (f : Z) : Z := 2000 + 3 * (Z.of_nat n - 1) + f.
Definition zn (n : nat) : Z := Z.of_nat n.
Local Close Scope Z_scope.

(* ---------- starting calls ---------- *)
Definition enter (T : tst) (o : op) : option tst :=
  match o with
  | OJoin => if joined T then None else Some (set_pc T J1)
  | OPush v => if joined T then Some (set_pc (set_call T false (S v)) PA) else None
  | OPop => if joined T then Some (set_pc (set_call T true 0) Q1) else None
  | OScan => if joined T then Some (set_pc (set_call T false 0) S1) else None
  | ONop => None
  end.

Fixpoint begin (t : nat) (T : tst) (p : list op) (k : nat) : tst * list Z :=
  match p with
  | [] => (set_prog (set_pc T Fin) [] k, [])
  | o :: r =>
    match enter T o with
    | Some T' => (set_prog T' r (S k), [])
    | None => let '(T2, e) := begin t T r (S k) in (T2, retev t (S k) (-1) ++ e)
    end
  end.

Definition finish (t : nat) (T : tst) (v : Z) : tst * list Z :=
  let '(T2, e) := begin t T (prog T) (opi T) in (T2, retev t (opi T) v ++ e).

Section Model.
Variable sort : list nat -> list nat.

Definition step (s : st) (t : nat) : st * list Z :=
  let T := thr s t in
  let r := S t in
  let fin s0 T' v := let '(T2, e) := finish t T' v in (set_thr s0 t T2, e) in
  let go T' := set_thr s t T' in
  match pc T with
  | Fin => (s, [])
  (* ---- hazard_pointer_thread_record_create_and_push (as Hazard.v, K = 2) ---- *)
  | J1 => (go (set_pc (set_chead T (hhead s)) J2), ev t 0 22 (zn (hhead s)))
  | J2 => (set_thr (set_rnext s (upd (rnext s) r (chead T))) t (set_pc T J3),
           ev t (rloc r 0) 19 (zn (chead T)))
  | J3 => let c := rnext s r in
          (go (set_pc (set_cnt (set_cur T c) 1) (if c =? 0 then J5 else J4)), ev t (rloc r 0) 9 (zn c))
  | J4 => let c := rnext s (cur T) in
          (go (set_pc (set_cnt (set_cur T c) (S (cnt T))) (if c =? 0 then J5 else J4)),
           ev t (rloc (cur T) 0) 9 (zn c))
  | J5 => let v := 2 * cnt T * KS in
          (set_thr (set_rthr s (upd (rthr s) r v)) t (set_pc T J6), ev t (rloc r 1) 35 (zn v))
  | J6 => if hhead s =? chead T
          then (set_thr (set_recs s r (r :: recs s)) t (set_pc (set_joined T true) J7), ev t 0 73 (zn r))
          else (go (set_pc (set_chead T (hhead s)) J2), ev t 0 83 (zn (hhead s)))
  | J7 => let c := rnext s r in
          let e := ev t (rloc r 0) 9 (zn c) in
          if c =? 0 then let '(s', e') := fin s T 1%Z in (s', e ++ e')
          else (go (set_pc (set_cur T c) J8), e)
  | J8 => (set_thr (set_rthr s (upd (rthr s) (cur T) (rthr s (cur T) + 2 * KS))) t (set_pc T J9),
           ev t (rloc (cur T) 1) 55 (zn (rthr s (cur T))))
  | J9 => let c := rnext s (cur T) in
          let e := ev t (rloc (cur T) 0) 9 (zn c) in
          if c =? 0 then let '(s', e') := fin s T 1%Z in (s', e ++ e')
          else (go (set_pc (set_cur T c) J8), e)
  (* ---- push: scheduling point + allocation (harness), then mpmc_fifo_push ---- *)
  | PA => let e := ev t 5 99 0 in
          match pool s with
          | [] => let '(s', e') := fin s T (-1)%Z in (s', e ++ e')
          | f :: p => (set_thr (set_alloc s p f (arg T)) t (set_pc (set_nn T f) P0),
                       e ++ ev t (nname f) 939 (zn (arg T)))
          end
  | P0 => (set_thr (set_nprev s (nn T) 0) t (set_pc T P1), ev t (nloc (nn T) 1) 19 0)
  | P1 => (go (set_pc (set_hh T (qtail s)) P2), ev t 2 22 (nname (qtail s)))
  | P2 => (set_thr (set_slot s r 0 (hh T)) t (set_pc (set_held T (upd (held T) 0 0)) P3),
           ev t (rloc r 10) 19 (nname (hh T)))
  | P3 => let e := ev t 2 22 (nname (qtail s)) in
          if qtail s =? hh T then (go (set_pc (set_held T (upd (held T) 0 (hh T))) P4), e)
          else (go (set_pc T P1), e)
  | P4 => (go (set_pc T P5), ev t (nloc (nn T) 2) 19 (nname (hh T)))
  | P5 => if qtail s =? hh T
          then (set_thr (set_q s (qhead s) (nn T) (qs s ++ [nn T])) t (set_pc T P6), ev t 2 73 (nname (nn T)))
          else (go (set_pc T P1), ev t 2 83 (nname (qtail s)))
  | P6 => (set_thr (set_nprev s (hh T) (nn T)) t (set_pc T P7), ev t (nloc (hh T) 1) 19 (nname (nn T)))
  | P7 => let '(s', e') := fin (set_slot s r 0 0) (set_held T (upd (held T) 0 0)) 1%Z in
          (s', ev t (rloc r 10) 19 0 ++ e')
  (* ---- mpmc_fifo_trypop ---- *)
  | Q1 => (go (set_pc (set_hh T (qhead s)) Q2), ev t 1 22 (nname (qhead s)))
  | Q2 => (set_thr (set_slot s r 0 (hh T)) t (set_pc (set_held T (upd (held T) 0 0)) Q3),
           ev t (rloc r 10) 19 (nname (hh T)))
  | Q3 => let e := ev t 1 22 (nname (qhead s)) in
          if qhead s =? hh T then (go (set_pc (set_held T (upd (held T) 0 (hh T))) Q4), e)
          else (go (set_pc T Q1), e)
  | Q4 => let p := nprev s (hh T) in
          (go (set_pc (set_pv T p) (if p =? 0 then Q4e else Q5)), ev t (nloc (hh T) 1) 9 (nname p))
  | Q4e => let '(s', e') := fin (set_slot s r 0 0) (set_held T (upd (held T) 0 0)) 0%Z in
           (s', ev t (rloc r 10) 19 0 ++ e')
  | Q5 => (set_thr (set_slot s r 1 (pv T)) t (set_pc (set_held T (upd (held T) 1 0)) Q6),
           ev t (rloc r 11) 19 (nname (pv T)))
  | Q6 => let e := ev t 1 22 (nname (qhead s)) in
          if qhead s =? hh T then (go (set_pc (set_held T (upd (held T) 1 (pv T))) Q7), e)
          else (go (set_pc T Q1), e)
  | Q7 => (go (set_pc (set_rv T (nval s (pv T))) Q8), ev t (nloc (pv T) 0) 9 (zn (nval s (pv T))))
  | Q8 => if qhead s =? hh T
          then (set_thr (set_q s (pv T) (qtail s) (tl (qs s))) t (set_pc T Q9), ev t 1 73 (nname (pv T)))
          else (go (set_pc T Q1), ev t 1 83 (nname (qhead s)))
  | Q9 => (set_thr (set_slot s r 0 0) t (set_pc (set_held T (upd (held T) 0 0)) Q10), ev t (rloc r 10) 19 0)
  | Q10 => (set_thr (set_slot s r 1 0) t
              (set_pc (set_rlist (set_held T (upd (held T) 1 0)) (hh T :: rlist T)) R1),
            ev t (rloc r 11) 19 0)
  (* ---- hazard_pointer_free's threshold test, hazard_pointer_scan (as Hazard.v) ---- *)
  | R1 => let e := ev t (rloc r 1) 25 (zn (rthr s r)) in
          if rthr s r <=? length (rlist T) then (go (set_pc T S1), e)
          else let '(s', e') := fin s T (zn (rv T)) in (s', e ++ e')
  | S1 => (go (set_pc (set_chead T (hhead s)) S2), ev t 0 25 (zn (hhead s)))
  | S2 => let h := chead T in
          (go (set_pc (set_scan (set_cur T h) 0 (rthr s h / 2) []) S3), ev t (rloc h 1) 25 (zn (rthr s h)))
  | S3 => let v := slot s (cur T) (idx T) in
          let sn := if v =? 0 then snap T else snap T ++ [v] in
          (go (set_pc (set_scan T (S (idx T)) (maxp T) sn) (if S (idx T) <? KS then S3 else S4)),
           ev t (rloc (cur T) (10 + Z.of_nat (idx T))) 9 (nname v))
  | S4 => let c := rnext s (cur T) in
          let e := ev t (rloc (cur T) 0) 9 (zn c) in
          if c =? 0
          then let keep := scan_keep sort (snap T) (rlist T) in
               let gcl := scan_gc sort (snap T) (rlist T) in
               let v := if isq T then zn (rv T) else zn (length keep) in
               let '(s', e') := fin (set_pool s (rev gcl ++ pool s)) (set_rlist T keep) v in
               (s', e ++ gc_events t gcl ++ e')
          else (go (set_pc (set_scan (set_cur T c) 0 (maxp T) (snap T)) S3), e)
  end.

Definition status_of (s : st) (t : nat) : status :=
  if t <? nthr s then match pc (thr s t) with Fin => SDone | _ => SReady end else SDone.

Definition M : machine :=
  {| mstate := st; mstep := step; mstatus := status_of; mthreads := nthr |}.
End Model.

(* ---------- initial state ----------
   threads 0..P-1 own records 1..P (list P -> .. -> 1); node 1 is the dummy;
   prefill M: nodes 2..M+1 hold the values 101..100+M, pushed through record 1;
   nodes M+2..NN are in the pool (M+2 on top) *)
Definition idle (j : bool) : tst :=
  {| pc := Fin; prog := []; opi := 0; joined := j; isq := false; arg := 0; nn := 0; hh := 0; pv := 0; rv := 0;
     cur := 0; chead := 0; cnt := 0; idx := 0; maxp := 0; snap := []; rlist := []; held := fun _ => 0 |}.

Definition init (P NN Mq : nat) (progs : list (list op)) : st :=
  {| hhead := P; recs := down P;
     rnext := fun r => if r <=? P then r - 1 else 0;
     rthr := fun r => if (1 <=? r) && (r <=? P) then 2 * P * KS else 0;
     slot := fun _ _ => 0;
     qhead := 1; qtail := S Mq; qs := seq 1 (S Mq);
     nval := fun n => if (2 <=? n) && (n <=? S Mq) then 99 + n else 0;
     nprev := fun n => if (1 <=? n) && (n <=? Mq) then S n else 0;
     pool := seq (Mq + 2) (NN - Mq - 1);
     thr := fun t => fst (begin t (idle (t <? P)) (nth t progs []) 0);
     nthr := length progs |}.

Definition init_events (P : nat) (progs : list (list op)) : list Z :=
  flat_map (fun t => snd (begin t (idle (t <? P)) (nth t progs []) 0)) (seq 0 (length progs)).

Definition dec_op (p : Z * Z) : op :=
  let a := snd p in
  match fst p with
  | 1%Z => OJoin
  | 2%Z => if (a <? 0)%Z then ONop else OPush (Z.to_nat a)
  | 3%Z => OPop
  | 6%Z => OScan
  | _ => ONop
  end.

Definition run_case (l : list Z) : list Z :=
  match decode_case l with
  | Some c =>
      let p i := nthZ (c_params c) i in
      let p0 := p 0%nat in let p1 := p 1%nat in let p3 := p 3%nat in
      let progs := map (map dec_op) (c_progs c) in
      if ((p0 <? 0) || (Z.of_nat (length progs) <? p0) || (p1 <? 1) || (32 <? p1)
          || (p3 <? 0) || (p1 <=? p3) || ((0 <? p3) && (p0 <? 1)))%Z then [(-1)%Z]
      else
        let P := Z.to_nat p0 in let NN := Z.to_nat p1 in let Mq := Z.to_nat p3 in
        run_all (M isort) (init P NN Mq progs) (init_events P progs) (c_sched c) (Z.to_nat (p 2%nat))
  | None => [(-1)%Z]
  end.
