(* Proofs about the ticket-spinlock model: an inductive invariant over every
   reachable state, for any number of threads (< 2^32), any programs, any
   schedule, counters starting anywhere (wrap-around included). *)
From Coq Require Import List ZArith Lia Bool Arith.
From LF Require Import Conc Spin.
Import ListNotations.
Local Open Scope Z_scope.

(* ---------------- arithmetic mod 2^32 ---------------- *)
Lemma W_big : 2 < W.
Proof. reflexivity. Qed.

(* distance from b up to a, going round the 2^32 circle *)
Definition dist (a b : Z) : Z := wrap (a - b).

Lemma wrap_range x : 0 <= wrap x < W.
Proof. unfold wrap. apply Z.mod_pos_bound. reflexivity. Qed.

Lemma wrap_small x : 0 <= x < W -> wrap x = x.
Proof. intros H. unfold wrap. apply Z.mod_small. exact H. Qed.

Lemma wrap_inc a : 0 <= a < W ->
  (a = W - 1 /\ wrap (a + 1) = 0) \/ (a < W - 1 /\ wrap (a + 1) = a + 1).
Proof.
  intros H. destruct (Z.eq_dec a (W - 1)) as [->|N].
  - left. split; reflexivity.
  - right. split; [lia|]. apply wrap_small. lia.
Qed.

Lemma dist_spec a b : 0 <= a < W -> 0 <= b < W ->
  (b <= a /\ dist a b = a - b) \/ (a < b /\ dist a b = a - b + W).
Proof.
  intros Ha Hb. unfold dist, wrap. destruct (Z_le_gt_dec b a).
  - left. split; [lia|]. apply Z.mod_small. lia.
  - right. split; [lia|].
    rewrite <- (Z_mod_plus_full (a - b) 1 W). rewrite Z.mod_small; lia.
Qed.

Lemma dist_range a b : 0 <= dist a b < W.
Proof. apply wrap_range. Qed.

Lemma dist_self a : 0 <= a < W -> dist a a = 0.
Proof. intros H. destruct (dist_spec a a H H); lia. Qed.

Lemma dist_inj a a' b : 0 <= a < W -> 0 <= a' < W -> 0 <= b < W ->
  dist a b = dist a' b -> a = a'.
Proof.
  intros Ha Ha' Hb E.
  destruct (dist_spec a b Ha Hb), (dist_spec a' b Ha' Hb); lia.
Qed.

Lemma dist_inc a b : 0 <= a < W -> 0 <= b < W -> dist a b + 1 < W ->
  dist (wrap (a + 1)) b = dist a b + 1.
Proof.
  intros Ha Hb H. pose proof (wrap_range (a + 1)) as R.
  destruct (wrap_inc a Ha) as [[E1 E2]|[E1 E2]]; rewrite E2 in *;
  destruct (dist_spec a b Ha Hb), (dist_spec _ b R Hb); lia.
Qed.

Lemma dist_dec a b : 0 <= a < W -> 0 <= b < W -> 1 <= dist a b ->
  dist a (wrap (b + 1)) = dist a b - 1.
Proof.
  intros Ha Hb H. pose proof (wrap_range (b + 1)) as R.
  destruct (wrap_inc b Hb) as [[E1 E2]|[E1 E2]]; rewrite E2 in *;
  destruct (dist_spec a b Ha Hb), (dist_spec a _ Ha R); lia.
Qed.

Lemma blob_eq a b c : 0 <= a < W -> 0 <= b < W -> 0 <= c < W ->
  a * W + b = c * W + c -> a = c /\ b = c.
Proof.
  intros Ha Hb Hc E. pose proof W_big.
  assert (a = c) by nia. subst. lia.
Qed.

(* ---------------- what [begin] can produce ---------------- *)
(* pc versus the harness' [held] flag *)
Definition pc_ok (T : tst) : Prop :=
  match pc T with
  | LFadd | LSpin | TRead | TCas => held T = false
  | URead | UStore => held T = true
  | Fin => True
  end.

Lemma begin_spec t m h p : forall i,
  let T := fst (begin t m h p i) in
  my T = m /\ held T = h /\ pc_ok T /\ pc T <> LSpin /\ pc T <> TCas /\ pc T <> UStore.
Proof.
  induction p as [|o r IH]; intros i; cbn.
  - unfold pc_ok; cbn. repeat split; auto; discriminate.
  - destruct (runs o h) eqn:R.
    + unfold pc_ok; cbn. destruct o, h; cbn in *; try discriminate; repeat split; auto; discriminate.
    + specialize (IH (S i)). destruct (begin t m h r (S i)) as [T e]. exact IH.
Qed.

(* ---------------- the invariant ---------------- *)
(* a thread that owns an outstanding ticket: queued (spinning) or holding *)
Definition outst (T : tst) : Prop := pc T = LSpin \/ held T = true.

(* number of outstanding tickets / position of a ticket in the queue *)
Definition qlen (s : st) : Z := dist (users s) (ticket s).
Definition off (s : st) (T : tst) : Z := dist (my T) (ticket s).

Record Inv (s : st) : Prop := {
  i_tr : 0 <= ticket s < W;
  i_ur : 0 <= users s < W;
  i_n : Z.of_nat (nthr s) < W;
  i_out : forall t, (nthr s <= t)%nat -> pc (thr s t) = Fin /\ held (thr s t) = false;
  i_my : forall t, 0 <= my (thr s t) < W;
  i_pc : forall t, pc_ok (thr s t);
  i_in : forall t, outst (thr s t) -> off s (thr s t) < qlen s;
  i_inj : forall t u, outst (thr s t) -> outst (thr s u) -> my (thr s t) = my (thr s u) -> t = u;
  i_surj : forall k, 0 <= k < qlen s -> exists t, outst (thr s t) /\ off s (thr s t) = k;
  i_held : forall t, held (thr s t) = true -> my (thr s t) = ticket s
}.

Lemma not_outst_begin t m p i : ~ outst (fst (begin t m false p i)).
Proof.
  destruct (begin_spec t m false p i) as (_ & H & _ & N & _). intros [A|A]; congruence.
Qed.

Lemma init_inv start progs : Z.of_nat (length progs) < W -> Inv (init start progs).
Proof.
  intros Hn.
  assert (R := wrap_range start).
  assert (NO : forall t, ~ outst (thr (init start progs) t)).
  { intros t. cbn. apply not_outst_begin. }
  constructor; cbn [ticket users nthr init]; auto.
  - intros t Ht. cbn [thr init]. rewrite nth_overflow by exact Ht. cbn. auto.
  - intros t. cbn [thr init]. unfold start_thread.
    destruct (begin_spec t 0 false (nth t progs []) 0) as (E & _). rewrite E. pose proof W_big. lia.
  - intros t. cbn [thr init]. unfold start_thread.
    destruct (begin_spec t 0 false (nth t progs []) 0) as (_ & _ & E & _). exact E.
  - intros t O. exfalso. exact (NO t O).
  - intros t u O. exfalso. exact (NO t O).
  - intros k Hk. unfold qlen in Hk. cbn in Hk. rewrite dist_self in Hk by exact R. lia.
  - intros t H. exfalso. apply (NO t). right. exact H.
Qed.

Ltac thr_cases u t :=
  destruct (Nat.eq_dec u t) as [->|?];
  [ rewrite ?upd_same in * | rewrite ?(upd_other _ t _ u) in * by assumption ].

(* a step that only changes thread t's private state and keeps its ticket *)
Lemma local_step s t x :
  Inv s -> (t < nthr s)%nat -> 0 <= my x < W -> pc_ok x ->
  (outst x <-> outst (thr s t)) -> (outst x -> my x = my (thr s t)) ->
  (held x = true -> my x = ticket s) ->
  Inv (set_thr s t x).
Proof.
  intros I Ht Hm Hp Ho Hk Hh. destruct I as [Itr Iur In Iout Imy Ipc Iin Iinj Isurj Iheld].
  constructor; cbn [ticket users thr nthr set_thr]; auto.
  - intros u Hu. rewrite upd_other by lia. auto.
  - intros u. thr_cases u t; auto.
  - intros u. thr_cases u t; auto.
  - intros u. unfold off, qlen; cbn [ticket users thr set_thr]. thr_cases u t.
    + intros O. rewrite (Hk O). apply Iin. apply Ho. exact O.
    + apply Iin.
  - intros u v. thr_cases u t; thr_cases v t; auto.
    + intros O1 O2 E. rewrite (Hk O1) in E. apply Iinj; auto. apply Ho; auto.
    + intros O1 O2 E. rewrite (Hk O2) in E. apply Iinj; auto. apply Ho; auto.
  - intros k Hk'. unfold qlen in Hk'; cbn [ticket users set_thr] in Hk'.
    destruct (Isurj k Hk') as [u [O E]]. exists u. unfold off; cbn [ticket thr set_thr].
    thr_cases u t; auto. split; [apply Ho; exact O|]. rewrite Hk by (apply Ho; exact O). exact E.
  - intros u. thr_cases u t; auto.
Qed.

(* ---- fewer than 2^32 contenders: the queue never covers the whole circle ---- *)
Lemma outst_lt s t : Inv s -> outst (thr s t) -> (t < nthr s)%nat.
Proof.
  intros I O. destruct (Nat.lt_ge_cases t (nthr s)) as [|G]; auto.
  destruct (i_out s I t G) as [A B]. destruct O; congruence.
Qed.

Lemma queue_list s : Inv s -> forall n : nat, Z.of_nat n <= qlen s ->
  exists l, NoDup l /\ length l = n /\
            forall x, In x l -> outst (thr s x) /\ off s (thr s x) < Z.of_nat n.
Proof.
  intros I. induction n as [|n IH]; intros Hn.
  - exists []. split; [constructor|]. split; [reflexivity|]. intros x [].
  - destruct IH as [l (ND & L & P)]; [lia|].
    destruct (i_surj s I (Z.of_nat n)) as [u [O E]]; [lia|].
    exists (u :: l). split; [|split].
    + constructor; auto. intros H. apply P in H. lia.
    + cbn. congruence.
    + intros x [<-|H]; [split; [exact O|lia]|]. apply P in H. split; [tauto|lia].
Qed.

Lemma queue_room s t : Inv s -> (t < nthr s)%nat -> ~ outst (thr s t) -> qlen s + 1 < W.
Proof.
  intros I Ht NO.
  assert (Q := dist_range (users s) (ticket s)). fold (qlen s) in Q.
  destruct (queue_list s I (Z.to_nat (qlen s))) as [l (ND & L & P)]; [lia|].
  assert (ND' : NoDup (t :: l)).
  { constructor; auto. intros H. apply P in H. tauto. }
  assert (Inc : incl (t :: l) (seq 0 (nthr s))).
  { intros x [<-|H]; apply in_seq; [lia|]. apply P in H. destruct H as [O _].
    pose proof (outst_lt s x I O). lia. }
  pose proof (NoDup_incl_length ND' Inc) as Len. cbn in Len. rewrite seq_length, L in Len.
  pose proof (i_n s I). lia.
Qed.

(* ---------------- the three global steps ---------------- *)
(* (1) fetch_add on users: thread t joins the queue at the tail *)
Lemma lfadd_inv s t :
  Inv s -> (t < nthr s)%nat -> pc (thr s t) = LFadd ->
  Inv {| ticket := ticket s; users := wrap (users s + 1);
         thr := upd (thr s) t {| pc := LSpin; my := users s; held := held (thr s t);
                                 prog := prog (thr s t); opi := opi (thr s t) |};
         nthr := nthr s |}.
Proof.
  intros I Ht Hpc. pose proof I as [Itr Iur In Iout Imy Ipc Iin Iinj Isurj Iheld].
  remember (thr s t) as T eqn:HT.
  assert (Hh : held T = false).
  { pose proof (Ipc t) as P. rewrite <- HT in P. unfold pc_ok in P. rewrite Hpc in P. exact P. }
  assert (NO : ~ outst (thr s t)).
  { rewrite <- HT. intros [A|A]; congruence. }
  pose proof (queue_room s t I Ht NO) as Room.
  assert (Q' : dist (wrap (users s + 1)) (ticket s) = qlen s + 1) by (apply dist_inc; auto).
  constructor; cbn [ticket users thr nthr]; auto.
  - apply wrap_range.
  - intros u Hu. rewrite upd_other by lia. auto.
  - intros u. thr_cases u t; cbn; auto.
  - intros u. thr_cases u t; auto.
  - intros u. unfold off, qlen; cbn [ticket users thr]. rewrite Q'. thr_cases u t.
    + intros _. cbn [my]. fold (qlen s). lia.
    + intros O. specialize (Iin u O). unfold off in Iin. lia.
  - intros u v. thr_cases u t; thr_cases v t; auto; cbn [my]; intros O1 O2 E.
    + specialize (Iin v O2). unfold off, qlen in Iin. rewrite <- E in Iin. lia.
    + specialize (Iin u O1). unfold off, qlen in Iin. rewrite E in Iin. lia.
  - intros k Hk. unfold qlen in Hk; cbn [ticket users] in Hk. rewrite Q' in Hk.
    unfold off; cbn [ticket thr].
    destruct (Z.eq_dec k (qlen s)) as [->|Nk].
    + exists t. rewrite upd_same. split; [left; reflexivity|reflexivity].
    + destruct (Isurj k ltac:(lia)) as [u [O E]]. exists u.
      assert (u <> t) by (intros ->; tauto).
      rewrite upd_other by assumption. auto.
  - intros u. thr_cases u t; auto. cbn. congruence.
Qed.

(* (2) trylock's CAS succeeds: the word was (u,u), nobody holds or queues *)
Lemma tcas_free s t :
  Inv s -> blob s = my (thr s t) * W + my (thr s t) ->
  ticket s = my (thr s t) /\ users s = my (thr s t) /\ qlen s = 0 /\
  forall u, ~ outst (thr s u).
Proof.
  intros I E. destruct (blob_eq (users s) (ticket s) (my (thr s t))) as [A B];
    auto using (i_ur s I), (i_tr s I), (i_my s I t).
  assert (Q : qlen s = 0) by (unfold qlen; rewrite A, B; apply dist_self, (i_my s I t)).
  repeat split; auto.
  intros u O. pose proof (i_in s I u O) as H. pose proof (dist_range (my (thr s u)) (ticket s)).
  unfold off in H. lia.
Qed.

Lemma tcas_inv s t x :
  Inv s -> (t < nthr s)%nat -> blob s = my (thr s t) * W + my (thr s t) ->
  held x = true -> my x = my (thr s t) -> pc_ok x ->
  Inv {| ticket := my (thr s t); users := wrap (my (thr s t) + 1);
         thr := upd (thr s) t x; nthr := nthr s |}.
Proof.
  intros I Ht E Hx Mx Px. destruct (tcas_free s t I E) as (A & B & Q & NO).
  pose proof I as [Itr Iur In Iout Imy Ipc Iin Iinj Isurj Iheld].
  remember (my (thr s t)) as K eqn:HK.
  assert (RK : 0 <= K < W) by (subst K; apply Imy).
  pose proof W_big as WB.
  assert (Q' : dist (wrap (K + 1)) K = 1).
  { rewrite dist_inc; auto; rewrite dist_self; auto; lia. }
  assert (OX : forall u, outst (upd (thr s) t x u) -> u = t).
  { intros u. thr_cases u t; auto. intros O. exfalso. exact (NO u O). }
  constructor; cbn [ticket users thr nthr]; auto.
  - apply wrap_range.
  - intros u Hu. rewrite upd_other by lia. auto.
  - intros u. thr_cases u t; auto. lia.
  - intros u. thr_cases u t; auto.
  - intros u O. apply OX in O. subst u. unfold off, qlen; cbn [ticket users thr].
    rewrite upd_same, Mx, Q', dist_self; auto; lia.
  - intros u v O1 O2 _. apply OX in O1. apply OX in O2. congruence.
  - intros k Hk. unfold qlen in Hk; cbn [ticket users] in Hk. rewrite Q' in Hk.
    exists t. unfold off; cbn [ticket thr]. rewrite upd_same. split; [right; exact Hx|].
    rewrite Mx, dist_self; auto; lia.
  - intros u. thr_cases u t; auto. intros H. exfalso. apply (NO u). right. exact H.
Qed.

(* (3) unlock's store: the head of the queue leaves, everybody moves up *)
Lemma ustore_facts s t :
  Inv s -> pc (thr s t) = UStore ->
  held (thr s t) = true /\ my (thr s t) = ticket s /\ 1 <= qlen s /\
  dist (users s) (wrap (ticket s + 1)) = qlen s - 1 /\
  forall u, u <> t -> outst (thr s u) ->
    dist (my (thr s u)) (wrap (ticket s + 1)) = off s (thr s u) - 1 /\ 1 <= off s (thr s u).
Proof.
  intros I Hpc. pose proof I as [Itr Iur In Iout Imy Ipc Iin Iinj Isurj Iheld].
  assert (Hh : held (thr s t) = true).
  { pose proof (Ipc t) as P. unfold pc_ok in P. rewrite Hpc in P. exact P. }
  assert (HK : my (thr s t) = ticket s) by (apply Iheld; exact Hh).
  assert (OT : outst (thr s t)) by (right; exact Hh).
  assert (O0 : off s (thr s t) = 0) by (unfold off; rewrite HK; apply dist_self; auto).
  pose proof (Iin t OT) as Q1. rewrite O0 in Q1.
  split; [exact Hh|]. split; [exact HK|]. split; [lia|]. split.
  { apply dist_dec; auto. unfold qlen in Q1. lia. }
  intros u Hne O.
  assert (off s (thr s u) <> 0).
  { intros Z. apply Hne. apply Iinj; auto. rewrite HK.
    apply (dist_inj _ _ (ticket s)); auto. unfold off in Z. rewrite Z. symmetry. apply dist_self; auto. }
  pose proof (dist_range (my (thr s u)) (ticket s)) as R. unfold off in *.
  split; [|lia]. apply dist_dec; auto. lia.
Qed.

Lemma ustore_inv s t x :
  Inv s -> (t < nthr s)%nat -> pc (thr s t) = UStore ->
  ~ outst x -> 0 <= my x < W -> pc_ok x ->
  Inv {| ticket := wrap (my (thr s t) + 1); users := users s;
         thr := upd (thr s) t x; nthr := nthr s |}.
Proof.
  intros I Ht Hpc NX Mx Px. pose proof I as [Itr Iur In Iout Imy Ipc Iin Iinj Isurj Iheld].
  destruct (ustore_facts s t I Hpc) as (Hh & HK & Q1 & Q' & Other).
  assert (OT : outst (thr s t)) by (right; exact Hh).
  assert (O0 : off s (thr s t) = 0) by (unfold off; rewrite HK; apply dist_self; auto).
  rewrite HK.
  constructor; cbn [ticket users thr nthr]; auto.
  - apply wrap_range.
  - intros u Hu. rewrite upd_other by lia. auto.
  - intros u. thr_cases u t; auto.
  - intros u. thr_cases u t; auto.
  - intros u. unfold off, qlen; cbn [ticket users thr]. rewrite Q'. thr_cases u t; [tauto|].
    intros O. destruct (Other u n O) as [E _]. rewrite E. specialize (Iin u O). lia.
  - intros u v. thr_cases u t; thr_cases v t; auto; tauto.
  - intros k Hk. unfold qlen in Hk; cbn [ticket users] in Hk. rewrite Q' in Hk.
    destruct (Isurj (k + 1) ltac:(lia)) as [u [O E]].
    assert (u <> t) by (intros ->; lia).
    exists u. unfold off; cbn [ticket thr]. rewrite upd_other by assumption. split; auto.
    destruct (Other u H O) as [E' _]. lia.
  - intros u. thr_cases u t.
    + intros H. exfalso. apply NX. right. exact H.
    + intros H. exfalso. apply n. apply Iinj; auto; [right; exact H|]. rewrite (Iheld u H). auto.
Qed.

(* ---------------- every step preserves the invariant ---------------- *)
Lemma status_ready s t : status_of s t = SReady -> (t < nthr s)%nat.
Proof.
  unfold status_of. destruct (Nat.ltb_spec t (nthr s)); auto. discriminate.
Qed.

Theorem step_inv s t : Inv s -> (t < nthr s)%nat -> Inv (fst (step s t)).
Proof.
  intros I Ht. unfold step. remember (thr s t) as T eqn:HT.
  pose proof (i_pc s I t) as PT. rewrite <- HT in PT. unfold pc_ok in PT.
  pose proof (i_my s I t) as MT. rewrite <- HT in MT.
  destruct (pc T) eqn:Hpc; cbn [fst].
  - (* LFadd *) subst T. apply lfadd_inv; auto.
  - (* LSpin *)
    destruct (Z.eqb_spec (ticket s) (my T)) as [E|E]; cbn [fst]; [|exact I].
    unfold next_op; cbn [my held prog opi].
    pose proof (begin_spec t (my T) true (prog T) (opi T)) as B.
    destruct (begin t (my T) true (prog T) (opi T)) as [T' e']. cbn in B.
    destruct B as (B1 & B2 & B3 & B4 & _). cbn [fst].
    apply local_step; [exact I|exact Ht|..].
    + rewrite B1. exact MT.
    + exact B3.
    + rewrite <- HT. split; intros _; [left; exact Hpc|right; exact B2].
    + intros _. rewrite <- HT. exact B1.
    + intros _. rewrite B1. auto.
  - (* TRead *)
    apply local_step; [exact I|exact Ht|..]; cbn [my held pc].
    + apply (i_ur s I).
    + unfold pc_ok; cbn. exact PT.
    + rewrite <- HT. unfold outst; cbn. rewrite Hpc, PT. split; intros [A|A]; discriminate.
    + intros [A|A]; cbn in A; congruence.
    + congruence.
  - (* TCas *)
    destruct (Z.eqb_spec (blob s) (my T * W + my T)) as [E|E].
    + unfold next_op; cbn [my held prog opi].
      pose proof (begin_spec t (my T) true (prog T) (opi T)) as B.
      destruct (begin t (my T) true (prog T) (opi T)) as [T' e']. cbn in B.
      destruct B as (B1 & B2 & B3 & _). cbn [fst].
      subst T. apply tcas_inv; auto.
    + unfold next_op. rewrite PT.
      pose proof (begin_spec t (my T) false (prog T) (opi T)) as B.
      pose proof (not_outst_begin t (my T) (prog T) (opi T)) as NB.
      destruct (begin t (my T) false (prog T) (opi T)) as [T' e']. cbn in B, NB.
      destruct B as (B1 & B2 & B3 & _). cbn [fst].
      apply local_step; [exact I|exact Ht|..].
      * rewrite B1. exact MT.
      * exact B3.
      * rewrite <- HT. split; [tauto|]. intros [A|A]; congruence.
      * tauto.
      * congruence.
  - (* URead *)
    assert (HK : my T = ticket s) by (rewrite HT; apply (i_held s I); rewrite <- HT; exact PT).
    apply local_step; [exact I|exact Ht|..]; cbn [my held pc].
    + apply (i_tr s I).
    + unfold pc_ok; cbn. exact PT.
    + rewrite <- HT. unfold outst; cbn. rewrite PT. tauto.
    + intros _. rewrite <- HT. symmetry. exact HK.
    + intros _. reflexivity.
  - (* UStore *)
    unfold next_op; cbn [my held prog opi].
    pose proof (begin_spec t (my T) false (prog T) (opi T)) as B.
    pose proof (not_outst_begin t (my T) (prog T) (opi T)) as NB.
    destruct (begin t (my T) false (prog T) (opi T)) as [T' e']. cbn in B, NB.
    destruct B as (B1 & B2 & B3 & _). cbn [fst].
    subst T. apply ustore_inv; auto. rewrite B1. exact MT.
  - (* Fin *) exact I.
Qed.

Theorem reachable_inv start progs s :
  Z.of_nat (length progs) < W -> reachable M (init start progs) s -> Inv s.
Proof.
  intros Hn. apply (invariant_ind M Inv (init start progs)).
  - apply init_inv. exact Hn.
  - intros s0 t I R. apply step_inv; auto. apply status_ready. exact R.
Qed.

(* ------------------------------------------------------------------ *)
(* The statements used by Properties_C18.v                            *)

(* thread t is in its critical section: from its successful acquire (the
   load that saw its ticket / the successful CAS) to its unlock's store *)
Definition in_cs (s : st) (t : nat) : Prop := held (thr s t) = true.

Lemma exclusion_of_inv s t u : Inv s -> in_cs s t -> in_cs s u -> t = u.
Proof.
  intros I A B. apply (i_inj s I); [right; exact A|right; exact B|].
  rewrite (i_held s I t A), (i_held s I u B). reflexivity.
Qed.

Lemma dist_wrap_add b k : 0 <= b < W -> 0 <= k < W -> dist (wrap (b + k)) b = k.
Proof.
  intros Hb Hk. pose proof (wrap_range (b + k)) as R.
  assert (E : wrap (b + k) = b + k \/ wrap (b + k) = b + k - W).
  { destruct (Z_lt_ge_dec (b + k) W).
    - left. apply wrap_small. lia.
    - right. unfold wrap. rewrite <- (Z_mod_plus_full (b + k) (-1) W). apply Z.mod_small. lia. }
  destruct (dist_spec _ b R Hb) as [[A B]|[A B]]; destruct E as [E|E]; rewrite E in *; lia.
Qed.

Lemma off_iff s T k : Inv s -> 0 <= my T < W -> 0 <= k < W ->
  (off s T = k <-> my T = wrap (ticket s + k)).
Proof.
  intros I Hm Hk. pose proof (i_tr s I) as Tr. unfold off. split.
  - intros E. apply (dist_inj _ _ (ticket s)); auto using wrap_range.
    rewrite dist_wrap_add; auto.
  - intros ->. apply dist_wrap_add; auto.
Qed.

(* a spinning lock() acquires exactly when the ticket half shows its ticket *)
Lemma acquire_iff s t : Inv s -> pc (thr s t) = LSpin ->
  (in_cs (fst (step s t)) t <-> ticket s = my (thr s t)).
Proof.
  intros I Hpc. unfold in_cs, step. rewrite Hpc.
  pose proof (i_pc s I t) as P. unfold pc_ok in P. rewrite Hpc in P.
  destruct (Z.eqb_spec (ticket s) (my (thr s t))) as [E|E].
  - unfold next_op; cbn [my held prog opi].
    pose proof (begin_spec t (my (thr s t)) true (prog (thr s t)) (opi (thr s t))) as B.
    destruct (begin t (my (thr s t)) true (prog (thr s t)) (opi (thr s t))) as [T' e']. cbn in B.
    cbn [fst set_thr thr]. rewrite upd_same. tauto.
  - cbn [fst]. split; [congruence|tauto].
Qed.

(* the outstanding tickets are exactly ticket, ticket+1, .., users-1 (mod 2^32),
   each owned by exactly one thread; the holder owns the first one *)
Lemma fifo_of_inv s : Inv s ->
  0 <= qlen s < W /\
  (forall t, outst (thr s t) ->
     exists k, 0 <= k < qlen s /\ my (thr s t) = wrap (ticket s + k)) /\
  (forall k, 0 <= k < qlen s ->
     exists t, outst (thr s t) /\ my (thr s t) = wrap (ticket s + k) /\
               forall u, outst (thr s u) -> my (thr s u) = wrap (ticket s + k) -> u = t) /\
  (forall t, in_cs s t -> my (thr s t) = ticket s).
Proof.
  intros I. pose proof (dist_range (users s) (ticket s)) as Q. fold (qlen s) in Q.
  split; [exact Q|]. split; [|split].
  - intros t O. exists (off s (thr s t)).
    pose proof (i_in s I t O). pose proof (dist_range (my (thr s t)) (ticket s)) as R.
    fold (off s (thr s t)) in R. split; [lia|].
    apply (off_iff s (thr s t) _ I); auto using (i_my s I t); lia.
  - intros k Hk. destruct (i_surj s I k Hk) as [t [O E]]. exists t. split; [exact O|].
    assert (M : my (thr s t) = wrap (ticket s + k)).
    { apply (off_iff s (thr s t) k I); auto using (i_my s I t); lia. }
    split; [exact M|]. intros u Ou Eu. apply (i_inj s I); auto. congruence.
  - intros t H. apply (i_held s I). exact H.
Qed.

(* the call of thread t returns in this very step, with value v *)
Definition returns_now (s : st) (t : nat) (v : Z) : Prop :=
  exists a e, length a = 4%nat /\ snd (step s t) = a ++ retev t (opi (thr s t)) v ++ e.

(* trylock is two steps of its own thread, whatever the others do *)
Lemma trylock_straight s t :
  (pc (thr s t) = TRead ->
     pc (thr (fst (step s t)) t) = TCas /\ opi (thr (fst (step s t)) t) = opi (thr s t)) /\
  (pc (thr s t) = TCas ->
     returns_now s t (if blob s =? my (thr s t) * W + my (thr s t) then 1 else 0)).
Proof.
  split; intros Hpc; unfold returns_now, step; rewrite Hpc.
  - cbn [fst set_thr thr]. rewrite upd_same. cbn. auto.
  - destruct (blob s =? my (thr s t) * W + my (thr s t)).
    + destruct (next_op t _) as [T' e']. cbn [snd]. eexists; eexists; split; [|reflexivity]. reflexivity.
    + destruct (next_op t _) as [T' e']. cbn [snd]. eexists; eexists; split; [|reflexivity]. reflexivity.
Qed.

Lemma trylock_no_steal_of_inv s t :
  Inv s -> pc (thr s t) = TCas -> blob s = my (thr s t) * W + my (thr s t) ->
  ticket s = users s /\ (forall u, ~ in_cs s u) /\
  (forall u, pc (thr s u) <> LSpin) /\ in_cs (fst (step s t)) t.
Proof.
  intros I Hpc E. destruct (tcas_free s t I E) as (A & B & Q & NO).
  split; [congruence|]. split; [|split].
  - intros u H. apply (NO u). right. exact H.
  - intros u H. apply (NO u). left. exact H.
  - unfold in_cs, step. rewrite Hpc. rewrite (proj2 (Z.eqb_eq _ _) E).
    unfold next_op; cbn [my held prog opi].
    pose proof (begin_spec t (my (thr s t)) true (prog (thr s t)) (opi (thr s t))) as Bs.
    destruct (begin t (my (thr s t)) true (prog (thr s t)) (opi (thr s t))) as [T' e']. cbn in Bs.
    cbn [fst thr]. rewrite upd_same. tauto.
Qed.

Lemma unlock_releases_of_inv s t :
  Inv s -> (pc (thr s t) = URead \/ pc (thr s t) = UStore) ->
  in_cs s t /\
  (pc (thr s t) = UStore ->
     ticket (fst (step s t)) = wrap (ticket s + 1) /\ users (fst (step s t)) = users s /\
     (forall u, ~ in_cs (fst (step s t)) u) /\ returns_now s t 1).
Proof.
  intros I Hp.
  assert (Hh : in_cs s t).
  { pose proof (i_pc s I t) as P. unfold pc_ok in P. unfold in_cs. destruct Hp as [E|E]; rewrite E in P; exact P. }
  split; [exact Hh|]. intros Hpc.
  pose proof (i_held s I t Hh) as HK.
  unfold returns_now, in_cs, step. rewrite Hpc.
  unfold next_op; cbn [my held prog opi].
  pose proof (begin_spec t (my (thr s t)) false (prog (thr s t)) (opi (thr s t))) as Bs.
  destruct (begin t (my (thr s t)) false (prog (thr s t)) (opi (thr s t))) as [T' e']. cbn in Bs.
  cbn [fst snd ticket users thr]. rewrite HK. split; [reflexivity|]. split; [reflexivity|]. split.
  - intros u. thr_cases u t.
    + intros H. destruct Bs as (_ & B2 & _). congruence.
    + intros H. apply n. apply (exclusion_of_inv s u t I); auto.
  - eexists; eexists; split; [|reflexivity]. reflexivity.
Qed.

(* ------------------------------------------------------------------ *)
(* History: the machine instrumented with
     tlog = threads in the order they took a ticket (lock's fetch_add on
            users, or trylock's successful CAS, which takes and serves its
            ticket at once),
     alog = threads in the order they acquired the lock.                *)
Record ist := { base : st; tlog : list nat; alog : list nat }.

Definition lstep (x : ist) (t : nat) : ist :=
  let s := base x in
  let T := thr s t in
  match status_of s t with
  | SReady =>
    let s' := fst (step s t) in
    match pc T with
    | LFadd => {| base := s'; tlog := tlog x ++ [t]; alog := alog x |}
    | LSpin => if ticket s =? my T
               then {| base := s'; tlog := tlog x; alog := alog x ++ [t] |}
               else {| base := s'; tlog := tlog x; alog := alog x |}
    | TCas => if blob s =? my T * W + my T
              then {| base := s'; tlog := tlog x ++ [t]; alog := alog x ++ [t] |}
              else {| base := s'; tlog := tlog x; alog := alog x |}
    | _ => {| base := s'; tlog := tlog x; alog := alog x |}
    end
  | _ => x
  end.

(* erasing the logs gives the executable machine *)
Lemma lstep_erase x t : base (lstep x t) = fst (grant M (base x) t).
Proof.
  unfold lstep, grant. cbn [mstatus mstep M].
  destruct (status_of (base x) t); try reflexivity.
  destruct (pc (thr (base x) t)); try reflexivity;
  match goal with |- context [if ?b then _ else _] => destruct b end; reflexivity.
Qed.

Definition iinit start progs : ist := {| base := init start progs; tlog := []; alog := [] |}.

Inductive ireach start progs : ist -> Prop :=
| ir_init : ireach start progs (iinit start progs)
| ir_step x t : ireach start progs x -> ireach start progs (lstep x t).

Definition irun (x : ist) (sch : list nat) : ist := fold_left lstep sch x.
Lemma ireach_irun start progs sch : forall x, ireach start progs x -> ireach start progs (irun x sch).
Proof. induction sch as [|t r IH]; intros x R; cbn; auto. apply IH. constructor. exact R. Qed.

(* w = the spinning threads in queue order; its last element holds ticket
   users-1, so the k-th one is at offset qlen - |w| + k from the ticket half *)
Definition LI (s : st) (w : list nat) : Prop :=
  (forall k, (k < length w)%nat ->
     pc (thr s (nth k w 0%nat)) = LSpin /\
     off s (thr s (nth k w 0%nat)) = qlen s - Z.of_nat (length w) + Z.of_nat k) /\
  (forall u, pc (thr s u) = LSpin -> In u w).

Lemma li_mem s w u : LI s w -> In u w -> pc (thr s u) = LSpin.
Proof.
  intros [A _] H. destruct (In_nth w u 0%nat H) as [k [Hk E]]. rewrite <- E. apply A. exact Hk.
Qed.

Lemma li_local s t x w :
  LI s w -> pc (thr s t) <> LSpin -> pc x <> LSpin -> LI (set_thr s t x) w.
Proof.
  intros L A B. pose proof L as [L1 L2]. split.
  - intros k Hk. destruct (L1 k Hk) as [P O].
    assert (nth k w 0%nat <> t) by (intros E; rewrite E in P; contradiction).
    unfold off, qlen; cbn [set_thr thr ticket users]. rewrite upd_other by assumption. auto.
  - intros u. cbn [set_thr thr]. thr_cases u t; [contradiction|]. apply L2.
Qed.

Lemma li_fadd s t w :
  Inv s -> (t < nthr s)%nat -> pc (thr s t) = LFadd -> LI s w ->
  LI {| ticket := ticket s; users := wrap (users s + 1);
        thr := upd (thr s) t {| pc := LSpin; my := users s; held := held (thr s t);
                                prog := prog (thr s t); opi := opi (thr s t) |};
        nthr := nthr s |} (w ++ [t]).
Proof.
  intros I Ht Hpc L. pose proof L as [L1 L2].
  assert (NO : ~ outst (thr s t)).
  { pose proof (i_pc s I t) as P. unfold pc_ok in P. rewrite Hpc in P. intros [A|A]; congruence. }
  pose proof (queue_room s t I Ht NO) as Room.
  assert (Q' : dist (wrap (users s + 1)) (ticket s) = qlen s + 1)
    by (apply dist_inc; auto using (i_ur s I), (i_tr s I)).
  split.
  - intros k Hk. rewrite app_length in *. cbn [length] in *.
    unfold off, qlen; cbn [ticket users thr]. rewrite Q'.
    destruct (Nat.eq_dec k (length w)) as [->|Nk].
    + rewrite nth_middle. rewrite upd_same. cbn [pc my]. split; [reflexivity|].
      fold (qlen s). lia.
    + rewrite app_nth1 by lia. destruct (L1 k ltac:(lia)) as [P O].
      assert (nth k w 0%nat <> t) by (intros E; rewrite E in P; congruence).
      rewrite upd_other by assumption. split; [exact P|]. unfold off in O. lia.
  - intros u. cbn [thr]. rewrite in_app_iff. thr_cases u t; [right; left; reflexivity|].
    intros H. left. apply L2. exact H.
Qed.

(* the thread whose spin ends is the head of the queue *)
Lemma li_acquire s t x w :
  Inv s -> pc (thr s t) = LSpin -> ticket s = my (thr s t) -> LI s w -> pc x <> LSpin ->
  exists w', w = t :: w' /\ LI (set_thr s t x) w'.
Proof.
  intros I Hpc E L Hx. pose proof L as [L1 L2].
  assert (O0 : off s (thr s t) = 0).
  { unfold off. rewrite <- E. apply dist_self. apply (i_tr s I). }
  pose proof (L2 t Hpc) as Hin.
  destruct w as [|h w']; [destruct Hin|].
  destruct (L1 0%nat ltac:(cbn; lia)) as [P0 Oh]. cbn [nth] in P0, Oh.
  pose proof (dist_range (my (thr s h)) (ticket s)) as Rh. fold (off s (thr s h)) in Rh.
  destruct (In_nth _ _ 0%nat Hin) as [k [Hk Ek]].
  destruct (L1 k Hk) as [Pk Ok]. rewrite Ek in Ok.
  assert (k = 0%nat) by lia. subst k. cbn [nth] in Ek. subst h. cbn [length] in *.
  exists w'. split; [reflexivity|]. split.
  - intros k Hk'. destruct (L1 (S k) ltac:(cbn; lia)) as [P O]. cbn [nth] in P, O.
    assert (nth k w' 0%nat <> t).
    { intros Z. rewrite Z in O. lia. }
    unfold off, qlen; cbn [set_thr thr ticket users]. rewrite upd_other by assumption.
    split; [exact P|]. unfold off, qlen in O. lia.
  - intros u. cbn [set_thr thr]. thr_cases u t; [contradiction|].
    intros H0. destruct (L2 u H0) as [Z|Z]; [congruence|exact Z].
Qed.

Lemma li_tcas s t x w :
  Inv s -> blob s = my (thr s t) * W + my (thr s t) -> LI s w -> pc x <> LSpin ->
  w = [] /\
  LI {| ticket := my (thr s t); users := wrap (my (thr s t) + 1);
        thr := upd (thr s) t x; nthr := nthr s |} [].
Proof.
  intros I E L Hx. destruct (tcas_free s t I E) as (A & B & Q & NO).
  assert (w = []).
  { destruct w as [|h w']; auto. exfalso. apply (NO h). left. apply (li_mem s (h :: w')); auto. left; auto. }
  split; [assumption|]. split.
  - intros k Hk. cbn in Hk. lia.
  - intros u. cbn [thr]. thr_cases u t; [contradiction|].
    intros H0. exfalso. apply (NO u). left. exact H0.
Qed.

Lemma li_ustore s t x w :
  Inv s -> pc (thr s t) = UStore -> LI s w -> pc x <> LSpin ->
  LI {| ticket := wrap (my (thr s t) + 1); users := users s;
        thr := upd (thr s) t x; nthr := nthr s |} w.
Proof.
  intros I Hpc L Hx. pose proof L as [L1 L2].
  destruct (ustore_facts s t I Hpc) as (Hh & HK & Q1 & Q' & Other).
  rewrite HK. split.
  - intros k Hk. destruct (L1 k Hk) as [P O].
    assert (Hne : nth k w 0%nat <> t) by (intros Z; rewrite Z in P; congruence).
    unfold off, qlen; cbn [ticket users thr]. rewrite upd_other by assumption.
    split; [exact P|]. rewrite Q'.
    destruct (Other _ Hne (or_introl P)) as [Z _]. rewrite Z. lia.
  - intros u. cbn [thr]. thr_cases u t; [contradiction|]. apply L2.
Qed.

Record LInv (x : ist) : Prop := {
  l_inv : Inv (base x);
  l_fifo : exists w, tlog x = alog x ++ w /\ LI (base x) w
}.

Lemma linv_step x t : LInv x -> LInv (lstep x t).
Proof.
  intros [I [w [Hl L]]]. unfold lstep.
  destruct (status_of (base x) t) eqn:St; try (constructor; eauto; fail).
  pose proof (status_ready _ _ St) as Ht.
  pose proof (step_inv (base x) t I Ht) as I'.
  set (s := base x) in *. remember (thr s t) as T eqn:HT.
  pose proof (i_pc s I t) as PT. rewrite <- HT in PT. unfold pc_ok in PT.
  destruct (pc T) eqn:Hpc.
  - (* LFadd *)
    constructor; cbn [base tlog alog]; [exact I'|].
    exists (w ++ [t]). split; [rewrite Hl, app_assoc; reflexivity|].
    unfold step. rewrite <- HT, Hpc. cbn [fst]. subst T. apply li_fadd; auto.
  - (* LSpin *)
    destruct (Z.eqb_spec (ticket s) (my T)) as [E|E].
    + constructor; cbn [base tlog alog]; [exact I'|].
      unfold step. rewrite <- HT, Hpc. rewrite (proj2 (Z.eqb_eq _ _) E).
      unfold next_op; cbn [my held prog opi].
      pose proof (begin_spec t (my T) true (prog T) (opi T)) as B.
      destruct (begin t (my T) true (prog T) (opi T)) as [T' e']. cbn in B.
      destruct B as (_ & _ & _ & B4 & _). cbn [fst].
      destruct (li_acquire s t T' w I) as [w' [Ew L']]; auto; try congruence.
      exists w'. split; [|exact L']. rewrite Hl, Ew, <- app_assoc. reflexivity.
    + constructor; cbn [base tlog alog]; [exact I'|].
      exists w. split; [exact Hl|].
      unfold step. rewrite <- HT, Hpc. rewrite (proj2 (Z.eqb_neq _ _) E). exact L.
  - (* TRead *)
    constructor; cbn [base tlog alog]; [exact I'|]. exists w. split; [exact Hl|].
    unfold step. rewrite <- HT, Hpc. cbn [fst]. apply li_local; auto; cbn; congruence.
  - (* TCas *)
    destruct (Z.eqb_spec (blob s) (my T * W + my T)) as [E|E].
    + constructor; cbn [base tlog alog]; [exact I'|].
      unfold step. rewrite <- HT, Hpc. rewrite (proj2 (Z.eqb_eq _ _) E).
      unfold next_op; cbn [my held prog opi].
      pose proof (begin_spec t (my T) true (prog T) (opi T)) as B.
      destruct (begin t (my T) true (prog T) (opi T)) as [T' e']. cbn in B.
      destruct B as (_ & _ & _ & B4 & _). cbn [fst].
      rewrite HT in E. destruct (li_tcas s t T' w I E L B4) as [Ew L'].
      exists []. split; [|rewrite HT; exact L']. rewrite Hl, Ew, !app_nil_r. reflexivity.
    + constructor; cbn [base tlog alog]; [exact I'|]. exists w. split; [exact Hl|].
      unfold step. rewrite <- HT, Hpc. rewrite (proj2 (Z.eqb_neq _ _) E).
      unfold next_op.
      pose proof (begin_spec t (my T) (held T) (prog T) (opi T)) as B.
      destruct (begin t (my T) (held T) (prog T) (opi T)) as [T' e']. cbn in B.
      destruct B as (_ & _ & _ & B4 & _). cbn [fst].
      apply li_local; auto. congruence.
  - (* URead *)
    constructor; cbn [base tlog alog]; [exact I'|]. exists w. split; [exact Hl|].
    unfold step. rewrite <- HT, Hpc. cbn [fst]. apply li_local; auto; cbn; congruence.
  - (* UStore *)
    constructor; cbn [base tlog alog]; [exact I'|]. exists w. split; [exact Hl|].
    unfold step. rewrite <- HT, Hpc.
    unfold next_op; cbn [my held prog opi].
    pose proof (begin_spec t (my T) false (prog T) (opi T)) as B.
    destruct (begin t (my T) false (prog T) (opi T)) as [T' e']. cbn in B.
    destruct B as (_ & _ & _ & B4 & _). cbn [fst].
    subst T. apply li_ustore; auto.
  - (* Fin *)
    constructor; cbn [base tlog alog]; [exact I'|]. exists w. split; [exact Hl|].
    unfold step. rewrite <- HT, Hpc. exact L.
Qed.

Theorem ireach_linv start progs x :
  Z.of_nat (length progs) < W -> ireach start progs x -> LInv x.
Proof.
  intros Hn. induction 1 as [|x t R IH].
  - constructor; cbn [base tlog alog iinit].
    + apply init_inv. exact Hn.
    + exists []. split; [reflexivity|]. split.
      * intros k Hk. cbn in Hk. lia.
      * intros u Hu. exfalso. cbn in Hu. unfold start_thread in Hu.
        destruct (begin_spec u 0 false (nth u progs []) 0) as (_ & _ & _ & N & _). contradiction.
  - apply linv_step; exact IH.
Qed.

(* locks are acquired in exactly the order the tickets were taken: the
   acquisition log is a prefix of the ticket log, and what remains is the
   list of spinning threads in the order of their (consecutive) tickets *)
Lemma fifo_history_of_linv x : LInv x ->
  exists w, tlog x = alog x ++ w /\
    (forall u, In u w <-> pc (thr (base x) u) = LSpin) /\
    (forall k, (k < length w)%nat ->
       my (thr (base x) (nth k w 0%nat)) =
       wrap (users (base x) - Z.of_nat (length w) + Z.of_nat k)).
Proof.
  intros [I [w [Hl L]]]. exists w. split; [exact Hl|]. split.
  - intros u. split; [apply li_mem; exact L|apply (proj2 L)].
  - intros k Hk. destruct (proj1 L k Hk) as [P O].
    set (u := nth k w 0%nat) in *.
    pose proof (i_in (base x) I u (or_introl P)) as Hin.
    pose proof (dist_range (my (thr (base x) u)) (ticket (base x))) as R.
    fold (off (base x) (thr (base x) u)) in R.
    pose proof (dist_range (users (base x)) (ticket (base x))) as Rq. fold (qlen (base x)) in Rq.
    pose proof (i_tr (base x) I) as Tr. pose proof (i_ur (base x) I) as Ur.
    pose proof (i_my (base x) I u) as Mu.
    apply (off_iff (base x) (thr (base x) u) _ I) in O; auto; [|lia].
    rewrite O. unfold qlen, dist, wrap.
    pose proof (Z.div_mod (users (base x) - ticket (base x)) W ltac:(discriminate)) as D.
    set (m := (users (base x) - ticket (base x)) mod W) in *.
    set (q := (users (base x) - ticket (base x)) / W) in *.
    replace (ticket (base x) + (m - Z.of_nat (length w) + Z.of_nat k))
      with (users (base x) - Z.of_nat (length w) + Z.of_nat k + (- q) * W) by lia.
    apply Z_mod_plus_full.
Qed.
