(* Proofs about the ticket-spinlock model: an inductive invariant over every
   reachable state, for any number of threads (< 2^32), any programs, any
   schedule, counters starting anywhere (wrap-around included). *)
From Coq Require Import List ZArith Lia Bool Arith.
From LF Require Import Conc Spin.
Import ListNotations.
Local Open Scope Z_scope.

(* ---------------- arithmetic mod 2^32 ---------------- *)
Lemma W_big : 2 < W.
Proof. reflexivity. Qed.

(* distance from b up to a, going round the 2^32 circle *)
Definition dist (a b : Z) : Z := wrap (a - b).

Lemma wrap_range x : 0 <= wrap x < W.
Proof. unfold wrap. apply Z.mod_pos_bound. reflexivity. Qed.

Lemma wrap_small x : 0 <= x < W -> wrap x = x.
Proof. intros H. unfold wrap. apply Z.mod_small. exact H. Qed.

Lemma wrap_inc a : 0 <= a < W ->
  (a = W - 1 /\ wrap (a + 1) = 0) \/ (a < W - 1 /\ wrap (a + 1) = a + 1).
Proof.
  intros H. destruct (Z.eq_dec a (W - 1)) as [->|N].
  - left. split; reflexivity.
  - right. split; [lia|]. apply wrap_small. lia.
Qed.

Lemma dist_spec a b : 0 <= a < W -> 0 <= b < W ->
  (b <= a /\ dist a b = a - b) \/ (a < b /\ dist a b = a - b + W).
Proof.
  intros Ha Hb. unfold dist, wrap. destruct (Z_le_gt_dec b a).
  - left. split; [lia|]. apply Z.mod_small. lia.
  - right. split; [lia|].
    rewrite <- (Z_mod_plus_full (a - b) 1 W). rewrite Z.mod_small; lia.
Qed.

Lemma dist_range a b : 0 <= dist a b < W.
Proof. apply wrap_range. Qed.

Lemma dist_self a : 0 <= a < W -> dist a a = 0.
Proof. intros H. destruct (dist_spec a a H H); lia. Qed.

Lemma dist_inj a a' b : 0 <= a < W -> 0 <= a' < W -> 0 <= b < W ->
  dist a b = dist a' b -> a = a'.
Proof.
  intros Ha Ha' Hb E.
  destruct (dist_spec a b Ha Hb), (dist_spec a' b Ha' Hb); lia.
Qed.

Lemma dist_inc a b : 0 <= a < W -> 0 <= b < W -> dist a b + 1 < W ->
  dist (wrap (a + 1)) b = dist a b + 1.
Proof.
  intros Ha Hb H. pose proof (wrap_range (a + 1)) as R.
  destruct (wrap_inc a Ha) as [[E1 E2]|[E1 E2]]; rewrite E2 in *;
  destruct (dist_spec a b Ha Hb), (dist_spec _ b R Hb); lia.
Qed.

Lemma dist_dec a b : 0 <= a < W -> 0 <= b < W -> 1 <= dist a b ->
  dist a (wrap (b + 1)) = dist a b - 1.
Proof.
  intros Ha Hb H. pose proof (wrap_range (b + 1)) as R.
  destruct (wrap_inc b Hb) as [[E1 E2]|[E1 E2]]; rewrite E2 in *;
  destruct (dist_spec a b Ha Hb), (dist_spec a _ Ha R); lia.
Qed.

Lemma blob_eq a b c : 0 <= a < W -> 0 <= b < W -> 0 <= c < W ->
  a * W + b = c * W + c -> a = c /\ b = c.
Proof.
  intros Ha Hb Hc E. pose proof W_big.
  assert (a = c) by nia. subst. lia.
Qed.

(* ---------------- what [begin] can produce ---------------- *)
(* pc versus the harness' [held] flag *)
Definition pc_ok (T : tst) : Prop :=
  match pc T with
  | LFadd | LSpin | TRead | TCas => held T = false
  | URead | UStore => held T = true
  | Fin => True
  end.

Lemma begin_spec t m h p : forall i,
  let T := fst (begin t m h p i) in
  my T = m /\ held T = h /\ pc_ok T /\ pc T <> LSpin /\ pc T <> TCas /\ pc T <> UStore.
Proof.
  induction p as [|o r IH]; intros i; cbn.
  - unfold pc_ok; cbn. repeat split; auto; discriminate.
  - destruct (runs o h) eqn:R.
    + unfold pc_ok; cbn. destruct o, h; cbn in *; try discriminate; repeat split; auto; discriminate.
    + specialize (IH (S i)). destruct (begin t m h r (S i)) as [T e]. exact IH.
Qed.

(* ---------------- the invariant ---------------- *)
(* a thread that owns an outstanding ticket: queued (spinning) or holding *)
Definition outst (T : tst) : Prop := pc T = LSpin \/ held T = true.

(* number of outstanding tickets / position of a ticket in the queue *)
Definition qlen (s : st) : Z := dist (users s) (ticket s).
Definition off (s : st) (T : tst) : Z := dist (my T) (ticket s).

Record Inv (s : st) : Prop := {
  i_tr : 0 <= ticket s < W;
  i_ur : 0 <= users s < W;
  i_n : Z.of_nat (nthr s) < W;
  i_out : forall t, (nthr s <= t)%nat -> pc (thr s t) = Fin /\ held (thr s t) = false;
  i_my : forall t, 0 <= my (thr s t) < W;
  i_pc : forall t, pc_ok (thr s t);
  i_in : forall t, outst (thr s t) -> off s (thr s t) < qlen s;
  i_inj : forall t u, outst (thr s t) -> outst (thr s u) -> my (thr s t) = my (thr s u) -> t = u;
  i_surj : forall k, 0 <= k < qlen s -> exists t, outst (thr s t) /\ off s (thr s t) = k;
  i_held : forall t, held (thr s t) = true -> my (thr s t) = ticket s
}.

Lemma not_outst_begin t m p i : ~ outst (fst (begin t m false p i)).
Proof.
  destruct (begin_spec t m false p i) as (_ & H & _ & N & _). intros [A|A]; congruence.
Qed.

Lemma init_inv start progs : Z.of_nat (length progs) < W -> Inv (init start progs).
Proof.
  intros Hn.
  assert (R := wrap_range start).
  assert (NO : forall t, ~ outst (thr (init start progs) t)).
  { intros t. cbn. apply not_outst_begin. }
  constructor; cbn [ticket users nthr init]; auto.
  - intros t Ht. cbn [thr init]. rewrite nth_overflow by exact Ht. cbn. auto.
  - intros t. cbn [thr init]. unfold start_thread.
    destruct (begin_spec t 0 false (nth t progs []) 0) as (E & _). rewrite E. pose proof W_big. lia.
  - intros t. cbn [thr init]. unfold start_thread.
    destruct (begin_spec t 0 false (nth t progs []) 0) as (_ & _ & E & _). exact E.
  - intros t O. exfalso. exact (NO t O).
  - intros t u O. exfalso. exact (NO t O).
  - intros k Hk. unfold qlen in Hk. cbn in Hk. rewrite dist_self in Hk by exact R. lia.
  - intros t H. exfalso. apply (NO t). right. exact H.
Qed.

Ltac thr_cases u t :=
  destruct (Nat.eq_dec u t) as [->|?];
  [ rewrite ?upd_same in * | rewrite ?(upd_other _ t _ u) in * by assumption ].

(* a step that only changes thread t's private state and keeps its ticket *)
Lemma local_step s t x :
  Inv s -> (t < nthr s)%nat -> 0 <= my x < W -> pc_ok x ->
  (outst x <-> outst (thr s t)) -> (outst x -> my x = my (thr s t)) ->
  (held x = true -> my x = ticket s) ->
  Inv (set_thr s t x).
Proof.
  intros I Ht Hm Hp Ho Hk Hh. destruct I as [Itr Iur In Iout Imy Ipc Iin Iinj Isurj Iheld].
  constructor; cbn [ticket users thr nthr set_thr]; auto.
  - intros u Hu. rewrite upd_other by lia. auto.
  - intros u. thr_cases u t; auto.
  - intros u. thr_cases u t; auto.
  - intros u. unfold off, qlen; cbn [ticket users thr set_thr]. thr_cases u t.
    + intros O. rewrite (Hk O). apply Iin. apply Ho. exact O.
    + apply Iin.
  - intros u v. thr_cases u t; thr_cases v t; auto.
    + intros O1 O2 E. rewrite (Hk O1) in E. apply Iinj; auto. apply Ho; auto.
    + intros O1 O2 E. rewrite (Hk O2) in E. apply Iinj; auto. apply Ho; auto.
  - intros k Hk'. unfold qlen in Hk'; cbn [ticket users set_thr] in Hk'.
    destruct (Isurj k Hk') as [u [O E]]. exists u. unfold off; cbn [ticket thr set_thr].
    thr_cases u t; auto. split; [apply Ho; exact O|]. rewrite Hk by (apply Ho; exact O). exact E.
  - intros u. thr_cases u t; auto.
Qed.

(* ---- fewer than 2^32 contenders: the queue never covers the whole circle ---- *)
Lemma outst_lt s t : Inv s -> outst (thr s t) -> (t < nthr s)%nat.
Proof.
  intros I O. destruct (Nat.lt_ge_cases t (nthr s)) as [|G]; auto.
  destruct (i_out s I t G) as [A B]. destruct O; congruence.
Qed.

Lemma queue_list s : Inv s -> forall n : nat, Z.of_nat n <= qlen s ->
  exists l, NoDup l /\ length l = n /\
            forall x, In x l -> outst (thr s x) /\ off s (thr s x) < Z.of_nat n.
Proof.
  intros I. induction n as [|n IH]; intros Hn.
  - exists []. split; [constructor|]. split; [reflexivity|]. intros x [].
  - destruct IH as [l (ND & L & P)]; [lia|].
    destruct (i_surj s I (Z.of_nat n)) as [u [O E]]; [lia|].
    exists (u :: l). split; [|split].
    + constructor; auto. intros H. apply P in H. lia.
    + cbn. congruence.
    + intros x [<-|H]; [split; [exact O|lia]|]. apply P in H. split; [tauto|lia].
Qed.

Lemma queue_room s t : Inv s -> (t < nthr s)%nat -> ~ outst (thr s t) -> qlen s + 1 < W.
Proof.
  intros I Ht NO.
  assert (Q := dist_range (users s) (ticket s)). fold (qlen s) in Q.
  destruct (queue_list s I (Z.to_nat (qlen s))) as [l (ND & L & P)]; [lia|].
  assert (ND' : NoDup (t :: l)).
  { constructor; auto. intros H. apply P in H. tauto. }
  assert (Inc : incl (t :: l) (seq 0 (nthr s))).
  { intros x [<-|H]; apply in_seq; [lia|]. apply P in H. destruct H as [O _].
    pose proof (outst_lt s x I O). lia. }
  pose proof (NoDup_incl_length ND' Inc) as Len. cbn in Len. rewrite seq_length, L in Len.
  pose proof (i_n s I). lia.
Qed.

(* ---------------- the three global steps ---------------- *)
(* (1) fetch_add on users: thread t joins the queue at the tail *)
Lemma lfadd_inv s t :
  Inv s -> (t < nthr s)%nat -> pc (thr s t) = LFadd ->
  Inv {| ticket := ticket s; users := wrap (users s + 1);
         thr := upd (thr s) t {| pc := LSpin; my := users s; held := held (thr s t);
                                 prog := prog (thr s t); opi := opi (thr s t) |};
         nthr := nthr s |}.
Proof.
  intros I Ht Hpc. pose proof I as [Itr Iur In Iout Imy Ipc Iin Iinj Isurj Iheld].
  remember (thr s t) as T eqn:HT.
  assert (Hh : held T = false).
  { pose proof (Ipc t) as P. rewrite <- HT in P. unfold pc_ok in P. rewrite Hpc in P. exact P. }
  assert (NO : ~ outst (thr s t)).
  { rewrite <- HT. intros [A|A]; congruence. }
  pose proof (queue_room s t I Ht NO) as Room.
  assert (Q' : dist (wrap (users s + 1)) (ticket s) = qlen s + 1) by (apply dist_inc; auto).
  constructor; cbn [ticket users thr nthr]; auto.
  - apply wrap_range.
  - intros u Hu. rewrite upd_other by lia. auto.
  - intros u. thr_cases u t; cbn; auto.
  - intros u. thr_cases u t; auto.
  - intros u. unfold off, qlen; cbn [ticket users thr]. rewrite Q'. thr_cases u t.
    + intros _. cbn [my]. fold (qlen s). lia.
    + intros O. specialize (Iin u O). unfold off in Iin. lia.
  - intros u v. thr_cases u t; thr_cases v t; auto; cbn [my]; intros O1 O2 E.
    + specialize (Iin v O2). unfold off, qlen in Iin. rewrite <- E in Iin. lia.
    + specialize (Iin u O1). unfold off, qlen in Iin. rewrite E in Iin. lia.
  - intros k Hk. unfold qlen in Hk; cbn [ticket users] in Hk. rewrite Q' in Hk.
    unfold off; cbn [ticket thr].
    destruct (Z.eq_dec k (qlen s)) as [->|Nk].
    + exists t. rewrite upd_same. split; [left; reflexivity|reflexivity].
    + destruct (Isurj k ltac:(lia)) as [u [O E]]. exists u.
      assert (u <> t) by (intros ->; tauto).
      rewrite upd_other by assumption. auto.
  - intros u. thr_cases u t; auto. cbn. congruence.
Qed.

(* (2) trylock's CAS succeeds: the word was (u,u), nobody holds or queues *)
Lemma tcas_free s t :
  Inv s -> blob s = my (thr s t) * W + my (thr s t) ->
  ticket s = my (thr s t) /\ users s = my (thr s t) /\ qlen s = 0 /\
  forall u, ~ outst (thr s u).
Proof.
  intros I E. destruct (blob_eq (users s) (ticket s) (my (thr s t))) as [A B];
    auto using (i_ur s I), (i_tr s I), (i_my s I t).
  assert (Q : qlen s = 0) by (unfold qlen; rewrite A, B; apply dist_self, (i_my s I t)).
  repeat split; auto.
  intros u O. pose proof (i_in s I u O) as H. pose proof (dist_range (my (thr s u)) (ticket s)).
  unfold off in H. lia.
Qed.

Lemma tcas_inv s t x :
  Inv s -> (t < nthr s)%nat -> blob s = my (thr s t) * W + my (thr s t) ->
  held x = true -> my x = my (thr s t) -> pc_ok x ->
  Inv {| ticket := my (thr s t); users := wrap (my (thr s t) + 1);
         thr := upd (thr s) t x; nthr := nthr s |}.
Proof.
  intros I Ht E Hx Mx Px. destruct (tcas_free s t I E) as (A & B & Q & NO).
  pose proof I as [Itr Iur In Iout Imy Ipc Iin Iinj Isurj Iheld].
  remember (my (thr s t)) as K eqn:HK.
  assert (RK : 0 <= K < W) by (subst K; apply Imy).
  pose proof W_big as WB.
  assert (Q' : dist (wrap (K + 1)) K = 1).
  { rewrite dist_inc; auto; rewrite dist_self; auto; lia. }
  assert (OX : forall u, outst (upd (thr s) t x u) -> u = t).
  { intros u. thr_cases u t; auto. intros O. exfalso. exact (NO u O). }
  constructor; cbn [ticket users thr nthr]; auto.
  - apply wrap_range.
  - intros u Hu. rewrite upd_other by lia. auto.
  - intros u. thr_cases u t; auto. lia.
  - intros u. thr_cases u t; auto.
  - intros u O. apply OX in O. subst u. unfold off, qlen; cbn [ticket users thr].
    rewrite upd_same, Mx, Q', dist_self; auto; lia.
  - intros u v O1 O2 _. apply OX in O1. apply OX in O2. congruence.
  - intros k Hk. unfold qlen in Hk; cbn [ticket users] in Hk. rewrite Q' in Hk.
    exists t. unfold off; cbn [ticket thr]. rewrite upd_same. split; [right; exact Hx|].
    rewrite Mx, dist_self; auto; lia.
  - intros u. thr_cases u t; auto. intros H. exfalso. apply (NO u). right. exact H.
Qed.

(* (3) unlock's store: the head of the queue leaves, everybody moves up *)
Lemma ustore_facts s t :
  Inv s -> pc (thr s t) = UStore ->
  held (thr s t) = true /\ my (thr s t) = ticket s /\ 1 <= qlen s /\
  dist (users s) (wrap (ticket s + 1)) = qlen s - 1 /\
  forall u, u <> t -> outst (thr s u) ->
    dist (my (thr s u)) (wrap (ticket s + 1)) = off s (thr s u) - 1 /\ 1 <= off s (thr s u).
Proof.
  intros I Hpc. pose proof I as [Itr Iur In Iout Imy Ipc Iin Iinj Isurj Iheld].
  assert (Hh : held (thr s t) = true).
  { pose proof (Ipc t) as P. unfold pc_ok in P. rewrite Hpc in P. exact P. }
  assert (HK : my (thr s t) = ticket s) by (apply Iheld; exact Hh).
  assert (OT : outst (thr s t)) by (right; exact Hh).
  assert (O0 : off s (thr s t) = 0) by (unfold off; rewrite HK; apply dist_self; auto).
  pose proof (Iin t OT) as Q1. rewrite O0 in Q1.
  split; [exact Hh|]. split; [exact HK|]. split; [lia|]. split.
  { apply dist_dec; auto. unfold qlen in Q1. lia. }
  intros u Hne O.
  assert (off s (thr s u) <> 0).
  { intros Z. apply Hne. apply Iinj; auto. rewrite HK.
    apply (dist_inj _ _ (ticket s)); auto. unfold off in Z. rewrite Z. symmetry. apply dist_self; auto. }
  pose proof (dist_range (my (thr s u)) (ticket s)) as R. unfold off in *.
  split; [|lia]. apply dist_dec; auto. lia.
Qed.

Lemma ustore_inv s t x :
  Inv s -> (t < nthr s)%nat -> pc (thr s t) = UStore ->
  ~ outst x -> 0 <= my x < W -> pc_ok x ->
  Inv {| ticket := wrap (my (thr s t) + 1); users := users s;
         thr := upd (thr s) t x; nthr := nthr s |}.
Proof.
  intros I Ht Hpc NX Mx Px. pose proof I as [Itr Iur In Iout Imy Ipc Iin Iinj Isurj Iheld].
  destruct (ustore_facts s t I Hpc) as (Hh & HK & Q1 & Q' & Other).
  assert (OT : outst (thr s t)) by (right; exact Hh).
  assert (O0 : off s (thr s t) = 0) by (unfold off; rewrite HK; apply dist_self; auto).
  rewrite HK.
  constructor; cbn [ticket users thr nthr]; auto.
  - apply wrap_range.
  - intros u Hu. rewrite upd_other by lia. auto.
  - intros u. thr_cases u t; auto.
  - intros u. thr_cases u t; auto.
  - intros u. unfold off, qlen; cbn [ticket users thr]. rewrite Q'. thr_cases u t; [tauto|].
    intros O. destruct (Other u n O) as [E _]. rewrite E. specialize (Iin u O). lia.
  - intros u v. thr_cases u t; thr_cases v t; auto; tauto.
  - intros k Hk. unfold qlen in Hk; cbn [ticket users] in Hk. rewrite Q' in Hk.
    destruct (Isurj (k + 1) ltac:(lia)) as [u [O E]].
    assert (u <> t) by (intros ->; lia).
    exists u. unfold off; cbn [ticket thr]. rewrite upd_other by assumption. split; auto.
    destruct (Other u H O) as [E' _]. lia.
  - intros u. thr_cases u t.
    + intros H. exfalso. apply NX. right. exact H.
    + intros H. exfalso. apply n. apply Iinj; auto; [right; exact H|]. rewrite (Iheld u H). auto.
Qed.

(* ---------------- every step preserves the invariant ---------------- *)
Lemma status_ready s t : status_of s t = SReady -> (t < nthr s)%nat.
Proof.
  unfold status_of. destruct (Nat.ltb_spec t (nthr s)); auto. discriminate.
Qed.

Theorem step_inv s t : Inv s -> (t < nthr s)%nat -> Inv (fst (step s t)).
Proof.
  intros I Ht. unfold step. remember (thr s t) as T eqn:HT.
  pose proof (i_pc s I t) as PT. rewrite <- HT in PT. unfold pc_ok in PT.
  pose proof (i_my s I t) as MT. rewrite <- HT in MT.
  destruct (pc T) eqn:Hpc; cbn [fst].
  - (* LFadd *) subst T. apply lfadd_inv; auto.
  - (* LSpin *)
    destruct (Z.eqb_spec (ticket s) (my T)) as [E|E]; cbn [fst]; [|exact I].
    unfold next_op; cbn [my held prog opi].
    pose proof (begin_spec t (my T) true (prog T) (opi T)) as B.
    destruct (begin t (my T) true (prog T) (opi T)) as [T' e']. cbn in B.
    destruct B as (B1 & B2 & B3 & B4 & _). cbn [fst].
    apply local_step; [exact I|exact Ht|..].
    + rewrite B1. exact MT.
    + exact B3.
    + rewrite <- HT. split; intros _; [left; exact Hpc|right; exact B2].
    + intros _. rewrite <- HT. exact B1.
    + intros _. rewrite B1. auto.
  - (* TRead *)
    apply local_step; [exact I|exact Ht|..]; cbn [my held pc].
    + apply (i_ur s I).
    + unfold pc_ok; cbn. exact PT.
    + rewrite <- HT. unfold outst; cbn. rewrite Hpc, PT. split; intros [A|A]; discriminate.
    + intros [A|A]; cbn in A; congruence.
    + congruence.
  - (* TCas *)
    destruct (Z.eqb_spec (blob s) (my T * W + my T)) as [E|E].
    + unfold next_op; cbn [my held prog opi].
      pose proof (begin_spec t (my T) true (prog T) (opi T)) as B.
      destruct (begin t (my T) true (prog T) (opi T)) as [T' e']. cbn in B.
      destruct B as (B1 & B2 & B3 & _). cbn [fst].
      subst T. apply tcas_inv; auto.
    + unfold next_op. rewrite PT.
      pose proof (begin_spec t (my T) false (prog T) (opi T)) as B.
      pose proof (not_outst_begin t (my T) (prog T) (opi T)) as NB.
      destruct (begin t (my T) false (prog T) (opi T)) as [T' e']. cbn in B, NB.
      destruct B as (B1 & B2 & B3 & _). cbn [fst].
      apply local_step; [exact I|exact Ht|..].
      * rewrite B1. exact MT.
      * exact B3.
      * rewrite <- HT. split; [tauto|]. intros [A|A]; congruence.
      * tauto.
      * congruence.
  - (* URead *)
    assert (HK : my T = ticket s) by (rewrite HT; apply (i_held s I); rewrite <- HT; exact PT).
    apply local_step; [exact I|exact Ht|..]; cbn [my held pc].
    + apply (i_tr s I).
    + unfold pc_ok; cbn. exact PT.
    + rewrite <- HT. unfold outst; cbn. rewrite PT. tauto.
    + intros _. rewrite <- HT. symmetry. exact HK.
    + intros _. reflexivity.
  - (* UStore *)
    unfold next_op; cbn [my held prog opi].
    pose proof (begin_spec t (my T) false (prog T) (opi T)) as B.
    pose proof (not_outst_begin t (my T) (prog T) (opi T)) as NB.
    destruct (begin t (my T) false (prog T) (opi T)) as [T' e']. cbn in B, NB.
    destruct B as (B1 & B2 & B3 & _). cbn [fst].
    subst T. apply ustore_inv; auto. rewrite B1. exact MT.
  - (* Fin *) exact I.
Qed.

Theorem reachable_inv start progs s :
  Z.of_nat (length progs) < W -> reachable M (init start progs) s -> Inv s.
Proof.
  intros Hn. apply (invariant_ind M Inv (init start progs)).
  - apply init_inv. exact Hn.
  - intros s0 t I R. apply step_inv; auto. apply status_ready. exact R.
Qed.
