(* C11, multi channel: proofs about the FAITHFUL model coq/MChan.v, part 2.

   Mutual exclusion of the T1K fiber_mutex is property C03 (proved elsewhere);
   here it is a HYPOTHESIS on the execution: [holds s t] says that fiber t
   holds the channel lock in state s (read off the shape of its stack),
   [excl s] that at most one fiber does, and [reach_excl] are the states
   reachable through states that all satisfy [excl].  For all such states, any
   number of fibers, any programs, any schedule, any size 2^k:

     multichan_capacity_partial               0 <= high - low <= size, and the slot a
                                              send is about to write holds 0
     multichan_exactly_once_in_order_partial  instrumented machine with ghost logs:
                                              rlog (receives, in the order of the
                                              low := lo+1 writes) is a prefix of slog
                                              (sends, in the order of the high := hi+1
                                              writes)
   "_partial": relative to the hypothesis [excl] (= C03 for this client). *)
From Coq Require Import List ZArith Lia Bool Arith.
From LF Require Import Conc T1K MChan MChanProofs.
Import ListNotations.
Local Open Scope Z_scope.

Arguments fname : simpl never.
Arguments Zn : simpl never.
Arguments tid_of_name : simpl never.
Arguments c_scr : simpl never.
Arguments c_buf : simpl never.
Arguments bidx : simpl never.
Arguments Z.add : simpl nomatch.
Arguments Z.sub : simpl nomatch.
Arguments Z.ltb : simpl nomatch.
Arguments Z.eqb : simpl nomatch.

(* ------------------------------------------------------------------ *)
(* who holds the channel lock *)

(* the client continuation at the bottom of a stack *)
Fixpoint bottom (S : stack mc) : option mc :=
  match S with
  | [] => None
  | FC c :: [] => Some c
  | _ :: r => bottom r
  end.

(* continuations of the critical section proper: between the return of
   fiber_mutex_lock and the call of fiber_mutex_unlock / the yield of internal_wait *)
Definition cs_cont (c : mc) : bool :=
  match c with
  | MNext _ _ | MLocked _ _ _ | MUnl _ _ _ | MWt5 _ _ _ => false
  | _ => true
  end.

(* fiber t holds the lock: from the moment LSub / LWaited returned into MLocked
   (which at once becomes [CRead c_high; FC (MHigh ..)]) until its [UAdd 0]
   step executes: in fiber_mutex_unlock ([UAdd 0; UYield; FC (MUnl ..)]) or, for
   a fiber that went to wait, in its maintenance ([UAdd 0; MSlots; YLoop;
   FC (MWt5 ..)]; until then the unlock is pending in its manager's
   mutex_to_unlock slot) *)
Definition holds (s : st) (t : nat) : Prop :=
  match bottom (stk s t) with
  | Some (MUnl _ _ _) => In (UAdd 0%nat) (stk s t)
  | Some (MWt5 _ _ _) => slot_mutex (mem s) t = Some 0%nat \/ In (UAdd 0%nat) (stk s t)
  | Some c => cs_cont c = true
  | None => False
  end.

Definition excl (s : st) : Prop := forall t u, holds s t -> holds s u -> t = u.

(* states reachable through states that all satisfy excl *)
Inductive reach_excl (k : nat) (progs : list (list mop)) : st -> Prop :=
| re_init : reach_excl k progs (init k progs)
| re_step s t : reach_excl k progs s -> status_of s t = SReady ->
                excl (fst (step s t)) -> reach_excl k progs (fst (step s t)).

(* the part of [holds] the proofs below use: the stack is exactly one client
   access on top of a critical-section continuation *)
Definition cs_of (S : stack mc) : option (frame mc * mc) :=
  match S with
  | [f; FC c] => if cs_cont c then Some (f, c) else None
  | _ => None
  end.

Lemma bottom_two f c : bottom [f; FC c] = Some c.
Proof. destruct f; reflexivity. Qed.

Lemma cs_of_some S f c : cs_of S = Some (f, c) -> S = [f; FC c] /\ cs_cont c = true.
Proof.
  destruct S as [|f0 [|g [|h r]]]; cbn; try discriminate;
    destruct g; try discriminate. destruct (cs_cont c0) eqn:E; [|discriminate].
  intros H. inversion H; subst. split; [reflexivity | exact E].
Qed.

Lemma cs_of_holds s t : cs_of (stk s t) <> None -> holds s t.
Proof.
  destruct (cs_of (stk s t)) as [[f c]|] eqn:E; [intros _ | congruence].
  apply cs_of_some in E. destruct E as [E Hc]. unfold holds. rewrite E, bottom_two.
  destruct c; try discriminate; exact Hc.
Qed.

Lemma init_no_holder k progs t : ~ holds (init k progs) t.
Proof. unfold holds. cbn. auto. Qed.

Lemma init_excl k progs : excl (init k progs).
Proof. intros t u H. destruct (init_no_holder _ _ _ H). Qed.

Lemma reach_excl_reachable k progs s : reach_excl k progs s -> reachable M (init k progs) s.
Proof.
  induction 1 as [|s t R IH St E]; [constructor|].
  apply (reach_step M (init k progs) s t IH St).
Qed.

Lemma reach_excl_excl k progs s : reach_excl k progs s -> excl s.
Proof. destruct 1; [apply init_excl | assumption]. Qed.

(* ------------------------------------------------------------------ *)
(* base shape invariant: every stack is empty, or one client access of the
   critical section (exact), or kernel frames of lock / unlock / yield on top of
   one of the continuations MNext, MLocked, MUnl, MWt5 (coarse) *)

Definition kfr (f : frame mc) : bool :=
  match f with
  | Start | YRead | YNext _ | SwRead | SwReady | SwDone | MRead | MFlip | MSlots
  | Asleep | Resume | YLoop
  | WSaving _ | WData _ | WNext _ _ | WXchg _ _ | WLink _ _ _
  | KHead _ _ _ | KNext _ _ _ _ | KSetHead _ _ _ _ _ | KData _ _ _ _ _
  | KCopy _ _ _ _ _ | KOut _ _ _ _ | KState _ _ _ _ | KReady _ _ _ _ | KSpin _ _ _
  | LSub _ | LWaited | UAdd _ | UWoke | UYield | UDone => true
  | _ => false
  end.

Definition ccont (c : mc) : bool := negb (cs_cont c).

(* what a kernel step can produce *)
Inductive kshaped : stack mc -> Prop :=
| ks_done : kshaped []
| ks_coarse l c : forallb kfr l = true -> ccont c = true -> kshaped (l ++ [FC c])
| ks_acq a p k : kshaped [CRead c_high; FC (MHigh a p k)].

Inductive shaped (t : nat) : stack mc -> Prop :=
| sh_k S : kshaped S -> shaped t S
| sh_low a hi p k : shaped t [CRead c_low; FC (MLow a hi p k)]
| sh_sidx x p k : shaped t [CRead c_high; FC (MSIdx x p k)]
| sh_sbuf i x p k : shaped t [CWrite (c_buf i) x; FC (MSBuf p k)]
| sh_shigh2 p k : shaped t [CRead c_high; FC (MSHigh2 p k)]
| sh_swk0 v p k : shaped t [CWrite c_high v; FC (MWk0 0 p k)]
| sh_ridx p k : shaped t [CRead c_low; FC (MRIdx p k)]
| sh_rbuf i p k : shaped t [CRead (c_buf i); FC (MRBuf i p k)]
| sh_rclr i m p k : shaped t [CWrite (c_buf i) 0; FC (MRClr m p k)]
| sh_rlow2 m p k : shaped t [CRead c_low; FC (MRLow2 m p k)]
| sh_rwk0 v m p k : shaped t [CWrite c_low v; FC (MWk0 m p k)]
| sh_wk1 r p k : shaped t [CRead c_waiters; FC (MWk1 r p k)]
| sh_wk2 r p k : shaped t [CRead c_waiters; FC (MWk2 r p k)]
| sh_wk3 r f p k : shaped t [CRead (c_scr f); FC (MWk3 r f p k)]
| sh_wk4 r f v p k : shaped t [CWrite c_waiters v; FC (MWk4 r f p k)]
| sh_wk5 r f p k : shaped t [CWrite (c_scr f) 0; FC (MWk5 r f p k)]
| sh_wk6 r f p k : shaped t [FStWrite f ST_READY; FC (MWk6 r f p k)]
| sh_wt1 a p k : shaped t [CRead c_waiters; FC (MWt1 a p k)]
| sh_wt2 a v p k : shaped t [CWrite (c_scr t) v; FC (MWt2 a p k)]
| sh_wt3 a p k : shaped t [CWrite c_waiters (fname t); FC (MWt3 a p k)]
| sh_wt4 a p k : shaped t [FStWrite t ST_WAITING; FC (MWt4 a p k)].

Definition nowait (m : kmem) : Prop := forall u, slot_wait m u = None.

Record BInv (s : st) : Prop := {
  b_shape : forall t, shaped t (stk s t);
  b_nowait : nowait (mem s);
  b_size : 0 < csize s
}.

Lemma ks_coarse' S l c : S = l ++ [FC c] -> forallb kfr l = true -> ccont c = true -> kshaped S.
Proof. intros ->. apply ks_coarse. Qed.

Lemma kshaped_start p k : kshaped (start p k).
Proof.
  destruct p as [|[v|] r]; cbn; [constructor | |].
  - apply (ks_coarse [LSub 0%nat]); reflexivity.
  - apply (ks_coarse [LSub 0%nat]); reflexivity.
Qed.

Lemma kshaped_attempt a p k : kshaped (attempt a p k).
Proof. apply (ks_coarse [LSub 0%nat]); reflexivity. Qed.

(* the coarse continuations, when control returns to them *)
Lemma ccont_ret size m t c v :
  ccont c = true ->
  let '(m1, e1, s1) := cret size m t c v in kshaped s1 /\ m1 = m.
Proof.
  destruct c; cbn; try discriminate; intros _; split; auto.
  - apply kshaped_start.
  - constructor.
  - apply kshaped_start.
  - apply kshaped_attempt.
Qed.

Lemma wake_cell m f : cell (wake m f) = cell m.
Proof. unfold wake. destruct (blocked m f); reflexivity. Qed.
Lemma wake_slot_wait m f : slot_wait (wake m f) = slot_wait m.
Proof. unfold wake. destruct (blocked m f); reflexivity. Qed.
Lemma wake_nowait m f : nowait m -> nowait (wake m f).
Proof. intros H u. rewrite wake_slot_wait. apply H. Qed.

(* result of a kernel step: shape, client cells untouched, still no set_wait slot *)
Definition kpost (m : kmem) (R : kmem * list Z * stack mc) : Prop :=
  let '(m1, e1, s1) := R in kshaped s1 /\ cell m1 = cell m /\ nowait m1.

Lemma sleep_k m0 m t l c :
  forallb kfr l = true -> ccont c = true -> cell m = cell m0 -> nowait m ->
  kpost m0 (sleep mc m t (l ++ [FC c])).
Proof.
  intros Hl Hc Hm Hw. unfold sleep, kpost. destruct (pend m t).
  - split; [|split; [exact Hm | exact Hw]].
    apply (ks_coarse (Asleep :: l)); [exact Hl | exact Hc].
  - split; [|split; [exact Hm | exact Hw]].
    apply (ks_coarse (Resume :: l)); [exact Hl | exact Hc].
Qed.

Lemma run_slots_k m0 m t l c :
  forallb kfr l = true -> ccont c = true -> cell m = cell m0 -> nowait m ->
  kpost m0 (run_slots mc m t (l ++ [FC c])).
Proof.
  intros Hl Hc Hm Hw. unfold run_slots.
  set (R1 := if slot_sched m t then (wake (set_slot_sched m t false) t, ev t 901 919 (Zn t)) else (m, [])).
  assert (H1 : cell (fst R1) = cell m0 /\ nowait (fst R1)).
  { unfold R1. destruct (slot_sched m t); cbn [fst].
    - rewrite wake_cell. split; [exact Hm|]. apply wake_nowait. exact Hw.
    - split; assumption. }
  destruct R1 as [m1 e1]. cbn [fst] in H1. destruct H1 as [C1 W1].
  set (m2 := match slot_mpmc m1 t with
             | Some q => set_mq (set_slot_mpmc m1 t None) q (mq m1 q ++ [t])
             | None => m1 end).
  assert (H2 : cell m2 = cell m0 /\ nowait m2).
  { unfold m2. destruct (slot_mpmc m1 t); [|split; assumption]. split; [exact C1 | exact W1]. }
  destruct H2 as [C2 W2]. clearbody m2.
  destruct (slot_mutex m2 t) as [q|].
  - unfold kpost. split; [|split; [exact C2 | exact W2]].
    apply (ks_coarse (UAdd q :: MSlots :: l)); [exact Hl | exact Hc].
  - rewrite (W2 t).
    pose proof (sleep_k m0 m2 t l c Hl Hc C2 W2) as K.
    destruct (sleep mc m2 t (l ++ [FC c])) as [[m3 e3] s3]. exact K.
Qed.

Lemma ret_k size m0 t l c : forall m v,
  forallb kfr l = true -> ccont c = true -> cell m = cell m0 -> nowait m ->
  kpost m0 (ret mc (cret size) m t v (l ++ [FC c])).
Proof.
  induction l as [|f l IH]; intros m v Hl Hc Hm Hw.
  - cbn. pose proof (ccont_ret size m t c v Hc) as R.
    destruct (cret size m t c v) as [[m1 e1] s1]. destruct R as [R ->].
    rewrite app_nil_r. split; [exact R | split; assumption].
  - cbn [forallb] in Hl. apply andb_prop in Hl. destruct Hl as [Hf Hl].
    destruct f; try discriminate; cbn [app ret];
      try (apply IH; assumption);
      try (split; [|split; [exact Hm | exact Hw]];
           match goal with |- kshaped (?f :: ?l ++ [FC ?c]) =>
             apply (ks_coarse (f :: l)); [exact Hl | exact Hc] end).
    + (* MSlots *) apply run_slots_k; assumption.
    + (* KSpin *) unfold kloop. destruct (wc <? cnt).
      * split; [|split; [exact Hm | exact Hw]].
        apply (ks_coarse (KHead q cnt wc :: l)); [exact Hl | exact Hc].
      * apply IH; assumption.
    + (* UYield *) destruct (v =? 1).
      * split; [|split; [exact Hm | exact Hw]].
        apply (ks_coarse (YRead :: UDone :: l)); [exact Hl | exact Hc].
      * apply IH; assumption.
Qed.

(* pieces used to close kernel-step goals *)
Ltac k_ret size m0 l c Hl Hc :=
  match goal with
  | |- context [ret mc ?cr ?mm ?t ?v (l ++ [FC c])] =>
      let K := fresh "K" in
      assert (K : kpost m0 (ret mc cr mm t v (l ++ [FC c])));
      [ apply (ret_k size m0 t l c mm v Hl Hc);
        [ try reflexivity; try (rewrite wake_cell; reflexivity)
        | try assumption; try (apply wake_nowait; assumption) ]
      | destruct (ret mc cr mm t v (l ++ [FC c])) as [[? ?] ?]; exact K ]
  end.

Ltac k_frames l c Hl Hc Hw :=
  split; [ match goal with
           | |- kshaped (?a :: ?b :: ?d :: l ++ [FC c]) => apply (ks_coarse (a :: b :: d :: l)); [exact Hl | exact Hc]
           | |- kshaped (?a :: ?b :: l ++ [FC c]) => apply (ks_coarse (a :: b :: l)); [exact Hl | exact Hc]
           | |- kshaped (?a :: l ++ [FC c]) => apply (ks_coarse (a :: l)); [exact Hl | exact Hc]
           end
         | split; [ try reflexivity; try (rewrite wake_cell; reflexivity)
                  | try exact Hw; try (apply wake_nowait; exact Hw) ] ].

Ltac k_rs m0 l c :=
  match goal with
  | |- context [run_slots mc ?mm ?t (l ++ [FC c])] =>
      let K := fresh "K" in
      assert (K : kpost m0 (run_slots mc mm t (l ++ [FC c])))
        by (apply run_slots_k; (assumption || reflexivity));
      destruct (run_slots mc mm t (l ++ [FC c])) as [[? ?] ?]; exact K
  end.

Lemma ksched_k size m0 m t q cnt wc f e l c :
  forallb kfr l = true -> ccont c = true -> cell m = cell m0 -> nowait m ->
  kpost m0 (ksched mc (cret size) m t q cnt wc f e (l ++ [FC c])).
Proof.
  intros Hl Hc Hm Hw. unfold ksched, kloop.
  destruct (wc + 1 <? cnt).
  - split; [apply (ks_coarse (KHead q cnt (wc + 1) :: l)); [exact Hl | exact Hc]|].
    split; [rewrite wake_cell; exact Hm | apply wake_nowait; exact Hw].
  - assert (K : kpost m0 (ret mc (cret size) (wake m f) t (wc + 1) (l ++ [FC c]))).
    { apply ret_k; try assumption; [rewrite wake_cell; exact Hm | apply wake_nowait; exact Hw]. }
    destruct (ret mc (cret size) (wake m f) t (wc + 1) (l ++ [FC c])) as [[? ?] ?]. exact K.
Qed.

(* one step of a fiber whose stack is kernel frames over a coarse continuation *)
Lemma kstep_k size m t f l c :
  kfr f = true -> forallb kfr l = true -> ccont c = true -> nowait m ->
  kpost m (kstepC size m t (f :: l ++ [FC c])).
Proof.
  intros Hf Hl Hc Hw.
  destruct f; try discriminate; unfold kstepC; cbn [kstep].
  all: repeat match goal with
              | |- kpost _ (if ?b then _ else _) => destruct b
              | |- kpost _ (match nnext ?m ?h with O => _ | S _ => _ end) => destruct (nnext m h)
              | |- kpost _ (match kloop _ _ _ _ with Some _ => _ | None => _ end) => unfold kloop
              | |- kpost _ (match (if ?b then _ else _) with Some _ => _ | None => _ end) => destruct b
              end.
  all: try (k_ret size m l c Hl Hc).
  all: try (k_frames l c Hl Hc Hw).
  all: try (apply ksched_k; (assumption || reflexivity)).
  all: try (k_rs m l c).
Qed.

Lemma binv_of_kstep s t :
  BInv s ->
  (let '(m1, e1, s1) := kstepC (csize s) (mem s) t (stk s t) in
   shaped t s1 /\ nowait m1) ->
  BInv (fst (step s t)).
Proof.
  intros B H. unfold step.
  destruct (kstepC (csize s) (mem s) t (stk s t)) as [[m1 e1] s1].
  destruct H as [H1 H2]. constructor; cbn.
  - intros u. destruct (Nat.eq_dec u t) as [->|Hne].
    + rewrite upd_same. exact H1.
    + rewrite upd_other by assumption. apply (b_shape s B).
  - exact H2.
  - apply (b_size s B).
Qed.

Lemma init_binv k progs : BInv (init k progs).
Proof.
  constructor; cbn.
  - intros t. apply sh_k. apply (ks_coarse [Start]); reflexivity.
  - intros u. reflexivity.
  - apply Z.pow_pos_nonneg; lia.
Qed.

(* a step of a fiber outside the exact shapes *)
Lemma kshaped_step size m t S :
  kshaped S -> nowait m ->
  (exists a p k, S = [CRead c_high; FC (MHigh a p k)]) \/ kpost m (kstepC size m t S).
Proof.
  intros K Hw. destruct K as [|l c Hl Hc|a p k].
  - right. cbn. split; [constructor | split; [reflexivity | exact Hw]].
  - right. destruct l as [|f l].
    + cbn. split; [apply (ks_coarse [] c); [reflexivity | exact Hc] | split; [reflexivity | exact Hw]].
    + cbn [forallb] in Hl. apply andb_prop in Hl. destruct Hl as [Hf Hl].
      apply (kstep_k size m t f l c Hf Hl Hc Hw).
  - left. eauto.
Qed.

Lemma binv_step s t : BInv s -> BInv (fst (step s t)).
Proof.
  intros B. apply binv_of_kstep; [exact B|].
  pose proof (b_shape s B t) as Sh. pose proof (b_nowait s B) as Nw.
  remember (stk s t) as S eqn:ES. remember (csize s) as size eqn:Esz. clear ES.
  destruct Sh as [S K | | | | | | | | | | | | | | | | | | | | ].
  - destruct (kshaped_step size (mem s) t S K Nw) as [(a & p & k & ->)|P].
    + cbn. split; [constructor | exact Nw].
    + destruct (kstepC size (mem s) t S) as [[m1 e1] s1]. destruct P as (P1 & _ & P3).
      split; [apply sh_k; exact P1 | exact P3].
  - cbn. Show.
Qed.
