(* C11, multi channel: proofs about the FAITHFUL model coq/MChan.v, part 2.

   Mutual exclusion of the T1K fiber_mutex is property C03 (proved elsewhere);
   here it is a HYPOTHESIS on the execution: [holds s t] says that fiber t
   holds the channel lock in state s (read off the shape of its stack),
   [excl s] that at most one fiber does, and [reach_excl] are the states
   reachable through states that all satisfy [excl].  Everything is stated for
   BOTH variants of the model (ol = false: the code in /repo with separate
   sender / receiver waiter lists; ol = true: the original one-list protocol):
   [reach_excl ol k progs] / [ireach_excl ol k progs] start from
   [init_ol ol k progs].  For all such states, any number of fibers, any
   programs, any schedule, any size 2^k:

     multichan_capacity_partial               0 <= high - low <= size, and the slot a
                                              send is about to write holds 0
     multichan_exactly_once_in_order_partial  instrumented machine with ghost logs:
                                              rlog (receives, in the order of the
                                              low := lo+1 writes) is a prefix of slog
                                              (sends, in the order of the high := hi+1
                                              writes)
   "_partial": relative to the hypothesis [excl] (= C03 for this client). *)
From Coq Require Import List ZArith Lia Bool Arith.
From LF Require Import Conc T1K MChan MChanProofs.
Import ListNotations.
Local Open Scope Z_scope.

Arguments fname : simpl never.
Arguments Zn : simpl never.
Arguments tid_of_name : simpl never.
Arguments c_scr : simpl never.
Arguments c_buf : simpl never.
Arguments bidx : simpl never.
Arguments wait_list : simpl never.
Arguments wake_list : simpl never.
Arguments Z.add : simpl nomatch.
Arguments Z.sub : simpl nomatch.
Arguments Z.ltb : simpl nomatch.
Arguments Z.eqb : simpl nomatch.

(* ------------------------------------------------------------------ *)
(* who holds the channel lock *)

(* the client continuation at the bottom of a stack *)
Fixpoint bottom (S : stack mc) : option mc :=
  match S with
  | [] => None
  | FC c :: [] => Some c
  | _ :: r => bottom r
  end.

(* continuations of the critical section proper: between the return of
   fiber_mutex_lock and the call of fiber_mutex_unlock / the yield of internal_wait *)
Definition cs_cont (c : mc) : bool :=
  match c with
  | MNext _ _ | MLocked _ _ _ | MUnl _ _ _ | MWt5 _ _ _ => false
  | _ => true
  end.

(* fiber t holds the lock: from the moment LSub / LWaited returned into MLocked
   (which at once becomes [CRead c_high; FC (MHigh ..)]) until its [UAdd 0]
   step executes: in fiber_mutex_unlock ([UAdd 0; UYield; FC (MUnl ..)]) or, for
   a fiber that went to wait, in its maintenance ([UAdd 0; MSlots; YLoop;
   FC (MWt5 ..)]; until then the unlock is pending in its manager's
   mutex_to_unlock slot) *)
Definition holds (s : st) (t : nat) : Prop :=
  match bottom (stk s t) with
  | Some (MUnl _ _ _) => In (UAdd 0%nat) (stk s t)
  | Some (MWt5 _ _ _) => slot_mutex (mem s) t = Some 0%nat \/ In (UAdd 0%nat) (stk s t)
  | Some c => cs_cont c = true
  | None => False
  end.

Definition excl (s : st) : Prop := forall t u, holds s t -> holds s u -> t = u.

(* states reachable through states that all satisfy excl *)
Inductive reach_excl (ol : bool) (k : nat) (progs : list (list mop)) : st -> Prop :=
| re_init : reach_excl ol k progs (init_ol ol k progs)
| re_step s t : reach_excl ol k progs s -> status_of s t = SReady ->
                excl (fst (step s t)) -> reach_excl ol k progs (fst (step s t)).

(* the part of [holds] the proofs below use: the stack is exactly one client
   access on top of a critical-section continuation *)
Definition cs_of (S : stack mc) : option (frame mc * mc) :=
  match S with
  | [f; FC c] => if cs_cont c then Some (f, c) else None
  | _ => None
  end.

Lemma bottom_two f c : bottom [f; FC c] = Some c.
Proof. destruct f; reflexivity. Qed.

Lemma cs_of_some S f c : cs_of S = Some (f, c) -> S = [f; FC c] /\ cs_cont c = true.
Proof.
  destruct S as [|f0 [|g [|h r]]]; cbn; try discriminate;
    destruct g; try discriminate. destruct (cs_cont c0) eqn:E; [|discriminate].
  intros H. inversion H; subst. split; [reflexivity | exact E].
Qed.

Lemma cs_of_holds s t : cs_of (stk s t) <> None -> holds s t.
Proof.
  destruct (cs_of (stk s t)) as [[f c]|] eqn:E; [intros _ | congruence].
  apply cs_of_some in E. destruct E as [E Hc]. unfold holds. rewrite E, bottom_two.
  destruct c; try discriminate; exact Hc.
Qed.

Lemma init_no_holder ol k progs t : ~ holds (init_ol ol k progs) t.
Proof. unfold holds. cbn. auto. Qed.

Lemma init_excl ol k progs : excl (init_ol ol k progs).
Proof. intros t u H. destruct (init_no_holder _ _ _ _ H). Qed.

Lemma reach_excl_reachable ol k progs s : reach_excl ol k progs s -> reachable M (init_ol ol k progs) s.
Proof.
  induction 1 as [|s t R IH St E]; [constructor|].
  apply (reach_step M (init_ol ol k progs) s t IH St).
Qed.

Lemma reach_excl_excl ol k progs s : reach_excl ol k progs s -> excl s.
Proof. destruct 1; [apply init_excl | assumption]. Qed.

(* ------------------------------------------------------------------ *)
(* base shape invariant: every stack is empty, or one client access of the
   critical section (exact), or kernel frames of lock / unlock / yield on top of
   one of the continuations MNext, MLocked, MUnl, MWt5 (coarse) *)

Definition kfr (f : frame mc) : bool :=
  match f with
  | Start | YRead | YNext _ | SwRead | SwReady | SwDone | MRead | MFlip | MSlots
  | Asleep | Resume | YLoop
  | WSaving _ | WData _ | WNext _ _ | WXchg _ _ | WLink _ _ _
  | KHead _ _ _ | KNext _ _ _ _ | KSetHead _ _ _ _ _ | KData _ _ _ _ _
  | KCopy _ _ _ _ _ | KOut _ _ _ _ | KState _ _ _ _ | KReady _ _ _ _ | KSpin _ _ _
  | LSub _ | LWaited | UAdd _ | UWoke | UYield | UDone => true
  | _ => false
  end.

Definition ccont (c : mc) : bool := negb (cs_cont c).

(* what a kernel step can produce *)
Inductive kshaped : stack mc -> Prop :=
| ks_done : kshaped []
| ks_coarse l c : forallb kfr l = true -> ccont c = true -> kshaped (l ++ [FC c])
| ks_acq a p k : kshaped [CRead c_high; FC (MHigh a p k)].

(* the cells of the two list heads (not ring cells) *)
Definition lhead (c : nat) : Prop := c = c_waiters \/ c = c_rwaiters.

Lemma lhead_wait ol a : lhead (wait_list ol a).
Proof. unfold lhead, wait_list. destruct ol; [auto|]. destruct a; auto. Qed.
Lemma lhead_wake ol a : lhead (wake_list ol a).
Proof. unfold lhead, wake_list. destruct ol; [auto|]. destruct a; auto. Qed.

Inductive shaped (t : nat) : stack mc -> Prop :=
| sh_k S : kshaped S -> shaped t S
| sh_low a hi p k : shaped t [CRead c_low; FC (MLow a hi p k)]
| sh_sidx x p k : shaped t [CRead c_high; FC (MSIdx x p k)]
| sh_sbuf i x p k : shaped t [CWrite (c_buf i) x; FC (MSBuf p k)]
| sh_shigh2 p k : shaped t [CRead c_high; FC (MSHigh2 p k)]
| sh_swk0 v c0 p k : lhead c0 -> shaped t [CWrite c_high v; FC (MWk0 c0 0 p k)]
| sh_ridx p k : shaped t [CRead c_low; FC (MRIdx p k)]
| sh_rbuf i p k : shaped t [CRead (c_buf i); FC (MRBuf i p k)]
| sh_rclr i m p k : shaped t [CWrite (c_buf i) 0; FC (MRClr m p k)]
| sh_rlow2 m p k : shaped t [CRead c_low; FC (MRLow2 m p k)]
| sh_rwk0 v c0 m p k : lhead c0 -> shaped t [CWrite c_low v; FC (MWk0 c0 m p k)]
| sh_wk1 c0 r p k : lhead c0 -> shaped t [CRead c0; FC (MWk1 c0 r p k)]
| sh_wk2 c0 r p k : lhead c0 -> shaped t [CRead c0; FC (MWk2 c0 r p k)]
| sh_wk3 c0 r f p k : lhead c0 -> shaped t [CRead (c_scr f); FC (MWk3 c0 r f p k)]
| sh_wk4 c0 r f v p k : lhead c0 -> shaped t [CWrite c0 v; FC (MWk4 r f p k)]
| sh_wk5 r f p k : shaped t [CWrite (c_scr f) 0; FC (MWk5 r f p k)]
| sh_wk6 r f p k : shaped t [FStWrite f ST_READY; FC (MWk6 r f p k)]
| sh_wt1 c0 a p k : shaped t [CRead c0; FC (MWt1 a p k)]
| sh_wt2 a v p k : shaped t [CWrite (c_scr t) v; FC (MWt2 a p k)]
| sh_wt3 c0 a p k : lhead c0 -> shaped t [CWrite c0 (fname t); FC (MWt3 a p k)]
| sh_wt4 a p k : shaped t [FStWrite t ST_WAITING; FC (MWt4 a p k)].

Definition nowait (m : kmem) : Prop := forall u, slot_wait m u = None.

Record BInv (s : st) : Prop := {
  b_shape : forall t, shaped t (stk s t);
  b_nowait : nowait (mem s);
  b_size : 0 < csize s
}.

Lemma ks_coarse' S l c : S = l ++ [FC c] -> forallb kfr l = true -> ccont c = true -> kshaped S.
Proof. intros ->. apply ks_coarse. Qed.

Lemma kshaped_start p k : kshaped (start p k).
Proof.
  destruct p as [|[v|] r]; cbn; [constructor | |].
  - apply (ks_coarse [LSub 0%nat]); reflexivity.
  - apply (ks_coarse [LSub 0%nat]); reflexivity.
Qed.

Lemma kshaped_attempt a p k : kshaped (attempt a p k).
Proof. apply (ks_coarse [LSub 0%nat]); reflexivity. Qed.

(* the coarse continuations, when control returns to them *)
Lemma ccont_ret ol size m t c v :
  ccont c = true ->
  let '(m1, e1, s1) := cret ol size m t c v in kshaped s1 /\ m1 = m.
Proof.
  destruct c; cbn; try discriminate; intros _; split; auto.
  - apply kshaped_start.
  - constructor.
  - apply kshaped_start.
  - apply kshaped_attempt.
Qed.

Lemma wake_cell m f : cell (wake m f) = cell m.
Proof. unfold wake. destruct (blocked m f); reflexivity. Qed.
Lemma wake_slot_wait m f : slot_wait (wake m f) = slot_wait m.
Proof. unfold wake. destruct (blocked m f); reflexivity. Qed.
Lemma wake_nowait m f : nowait m -> nowait (wake m f).
Proof. intros H u. rewrite wake_slot_wait. apply H. Qed.

(* result of a kernel step: shape, client cells untouched, still no set_wait slot *)
Definition kpost (m : kmem) (R : kmem * list Z * stack mc) : Prop :=
  let '(m1, e1, s1) := R in kshaped s1 /\ cell m1 = cell m /\ nowait m1.

Lemma sleep_k m0 m t l c :
  forallb kfr l = true -> ccont c = true -> cell m = cell m0 -> nowait m ->
  kpost m0 (sleep mc m t (l ++ [FC c])).
Proof.
  intros Hl Hc Hm Hw. unfold sleep, kpost. destruct (pend m t).
  - split; [|split; [exact Hm | exact Hw]].
    apply (ks_coarse (Asleep :: l)); [exact Hl | exact Hc].
  - split; [|split; [exact Hm | exact Hw]].
    apply (ks_coarse (Resume :: l)); [exact Hl | exact Hc].
Qed.

Lemma run_slots_k m0 m t l c :
  forallb kfr l = true -> ccont c = true -> cell m = cell m0 -> nowait m ->
  kpost m0 (run_slots mc m t (l ++ [FC c])).
Proof.
  intros Hl Hc Hm Hw. unfold run_slots.
  set (R1 := if slot_sched m t then (wake (set_slot_sched m t false) t, ev t 901 919 (Zn t)) else (m, [])).
  assert (H1 : cell (fst R1) = cell m0 /\ nowait (fst R1)).
  { unfold R1. destruct (slot_sched m t); cbn [fst].
    - rewrite wake_cell. split; [exact Hm|]. apply wake_nowait. exact Hw.
    - split; assumption. }
  destruct R1 as [m1 e1]. cbn [fst] in H1. destruct H1 as [C1 W1].
  set (m2 := match slot_mpmc m1 t with
             | Some q => set_mq (set_slot_mpmc m1 t None) q (mq m1 q ++ [t])
             | None => m1 end).
  assert (H2 : cell m2 = cell m0 /\ nowait m2).
  { unfold m2. destruct (slot_mpmc m1 t); [|split; assumption]. split; [exact C1 | exact W1]. }
  destruct H2 as [C2 W2]. clearbody m2.
  destruct (slot_mutex m2 t) as [q|].
  - unfold kpost. split; [|split; [exact C2 | exact W2]].
    apply (ks_coarse (UAdd q :: MSlots :: l)); [exact Hl | exact Hc].
  - rewrite (W2 t).
    pose proof (sleep_k m0 m2 t l c Hl Hc C2 W2) as K.
    destruct (sleep mc m2 t (l ++ [FC c])) as [[m3 e3] s3]. exact K.
Qed.

Lemma ret_k ol size m0 t l c : forall m v,
  forallb kfr l = true -> ccont c = true -> cell m = cell m0 -> nowait m ->
  kpost m0 (ret mc (cret ol size) m t v (l ++ [FC c])).
Proof.
  induction l as [|f l IH]; intros m v Hl Hc Hm Hw.
  - cbn. pose proof (ccont_ret ol size m t c v Hc) as R.
    destruct (cret ol size m t c v) as [[m1 e1] s1]. destruct R as [R ->].
    rewrite app_nil_r. split; [exact R | split; assumption].
  - cbn [forallb] in Hl. apply andb_prop in Hl. destruct Hl as [Hf Hl].
    destruct f; try discriminate; cbn [app ret];
      try (apply IH; assumption);
      try (split; [|split; [exact Hm | exact Hw]];
           match goal with |- kshaped (?f :: ?l ++ [FC ?c]) =>
             apply (ks_coarse (f :: l)); [exact Hl | exact Hc] end).
    + (* MSlots *) apply run_slots_k; assumption.
    + (* KSpin *) unfold kloop. destruct (wc <? cnt).
      * split; [|split; [exact Hm | exact Hw]].
        apply (ks_coarse (KHead q cnt wc :: l)); [exact Hl | exact Hc].
      * apply IH; assumption.
    + (* UYield *) destruct (v =? 1).
      * split; [|split; [exact Hm | exact Hw]].
        apply (ks_coarse (YRead :: UDone :: l)); [exact Hl | exact Hc].
      * apply IH; assumption.
Qed.

(* pieces used to close kernel-step goals *)
Ltac k_ret ol size m0 l c Hl Hc :=
  match goal with
  | |- context [ret mc ?cr ?mm ?t ?v (l ++ [FC c])] =>
      let K := fresh "K" in
      assert (K : kpost m0 (ret mc cr mm t v (l ++ [FC c])));
      [ apply (ret_k ol size m0 t l c mm v Hl Hc);
        [ try reflexivity; try (rewrite wake_cell; reflexivity)
        | try assumption; try (apply wake_nowait; assumption) ]
      | destruct (ret mc cr mm t v (l ++ [FC c])) as [[? ?] ?]; exact K ]
  end.

Ltac k_frames l c Hl Hc Hw :=
  split; [ match goal with
           | |- kshaped (?a :: ?b :: ?d :: l ++ [FC c]) => apply (ks_coarse (a :: b :: d :: l)); [exact Hl | exact Hc]
           | |- kshaped (?a :: ?b :: l ++ [FC c]) => apply (ks_coarse (a :: b :: l)); [exact Hl | exact Hc]
           | |- kshaped (?a :: l ++ [FC c]) => apply (ks_coarse (a :: l)); [exact Hl | exact Hc]
           end
         | split; [ try reflexivity; try (rewrite wake_cell; reflexivity)
                  | try exact Hw; try (apply wake_nowait; exact Hw) ] ].

Ltac k_rs m0 l c :=
  match goal with
  | |- context [run_slots mc ?mm ?t (l ++ [FC c])] =>
      let K := fresh "K" in
      assert (K : kpost m0 (run_slots mc mm t (l ++ [FC c])))
        by (apply run_slots_k; (assumption || reflexivity));
      destruct (run_slots mc mm t (l ++ [FC c])) as [[? ?] ?]; exact K
  end.

Lemma ksched_k ol size m0 m t q cnt wc f e l c :
  forallb kfr l = true -> ccont c = true -> cell m = cell m0 -> nowait m ->
  kpost m0 (ksched mc (cret ol size) m t q cnt wc f e (l ++ [FC c])).
Proof.
  intros Hl Hc Hm Hw. unfold ksched, kloop.
  destruct (wc + 1 <? cnt).
  - split; [apply (ks_coarse (KHead q cnt (wc + 1) :: l)); [exact Hl | exact Hc]|].
    split; [rewrite wake_cell; exact Hm | apply wake_nowait; exact Hw].
  - assert (K : kpost m0 (ret mc (cret ol size) (wake m f) t (wc + 1) (l ++ [FC c]))).
    { apply ret_k; try assumption; [rewrite wake_cell; exact Hm | apply wake_nowait; exact Hw]. }
    destruct (ret mc (cret ol size) (wake m f) t (wc + 1) (l ++ [FC c])) as [[? ?] ?]. exact K.
Qed.

(* one step of a fiber whose stack is kernel frames over a coarse continuation *)
Lemma kstep_k ol size m t f l c :
  kfr f = true -> forallb kfr l = true -> ccont c = true -> nowait m ->
  kpost m (kstepC ol size m t (f :: l ++ [FC c])).
Proof.
  intros Hf Hl Hc Hw.
  destruct f; try discriminate; unfold kstepC; cbn [kstep].
  all: repeat match goal with
              | |- kpost _ (if ?b then _ else _) => destruct b
              | |- kpost _ (match nnext ?m ?h with O => _ | S _ => _ end) => destruct (nnext m h)
              | |- kpost _ (match kloop _ _ _ _ with Some _ => _ | None => _ end) => unfold kloop
              | |- kpost _ (match (if ?b then _ else _) with Some _ => _ | None => _ end) => destruct b
              end.
  all: try (k_ret ol size m l c Hl Hc).
  all: try (k_frames l c Hl Hc Hw).
  all: try (apply ksched_k; (assumption || reflexivity)).
  all: try (k_rs m l c).
Qed.

Lemma binv_of_kstep s t :
  BInv s ->
  (let '(m1, e1, s1) := kstepC (onelist s) (csize s) (mem s) t (stk s t) in
   shaped t s1 /\ nowait m1) ->
  BInv (fst (step s t)).
Proof.
  intros B H. unfold step.
  destruct (kstepC (onelist s) (csize s) (mem s) t (stk s t)) as [[m1 e1] s1].
  destruct H as [H1 H2]. constructor; cbn.
  - intros u. destruct (Nat.eq_dec u t) as [->|Hne].
    + rewrite upd_same. exact H1.
    + rewrite upd_other by assumption. apply (b_shape s B).
  - exact H2.
  - apply (b_size s B).
Qed.

Lemma init_binv ol k progs : BInv (init_ol ol k progs).
Proof.
  constructor; cbn.
  - intros t. apply sh_k. apply (ks_coarse [Start]); reflexivity.
  - intros u. reflexivity.
  - apply Z.pow_pos_nonneg; lia.
Qed.

(* a step of a fiber outside the exact shapes *)
Lemma kshaped_step ol size m t S :
  kshaped S -> nowait m ->
  (exists a p k, S = [CRead c_high; FC (MHigh a p k)]) \/ kpost m (kstepC ol size m t S).
Proof.
  intros K Hw. destruct K as [|l c Hl Hc|a p k].
  - right. cbn. split; [constructor | split; [reflexivity | exact Hw]].
  - right. destruct l as [|f l].
    + cbn. split; [apply (ks_coarse [] c); [reflexivity | exact Hc] | split; [reflexivity | exact Hw]].
    + cbn [forallb] in Hl. apply andb_prop in Hl. destruct Hl as [Hf Hl].
      apply (kstep_k ol size m t f l c Hf Hl Hc Hw).
  - left. eauto.
Qed.

Ltac sh_exact :=
  first [ apply sh_low | apply sh_sidx | apply sh_sbuf | apply sh_shigh2 | apply sh_swk0
        | apply sh_ridx | apply sh_rbuf | apply sh_rclr | apply sh_rlow2 | apply sh_rwk0
        | apply sh_wk1 | apply sh_wk2 | apply sh_wk3 | apply sh_wk4 | apply sh_wk5 | apply sh_wk6
        | apply sh_wt1 | apply sh_wt2 | apply sh_wt3 | apply sh_wt4
        | apply sh_k; apply (ks_coarse [UAdd 0%nat; UYield]); reflexivity
        | apply sh_k; apply (ks_coarse [YRead]); reflexivity ].

Lemma binv_step s t : BInv s -> BInv (fst (step s t)).
Proof.
  intros B. apply binv_of_kstep; [exact B|].
  pose proof (b_shape s B t) as Sh. pose proof (b_nowait s B) as Nw.
  remember (stk s t) as S eqn:ES. remember (csize s) as size eqn:Esz. clear ES.
  destruct Sh as [S K | | | | | | | | | | | | | | | | | | | | ].
  2-21: cbn.
  2-21: repeat match goal with
               | |- context [if ?b then _ else _] => destruct b eqn:?
               | a : att |- _ => destruct a
               end; cbn.
  2-35: (split; [ sh_exact; first [assumption | apply lhead_wait | apply lhead_wake] | try exact Nw; try (intros u; cbn; try rewrite wake_slot_wait; apply Nw) ]).
  - destruct (kshaped_step (onelist s) size (mem s) t S K Nw) as [(a & p & k & ->)|P].
    + cbn. split; [apply sh_low | exact Nw].
    + destruct (kstepC (onelist s) size (mem s) t S) as [[m1 e1] s1]. destruct P as (P1 & _ & P3).
      split; [apply sh_k; exact P1 | exact P3].
Qed.

Lemma reach_excl_binv ol k progs s : reach_excl ol k progs s -> BInv s.
Proof.
  induction 1 as [|s t R IH St E]; [apply init_binv | apply binv_step; exact IH].
Qed.

(* ------------------------------------------------------------------ *)
(* instrumented machine: ghost logs *)

Inductive ghost_ev := GNone | GMsg (x : Z) | GSend | GRecv (r : Z).

(* what the next step of a stack means for the ghosts:
   GMsg x   the buffer write of send(x)
   GSend    the write  high := hi + 1  of a send
   GRecv r  the write  low := lo + 1   of a receive that will return r *)
Definition gev (S : stack mc) : ghost_ev :=
  match S with
  | [CWrite c x; FC (MSBuf _ _)] => GMsg x
  | [CWrite c v; FC (MWk0 _ r _ _)] => if Nat.eqb c c_high then GSend else GRecv r
  | _ => GNone
  end.

(* pmsg t = the message fiber t is sending; slog = messages in the order of the
   high := hi+1 writes; rlog = returned values in the order of the low := lo+1 writes *)
Record ist := { base : st; pmsg : nat -> Z; slog : list Z; rlog : list Z }.

Definition istep (x : ist) (t : nat) : ist :=
  let s' := fst (step (base x) t) in
  match gev (stk (base x) t) with
  | GNone => {| base := s'; pmsg := pmsg x; slog := slog x; rlog := rlog x |}
  | GMsg v => {| base := s'; pmsg := upd (pmsg x) t v; slog := slog x; rlog := rlog x |}
  | GSend => {| base := s'; pmsg := pmsg x; slog := slog x ++ [pmsg x t]; rlog := rlog x |}
  | GRecv r => {| base := s'; pmsg := pmsg x; slog := slog x; rlog := rlog x ++ [r] |}
  end.

Lemma istep_erase x t : base (istep x t) = fst (step (base x) t).
Proof. unfold istep. destruct (gev (stk (base x) t)); reflexivity. Qed.

Definition iinit (ol : bool) (k : nat) (progs : list (list mop)) : ist :=
  {| base := init_ol ol k progs; pmsg := fun _ => 0; slog := []; rlog := [] |}.

Inductive ireach_excl (ol : bool) (k : nat) (progs : list (list mop)) : ist -> Prop :=
| ire_init : ireach_excl ol k progs (iinit ol k progs)
| ire_step x t : ireach_excl ol k progs x -> status_of (base x) t = SReady ->
                 excl (base (istep x t)) -> ireach_excl ol k progs (istep x t).

Lemma ireach_excl_sound ol k progs x : ireach_excl ol k progs x -> reach_excl ol k progs (base x).
Proof.
  induction 1 as [|x t R IH St E]; [constructor|].
  rewrite istep_erase in *. constructor; assumption.
Qed.

Lemma ireach_excl_complete ol k progs s :
  reach_excl ol k progs s -> exists x, ireach_excl ol k progs x /\ base x = s.
Proof.
  induction 1 as [|s t R (x & Rx & Ex) St E].
  - exists (iinit ol k progs). split; [constructor | reflexivity].
  - exists (istep x t). split.
    + constructor; [exact Rx | rewrite Ex; exact St | rewrite istep_erase, Ex; exact E].
    + rewrite istep_erase, Ex. reflexivity.
Qed.

(* ------------------------------------------------------------------ *)
(* cells and slots *)
Ltac cells := unfold c_scr, c_waiters, c_rwaiters, c_buf, c_high, c_low in *; lia.

Lemma buf_high i : c_buf i <> c_high. Proof. cells. Qed.
Lemma buf_low i : c_buf i <> c_low. Proof. cells. Qed.
Lemma buf_waiters i : c_buf i <> c_waiters. Proof. cells. Qed.
Lemma buf_scr i f : c_buf i <> c_scr f. Proof. cells. Qed.
Lemma buf_inj i j : c_buf i = c_buf j -> i = j. Proof. cells. Qed.
Lemma high_low : c_high <> c_low. Proof. cells. Qed.
Lemma high_waiters : c_high <> c_waiters. Proof. cells. Qed.
Lemma low_waiters : c_low <> c_waiters. Proof. cells. Qed.
Lemma high_scr f : c_high <> c_scr f. Proof. cells. Qed.
Lemma low_scr f : c_low <> c_scr f. Proof. cells. Qed.

Lemma bidx_inj size i j :
  0 < size -> - size < i - j < size -> bidx size i = bidx size j -> i = j.
Proof.
  intros Hs Hd H. unfold bidx in H.
  pose proof (Z.mod_pos_bound i size Hs). pose proof (Z.mod_pos_bound j size Hs).
  apply Z2Nat.inj in H; try lia.
  pose proof (Z.div_mod i size ltac:(lia)). pose proof (Z.div_mod j size ltac:(lia)).
  assert (size * (i / size - j / size) = i - j) by lia.
  assert (i / size - j / size = 0) by nia. lia.
Qed.

Lemma bidx_shift size i : 0 < size -> bidx size (i + size) = bidx size i.
Proof.
  intros Hs. unfold bidx. f_equal.
  replace (i + size) with (i + 1 * size) by lia. apply Z_mod_plus_full.
Qed.

Definition Zlen (l : list Z) : Z := Z.of_nat (length l).
Definition nthz (l : list Z) (i : Z) : Z := nth (Z.to_nat i) l 0.

Lemma Zlen_app l v : Zlen (l ++ [v]) = Zlen l + 1.
Proof. unfold Zlen. rewrite app_length. cbn. lia. Qed.

Lemma nthz_app_l l v i : 0 <= i < Zlen l -> nthz (l ++ [v]) i = nthz l i.
Proof. unfold nthz, Zlen. intros H. apply app_nth1. lia. Qed.

Lemma nthz_app_r l v : nthz (l ++ [v]) (Zlen l) = v.
Proof.
  unfold nthz, Zlen. rewrite Nat2Z.id. rewrite app_nth2 by lia.
  rewrite Nat.sub_diag. reflexivity.
Qed.

Lemma firstn_snoc (l : list Z) n : (n < length l)%nat -> firstn (S n) l = firstn n l ++ [nth n l 0].
Proof.
  revert l. induction n as [|n IH]; intros [|a l] H; cbn in *; try lia; [reflexivity|].
  rewrite <- IH by lia. reflexivity.
Qed.

(* the buffer, relative to the counters and the log of sends:
   slots of the window [low, low+size) hold the logged messages below high and
   0 from high on; ss / sr: except slot high (a send wrote it, high not yet
   advanced) / except slot low (a receive cleared it, low not yet advanced) *)
Definition Bf (C : nat -> Z) (size low high : Z) (sl : list Z) (ss sr : bool) : Prop :=
  forall i, low <= i < low + size ->
            (ss = true -> i <> high) -> (sr = true -> i <> low) ->
            C (c_buf (bidx size i)) = if i <? high then nthz sl i else 0.

Lemma Bf_frame C C' size low high sl ss sr :
  (forall j, C' (c_buf j) = C (c_buf j)) -> Bf C size low high sl ss sr -> Bf C' size low high sl ss sr.
Proof. intros H B i Hi H1 H2. rewrite H. apply B; assumption. Qed.

Lemma Bf_send_write C size low high sl x :
  0 < size -> low <= high -> high - low < size ->
  Bf C size low high sl false false ->
  Bf (upd C (c_buf (bidx size high)) x) size low high sl true false.
Proof.
  intros Hs Hlh Hr B i Hi H1 _. specialize (H1 eq_refl).
  rewrite upd_other.
  - apply B; [exact Hi | discriminate | discriminate].
  - intros E. apply buf_inj in E. apply bidx_inj in E; [contradiction | exact Hs | lia].
Qed.

Lemma Bf_send_commit C C' size low high sl v :
  0 <= low -> low <= high -> high = Zlen sl ->
  (forall j, C' (c_buf j) = C (c_buf j)) ->
  C (c_buf (bidx size high)) = v ->
  Bf C size low high sl true false ->
  Bf C' size low (high + 1) (sl ++ [v]) false false.
Proof.
  intros H0 Hlh Hlen HC Hv B i Hi _ _. rewrite HC.
  destruct (Z.eq_dec i high) as [->|Ne].
  - assert (high <? high + 1 = true) as -> by (apply Z.ltb_lt; lia).
    rewrite Hlen at 2. rewrite nthz_app_r. exact Hv.
  - rewrite (B i Hi (fun _ => Ne)) by discriminate.
    destruct (Z.ltb_spec i high); destruct (Z.ltb_spec i (high + 1)); try lia; try reflexivity.
    symmetry. apply nthz_app_l. lia.
Qed.

Lemma Bf_recv_clear C size low high sl :
  0 < size ->
  Bf C size low high sl false false ->
  Bf (upd C (c_buf (bidx size low)) 0) size low high sl false true.
Proof.
  intros Hs B i Hi _ H2. specialize (H2 eq_refl).
  rewrite upd_other.
  - apply B; [exact Hi | discriminate | discriminate].
  - intros E. apply buf_inj in E. apply bidx_inj in E; [contradiction | exact Hs | lia].
Qed.

Lemma Bf_recv_commit C C' size low high sl :
  0 < size -> high <= low + size ->
  (forall j, C' (c_buf j) = C (c_buf j)) ->
  C (c_buf (bidx size low)) = 0 ->
  Bf C size low high sl false true ->
  Bf C' size (low + 1) high sl false false.
Proof.
  intros Hs Hh HC Hz B i Hi _ _. rewrite HC.
  destruct (Z.eq_dec i (low + size)) as [->|Ne].
  - rewrite bidx_shift by exact Hs. rewrite Hz.
    destruct (Z.ltb_spec (low + size) high); [lia | reflexivity].
  - apply B; [lia | discriminate | intros _; lia].
Qed.

(* ------------------------------------------------------------------ *)
(* the invariant *)

(* counters and logs: C = client cells, sl / rl = ghost logs *)
Record Cn (C : nat -> Z) (size : Z) (sl rl : list Z) : Prop := {
  cn_hi : C c_high = Zlen sl;
  cn_lo : C c_low = Zlen rl;
  cn_pre : rl = firstn (length rl) sl;
  cn_ord : C c_low <= C c_high <= C c_low + size
}.

(* what the lock holder knows, by continuation (f = the access on top of it);
   pm = the message this fiber is sending *)
Definition cs_inv2 (C : nat -> Z) (size : Z) (sl : list Z) (pm : Z) (f : frame mc) (c : mc) : Prop :=
  let hi := C c_high in
  let lo := C c_low in
  match c with
  | MNext _ _ | MLocked _ _ _ | MUnl _ _ _ | MWt5 _ _ _ => True
  | MLow _ h _ _ => Bf C size lo hi sl false false /\ h = hi
  | MSIdx _ _ _ => Bf C size lo hi sl false false /\ hi - lo < size
  | MSBuf _ _ =>
      Bf C size lo hi sl false false /\ hi - lo < size /\
      match f with CWrite a _ => a = c_buf (bidx size hi) | _ => True end
  | MSHigh2 _ _ =>
      Bf C size lo hi sl true false /\ hi - lo < size /\ C (c_buf (bidx size hi)) = pm
  | MWk0 _ r _ _ =>
      match f with
      | CWrite a v =>
          if Nat.eqb a c_high
          then v = hi + 1 /\ Bf C size lo hi sl true false /\ hi - lo < size /\
               C (c_buf (bidx size hi)) = pm
          else v = lo + 1 /\ Bf C size lo hi sl false true /\ C (c_buf (bidx size lo)) = 0 /\
               r = nthz sl lo /\ lo < hi
      | _ => True
      end
  | MRIdx _ _ => Bf C size lo hi sl false false /\ lo < hi
  | MRBuf i _ _ => Bf C size lo hi sl false false /\ lo < hi /\ i = bidx size lo
  | MRClr m _ _ =>
      Bf C size lo hi sl false false /\ lo < hi /\ m = nthz sl lo /\
      match f with CWrite a _ => a = c_buf (bidx size lo) | _ => True end
  | MRLow2 m _ _ =>
      Bf C size lo hi sl false true /\ C (c_buf (bidx size lo)) = 0 /\ m = nthz sl lo /\ lo < hi
  | _ => Bf C size lo hi sl false false
  end.

Definition Cx (x : ist) : nat -> Z := cell (mem (base x)).
Definition sz (x : ist) : Z := csize (base x).

Definition cs_inv (x : ist) (t : nat) : Prop :=
  match cs_of (stk (base x) t) with
  | Some (f, c) => cs_inv2 (Cx x) (sz x) (slog x) (pmsg x t) f c
  | None => True
  end.

(* requirement on the new stack of the stepping fiber *)
Definition cs_new (x : ist) (t : nat) (S : stack mc) : Prop :=
  match cs_of S with
  | Some (f, c) => cs_inv2 (Cx x) (sz x) (slog x) (pmsg x t) f c
  | None => Bf (Cx x) (sz x) (Cx x c_low) (Cx x c_high) (slog x) false false
  end.

Record GInv (x : ist) : Prop := {
  g_cn : Cn (Cx x) (sz x) (slog x) (rlog x);
  g_cs : forall t, cs_inv x t;
  g_q : (forall t, cs_of (stk (base x) t) = None) ->
        Bf (Cx x) (sz x) (Cx x c_low) (Cx x c_high) (slog x) false false
}.

Lemma init_ginv ol k progs : GInv (iinit ol k progs).
Proof.
  constructor.
  - constructor; cbn; try reflexivity. unfold Cx, sz. cbn.
    assert (0 < 2 ^ Z.of_nat k) by (apply Z.pow_pos_nonneg; lia). lia.
  - intros t. unfold cs_inv. cbn. exact I.
  - intros _ i Hi _ _. unfold Cx. cbn.
    destruct (i <? 0); [|reflexivity]. unfold nthz. destruct (Z.to_nat i); reflexivity.
Qed.

(* a step of the lock holder inside the critical section *)
Lemma g_step_cs x x' t S' :
  GInv x -> excl (base x) -> cs_of (stk (base x) t) <> None ->
  stk (base x') = upd (stk (base x)) t S' ->
  Cn (Cx x') (sz x') (slog x') (rlog x') -> cs_new x' t S' -> GInv x'.
Proof.
  intros G E Ht Hs HC HN.
  assert (Oth : forall u, u <> t -> cs_of (stk (base x) u) = None).
  { intros u Hu. destruct (cs_of (stk (base x) u)) eqn:Eu; [|reflexivity].
    exfalso. apply Hu. apply E; apply cs_of_holds; congruence. }
  constructor.
  - exact HC.
  - intros u. unfold cs_inv. rewrite Hs. destruct (Nat.eq_dec u t) as [->|Hu].
    + rewrite upd_same. unfold cs_new in HN. destruct (cs_of S') as [[f c]|]; [exact HN | exact I].
    + rewrite upd_other by exact Hu. rewrite (Oth u Hu). exact I.
  - intros Hall. specialize (Hall t). rewrite Hs, upd_same in Hall.
    unfold cs_new in HN. rewrite Hall in HN. exact HN.
Qed.

Lemma kshaped_cs_of S : kshaped S -> cs_of S = None \/ exists a p k, S = [CRead c_high; FC (MHigh a p k)].
Proof.
  intros [|l c Hl Hc|a p k]; [left; reflexivity | left | right; eauto].
  unfold ccont in Hc. apply negb_true_iff in Hc.
  destruct l as [|f [|g [|h l]]]; cbn; try reflexivity.
  - rewrite Hc. reflexivity.
  - destruct g; reflexivity.
  - destruct g; reflexivity.
Qed.

Lemma kshaped_gev S : kshaped S -> gev S = GNone.
Proof.
  intros [|l c Hl Hc|a p k]; try reflexivity.
  destruct l as [|f l]; [reflexivity|].
  cbn [forallb] in Hl. apply andb_prop in Hl. destruct Hl as [Hf _].
  destruct f; try discriminate; reflexivity.
Qed.

(* a step of a fiber outside the critical section *)
Lemma g_step_k x t :
  BInv (base x) -> GInv x -> kshaped (stk (base x) t) -> cs_of (stk (base x) t) = None ->
  excl (base (istep x t)) -> GInv (istep x t).
Proof.
  intros B G K Hn E'.
  unfold istep in *. rewrite (kshaped_gev _ K) in *. cbn [base] in E'.
  destruct (kshaped_step (onelist (base x)) (csize (base x)) (mem (base x)) t _ K (b_nowait _ B)) as [(a & p & k & Eq)|P].
  { rewrite Eq in Hn. discriminate. }
  unfold step in *. destruct (kstepC (onelist (base x)) (csize (base x)) (mem (base x)) t (stk (base x) t)) as [[m1 e1] s1].
  cbn [fst] in *. destruct P as (K1 & Cm & _).
  constructor; unfold cs_inv, Cx, sz; cbn [base mem stk csize pmsg slog rlog].
  - rewrite Cm. apply (g_cn x G).
  - intros u. destruct (Nat.eq_dec u t) as [->|Hu].
    + rewrite upd_same. destruct (kshaped_cs_of s1 K1) as [->|(a & p & k & ->)]; [exact I|].
      cbn. rewrite Cm. apply (g_q x G). intros u. destruct (Nat.eq_dec u t) as [->|Hu]; [exact Hn|].
      destruct (cs_of (stk (base x) u)) eqn:Eu; [|reflexivity]. exfalso. apply Hu.
      apply E'; apply cs_of_holds; cbn [stk].
      * rewrite upd_other by exact Hu. rewrite Eu. discriminate.
      * rewrite upd_same. cbn. discriminate.
    + rewrite upd_other by exact Hu. rewrite Cm. apply (g_cs x G u).
  - intros Hall. rewrite Cm. apply (g_q x G). intros u. destruct (Nat.eq_dec u t) as [->|Hu]; [exact Hn|].
    specialize (Hall u). rewrite upd_other in Hall by exact Hu. exact Hall.
Qed.

Ltac ne_cells :=
  try match goal with H : lhead _ |- _ => destruct H as [-> | ->] end;
  unfold c_scr, c_waiters, c_rwaiters, c_buf, c_high, c_low; lia.

Lemma Cn_frame C C' size sl rl :
  C' c_high = C c_high -> C' c_low = C c_low -> Cn C size sl rl -> Cn C' size sl rl.
Proof. intros H1 H2 [A B D E]. constructor; rewrite ?H1, ?H2; assumption. Qed.

Lemma Bf_frame2 C C' size sl ss sr :
  (forall j, C' (c_buf j) = C (c_buf j)) -> C' c_high = C c_high -> C' c_low = C c_low ->
  Bf C size (C c_low) (C c_high) sl ss sr -> Bf C' size (C' c_low) (C' c_high) sl ss sr.
Proof. intros H H1 H2 B. rewrite H1, H2. apply (Bf_frame C); assumption. Qed.

Lemma prefix_len_le (sl rl : list Z) hi lo :
  hi = Zlen sl -> lo = Zlen rl -> lo <= hi -> (length rl <= length sl)%nat.
Proof. unfold Zlen. lia. Qed.

Lemma Cn_send C size sl rl v x :
  Cn C size sl rl -> v = C c_high + 1 -> C c_high - C c_low < size ->
  Cn (upd C c_high v) size (sl ++ [x]) rl.
Proof.
  intros [A B D E] Hv Hr. constructor.
  - rewrite upd_same, Zlen_app. lia.
  - rewrite upd_other by ne_cells. exact B.
  - rewrite firstn_app.
    assert (length rl <= length sl)%nat by (unfold Zlen in *; lia).
    replace (length rl - length sl)%nat with 0%nat by lia. cbn [firstn]. rewrite app_nil_r. exact D.
  - rewrite upd_same. rewrite upd_other by ne_cells. lia.
Qed.

Lemma Cn_recv C size sl rl v m :
  Cn C size sl rl -> v = C c_low + 1 -> C c_low < C c_high -> m = nth (Z.to_nat (C c_low)) sl 0 ->
  Cn (upd C c_low v) size sl (rl ++ [m]).
Proof.
  intros [A B D E] Hv Hr Hm. constructor.
  - rewrite upd_other by ne_cells. exact A.
  - rewrite upd_same, Zlen_app. lia.
  - rewrite app_length. cbn [length]. rewrite Nat.add_1_r.
    assert (length rl < length sl)%nat by (unfold Zlen in *; lia).
    rewrite firstn_snoc by assumption. rewrite <- D. f_equal. f_equal.
    rewrite Hm, B. unfold Zlen. rewrite Nat2Z.id. reflexivity.
  - rewrite upd_same. rewrite upd_other by ne_cells. lia.
Qed.

Lemma ginv_step x t :
  BInv (base x) -> GInv x -> excl (base x) -> excl (base (istep x t)) -> GInv (istep x t).
Proof.
  intros B G E E'.
  pose proof (b_shape _ B t) as Sh.
  pose proof (b_size _ B) as Hsz.
  pose proof (g_cn x G) as CN. pose proof CN as [Chi Clo Cpre Cord].
  pose proof (g_cs x G t) as L. unfold cs_inv in L.
  destruct x as [s pm sl rl]. unfold Cx, sz in *. cbn [base pmsg slog rlog] in *.
  remember (stk s t) as S eqn:ES.
  destruct Sh as [S K | | | | | | | | | | | | | | | | | | | | ].
  2-21: cbn in L.
  2-21: unfold istep, step in *; cbn [base] in *; rewrite <- ES in *; cbn in E'; cbn.
  2-21: repeat match goal with
               | a : att |- context [match ?a with ASend _ => _ | ARecv => _ end] => destruct a
               | |- context [if ?b then _ else _] => destruct b eqn:?
               end; cbn.
  2-25: (eapply (g_step_cs _ _ t);
         [ exact G | exact E | cbn [base]; rewrite <- ES; discriminate
         | cbn; reflexivity
         | unfold Cx, sz; cbn
         | unfold cs_new, Cx, sz; cbn ]).
  (* counters untouched *)
  all: try exact CN.
  all: try (apply (Cn_frame (cell (mem s))); [ | | exact CN ]; try rewrite wake_cell; try reflexivity;
            apply upd_other; ne_cells).
  all: repeat match goal with H : _ /\ _ |- _ => destruct H end.
  all: repeat match goal with
              | H : (_ <? _) = true |- _ => apply Z.ltb_lt in H
              | H : (_ <? _) = false |- _ => apply Z.ltb_ge in H
              end.
  all: try (rewrite wake_cell; cbn [cell set_fstate]).
  all: rewrite ?(upd_other _ _ _ c_low), ?(upd_other _ _ _ c_high) by ne_cells.
  all: subst.
  all: try (repeat split; first [assumption | reflexivity | lia]).
  all: try (apply (Bf_frame (cell (mem s))); [intros j; apply upd_other; ne_cells | assumption]).
  - (* outside the critical section, or the first access after acquiring *)
    destruct (kshaped_cs_of _ K) as [Hn | (a & p & k & Eq)].
    + apply g_step_k; cbn [base]; assumption.
    + rewrite Eq in L. cbn in L.
      unfold istep, step in *; cbn [base] in *; rewrite Eq in *; cbn in E'; cbn.
      eapply (g_step_cs _ _ t);
        [ exact G | exact E | cbn [base]; rewrite Eq; discriminate | cbn; reflexivity
        | unfold Cx, sz; cbn; exact CN
        | unfold cs_new, Cx, sz; cbn; split; [exact L | reflexivity] ].
  - (* the buffer write of a send *)
    match goal with H : c_buf i = c_buf _ |- _ => apply buf_inj in H; subst i end.
    split; [apply Bf_send_write; try assumption; lia | split; [assumption|]].
    rewrite !upd_same. reflexivity.
  - (* high := high + 1 *)
    apply Cn_send; [exact CN | reflexivity | assumption].
  - apply (Bf_send_commit (cell (mem s)));
      first [assumption | (intros j; apply upd_other; ne_cells) | (unfold Zlen in *; lia)].
  - (* the buffer read of a receive *)
    repeat split; try assumption; try reflexivity.
    match goal with H : Bf _ _ _ _ _ false false |- _ =>
      pose proof (H (cell (mem s) c_low) ltac:(lia) ltac:(discriminate) ltac:(discriminate)) as Q end.
    rewrite (proj2 (Z.ltb_lt _ _)) in Q by assumption. exact Q.
  - (* the buffer clear of a receive *)
    match goal with H : c_buf i = c_buf _ |- _ => apply buf_inj in H; subst i end.
    split; [apply Bf_recv_clear; assumption | split; [apply upd_same | split; [reflexivity | assumption]]].
  - (* low := low + 1 *)
    apply Cn_recv; [exact CN | reflexivity | assumption | reflexivity].
  - apply (Bf_recv_commit (cell (mem s)));
      first [assumption | (intros j; apply upd_other; ne_cells) | (unfold Zlen in *; lia)].
Qed.

Theorem ireach_excl_ginv ol k progs x : ireach_excl ol k progs x -> GInv x.
Proof.
  induction 1 as [|x t R IH St E]; [apply init_ginv|].
  pose proof (ireach_excl_sound _ _ _ _ R) as Rs.
  apply ginv_step; [exact (reach_excl_binv _ _ _ _ Rs) | exact IH | exact (reach_excl_excl _ _ _ _ Rs) | exact E].
Qed.

(* ------------------------------------------------------------------ *)
(* the theorems *)

Definition prefix (l1 l2 : list Z) : Prop := exists r, l2 = l1 ++ r.

(* C11 capacity, relative to mutual exclusion of the channel lock (C03):
   the channel never holds more than size messages, and the slot a send
   writes (slot high mod size) is free (holds 0) when it is written.
   FULL statement (not proved here): the same for every state in
   [reachable M (init_ol ol k progs)], i.e. with [reach_excl] replaced by plain
   reachability; what is missing is exactly C03 for this client:
   forall s, reachable M (init_ol ol k progs) s -> excl s. *)
Theorem multichan_capacity_partial :
  forall (ol : bool) (k : nat) (progs : list (list mop)) (s : st),
    reach_excl ol k progs s ->
    0 <= cell (mem s) c_high - cell (mem s) c_low <= csize s /\
    forall t c x p kk,
      stk s t = [CWrite c x; FC (MSBuf p kk)] ->
      c = c_buf (bidx (csize s) (cell (mem s) c_high)) /\ cell (mem s) c = 0.
Proof.
  intros ol k progs s R.
  destruct (ireach_excl_complete _ _ _ _ R) as (x & Rx & <-).
  pose proof (ireach_excl_ginv _ _ _ _ Rx) as G.
  pose proof (g_cn x G) as [Chi Clo Cpre Cord]. unfold Cx, sz in *.
  split; [lia|].
  intros t c v p kk Hs.
  pose proof (g_cs x G t) as L. unfold cs_inv, Cx, sz in L. rewrite Hs in L. cbn in L.
  destruct L as (Bq & Hr & ->). split; [reflexivity|].
  rewrite (Bq (cell (mem (base x)) c_high)); [|lia|discriminate|discriminate].
  rewrite Z.ltb_irrefl. reflexivity.
Qed.

(* the form asked for: the top frame is the buffer write of slot [bidx size hi] *)
Corollary multichan_slot_free_partial :
  forall (ol : bool) (k : nat) (progs : list (list mop)) (s : st) t hi x p kk,
    reach_excl ol k progs s ->
    stk s t = [CWrite (c_buf (bidx (csize s) hi)) x; FC (MSBuf p kk)] ->
    cell (mem s) (c_buf (bidx (csize s) hi)) = 0.
Proof.
  intros ol k progs s t hi x p kk R Hs.
  destruct (multichan_capacity_partial ol k progs s R) as [_ H].
  destruct (H t _ x p kk Hs) as [_ Hz]. exact Hz.
Qed.

(* C11 exactly once, in order, relative to C03: in the instrumented machine
   slog lists the messages in the order of the  high := hi + 1  writes (the
   message is the x of the send's buffer write [CWrite _ x] / MSBuf), rlog
   lists the values receives return in the order of the  low := lo + 1  writes;
   rlog is a prefix of slog, and the counters are the lengths of the logs.
   FULL statement (not proved here): the same for [ireach] without the
   hypothesis [excl] on every visited state; missing: C03 for this client. *)
Theorem multichan_exactly_once_in_order_partial :
  forall (ol : bool) (k : nat) (progs : list (list mop)) (x : ist),
    ireach_excl ol k progs x ->
    prefix (rlog x) (slog x) /\
    cell (mem (base x)) c_high = Zlen (slog x) /\
    cell (mem (base x)) c_low = Zlen (rlog x).
Proof.
  intros ol k progs x R.
  pose proof (g_cn x (ireach_excl_ginv _ _ _ _ R)) as [Chi Clo Cpre Cord]. unfold Cx in *.
  split; [|split; assumption].
  exists (skipn (length (rlog x)) (slog x)).
  pose proof (firstn_skipn (length (rlog x)) (slog x)) as F. rewrite <- Cpre in F.
  symmetry. exact F.
Qed.

(* every reach_excl state of the model is the erasure of an instrumented run *)
Corollary multichan_exactly_once_in_order_states_partial :
  forall (ol : bool) (k : nat) (progs : list (list mop)) (s : st),
    reach_excl ol k progs s ->
    exists x, ireach_excl ol k progs x /\ base x = s /\ prefix (rlog x) (slog x).
Proof.
  intros ol k progs s R. destruct (ireach_excl_complete _ _ _ _ R) as (x & Rx & Ex).
  exists x. split; [exact Rx | split; [exact Ex|]].
  apply (multichan_exactly_once_in_order_partial ol k progs x Rx).
Qed.

(* ------------------------------------------------------------------ *)
(* the hypothesis is satisfiable: a checker for [excl] on concrete runs, and
   the run of the stranding witness (MChanProofs.strand_sched) as an example *)

Definition is_uadd0 (f : frame mc) : bool :=
  match f with UAdd 0%nat => true | _ => false end.

Definition holdsb (s : st) (t : nat) : bool :=
  match bottom (stk s t) with
  | Some (MUnl _ _ _) => existsb is_uadd0 (stk s t)
  | Some (MWt5 _ _ _) =>
      match slot_mutex (mem s) t with Some 0%nat => true | _ => false end
      || existsb is_uadd0 (stk s t)
  | Some c => cs_cont c
  | None => false
  end.

Lemma In_uadd0 S : In (UAdd 0%nat) S -> existsb is_uadd0 S = true.
Proof. intros H. apply existsb_exists. exists (UAdd 0%nat). split; [exact H | reflexivity]. Qed.

Lemma holds_holdsb s t : holds s t -> holdsb s t = true.
Proof.
  unfold holds, holdsb. destruct (bottom (stk s t)) as [c|]; [|contradiction].
  destruct c; try (intros H; exact H); try (apply In_uadd0).
  intros [H|H]; [rewrite H; reflexivity | rewrite (In_uadd0 _ H); apply orb_true_r].
Qed.

Definition exclb (s : st) : bool :=
  forallb (fun t => forallb (fun u => Nat.eqb t u || negb (holdsb s t && holdsb s u))
                            (seq 0 (nthr s))) (seq 0 (nthr s)).

(* fibers outside the thread count never move *)
Definition outside_idle (s : st) : Prop :=
  forall t, (nthr s <= t)%nat -> exists p, stk s t = [Start; FC (MNext p 1)].

Lemma outside_idle_step s t : outside_idle s -> status_of s t = SReady -> outside_idle (fst (step s t)).
Proof.
  intros O St u Hu. unfold step in *.
  destruct (kstepC (onelist s) (csize s) (mem s) t (stk s t)) as [[m1 e1] s1]. cbn in *.
  assert (t < nthr s)%nat.
  { unfold status_of in St. destruct (Nat.ltb_spec t (nthr s)); [assumption | discriminate]. }
  rewrite upd_other by lia. apply O. exact Hu.
Qed.

Lemma reach_excl_outside ol k progs s : reach_excl ol k progs s -> outside_idle s.
Proof.
  induction 1 as [|s t R IH St E].
  - intros t _. cbn. eauto.
  - apply outside_idle_step; assumption.
Qed.

Lemma exclb_excl s : outside_idle s -> exclb s = true -> excl s.
Proof.
  intros O Hb t u Ht Hu.
  assert (In_n : forall v, holds s v -> (v < nthr s)%nat).
  { intros v Hv. destruct (Nat.ltb_spec v (nthr s)); [assumption|].
    destruct (O v H) as [p Hp]. unfold holds in Hv. rewrite Hp in Hv. cbn in Hv. discriminate. }
  unfold exclb in Hb. rewrite forallb_forall in Hb.
  specialize (Hb t ltac:(apply in_seq; specialize (In_n t Ht); lia)).
  rewrite forallb_forall in Hb.
  specialize (Hb u ltac:(apply in_seq; specialize (In_n u Hu); lia)).
  rewrite (holds_holdsb _ _ Ht), (holds_holdsb _ _ Hu) in Hb. cbn in Hb.
  rewrite orb_false_r in Hb. apply Nat.eqb_eq. exact Hb.
Qed.

(* run a schedule, checking [excl] after every granted step *)
Fixpoint irun_excl (x : ist) (sch : list nat) : option ist :=
  match sch with
  | [] => Some x
  | t :: r =>
      match status_of (base x) t with
      | SReady => let x' := istep x t in
                  if exclb (base x') then irun_excl x' r else None
      | _ => irun_excl x r
      end
  end.

Lemma irun_excl_reach ol k progs sch : forall x x',
  ireach_excl ol k progs x -> irun_excl x sch = Some x' -> ireach_excl ol k progs x'.
Proof.
  induction sch as [|t r IH]; intros x x' R H; cbn in H.
  - inversion H; subst. exact R.
  - destruct (status_of (base x) t) eqn:St; try (apply (IH x); assumption).
    destruct (exclb (base (istep x t))) eqn:Eb; [|discriminate].
    apply (IH (istep x t)); [|exact H].
    constructor; [exact R | exact St|].
    apply exclb_excl; [|exact Eb].
    rewrite istep_erase. apply outside_idle_step; [|exact St].
    apply (reach_excl_outside ol k progs). apply ireach_excl_sound. exact R.
Qed.

(* the stranding run of MChanProofs (capacity 2, 3 senders, 2 receivers) *)
Definition strand_istate : ist :=
  match irun_excl (iinit true 1 strand_progs) strand_sched with
  | Some x => x
  | None => iinit true 1 strand_progs
  end.

Lemma strand_irun : irun_excl (iinit true 1 strand_progs) strand_sched = Some strand_istate.
Proof. vm_compute. reflexivity. Qed.

Lemma strand_ireach_excl : ireach_excl true 1 strand_progs strand_istate.
Proof. apply (irun_excl_reach true 1 strand_progs strand_sched (iinit true 1 strand_progs)); [constructor | exact strand_irun]. Qed.

Lemma strand_logs :
  slog strand_istate = [101; 201; 102; 202] /\ rlog strand_istate = [101; 201; 102; 202].
Proof. vm_compute. split; reflexivity. Qed.

(* the instrumented run erases to the stranded state of MChanProofs: stranding
   (F-C11) happens on an execution that respects mutual exclusion of the lock *)
Lemma strand_istate_base : base strand_istate = strand_state.
Proof. vm_compute. reflexivity. Qed.

Lemma strand_state_reach_excl : reach_excl true 1 strand_progs strand_state /\ stranded strand_state.
Proof.
  split; [|exact strand_stranded].
  rewrite <- strand_istate_base. apply ireach_excl_sound. exact strand_ireach_excl.
Qed.
