(* Model of include/mpsc_relaxed_fifo.h (C15, relaxed MPSC queue = one SPSC
   queue (include/spsc_fifo.h) per producer + a plain round-robin counter):
   one step per shared access, in the order the -O0 code performs them
   (rt/h_mpscr.c).
   locs: 0 = f->counter, 10+2q = fifos[q].head, 11+2q = fifos[q].tail; node n
   (ids from 1, 0 = NULL): data = 98+2n, next = 99+2n.  Nodes 1..np are the
   initial stubs of queues 0..np-1.
   push(q,n) = [harness: n->data := v]  (index := q % np)
               store_rel(n->next, NULL); prev := load_acq(tail[index]);
               store_rel(tail[index], n); store_rel(prev->next, n)
   trypop    = for i in 0..np-1:
                 index := counter % np;  ++counter  (plain read, read, write)
                 hd := load_acq(head[index]); hn := load_acq(hd->next);
                 if hn <> NULL: store_rel(head[index], hn); x := hn->data;
                                hd->data := x; return hd  [harness: read hd->data]
               return NULL
   The step structure of the per-queue part is that of Spsc.v.
   Node recycling as in Spsc.v: every node returned by trypop goes onto one
   free stack (plain harness memory); ORecyc q v = take the most recently freed
   node (one explicit scheduling point, then the decision) and push it as
   producer q with data v; no-op returning 0 if no node is free. *)
From Coq Require Import List ZArith Lia Bool Arith.
From LF Require Import Conc.
Import ListNotations.

Inductive op := OPush (q n v : nat) | OPop | ORecyc (q v : nat).

Inductive pcT := PTake | PData | PNull | PLoadTail | PStoreTail | PLink
               | CRead1 | CRead2 | CWrite
               | QHead | QNext | QSetHead | QRead | QWrite | QUse | Fin.

(* qi = index of the SPSC queue this call works on; it = loop iteration of
   trypop; cv = the counter value read by ++counter *)
Record tst := { pc : pcT; qi : nat; node : nat; arg : nat; prev : nat;
                hd : nat; hn : nat; rdv : nat; it : nat; cv : nat;
                prog : list op; opi : nat }.

Record st := { counter : nat; np : nat; heads : nat -> nat; tails : nat -> nat;
               nxt : nat -> nat; dat : nat -> nat; freed : list nat;
               thr : nat -> tst; nthr : nat }.

Definition with_pc (T : tst) (p : pcT) : tst :=
  {| pc := p; qi := qi T; node := node T; arg := arg T; prev := prev T; hd := hd T; hn := hn T;
     rdv := rdv T; it := it T; cv := cv T; prog := prog T; opi := opi T |}.

(* begin the next operation of the program (the C thread runs on to the first
   access of its next call inside the same grant) *)
Definition next_op (npr : nat) (T : tst) : tst :=
  match prog T with
  | [] => {| pc := Fin; qi := qi T; node := node T; arg := arg T; prev := prev T; hd := hd T; hn := hn T;
             rdv := rdv T; it := it T; cv := cv T; prog := []; opi := opi T |}
  | OPush q n v :: r =>
      {| pc := PData; qi := q mod npr; node := n; arg := v; prev := prev T; hd := hd T; hn := hn T;
         rdv := rdv T; it := it T; cv := cv T; prog := r; opi := S (opi T) |}
  | OPop :: r =>
      {| pc := CRead1; qi := qi T; node := node T; arg := arg T; prev := prev T; hd := hd T; hn := hn T;
         rdv := rdv T; it := 0; cv := cv T; prog := r; opi := S (opi T) |}
  | ORecyc q v :: r =>
      {| pc := PTake; qi := q mod npr; node := node T; arg := v; prev := prev T; hd := hd T; hn := hn T;
         rdv := rdv T; it := it T; cv := cv T; prog := r; opi := S (opi T) |}
  end.

Definition set_thr (s : st) (t : nat) (x : tst) : st :=
  {| counter := counter s; np := np s; heads := heads s; tails := tails s; nxt := nxt s; dat := dat s; freed := freed s;
     thr := upd (thr s) t x; nthr := nthr s |}.

Local Open Scope Z_scope.
Definition ev (t : nat) (loc kind : Z) (v : nat) : list Z := [Z.of_nat t; loc; kind; Z.of_nat v].
Definition ret (t : nat) (T : tst) (v : nat) : list Z := [Z.of_nat t; Z.of_nat (opi T); 909; Z.of_nat v].
Definition dloc (n : nat) : Z := 98 + 2 * Z.of_nat n.
Definition nloc (n : nat) : Z := 99 + 2 * Z.of_nat n.
Definition hloc (q : nat) : Z := 10 + 2 * Z.of_nat q.
Definition tloc (q : nat) : Z := 11 + 2 * Z.of_nat q.
Local Close Scope Z_scope.

Definition step (s : st) (t : nat) : st * list Z :=
  let T := thr s t in
  match pc T with
  | Fin => (s, [])
  | PTake =>
      match freed s with
      | [] => (set_thr s t (next_op (np s) T), ev t 0 99 0 ++ ret t T 0)
      | n :: fr =>
          ({| counter := counter s; np := np s; heads := heads s; tails := tails s;
              nxt := nxt s; dat := dat s; freed := fr;
              thr := upd (thr s) t {| pc := PData; qi := qi T; node := n; arg := arg T; prev := prev T;
                                      hd := hd T; hn := hn T; rdv := rdv T; it := it T; cv := cv T;
                                      prog := prog T; opi := opi T |};
              nthr := nthr s |},
           ev t 0 99 0)
      end
  | PData =>
      ({| counter := counter s; np := np s; heads := heads s; tails := tails s;
          nxt := nxt s; dat := upd (dat s) (node T) (arg T); freed := freed s;
          thr := upd (thr s) t (with_pc T PNull); nthr := nthr s |},
       ev t (dloc (node T)) 19 (arg T))
  | PNull =>
      ({| counter := counter s; np := np s; heads := heads s; tails := tails s;
          nxt := upd (nxt s) (node T) 0; dat := dat s; freed := freed s;
          thr := upd (thr s) t (with_pc T PLoadTail); nthr := nthr s |},
       ev t (nloc (node T)) 33 0)
  | PLoadTail =>
      (set_thr s t {| pc := PStoreTail; qi := qi T; node := node T; arg := arg T; prev := tails s (qi T);
                      hd := hd T; hn := hn T; rdv := rdv T; it := it T; cv := cv T;
                      prog := prog T; opi := opi T |},
       ev t (tloc (qi T)) 22 (tails s (qi T)))
  | PStoreTail =>
      ({| counter := counter s; np := np s; heads := heads s; tails := upd (tails s) (qi T) (node T);
          nxt := nxt s; dat := dat s; freed := freed s;
          thr := upd (thr s) t (with_pc T PLink); nthr := nthr s |},
       ev t (tloc (qi T)) 33 (node T))
  | PLink =>
      ({| counter := counter s; np := np s; heads := heads s; tails := tails s;
          nxt := upd (nxt s) (prev T) (node T); dat := dat s; freed := freed s;
          thr := upd (thr s) t (next_op (np s) T); nthr := nthr s |},
       ev t (nloc (prev T)) 33 (node T) ++ ret t T (node T))
  | CRead1 =>
      (set_thr s t {| pc := CRead2; qi := counter s mod np s; node := node T; arg := arg T; prev := prev T;
                      hd := hd T; hn := hn T; rdv := rdv T; it := it T; cv := cv T;
                      prog := prog T; opi := opi T |},
       ev t 0 9 (counter s))
  | CRead2 =>
      (set_thr s t {| pc := CWrite; qi := qi T; node := node T; arg := arg T; prev := prev T;
                      hd := hd T; hn := hn T; rdv := rdv T; it := it T; cv := counter s;
                      prog := prog T; opi := opi T |},
       ev t 0 9 (counter s))
  | CWrite =>
      ({| counter := S (cv T); np := np s; heads := heads s; tails := tails s; nxt := nxt s; dat := dat s; freed := freed s;
          thr := upd (thr s) t (with_pc T QHead); nthr := nthr s |},
       ev t 0 19 (S (cv T)))
  | QHead =>
      (set_thr s t {| pc := QNext; qi := qi T; node := node T; arg := arg T; prev := prev T;
                      hd := heads s (qi T); hn := hn T; rdv := rdv T; it := it T; cv := cv T;
                      prog := prog T; opi := opi T |},
       ev t (hloc (qi T)) 22 (heads s (qi T)))
  | QNext =>
      let e := ev t (nloc (hd T)) 22 (nxt s (hd T)) in
      match nxt s (hd T) with
      | O => if S (it T) <? np s
             then (set_thr s t {| pc := CRead1; qi := qi T; node := node T; arg := arg T; prev := prev T;
                                  hd := hd T; hn := hn T; rdv := rdv T; it := S (it T); cv := cv T;
                                  prog := prog T; opi := opi T |}, e)
             else (set_thr s t (next_op (np s) T), e ++ ret t T 0)
      | S _ =>
          (set_thr s t {| pc := QSetHead; qi := qi T; node := node T; arg := arg T; prev := prev T;
                          hd := hd T; hn := nxt s (hd T); rdv := rdv T; it := it T; cv := cv T;
                          prog := prog T; opi := opi T |},
           e)
      end
  | QSetHead =>
      ({| counter := counter s; np := np s; heads := upd (heads s) (qi T) (hn T); tails := tails s;
          nxt := nxt s; dat := dat s; freed := freed s;
          thr := upd (thr s) t (with_pc T QRead); nthr := nthr s |},
       ev t (hloc (qi T)) 33 (hn T))
  | QRead =>
      (set_thr s t {| pc := QWrite; qi := qi T; node := node T; arg := arg T; prev := prev T;
                      hd := hd T; hn := hn T; rdv := dat s (hn T); it := it T; cv := cv T;
                      prog := prog T; opi := opi T |},
       ev t (dloc (hn T)) 9 (dat s (hn T)))
  | QWrite =>
      ({| counter := counter s; np := np s; heads := heads s; tails := tails s;
          nxt := nxt s; dat := upd (dat s) (hd T) (rdv T); freed := freed s;
          thr := upd (thr s) t (with_pc T QUse); nthr := nthr s |},
       ev t (dloc (hd T)) 19 (rdv T))
  | QUse =>
      ({| counter := counter s; np := np s; heads := heads s; tails := tails s;
          nxt := nxt s; dat := dat s; freed := hd T :: freed s;
          thr := upd (thr s) t (next_op (np s) T); nthr := nthr s |},
       ev t (dloc (hd T)) 9 (dat s (hd T)) ++ ret t T (hd T))
  end.

Definition status_of (s : st) (t : nat) : status :=
  if t <? nthr s then match pc (thr s t) with Fin => SDone | _ => SReady end else SDone.

Definition idle_thread (npr : nat) (p : list op) : tst :=
  next_op npr {| pc := Fin; qi := 0; node := 0; arg := 0; prev := 0; hd := 0; hn := 0; rdv := 0;
                 it := 0; cv := 0; prog := p; opi := 0 |}.

(* mpscr_fifo_create: counter = 0; queue q has head = tail = zeroed stub q+1 *)
Definition init (npr : nat) (progs : list (list op)) : st :=
  {| counter := 0; np := npr; heads := fun q => S q; tails := fun q => S q;
     nxt := fun _ => 0; dat := fun _ => 0; freed := [];
     thr := fun t => idle_thread npr (nth t progs []); nthr := length progs |}.

Definition M : machine :=
  {| mstate := st; mstep := step; mstatus := status_of; mthreads := nthr |}.

(* ---------- executable entry point for the correspondence run ---------- *)
Definition dec_op (p : Z * Z) : op :=
  match fst p with
  | 1%Z => OPush (Z.to_nat (snd p / 10000000)) (Z.to_nat ((snd p / 1000) mod 10000)) (Z.to_nat (snd p mod 1000))
  | 3%Z => ORecyc (Z.to_nat (snd p / 10000000)) (Z.to_nat (snd p mod 1000))
  | _ => OPop
  end.

Definition run_case (l : list Z) : list Z :=
  match decode_case l with
  | Some c =>
      let dmax := Z.to_nat (nthZ (c_params c) 0) in
      let npr := Z.to_nat (nthZ (c_params c) 1) in
      run_all M (init npr (map (map dec_op) (c_progs c))) [] (c_sched c) dmax
  | None => [(-1)%Z]
  end.
