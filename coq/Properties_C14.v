(* C14 — hazard pointers: nothing is reclaimed while protected; the scan is an
   exact partition; garbage stays bounded; what retire_threshold guarantees.
   Statements over every reachable state of coq/Hazard.v: any K >= 1, any number
   of threads, records created before the run (P) or joining at any time
   (OJoin), any programs, any schedule.
   qsort is external: every theorem is stated for an arbitrary [sort] that
   returns a sorted permutation ([good_sort], premises, not axioms); the
   executable model instantiates it with insertion sort ([isort_good]).
   Guards (DESIGN.md C14): SC interleaving (store_load_barrier is a no-op under
   SC); counters do not overflow size_t; a thread owns at most one record and
   retires only nodes it unlinked itself. *)
From Coq Require Import List ZArith Arith Permutation Sorted.
From LF Require Import Conc Hazard HazardProofs.
Import ListNotations.

(* good_sort sort := (forall l, Permutation l (sort l)) /\ (forall l, Sorted le (sort l))
   (HazardProofs.v, with isort_good : good_sort isort) *)

(* [held (thr s u) i = n <> 0]: thread u wrote n into its slot i
   (hazard_pointer_using), then re-read the source cell and found n again, and
   has not written slot i since ([hp_validated] below: that is the only way
   held becomes non-zero, and at that moment the slot holds n and n is still
   linked, i.e. not yet retired).
   [gc_list sort s t]: the nodes passed to the gc callback, in call order, by
   the step thread t would take in s ([hp_gc_is_gc_list] ties it to the step
   function; only the last access of a scan passes anything).
   hp_safe: such a node is never passed to the callback, by any thread. *)
Theorem hp_safe : forall sort, good_sort sort ->
  forall K P C NN progs s t u i,
  1 <= K -> reachable (M sort) (init K P C NN progs) s ->
  held (thr s u) i <> 0 -> ~ In (held (thr s u) i) (gc_list sort s t).
Proof.
  intros sort [Hp Hs] K P C NN progs s t u i HK R.
  exact (safe_of_inv sort Hp Hs s t u i (reachable_inv sort Hp Hs K P C NN progs s HK R)).
Qed.
Print Assumptions hp_safe.

Theorem hp_validated : forall sort, good_sort sort ->
  forall K P C NN progs s t u i,
  1 <= K -> reachable (M sort) (init K P C NN progs) s ->
  held (thr (fst (step sort s t)) u) i <> 0 -> held (thr s u) i = 0 ->
  u = t /\ pc (thr s t) = P3 /\ i = sl (thr s t) /\
  cell s (cj (thr s t)) = nd (thr s t) /\ slot s (S t) i = nd (thr s t) /\
  held (thr (fst (step sort s t)) u) i = nd (thr s t).
Proof.
  intros sort [Hp Hs] K P C NN progs s t u i HK R.
  exact (held_set_only_by_validation sort s t u i (reachable_inv sort Hp Hs K P C NN progs s HK R)).
Qed.
Print Assumptions hp_validated.

Theorem hp_gc_is_gc_list : forall sort s t,
  (scan_ends s t ->
     pool (fst (step sort s t)) = rev (gc_list sort s t) ++ pool s /\
     rlist (thr (fst (step sort s t)) t) = keep_list sort s t /\
     exists e1 e2, snd (step sort s t) = e1 ++ gc_events t (gc_list sort s t) ++ e2) /\
  (~ scan_ends s t -> gc_list sort s t = []).
Proof. intros sort s t. split; [exact (scan_end_step sort s t) | exact (gc_only_at_scan_end sort s t)]. Qed.
Print Assumptions hp_gc_is_gc_list.

(* a validated node that is used is live: the payload read of [use] never
   hits a node that sits in the free pool *)
Theorem hp_use_live : forall sort, good_sort sort ->
  forall K P C NN progs s t,
  1 <= K -> reachable (M sort) (init K P C NN progs) s ->
  pc (thr s t) = U1 -> in_pool s (held (thr s t) (sl (thr s t))) = false.
Proof.
  intros sort [Hp Hs] K P C NN progs s t HK R.
  exact (use_live_of_inv s t (reachable_inv sort Hp Hs K P C NN progs s HK R)).
Qed.
Print Assumptions hp_use_live.

(* binary_search of hazard_pointer.c (bs_loop mirrors the C loop): on every
   sorted haystack, of any size including 0 and 1, found <-> member, and every
   probed index is inside the haystack *)
Theorem hp_binary_search_correct : forall h x, Sorted le h ->
  (fst (bsearch_tr h x) = true <-> In x h) /\
  Forall (fun m => (0 <= m < Z.of_nat (length h))%Z) (snd (bsearch_tr h x)).
Proof. intros h x Hs. exact (bsearch_tr_correct h x (sorted_nth_sorted h Hs)). Qed.
Print Assumptions hp_binary_search_correct.

(* the partition a scan computes from its snapshot [sn] and the retired list
   [rl]: reclaimed = exactly the retired nodes absent from the snapshot, kept =
   the others; nothing is lost, nothing is duplicated *)
Theorem hp_scan_partition : forall sort, good_sort sort ->
  forall sn rl, NoDup rl ->
  Permutation rl (scan_keep sort sn rl ++ scan_gc sort sn rl) /\
  (forall n, In n (scan_gc sort sn rl) <-> In n rl /\ ~ In n sn) /\
  (forall n, In n (scan_keep sort sn rl) <-> In n rl /\ In n sn) /\
  NoDup (scan_keep sort sn rl) /\ NoDup (scan_gc sort sn rl).
Proof. intros sort [Hp Hs]. exact (scan_partition_gen sort Hp Hs). Qed.
Print Assumptions hp_scan_partition.

(* a node passed to the callback was retired by this thread and by nobody
   else, is in no cell, is not already in the free pool, is passed once, and
   leaves the retired list: no node is reclaimed twice *)
Theorem hp_reclaim_once : forall sort, good_sort sort ->
  forall K P C NN progs s t n,
  1 <= K -> reachable (M sort) (init K P C NN progs) s ->
  In n (gc_list sort s t) ->
  In n (rlist (thr s t)) /\ ~ In n (pool s) /\ (forall u, u <> t -> ~ In n (rlist (thr s u))) /\
  (forall j, cell s j <> n) /\ NoDup (gc_list sort s t) /\ ~ In n (keep_list sort s t).
Proof.
  intros sort [Hp Hs] K P C NN progs s t n HK R.
  exact (reclaim_once_of_inv sort s t n (reachable_inv sort Hp Hs K P C NN progs s HK R)).
Qed.
Print Assumptions hp_reclaim_once.

(* N = nrec s = number of published records now (it only grows).
   (1) outside hazard_pointer_free/scan a record holds at most
       max(retire_threshold-1, N*K) retired nodes, one more inside; always <= 2*N*K;
   (2) after a scan at most Nsnap*K <= N*K remain (Nsnap = records reachable
       from the head the scan read);
   (3) a retired node that is in no slot read by the scan is reclaimed by it;
   (4) hazard_pointer_free scans iff retired_count >= retire_threshold, and
       retire_threshold <= 2*N*K (hp_threshold_ok): an unprotected node is
       reclaimed at the latest by the retire that brings the count to 2*N*K,
       N taken at that retire.  With records joining for ever N is unbounded,
       so no bound independent of N exists. *)
Theorem hp_bounded_garbage : forall sort, good_sort sort ->
  forall K P C NN progs s t,
  1 <= K -> reachable (M sort) (init K P C NN progs) s ->
  (length (rlist (thr s t)) <= max (rthr s (S t) - 1) (nrec s * kslots s) + in_retire (thr s t) /\
   length (rlist (thr s t)) <= 2 * nrec s * kslots s) /\
  (scan_ends s t ->
     length (keep_list sort s t) <= length (from (chead (thr s t)) (recs s)) * kslots s /\
     length (keep_list sort s t) <= nrec s * kslots s) /\
  (forall n, scan_ends s t -> In n (rlist (thr s t)) -> ~ In n (snap (thr s t)) ->
     In n (gc_list sort s t)) /\
  (pc (thr s t) = R1 ->
     (rthr s (S t) <= length (rlist (thr s t)) -> pc (thr (fst (step sort s t)) t) = S1) /\
     (length (rlist (thr s t)) < rthr s (S t) ->
        start_ok (kslots s) (ncell s) (thr (fst (step sort s t)) t) /\
        rlist (thr (fst (step sort s t)) t) = rlist (thr s t))).
Proof.
  intros sort [Hp Hs] K P C NN progs s t HK R.
  pose proof (reachable_inv sort Hp Hs K P C NN progs s HK R) as I.
  split; [exact (bounded_of_inv s t I)|].
  split; [exact (after_scan_of_inv sort Hp Hs s t I)|].
  split; [intros n; exact (unprotected_reclaimed sort Hp Hs s t n I)|exact (retire_triggers sort s t)].
Qed.
Print Assumptions hp_bounded_garbage.

(* what the code guarantees about retire_threshold of a published record r,
   with pos r = number of records from r to the end of the list:
   2*K*pos r <= threshold <= 2*K*N always; the head's threshold is exactly
   2*K*N; every threshold is exactly 2*K*N when no joiner is between its head
   CAS and the end of its bump loop *)
Theorem hp_threshold_ok : forall sort, good_sort sort ->
  forall K P C NN progs s r,
  1 <= K -> reachable (M sort) (init K P C NN progs) s -> In r (recs s) ->
  (2 * length (from r (recs s)) * kslots s <= rthr s r <= 2 * nrec s * kslots s) /\
  (r = head s -> rthr s r = 2 * nrec s * kslots s) /\
  ((forall t, ~ bumping (thr s t)) -> rthr s r = 2 * nrec s * kslots s).
Proof.
  intros sort [Hp Hs] K P C NN progs s r HK R.
  exact (threshold_of_inv s r (reachable_inv sort Hp Hs K P C NN progs s HK R)).
Qed.
Print Assumptions hp_threshold_ok.

(* "R = 2*N*K" (header comment, DESIGN.md C14 "a retire triggers a scan at
   2*N*K") is NOT an invariant while records join: between a joiner's head CAS
   and its fetch_add on record r, r's threshold lags behind (scans earlier
   than intended: safe, only the amortisation argument is affected) *)
Theorem hp_threshold_exact_refuted :
  exists K P C NN progs s r,
    1 <= K /\ reachable (M isort) (init K P C NN progs) s /\ In r (recs s) /\
    rthr s r < 2 * nrec s * kslots s.
Proof.
  exists 1, 1, 1, 2, [[]; [OJoin]].
  exists (fst (run_sched (M isort) (init 1 1 1 2 [[]; [OJoin]]) [1;1;1;1;1;1])), 1.
  split; [auto|]. split; [apply run_sched_reachable; constructor|].
  split; [vm_compute; auto|]. apply Nat.ltb_lt. vm_compute. reflexivity.
Qed.
Print Assumptions hp_threshold_exact_refuted.

(* the snapshot array plist[0..max_pointers) is never overrun, also when
   records register while the scan walks the list: when slot [idx] is about to
   be read (and possibly stored at plist[index]) index < max_pointers *)
Theorem hp_plist_in_bounds : forall sort, good_sort sort ->
  forall K P C NN progs s t,
  1 <= K -> reachable (M sort) (init K P C NN progs) s ->
  (pc (thr s t) = S3 -> length (snap (thr s t)) < maxp (thr s t)) /\
  (pc (thr s t) = S4 -> length (snap (thr s t)) <= maxp (thr s t)).
Proof.
  intros sort [Hp Hs] K P C NN progs s t HK R.
  exact (plist_of_inv s t (reachable_inv sort Hp Hs K P C NN progs s HK R)).
Qed.
Print Assumptions hp_plist_in_bounds.

(* the comparator obligation behind [good_sort]: hazard_pointer_scan needs
   sign (hazard_pointer_compare a b) = order of a, b as unsigned 64-bit values
   ([cmp_total_order]; reflexive/antisymmetric, transitive, total).  Any sort
   driven by such a comparator on the nodes' addresses is a good_sort.  The
   model's comparator cmp64 satisfies it; the C function is tied to cmp64 by
   the differential mode K = -1 of rt/h_hazard.c (boundary and random address
   pairs, also >= 2^31 apart) and end to end by the far-apart node layout. *)
Theorem hp_comparator_obligation :
  cmp_total_order cmp64 /\
  (forall cmp, cmp_total_order cmp ->
     forall a b c, (0 <= a < 2 ^ 64)%Z -> (0 <= b < 2 ^ 64)%Z -> (0 <= c < 2 ^ 64)%Z ->
     (Z.sgn (cmp a b) = 0%Z <-> a = b) /\ Z.sgn (cmp a b) = (- Z.sgn (cmp b a))%Z /\
     ((cmp a b <= 0)%Z -> (cmp b c <= 0)%Z -> (cmp a c <= 0)%Z) /\
     ((cmp a b <= 0)%Z \/ (cmp b a <= 0)%Z)) /\
  (forall cmp, cmp_total_order cmp -> forall addr, (forall x, (0 <= addr x < 2 ^ 64)%Z) ->
     (forall x y, x < y -> (addr x < addr y)%Z) -> good_sort (csort cmp addr)).
Proof. split; [exact cmp64_ok|split; [exact cmp_order_props|exact csort_good]]. Qed.
Print Assumptions hp_comparator_obligation.

(* a comparator that returns the 64-bit difference truncated to int violates it *)
Theorem hp_truncating_compare_refuted : ~ cmp_total_order trunc_cmp.
Proof. exact trunc_cmp_not_ok. Qed.
Print Assumptions hp_truncating_compare_refuted.

(* ---- non-vacuity: the hypotheses are met by concrete reachable states ---- *)
Definition exA := [[OProtect 0 0; OUse 0]; [OSwap 0; OSwap 0; OScan]].
Definition stA sch := fst (run_sched (M isort) (init 1 2 1 4 exA) sch).

(* thread 0 validates node 1; thread 1 unlinks and retires nodes 1 and 2 and
   scans: at the last access of the scan node 2 goes to the callback, node 1
   (protected) is kept *)
Example ex_protected_at_scan_end :
  let s := stA [0;0;0; 1;1;1; 1;1;1; 1;1;1;1;1] in
  reachable (M isort) (init 1 2 1 4 exA) s /\ scan_ends s 1 /\
  held (thr s 0) 0 = 1 /\ rlist (thr s 1) = [2; 1] /\
  gc_list isort s 1 = [2] /\ keep_list isort s 1 = [1] /\ pc (thr s 0) = U1.
Proof. split; [apply run_sched_reachable; constructor | vm_compute; repeat split; auto]. Qed.

(* the validating step itself *)
Example ex_validation_step :
  let s := stA [0;0] in
  reachable (M isort) (init 1 2 1 4 exA) s /\ pc (thr s 0) = P3 /\
  held (thr s 0) 0 = 0 /\ held (thr (fst (step isort s 0)) 0) 0 = 1.
Proof. split; [apply run_sched_reachable; constructor | vm_compute; auto]. Qed.

(* a retire whose count reaches the threshold (K = 1, one record: 2) *)
Example ex_retire_triggers_scan :
  let s := fst (run_sched (M isort) (init 1 1 1 4 [[OSwap 0; OSwap 0]]) [0;0;0;0;0]) in
  reachable (M isort) (init 1 1 1 4 [[OSwap 0; OSwap 0]]) s /\ pc (thr s 0) = R1 /\
  rthr s 1 = 2 /\ length (rlist (thr s 0)) = 2.
Proof. split; [apply run_sched_reachable; constructor | vm_compute; auto]. Qed.

(* a scan in progress next to a record that registered after the scan read
   the head: the scan (thread 0, at S3) does not see record 2 *)
Example ex_scan_with_concurrent_join :
  let s := fst (run_sched (M isort) (init 1 1 1 3 [[OScan]; [OJoin]]) [0;0; 1;1;1;1;1;1]) in
  reachable (M isort) (init 1 1 1 3 [[OScan]; [OJoin]]) s /\ pc (thr s 0) = S3 /\
  recs s = [2; 1] /\ cur (thr s 0) = 1 /\ bumping (thr s 1).
Proof. split; [apply run_sched_reachable; constructor | vm_compute; repeat split; auto]. Qed.

Example ex_binary_search :
  bsearch_tr [1; 3; 5] 3 = (true, [1%Z]) /\ bsearch_tr [1; 3; 5] 4 = (false, [1%Z; 2%Z]) /\
  bsearch_tr [] 4 = (false, []) /\ bsearch_tr [4] 4 = (true, [0%Z]).
Proof. vm_compute. auto. Qed.
