(* C10 / C02 (scheduler half) for N >= 1 kernel threads, every interleaving:
   conservation (sched_conservation) and the per-thread bypass bound under work
   stealing (yield_bounded_bypass_nthreads), over the model coq/Sched.v, in which
   a deque operation is one atomic step (the deque internals are C02_deque's job).

   Thread t owns the deques 2t+1 and 2t+2:
     FqN s t = dq s (sfrom s t)           the batch t drains (head = next pop_bottom;
                                          thieves steal at the other end)
     SqN s t = dq s (4t+3 - sfrom s t)    the batch t fills
   Who changes t's deques: t itself (schedule / SAVING re-queue push on SqN,
   load_balance pushes stolen fibers on FqN, next pops FqN), and the other
   threads' load_balance, which only removes the LAST element of one of them
   (others_only_steal).

   Differences to the one-thread invariant (SchedProofs.v): fiber states are
   plain shared variables, so a thread's knowledge about "its" fibers must be
   stable under the writes of the other threads.  The only write another thread
   can do to a fiber that this thread holds is a (possibly late) flip, which
   writes WAITING(3) to an existing fiber; so e.g. a current fiber has state
   RUNNING or WAITING at any time.  Programs: thread t only spawns fiber ids
   that it owns (own f = t), as fiber_create hands out fresh fibers. *)
From Coq Require Import List ZArith Lia Bool Arith.
From LF Require Import Conc Sched SchedProofs.
Import ListNotations.

(* ---------------- sums over 0..n-1 ---------------- *)
Fixpoint sumn (f : nat -> nat) (n : nat) : nat :=
  match n with O => 0 | S k => sumn f k + f k end.

Lemma sumn_ext f g n : (forall i, i < n -> f i = g i) -> sumn f n = sumn g n.
Proof. induction n; intros H; cbn; auto. rewrite IHn, H; auto. Qed.

Lemma sumn_upd_out (f : nat -> nat) n t v : n <= t -> sumn (upd f t v) n = sumn f n.
Proof. intros H. apply sumn_ext. intros i Hi. apply upd_other. lia. Qed.

Lemma sumn_upd (f : nat -> nat) n t v : t < n -> sumn (upd f t v) n + f t = sumn f n + v.
Proof.
  induction n; intros H; [lia|]. cbn [sumn].
  destruct (Nat.eq_dec t n) as [->|Hne].
  - rewrite sumn_upd_out by lia. rewrite upd_same. lia.
  - rewrite upd_other by lia. assert (t < n) by lia. specialize (IHn H0). lia.
Qed.

Lemma sumn_term (f : nat -> nat) n t : t < n -> f t <= sumn f n.
Proof.
  induction n; intros H; [lia|]. cbn [sumn].
  destruct (Nat.eq_dec t n) as [->|Hne]; [lia|]. assert (t < n) by lia. specialize (IHn H0). lia.
Qed.

Lemma sumn_two (f : nat -> nat) n a b : a < n -> b < n -> a <> b -> f a + f b <= sumn f n.
Proof.
  induction n; intros Ha Hb Hab; [lia|]. cbn [sumn].
  destruct (Nat.eq_dec a n) as [->|Hna]; [pose proof (sumn_term f n b); lia|].
  destruct (Nat.eq_dec b n) as [->|Hnb]; [pose proof (sumn_term f n a); lia|].
  assert (f a + f b <= sumn f n) by (apply IHn; lia). lia.
Qed.

(* ---------------- counts over all threads / all deques ---------------- *)
(* occurrences of g among the fibers held by the threads 0..n-1 *)
Definition Hcn (th : nat -> tst) (n : nat) (g : nat) : nat := sumn (fun t => cnt (held (th t)) g) n.
(* occurrences of g in the deques 1..2n *)
Definition Qcn (dqs : nat -> list nat) (n : nat) (g : nat) : nat := sumn (fun i => cnt (dqs (S i)) g) (2 * n).

Lemma Hcn_upd th n t T' g : t < n ->
  Hcn (upd th t T') n g + cnt (held (th t)) g = Hcn th n g + cnt (held T') g.
Proof.
  intros H. unfold Hcn.
  pose proof (sumn_upd (fun t => cnt (held (th t)) g) n t (cnt (held T') g) H) as E. cbn beta in E.
  rewrite <- E. f_equal. apply sumn_ext. intros i Hi. unfold upd. destruct (Nat.eqb i t); reflexivity.
Qed.

Lemma Hcn_term th n t g : t < n -> cnt (held (th t)) g <= Hcn th n g.
Proof. intros H. unfold Hcn. apply (sumn_term (fun t => cnt (held (th t)) g) n t H). Qed.

Lemma Hcn_two th n t u g : t < n -> u < n -> t <> u ->
  cnt (held (th t)) g + cnt (held (th u)) g <= Hcn th n g.
Proof. intros. unfold Hcn. apply (sumn_two (fun t => cnt (held (th t)) g) n t u); auto. Qed.

Lemma Qcn_upd dqs n d l g : 1 <= d <= 2 * n ->
  Qcn (upd dqs d l) n g + cnt (dqs d) g = Qcn dqs n g + cnt l g.
Proof.
  intros H. unfold Qcn. destruct d as [|i]; [lia|].
  pose proof (sumn_upd (fun i => cnt (dqs (S i)) g) (2 * n) i (cnt l g)) as E. cbn beta in E.
  rewrite <- E by lia. f_equal. apply sumn_ext. intros j Hj. unfold upd. cbn [Nat.eqb].
  destruct (Nat.eqb j i); reflexivity.
Qed.

Lemma Qcn_term dqs n d g : 1 <= d <= 2 * n -> cnt (dqs d) g <= Qcn dqs n g.
Proof.
  intros H. unfold Qcn. destruct d as [|i]; [lia|].
  apply (sumn_term (fun i => cnt (dqs (S i)) g) (2 * n) i). lia.
Qed.

Lemma Qcn_two dqs n d e g : 1 <= d <= 2 * n -> 1 <= e <= 2 * n -> d <> e ->
  cnt (dqs d) g + cnt (dqs e) g <= Qcn dqs n g.
Proof.
  intros Hd He Hde. unfold Qcn. destruct d as [|i]; [lia|]. destruct e as [|j]; [lia|].
  apply (sumn_two (fun i => cnt (dqs (S i)) g) (2 * n) i j); lia.
Qed.

(* ---------------- the invariant ---------------- *)
Definition FqN (s : st) (t : nat) : list nat := dq s (sfrom s t).
Definition SqN (s : st) (t : nat) : list nat := dq s (4 * t + 3 - sfrom s t).

(* a current fiber: RUNNING, or WAITING (it blocked, or a late flip hit it) *)
Definition runN (s : st) (c : nat) : Prop := c = 0 \/ fstt s c = 1%Z \/ fstt s c = 3%Z.

Definition kokN (s : st) (c : nat) (k : kont) : Prop :=
  match k with
  | KYield stv => c <> 0 /\ (stv = 1 \/ stv = 3)%Z /\ (stv = 3%Z -> fstt s c = 3%Z) /\
                  (fstt s c = 1 \/ fstt s c = 3)%Z
  | KIdle => c = 0
  | _ => False
  end.

Definition klb (s : st) (c : nat) (k : kont) : Prop :=
  (k = KIdleLB /\ c = 0) \/ (k = KBalLB /\ runN s c).

(* what thread t knows at its pc; every clause is stable under the steps of the
   other threads (lok_stable) *)
Definition lokN (N : nat) (own : nat -> nat) (s : st) (t : nat) (T : tst) : Prop :=
  let c := cur T in
  match pc T with
  | PSpawnR f => runN s c /\ 1 <= f <= N /\ own f = t
  | PSpawnW f => runN s c /\ 1 <= f <= N /\ own f = t /\ fstt s f = 0%Z
  | PSched f k =>
      (2 <= fstt s f)%Z /\
      match k with
      | KSpawn _ | KWake _ => runN s c
      | KRequeue nf => c = f /\ c <> 0 /\ (fstt s nf = 1 \/ fstt s nf = 3)%Z
      | _ => False
      end
  | PBlockW | PYRead => c <> 0 /\ (fstt s c = 1 \/ fstt s c = 3)%Z
  | PN1 k | PN6 k | PN7 k => kokN s c k
  | PN2 k => kokN s c k /\ FqN s t = []
  | PN3 k tmp => kokN s c k /\ FqN s t = [] /\ tmp = sfrom s t
  | PN4 k tmp sv => kokN s c k /\ FqN s t = [] /\ tmp = sfrom s t /\ sv = 4 * t + 3 - sfrom s t
  | PN5 k tmp => kokN s c k /\ sto s t = sfrom s t /\ tmp = 4 * t + 3 - sfrom s t
  | PN8 k x | PN9 k x => kokN s c k /\ (2 <= fstt s x)%Z
  | PY2 nf | PY3 nf => c <> 0 /\ (fstt s c = 1 \/ fstt s c = 3)%Z /\ hok s nf
  | PY4 nf ts => c <> 0 /\ hok s nf /\
                 ((ts = 0 /\ fstt s c = 3%Z) \/ (ts = c /\ (fstt s c = 2 \/ fstt s c = 3)%Z))
  | PL1 k => klb s c k
  | PL2 k i _ _ _ x => klb s c k /\ (2 <= fstt s x)%Z /\ 2 * (t + 1) <= i
  | PI1 nf => c = 0 /\ hok s nf
  | PW1 _ | PP1 _ | PF1 _ => runN s c
  | PW2 f | PP2 f => runN s c /\ fstt s f = 3%Z
  | PF2 f => runN s c /\ (1 <= fstt s f)%Z
  | Fin => runN s c
  end.

(* thread t spawns only ids <= N that it owns *)
Definition prog_okN (N : nat) (own : nat -> nat) (t : nat) (p : list op) : Prop :=
  forall f, In (OSpawn f) p -> f <= N /\ own f = t.

(* per fiber, over all threads (H = held somewhere, Q = in some deque) *)
Record fibg (N : nat) (s : st) (f : nat) : Prop := {
  n_once : Hcn (thr s) (nthr s) f + Qcn (dq s) (nthr s) f <= 1;
  n_queued : 1 <= Qcn (dq s) (nthr s) f -> (2 <= fstt s f)%Z;
  n_placed : (1 <= fstt s f)%Z -> wqz s f = 0%Z -> 1 <= Hcn (thr s) (nthr s) f + Qcn (dq s) (nthr s) f;
  n_wq : wqz s f = 1%Z -> fstt s f = 3%Z /\ Hcn (thr s) (nthr s) f + Qcn (dq s) (nthr s) f = 0;
  n_wb : (0 <= wqz s f <= 1)%Z;
  n_state : (0 <= fstt s f <= 5 /\ fstt s f <> 4)%Z;
  n_range : fstt s f <> 0%Z -> 1 <= f <= N
}.

Record InvN (N : nat) (own : nat -> nat) (s : st) : Prop := {
  m_ts : to_store s = true;
  m_from : forall t, t < nthr s -> sfrom s t = 2 * t + 1 \/ sfrom s t = 2 * t + 2;
  m_to : forall t, t < nthr s -> (forall k tmp, pc (thr s t) <> PN5 k tmp) -> sto s t = 4 * t + 3 - sfrom s t;
  m_fib : forall f, fibg N s f;
  m_prog : forall t, t < nthr s -> prog_okN N own t (prog (thr s t));
  m_loc : forall t, t < nthr s -> lokN N own s t (thr s t)
}.

(* ---------------- stability of a thread's local knowledge ---------------- *)
(* fs' differs from fs, as far as thread state T can tell, only by flips *)
Definition keeps (fs fs' : nat -> Z) (T : tst) : Prop :=
  (forall y, In y (held T) -> fs' y = fs y \/ (fs' y = 3%Z /\ (1 <= fs y)%Z)) /\
  (forall f, pc T = PSpawnW f -> fs' f = fs f) /\
  (forall f, pc T = PF2 f -> (1 <= fs' f)%Z).

Lemma lok_stable N own s s' t T :
  keeps (fstt s) (fstt s') T ->
  sfrom s' t = sfrom s t -> sto s' t = sto s t ->
  (dq s (sfrom s t) = [] -> dq s' (sfrom s t) = []) ->
  lokN N own s t T -> lokN N own s' t T.
Proof.
  intros (Kh & Ks & Kf) Ef Et Eq L.
  unfold lokN, kokN, klb, runN, hok, FqN in *. rewrite ?Ef, ?Et.
  assert (Kc : cur T <> 0 -> In (cur T) (held T)).
  { intros Hc. unfold held. destruct (cur T) eqn:Ec; [congruence|].
    destruct (pc T); try destruct k; cbn [opt In]; auto. }
  assert (Kc' : cur T = 0 \/ fstt s' (cur T) = fstt s (cur T) \/ (fstt s' (cur T) = 3%Z /\ (1 <= fstt s (cur T))%Z)).
  { destruct (Nat.eq_dec (cur T) 0); auto. }
  clear Kc. unfold held in Kh.
  destruct (pc T) eqn:Hpc;
    try (specialize (Ks _ eq_refl)); try (specialize (Kf _ eq_refl));
    try (destruct k; try contradiction); cbn [In] in Kh;
    repeat match goal with
    | H : forall y, ?a = y \/ _ -> _ |- _ => pose proof (H a (or_introl eq_refl)); clear H
    end;
    try (intuition (try subst; try lia; try congruence); fail).
Qed.

(* every fiber a thread holds exists *)
Lemma held_existsN N own s t T f : lokN N own s t T -> In f (held T) -> (1 <= fstt s f)%Z.
Proof.
  intros L Hin. unfold lokN, held, kokN, klb, runN, hok in *.
  destruct (pc T); try (destruct k; try (exfalso; tauto));
    destruct (cur T) eqn:Ec; cbn [opt In] in Hin;
    intuition (try subst; try lia; try congruence).
Qed.

(* ---------------- the next call of the program ---------------- *)
Lemma start_specN N own s t : forall p c k, prog_okN N own t p -> runN s c ->
  let T' := snd (start t c p k) in
  cur T' = c /\ prog_okN N own t (prog T') /\ lokN N own s t T' /\ held T' = opt c /\ startpc (pc T').
Proof.
  induction p as [|o r IH]; intros c k Hp Hr; cbn [start].
  - cbn. split; [reflexivity|]. split; [intros f []|]. repeat split; auto.
  - assert (Hr' : prog_okN N own t r) by (intros f Hf; apply Hp; right; exact Hf).
    assert (Hrec : forall (e0 : list Z),
               let T' := snd (let '(e, T) := start t c r (S k) in (e0 ++ e, T)) in
               cur T' = c /\ prog_okN N own t (prog T') /\ lokN N own s t T' /\ held T' = opt c /\ startpc (pc T')).
    { intros e0. specialize (IH c (S k) Hr' Hr). destruct (start t c r (S k)) as [e T]. exact IH. }
    assert (Hpl : forall pc0, startpc pc0 -> held {| pc := pc0; cur := c; prog := r; opi := k |} = opt c).
    { intros pc0 H0. unfold held; cbn. destruct pc0; try reflexivity; destruct H0. }
    assert (Hgo : forall pc0, startpc pc0 -> lokN N own s t {| pc := pc0; cur := c; prog := r; opi := k |} ->
               let T' := {| pc := pc0; cur := c; prog := r; opi := k |} in
               cur T' = c /\ prog_okN N own t (prog T') /\ lokN N own s t T' /\ held T' = opt c /\ startpc (pc T')).
    { intros pc0 H0 H1. split; [reflexivity|]. split; [exact Hr'|]. split; [exact H1|]. split; [apply Hpl|]; exact H0. }
    assert (Hc13 : c <> 0 -> (fstt s c = 1 \/ fstt s c = 3)%Z) by (unfold runN in Hr; tauto).
    destruct o; cbn [snd].
    + unfold bad_id. destruct (Nat.eqb_spec f 0) as [E|E]; [apply Hrec|].
      destruct (Nat.ltb NF f); [apply Hrec|]. cbn [orb snd]. apply Hgo; [exact I|].
      unfold lokN; cbn. destruct (Hp f (or_introl eq_refl)). split; auto. split; [lia|auto].
    + destruct (Nat.eqb_spec c 0) as [E|E]; [apply Hrec|]. apply Hgo; [exact I|]. unfold lokN; cbn. auto.
    + destruct (Nat.eqb_spec c 0) as [E|E]; [apply Hrec|]. apply Hgo; [exact I|]. unfold lokN; cbn. auto.
    + destruct (Nat.eqb_spec c 0) as [E|E]; [|apply Hrec]. apply Hgo; [exact I|]. unfold lokN, klb; cbn. auto.
    + destruct (bad_id f); [apply Hrec|]. apply Hgo; [exact I|]. unfold lokN; cbn. auto.
    + apply Hgo; [exact I|]. unfold lokN, klb; cbn. auto.
    + destruct (bad_id f); [apply Hrec|]. apply Hgo; [exact I|]. unfold lokN; cbn. auto.
    + destruct (bad_id f); [apply Hrec|]. apply Hgo; [exact I|]. unfold lokN; cbn. auto.
Qed.

Lemma finish_specN N own s t T c v : prog_okN N own t (prog T) -> runN s c ->
  let T' := snd (finish t T c v) in
  cur T' = c /\ prog_okN N own t (prog T') /\ lokN N own s t T' /\ held T' = opt c /\ startpc (pc T').
Proof.
  intros Hp Hr. unfold finish.
  pose proof (start_specN N own s t (prog T) c (S (opi T)) Hp Hr) as H.
  destruct (start t c (prog T) (S (opi T))) as [e T']. exact H.
Qed.


(* ---------------- what a write of thread t means for the others ---------------- *)
Lemma keeps_same N own s u T : lokN N own s u T -> keeps (fstt s) (fstt s) T.
Proof.
  intros L. split; [auto|]. split; [auto|]. intros f Hf. unfold lokN in L. rewrite Hf in L. tauto.
Qed.

(* t writes v >= 1 to a fiber z that it holds *)
Lemma keeps_held N own s t u z v : InvN N own s -> t < nthr s -> u < nthr s -> u <> t ->
  In z (held (thr s t)) -> (1 <= v)%Z -> keeps (fstt s) (upd (fstt s) z v) (thr s u).
Proof.
  intros I0 Ht Hu Hne Hz Hv. pose proof (m_loc N own s I0 u Hu) as Lu.
  pose proof (held_existsN N own s t _ z (m_loc N own s I0 t Ht) Hz) as Hz1.
  split; [|split].
  - intros y Hy. destruct (Nat.eq_dec y z) as [->|E]; [|left; apply upd_other; auto].
    exfalso. apply cnt_In in Hz. apply cnt_In in Hy.
    pose proof (Hcn_two (thr s) (nthr s) t u z Ht Hu (not_eq_sym Hne)).
    pose proof (n_once N s z (m_fib N own s I0 z)). lia.
  - intros f Hf. unfold lokN in Lu. rewrite Hf in Lu.
    destruct (Nat.eq_dec f z) as [->|E]; [lia|apply upd_other; auto].
  - intros f Hf. unfold lokN in Lu. rewrite Hf in Lu. unfold upd. destruct (Nat.eqb f z); lia.
Qed.

(* t, at PSpawnW z, writes to the fresh fiber z that it owns *)
Lemma keeps_spawn N own s t u z v : InvN N own s -> t < nthr s -> u < nthr s -> u <> t ->
  pc (thr s t) = PSpawnW z -> (1 <= v)%Z -> keeps (fstt s) (upd (fstt s) z v) (thr s u).
Proof.
  intros I0 Ht Hu Hne Hz Hv. pose proof (m_loc N own s I0 u Hu) as Lu.
  pose proof (m_loc N own s I0 t Ht) as Lt. unfold lokN in Lt. rewrite Hz in Lt.
  destruct Lt as (_ & _ & Hown & H0).
  split; [|split].
  - intros y Hy. destruct (Nat.eq_dec y z) as [->|E]; [|left; apply upd_other; auto].
    pose proof (held_existsN N own s u _ z Lu Hy). lia.
  - intros f Hf. unfold lokN in Lu. rewrite Hf in Lu.
    destruct (Nat.eq_dec f z) as [->|E]; [exfalso; lia|apply upd_other; auto].
  - intros f Hf. unfold lokN in Lu. rewrite Hf in Lu. unfold upd. destruct (Nat.eqb f z); lia.
Qed.

(* a flip: WAITING is written to an existing fiber *)
Lemma keeps_flip N own s u z : InvN N own s -> u < nthr s ->
  (1 <= fstt s z)%Z -> keeps (fstt s) (upd (fstt s) z 3%Z) (thr s u).
Proof.
  intros I0 Hu Hz. pose proof (m_loc N own s I0 u Hu) as Lu.
  split; [|split].
  - intros y Hy. destruct (Nat.eq_dec y z) as [->|E]; [right; rewrite upd_same; auto|left; apply upd_other; auto].
  - intros f Hf. unfold lokN in Lu. rewrite Hf in Lu.
    destruct (Nat.eq_dec f z) as [->|E]; [exfalso; lia|apply upd_other; auto].
  - intros f Hf. unfold lokN in Lu. rewrite Hf in Lu. unfold upd. destruct (Nat.eqb f z); lia.
Qed.

(* the deques of thread u are not those of thread t *)
Lemma dq_other N own s t u : InvN N own s -> t < nthr s -> u < nthr s -> u <> t ->
  sfrom s u <> 2 * t + 1 /\ sfrom s u <> 2 * t + 2 /\ 1 <= sfrom s u <= 2 * nthr s.
Proof. intros I0 Ht Hu Hne. destruct (m_from N own s I0 u Hu); lia. Qed.

(* rebuilding the invariant after a step of thread t *)
Lemma invN_mk N own s t s' T' :
  InvN N own s -> t < nthr s ->
  nthr s' = nthr s -> to_store s' = true -> thr s' = upd (thr s) t T' ->
  (forall u, u <> t -> u < nthr s ->
     sfrom s' u = sfrom s u /\ sto s' u = sto s u /\
     (dq s (sfrom s u) = [] -> dq s' (sfrom s u) = []) /\
     keeps (fstt s) (fstt s') (thr s u)) ->
  (sfrom s' t = 2 * t + 1 \/ sfrom s' t = 2 * t + 2) ->
  ((forall k tmp, pc T' <> PN5 k tmp) -> sto s' t = 4 * t + 3 - sfrom s' t) ->
  (forall f, fibg N s' f) -> prog_okN N own t (prog T') -> lokN N own s' t T' ->
  InvN N own s'.
Proof.
  intros I0 Ht En Ets Eth Hoth Hfr Hto Hfib Hp Hl.
  constructor; auto; rewrite En, Eth; intros u Hu.
  - destruct (Nat.eq_dec u t) as [->|E]; [auto|]. destruct (Hoth u E Hu) as (A & _). rewrite A. apply (m_from N own s I0 u Hu).
  - destruct (Nat.eq_dec u t) as [->|E]; [rewrite upd_same; auto|]. rewrite upd_other by auto.
    destruct (Hoth u E Hu) as (A & B & _). rewrite A, B. apply (m_to N own s I0 u Hu).
  - destruct (Nat.eq_dec u t) as [->|E]; [rewrite upd_same; auto|]. rewrite upd_other by auto.
    apply (m_prog N own s I0 u Hu).
  - destruct (Nat.eq_dec u t) as [->|E]; [rewrite upd_same; auto|]. rewrite upd_other by auto.
    destruct (Hoth u E Hu) as (A & B & C & D).
    apply (lok_stable N own s s' u _ D A B C). apply (m_loc N own s I0 u Hu).
Qed.
